#!/bin/sh
# Offline build of the framework from files on disk: translator, Coq development
# (full .vo build), Go harness.  Run once after a fresh restore; ./check re-runs
# the incremental parts on every call.
set -e
cd "$(dirname "$0")"
export GOFLAGS=-mod=mod GOPROXY=off GOSUMDB=off GOTOOLCHAIN=local
mkdir -p .cache coq/Gen evidence replays
(cd extractor && go build -o ../.cache/extractor .)
./.cache/extractor -repo "${VERIF_REPO:-/repo}" -out coq/Gen
(cd coq && coq_makefile -f _CoqProject -o Makefile >/dev/null && timeout 3000 make -k -j"$(nproc)" >/dev/null 2>.make.err || { tail -30 .make.err; echo "coq build had errors (checks will report them per property)"; })
cp "${VERIF_REPO:-/repo}/go.sum" harness/go.sum
(cd harness && go build -tags verif -o ../.cache/harness . ) || echo "harness build failed (checks will report it)"
echo setup done
