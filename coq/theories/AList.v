(* AList.v — association lists with first-match lookup, used as finite maps.
   Definitions are executable; lemmas avoid any NoDup side condition where possible. *)
From OSS Require Import theories.Base.

Section AList.
  Context {K V : Type} (eqb : K -> K -> bool).
  Hypothesis eqb_spec : forall a b, eqb a b = true <-> a = b.

  Fixpoint alookup (k : K) (l : list (K * V)) : option V :=
    match l with
    | [] => None
    | (k', v) :: r => if eqb k k' then Some v else alookup k r
    end.
  Definition aupdate (k : K) (v : V) (l : list (K * V)) : list (K * V) :=
    map (fun kv => if eqb k (fst kv) then (fst kv, v) else kv) l.
  Definition aremove (k : K) (l : list (K * V)) : list (K * V) :=
    filter (fun kv => negb (eqb k (fst kv))) l.
  (* set: update in place when present, else append at the end *)
  Definition aset (k : K) (v : V) (l : list (K * V)) : list (K * V) :=
    match alookup k l with Some _ => aupdate k v l | None => l ++ [(k, v)] end.
  Definition akeys (l : list (K * V)) : list K := map fst l.

  Lemma eqb_refl k : eqb k k = true.
  Proof. apply eqb_spec. reflexivity. Qed.
  Lemma eqb_neq a b : a <> b -> eqb a b = false.
  Proof. intros H. destruct (eqb a b) eqn:E; [|reflexivity]. apply eqb_spec in E. contradiction. Qed.
  Lemma eqb_sym a b : eqb a b = eqb b a.
  Proof.
    destruct (eqb a b) eqn:E.
    - apply eqb_spec in E. subst. symmetry. apply eqb_refl.
    - destruct (eqb b a) eqn:E2; [|reflexivity]. apply eqb_spec in E2. subst. rewrite eqb_refl in E. discriminate.
  Qed.

  Lemma alookup_app k l1 l2 :
    alookup k (l1 ++ l2) = match alookup k l1 with Some v => Some v | None => alookup k l2 end.
  Proof. induction l1 as [|[k' v] r IH]; cbn; [reflexivity|]. destruct (eqb k k'); [reflexivity|exact IH]. Qed.

  Lemma alookup_update_same k v l : alookup k (aupdate k v l) = match alookup k l with Some _ => Some v | None => None end.
  Proof.
    induction l as [|[k' v'] r IH]; cbn; [reflexivity|].
    destruct (eqb k k') eqn:E; cbn; rewrite E; [reflexivity|exact IH].
  Qed.
  Lemma alookup_update_other k k' v l : k <> k' -> alookup k' (aupdate k v l) = alookup k' l.
  Proof.
    intros H. induction l as [|[k2 v2] r IH]; cbn; [reflexivity|].
    destruct (eqb k k2) eqn:E; cbn.
    - apply eqb_spec in E. subst k2. rewrite (eqb_neq k' k) by congruence. exact IH.
    - destruct (eqb k' k2); [reflexivity|exact IH].
  Qed.
  Lemma alookup_remove_same k l : alookup k (aremove k l) = None.
  Proof.
    induction l as [|[k' v'] r IH]; cbn; [reflexivity|].
    destruct (eqb k k') eqn:E; cbn; [exact IH|]. rewrite E. exact IH.
  Qed.
  Lemma alookup_remove_other k k' l : k <> k' -> alookup k' (aremove k l) = alookup k' l.
  Proof.
    intros H. induction l as [|[k2 v2] r IH]; cbn; [reflexivity|].
    destruct (eqb k k2) eqn:E; cbn.
    - apply eqb_spec in E. subst k2. rewrite (eqb_neq k' k) by congruence. exact IH.
    - destruct (eqb k' k2); [reflexivity|exact IH].
  Qed.
  Lemma alookup_set_same k v l : alookup k (aset k v l) = Some v.
  Proof.
    unfold aset. destruct (alookup k l) eqn:E.
    - rewrite alookup_update_same, E. reflexivity.
    - rewrite alookup_app, E. cbn. rewrite eqb_refl. reflexivity.
  Qed.
  Lemma alookup_set_other k k' v l : k <> k' -> alookup k' (aset k v l) = alookup k' l.
  Proof.
    intros H. unfold aset. destruct (alookup k l) eqn:E.
    - apply alookup_update_other. exact H.
    - rewrite alookup_app. destruct (alookup k' l); [reflexivity|]. cbn.
      rewrite (eqb_neq k' k) by congruence. reflexivity.
  Qed.

  Lemma alookup_In k v l : alookup k l = Some v -> In (k, v) l.
  Proof.
    induction l as [|[k' v'] r IH]; cbn; [discriminate|].
    destruct (eqb k k') eqn:E.
    - apply eqb_spec in E. subst. intros H. inversion H. left. reflexivity.
    - intros H. right. apply IH. exact H.
  Qed.
  Lemma alookup_None_notin k l : alookup k l = None -> ~ In k (akeys l).
  Proof.
    induction l as [|[k' v'] r IH]; cbn; [tauto|].
    destruct (eqb k k') eqn:E; [discriminate|]. intros H [H1|H1].
    - subst. rewrite eqb_refl in E. discriminate.
    - exact (IH H H1).
  Qed.
  Lemma notin_alookup_None k l : ~ In k (akeys l) -> alookup k l = None.
  Proof.
    induction l as [|[k' v'] r IH]; cbn; [reflexivity|]. intros H.
    destruct (eqb k k') eqn:E.
    - apply eqb_spec in E. subst. exfalso. apply H. left. reflexivity.
    - apply IH. tauto.
  Qed.

  Lemma akeys_update k v l : akeys (aupdate k v l) = akeys l.
  Proof. unfold akeys, aupdate. rewrite map_map. apply map_ext. intros [k' v']. cbn. destruct (eqb k k'); reflexivity. Qed.
  Lemma NoDup_remove k l : NoDup (akeys l) -> NoDup (akeys (aremove k l)).
  Proof.
    induction l as [|[k' v'] r IH]; cbn; [trivial|]. intros H. inversion H as [|? ? Hn Hr]; subst.
    destruct (eqb k k'); cbn; [apply IH; exact Hr|]. constructor; [|apply IH; exact Hr].
    intros Hin. apply Hn. unfold akeys, aremove in *. apply in_map_iff in Hin as [[k2 v2] [E Hin]].
    apply filter_In in Hin as [Hin _]. cbn in E. subst. apply in_map_iff. exists (k', v2). split; [reflexivity|exact Hin].
  Qed.
  Lemma NoDup_set k v l : NoDup (akeys l) -> NoDup (akeys (aset k v l)).
  Proof.
    intros H. unfold aset. destruct (alookup k l) eqn:E.
    - rewrite akeys_update. exact H.
    - unfold akeys. rewrite map_app. cbn.
      apply (NoDup_Add (a:=k) (l:=map fst l)).
      + pose proof (Add_app k (map fst l) []) as A. rewrite app_nil_r in A. exact A.
      + split; [exact H|]. apply alookup_None_notin. exact E.
  Qed.
End AList.
