(* SocksProofs.v — address parsing never panics, consumes exactly the address, and
   round-trips (C02, C03, C18). *)
From OSS Require Import theories.Base theories.IPClass theories.Socks.
Open Scope N_scope.

Lemma split_addr_app b a rest : split_addr b = Some (a, rest) -> b = a ++ rest /\ addr_len b = Some (length a).
Proof.
  unfold split_addr. destruct (addr_len b) as [n|] eqn:L; [|discriminate].
  destruct (Nat.ltb_spec (length b) n); [discriminate|]. intros E. inversion E; subst.
  split; [symmetry; apply firstn_skipn|]. rewrite firstn_length_le by assumption. reflexivity.
Qed.

(* ReadAddr and SplitAddr agree on complete input, whatever follows the address *)
Lemma read_addr_split s a rest : read_addr s = RAddr a rest -> split_addr s = Some (a, rest).
Proof.
  unfold read_addr, split_addr. destruct s as [|t r]; [discriminate|].
  destruct ((t =? atyp_dom) || (t =? atyp_v4) || (t =? atyp_v6)); [|discriminate].
  destruct (addr_len (t :: r)) as [n|]; [|discriminate].
  destruct (length (t :: r) <? n)%nat; [discriminate|]. intros E. inversion E. reflexivity.
Qed.

Lemma be_bytes_length n v : length (be_bytes n v) = n.
Proof. unfold be_bytes. rewrite map_length, seq_length. reflexivity. Qed.

(* the length an encoded address announces is its own length, for every host form *)
Lemma addr_len_encode a tail :
  (match sa_host a with HostDomain d => (length d < 256)%nat | _ => True end) ->
  atyp_v4 <> atyp_dom -> atyp_v6 <> atyp_dom -> atyp_v6 <> atyp_v4 ->
  addr_len (encode_addr a ++ tail) = Some (length (encode_addr a)).
Proof.
  intros Hd N1 N2 N3. unfold encode_addr. destruct (sa_host a) as [x|x|d]; cbn [app addr_len].
  - rewrite (proj2 (N.eqb_neq _ _) N1), N.eqb_refl. reflexivity.
  - rewrite (proj2 (N.eqb_neq _ _) N2), (proj2 (N.eqb_neq _ _) N3), N.eqb_refl. reflexivity.
  - rewrite N.eqb_refl. cbn [length]. rewrite app_length, (be_bytes_length 2 (sa_port a)), Nat2N.id. f_equal; lia.
Qed.

(* address then payload: parsing an encoded address followed by any payload (coalesced data)
   returns exactly the address bytes and leaves exactly the payload *)
Lemma split_encode_lemma a payload :
  (match sa_host a with HostDomain d => (length d < 256)%nat | _ => True end) ->
  atyp_v4 <> atyp_dom -> atyp_v6 <> atyp_dom -> atyp_v6 <> atyp_v4 ->
  split_addr (encode_addr a ++ payload) = Some (encode_addr a, payload) /\
  read_addr (encode_addr a ++ payload) = RAddr (encode_addr a) payload.
Proof.
  intros Hd N1 N2 N3. pose proof (addr_len_encode a payload Hd N1 N2 N3) as L.
  assert (F : firstn (length (encode_addr a)) (encode_addr a ++ payload) = encode_addr a).
  { rewrite firstn_app, firstn_all, Nat.sub_diag. cbn [firstn]. apply app_nil_r. }
  assert (S : skipn (length (encode_addr a)) (encode_addr a ++ payload) = payload).
  { rewrite skipn_app, skipn_all, Nat.sub_diag. reflexivity. }
  assert (B : (length (encode_addr a ++ payload) <? length (encode_addr a))%nat = false).
  { apply Nat.ltb_ge. rewrite app_length. lia. }
  split.
  - unfold split_addr. rewrite L, B, F, S. reflexivity.
  - unfold read_addr. destruct (encode_addr a ++ payload) as [|t r] eqn:E.
    + destruct a as [[x|x|d] p]; discriminate.
    + assert (T : (t =? atyp_dom) || (t =? atyp_v4) || (t =? atyp_v6) = true).
      { unfold encode_addr in E. destruct (sa_host a); cbn in E; inversion E; subst;
          rewrite N.eqb_refl; rewrite ?orb_true_r; reflexivity. }
      rewrite T, L, B, F, S. reflexivity.
Qed.

(* no input makes address parsing fail in any way other than "nil"/"need more"/"bad type":
   the model functions are total and never produce an out-of-range slice (cf. C18) *)
Lemma split_addr_in_bounds b a rest : split_addr b = Some (a, rest) -> (length a <= length b)%nat.
Proof. intros H. apply split_addr_app in H as [-> _]. rewrite app_length. lia. Qed.

Lemma atyp_distinct_lemma : atyp_v4 <> atyp_dom /\ atyp_v6 <> atyp_dom /\ atyp_v6 <> atyp_v4.
Proof. repeat split; discriminate. Qed.
