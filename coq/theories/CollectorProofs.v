(* CollectorProofs.v — the gathered counters are the sums of the calls, attributed to the key of the
   association / connection the call was made on. *)
From OSS Require Import theories.Base theories.Collector.
From Coq Require Import String.
Import String.StringSyntax.
Open Scope Z_scope.

Lemma series_eqb_spec a b : series_eqb a b = true <-> a = b.
Proof. apply list_eqb_spec. intros x y. apply String.eqb_eq. Qed.
Lemma series_eqb_refl a : series_eqb a a = true.
Proof. apply series_eqb_spec. reflexivity. Qed.
Lemma series_eqb_sym a b : series_eqb a b = series_eqb b a.
Proof.
  destruct (series_eqb a b) eqn:E.
  - apply series_eqb_spec in E. subst. symmetry. apply series_eqb_refl.
  - destruct (series_eqb b a) eqn:E2; [|reflexivity]. apply series_eqb_spec in E2. subst.
    rewrite series_eqb_refl in E. discriminate.
Qed.

Lemma value_bump m s v q : value (bump s v m) q = value m q + (if series_eqb q s then v else 0).
Proof.
  induction m as [|[s' v'] r IH]; cbn [bump value].
  - destruct (series_eqb q s); lia.
  - destruct (series_eqb s s') eqn:E; cbn [value].
    + apply series_eqb_spec in E. subst s'. destruct (series_eqb q s); lia.
    + destruct (series_eqb q s') eqn:E2.
      * apply series_eqb_spec in E2. subst s'. rewrite series_eqb_sym, E. lia.
      * exact IH.
Qed.

Lemma value_apply_delta d m q : value (apply_delta d m) q = value m q + dsum d q.
Proof.
  unfold apply_delta. revert m. induction d as [|[s v] r IH]; intros m; cbn [fold_left dsum fold_right fst snd].
  - lia.
  - rewrite IH, value_bump. fold (dsum r q). lia.
Qed.

Lemma value_run_from st calls q :
  value (vals (fold_left cstep calls st)) q = value (vals st) q + total_from st calls q.
Proof.
  revert st. induction calls as [|c r IH]; intros st; cbn [fold_left total_from].
  - lia.
  - rewrite IH. cbn [cstep vals]. rewrite value_apply_delta. lia.
Qed.

Lemma collector_total_lemma calls q : value (vals (crun calls)) q = total_from cinit0 calls q.
Proof. unfold crun. rewrite value_run_from. cbn. lia. Qed.

(* ---- UDP data bytes ------------------------------------------------------------------------- *)
Definition udir (fromclient first : bool) : string :=
  match fromclient, first with
  | true, true => "c>p" | true, false => "p>t" | false, true => "p<t" | false, false => "c<p"
  end%string.

Lemma dsum_app a b q : dsum (a ++ b) q = dsum a q + dsum b q.
Proof. unfold dsum. induction a as [|[s v] r IH]; cbn [app fold_right fst snd]; [reflexivity|]. rewrite IH. lia. Qed.

Lemma dsum_cons s v r q : dsum ((s, v) :: r) q = (if series_eqb q s then v else 0) + dsum r q.
Proof. reflexivity. Qed.

Lemma dsum_nz s v q : dsum (nz s v) q = if series_eqb q s then pos v else 0.
Proof. unfold nz, pos. destruct (0 <? v); cbn [dsum fold_right fst snd]; destruct (series_eqb q s); lia. Qed.

Lemma data_eqb proto d k proto' d' k' :
  series_eqb (data proto d k) (data proto' d' k') = String.eqb proto proto' && (String.eqb d d' && String.eqb k k').
Proof. unfold data, series_eqb. cbn. rewrite Bool.andb_true_r. reflexivity. Qed.
Lemma data_dataloc proto d k proto' d' : series_eqb (data proto d k) (dataloc proto' d') = false.
Proof. reflexivity. Qed.

Lemma dsum_client_target proto key cp pt proto' d k :
  dsum (client_target proto key cp pt) (data proto' d k) =
  if String.eqb proto' proto && String.eqb k key
  then (if String.eqb d "c>p" then pos cp else 0) + (if String.eqb d "p>t" then pos pt else 0) else 0.
Proof.
  unfold client_target. rewrite !dsum_app, !dsum_nz, !data_eqb, !data_dataloc.
  destruct (String.eqb proto' proto), (String.eqb k key), (String.eqb d "c>p"), (String.eqb d "p>t"); cbn; lia.
Qed.
Lemma dsum_target_client proto key tp pc proto' d k :
  dsum (target_client proto key tp pc) (data proto' d k) =
  if String.eqb proto' proto && String.eqb k key
  then (if String.eqb d "p<t" then pos tp else 0) + (if String.eqb d "c<p" then pos pc else 0) else 0.
Proof.
  unfold target_client. rewrite !dsum_app, !dsum_nz, !data_eqb, !data_dataloc.
  destruct (String.eqb proto' proto), (String.eqb k key), (String.eqb d "p<t"), (String.eqb d "c<p"); cbn; lia.
Qed.

Lemma sum_reports_cons k fc first k' fc' x y l :
  sum_reports k fc first ((k', fc', x, y) :: l) =
  (if String.eqb k k' && Bool.eqb fc' fc then pos (if first then x else y) else 0) + sum_reports k fc first l.
Proof. reflexivity. Qed.

Lemma udp_total_from st calls k fc first :
  total_from st calls (data "udp" (udir fc first) k) = sum_reports k fc first (ureports (ukeys st) calls).
Proof.
  revert st. induction calls as [|c r IH]; intros st; [reflexivity|].
  cbn [total_from]. rewrite IH.
  destruct c; cbn [delta cstep ukeys ureports]; rewrite ?sum_reports_cons.
  - (* MUAdd *) reflexivity.
  - (* MUPktC *)
    change (dsum ((["udp_packets_from_client_per_location"; status]%string, 1) :: client_target "udp" (key_of (ukeys st) a) cp pt) (data "udp" (udir fc first) k))
      with (0 + dsum (client_target "udp" (key_of (ukeys st) a) cp pt) (data "udp" (udir fc first) k)).
    rewrite dsum_client_target.
    destruct (String.eqb k (key_of (ukeys st) a)), fc, first; cbn; lia.
  - (* MUPktT *)
    rewrite dsum_target_client.
    destruct (String.eqb k (key_of (ukeys st) a)), fc, first; cbn; lia.
  - destruct fc, first; reflexivity.
  - destruct fc, first; reflexivity.
  - destruct fc, first; reflexivity.
  - (* MTClosed: other protocol *)
    rewrite !dsum_app, dsum_client_target, dsum_target_client. destruct fc, first; cbn; lia.
  - destruct fc, first; reflexivity.
Qed.

Lemma gathered_udp_bytes_lemma calls k fc first :
  value (vals (crun calls)) (data "udp" (udir fc first) k) = sum_reports k fc first (ureports [] calls).
Proof. rewrite collector_total_lemma. apply udp_total_from. Qed.

(* ---- TCP data bytes: closed connections with the key set by AddAuthenticated ---------------- *)
Fixpoint tclosed (tk : list (N * string)) (calls : list mcall) : list (string * string * (Z * Z * Z * Z)) :=
  match calls with
  | [] => []
  | MTAuth c k :: r => tclosed ((c, k) :: tk) r
  | MTClosed c status cp pt tp pc :: r => (key_of tk c, status, (cp, pt, tp, pc)) :: tclosed tk r
  | _ :: r => tclosed tk r
  end.
Definition pick (fc first : bool) (q : Z * Z * Z * Z) : Z :=
  let '(cp, pt, tp, pc) := q in
  match fc, first with true, true => cp | true, false => pt | false, true => tp | false, false => pc end.
Definition sum_closed (k : string) (fc first : bool) (l : list (string * string * (Z * Z * Z * Z))) : Z :=
  fold_right (fun r acc => (if String.eqb k (fst (fst r)) then pos (pick fc first (snd r)) else 0) + acc) 0 l.

Lemma sum_closed_cons k fc first r l :
  sum_closed k fc first (r :: l) = (if String.eqb k (fst (fst r)) then pos (pick fc first (snd r)) else 0) + sum_closed k fc first l.
Proof. reflexivity. Qed.

Lemma tcp_total_from st calls k fc first :
  total_from st calls (data "tcp" (udir fc first) k) = sum_closed k fc first (tclosed (tkeys st) calls).
Proof.
  revert st. induction calls as [|c r IH]; intros st; [reflexivity|].
  cbn [total_from]. rewrite IH.
  destruct c; cbn [delta cstep tkeys tclosed]; rewrite ?sum_closed_cons; cbn [fst snd].
  - reflexivity.
  - change (dsum ((["udp_packets_from_client_per_location"; status]%string, 1) :: client_target "udp" (key_of (ukeys st) a) cp pt) (data "tcp" (udir fc first) k))
      with (0 + dsum (client_target "udp" (key_of (ukeys st) a) cp pt) (data "tcp" (udir fc first) k)).
    rewrite dsum_client_target. destruct fc, first; cbn; lia.
  - rewrite dsum_target_client. destruct fc, first; cbn; lia.
  - destruct fc, first; reflexivity.
  - destruct fc, first; reflexivity.
  - destruct fc, first; reflexivity.
  - rewrite !dsum_app, dsum_client_target, dsum_target_client.
    destruct (String.eqb k (key_of (tkeys st) c)), fc, first; cbn; lia.
  - destruct fc, first; reflexivity.
Qed.

Lemma gathered_tcp_bytes_lemma calls k fc first :
  value (vals (crun calls)) (data "tcp" (udir fc first) k) = sum_closed k fc first (tclosed [] calls).
Proof. rewrite collector_total_lemma. apply tcp_total_from. Qed.

(* ---- association and connection counters ---------------------------------------------------- *)
Definition is_uadd (c : mcall) := match c with MUAdd _ _ => true | _ => false end.
Definition is_uremove (c : mcall) := match c with MURemove _ => true | _ => false end.
Definition is_topen (c : mcall) := match c with MTOpen _ => true | _ => false end.
Definition is_tclosed (c : mcall) := match c with MTClosed _ _ _ _ _ _ => true | _ => false end.
Definition zcount (p : mcall -> bool) (l : list mcall) : Z := Z.of_nat (List.length (filter p l)).

Lemma count_total st calls (p : mcall -> bool) q :
  (forall st c, dsum (delta st c) q = if p c then 1 else 0) ->
  total_from st calls q = zcount p calls.
Proof.
  intros H. revert st. induction calls as [|c r IH]; intros st; [reflexivity|].
  cbn [total_from]. rewrite IH, H. unfold zcount. cbn [filter]. destruct (p c); cbn [List.length]; lia.
Qed.

Lemma nat_entries_lemma calls :
  value (vals (crun calls)) ["udp_nat_entries_added"]%string = zcount is_uadd calls /\
  value (vals (crun calls)) ["udp_nat_entries_removed"]%string = zcount is_uremove calls.
Proof.
  rewrite !collector_total_lemma. split; apply count_total; intros st c; destruct c; try reflexivity.
  all: cbn [delta]; unfold client_target, target_client; rewrite ?dsum_cons, ?dsum_app, ?dsum_nz; reflexivity.
Qed.

Lemma tcp_opened_lemma calls :
  value (vals (crun calls)) ["tcp_connections_opened"]%string = zcount is_topen calls.
Proof.
  rewrite collector_total_lemma. apply count_total; intros st c; destruct c; try reflexivity.
  all: cbn [delta]; unfold client_target, target_client; rewrite ?dsum_cons, ?dsum_app, ?dsum_nz; reflexivity.
Qed.
