(* TcpAuthProofs.v — authentication is sound and complete; server salts round-trip (C01, C08). *)
From OSS Require Import theories.Base theories.Crypto theories.CipherList theories.CipherListProofs.
From OSS Require Import theories.Replay theories.TcpAuth.
From Coq Require Import Permutation.

(* --- facts about the symbolic AEAD ------------------------------------------------------ *)
Lemma cipher_eqb_eq a b : cipher_eqb a b = true <-> a = b.
Proof. destruct a, b; cbn; split; intros H; try reflexivity; try discriminate. Qed.
Lemma skey_eqb_eq a b : skey_eqb a b = true <-> a = b.
Proof.
  unfold skey_eqb. rewrite andb_true_iff, cipher_eqb_eq, N.eqb_eq. destruct a, b; cbn.
  split; [intros [-> ->]; reflexivity | intros H; inversion H; tauto].
Qed.
Lemma tok_eqb_eq a b : tok_eqb a b = true <-> a = b.
Proof.
  destruct a, b; cbn; try (split; [discriminate|discriminate]); try tauto.
  - rewrite andb_true_iff, !N.eqb_eq. split; [intros [-> ->]; reflexivity | intros H; inversion H; tauto].
  - rewrite andb_true_iff, !N.eqb_eq. split; [intros [-> ->]; reflexivity | intros H; inversion H; tauto].
Qed.
Lemma wbyte_eqb_eq a b : wbyte_eqb a b = true <-> a = b.
Proof.
  unfold wbyte_eqb. rewrite andb_true_iff, N.eqb_eq, tok_eqb_eq. destruct a, b; cbn.
  split; [intros [-> ->]; reflexivity | intros H; inversion H; tauto].
Qed.

(* a ciphertext opens only under the key, salt and nonce it was sealed with (INT-CTXT) *)
Lemma aead_open_sound e k salt nonce ws pt :
  aead_open e k salt nonce ws = Some pt ->
  exists id se, lookupN id (seals e) = Some se /\ se_key se = k /\ se_salt se = salt /\ se_nonce se = nonce /\
                se_pt se = pt /\ map wt ws = map wt (seal_wire id (length pt) (tag_size (k_cipher k))).
Proof.
  unfold aead_open. destruct ws as [|[v [|id [|i]|id i]] r]; try discriminate.
  destruct (lookupN id (seals e)) as [se|] eqn:L; [|discriminate].
  destruct (skey_eqb (se_key se) k && list_eqb wbyte_eqb (se_salt se) salt && N.eqb (se_nonce se) nonce
            && list_eqb (fun a b => tok_eqb (wt a) (wt b)) ({| wv := v; wt := TCt id 0 |} :: r)
                 (seal_wire id (length (se_pt se)) (tag_size (k_cipher k)))) eqn:C; [|discriminate].
  intros H. inversion H; subst. apply andb_true_iff in C as [C C4]. apply andb_true_iff in C as [C C3].
  apply andb_true_iff in C as [C1 C2]. apply skey_eqb_eq in C1. apply N.eqb_eq in C3.
  apply (list_eqb_spec wbyte_eqb wbyte_eqb_eq) in C2.
  exists id, se. repeat split; try assumption.
  clear - C4. revert C4. generalize (seal_wire id (length (se_pt se)) (tag_size (k_cipher k))).
  generalize ({| wv := v; wt := TCt id 0 |} :: r). intros a. induction a as [|x a IH]; intros [|y b]; cbn; try discriminate; [reflexivity|].
  rewrite andb_true_iff, tok_eqb_eq. intros [-> H]. f_equal. apply IH. exact H.
Qed.

Lemma seal_wire_head id n t : 0 < n + t -> exists r, seal_wire id n t = {| wv := 0; wt := TCt id 0 |} :: r.
Proof. unfold seal_wire. destruct (n + t); [lia|]. intros _. cbn. eexists. reflexivity. Qed.

Lemma list_eqb_refl {A} (eqb : A -> A -> bool) (Hr : forall x, eqb x x = true) l : list_eqb eqb l l = true.
Proof. induction l; cbn; [reflexivity|]. rewrite Hr, IHl. reflexivity. Qed.

(* correctness: the honest ciphertext opens to its plaintext *)
Lemma aead_open_complete e id se k :
  lookupN id (seals e) = Some se -> se_key se = k -> 0 < length (se_pt se) + tag_size (k_cipher k) ->
  aead_open e k (se_salt se) (se_nonce se) (seal_wire id (length (se_pt se)) (tag_size (k_cipher k))) = Some (se_pt se).
Proof.
  intros L K Hpos. destruct (seal_wire_head id _ _ Hpos) as [r Er]. unfold aead_open. rewrite Er, L, <- Er.
  rewrite (proj2 (skey_eqb_eq _ _) K), N.eqb_refl.
  rewrite (list_eqb_refl wbyte_eqb (fun x => proj2 (wbyte_eqb_eq x x) eq_refl)).
  rewrite (list_eqb_refl (fun a b => tok_eqb (wt a) (wt b)) (fun x => proj2 (tok_eqb_eq _ _) eq_refl)).
  reflexivity.
Qed.

(* --- server salts ------------------------------------------------------------------------ *)
Lemma mac_bytes_toks id i n vs : map wt (mac_bytes id i n vs) = map wt (mac_bytes id i n []).
Proof. revert i. induction n as [|n IH]; intros i; cbn; [reflexivity|]. rewrite IH. reflexivity. Qed.
Lemma mac_bytes_length id i n vs : length (mac_bytes id i n vs) = n.
Proof. revert i. induction n as [|n IH]; intros i; cbn; [reflexivity|]. rewrite IH. reflexivity. Qed.

Lemma raws_length bs : length (raws bs) = length bs.
Proof. unfold raws. apply map_length. Qed.

Lemma server_salt_roundtrip_lemma e mid k prefix tagvals :
  marked (k_cipher k) = true -> 0 < mark_len ->
  let '(e', salt) := mk_server_salt e mid k prefix tagvals in
  is_server_salt e' k salt = true.
Proof.
  intros M Hm. unfold mk_server_salt. rewrite M. unfold is_server_salt. rewrite M.
  set (pre := raws prefix). set (mk := mac_bytes mid 0 mark_len tagvals).
  assert (Lm : length mk = mark_len) by apply mac_bytes_length.
  assert (Ls : length (pre ++ mk) - mark_len = length pre) by (rewrite app_length; lia).
  assert (Hl : (length (pre ++ mk) <? mark_len) = false) by (apply Nat.ltb_ge; rewrite app_length; lia).
  rewrite Hl, Ls.
  assert (Sk : skipn (length pre) (pre ++ mk) = mk).
  { rewrite skipn_app, skipn_all, Nat.sub_diag. reflexivity. }
  assert (Fi : firstn (length pre) (pre ++ mk) = pre).
  { rewrite firstn_app, firstn_all, Nat.sub_diag. cbn [firstn]. apply app_nil_r. }
  rewrite Sk, Fi. unfold mk.
  destruct mark_len as [|ml] eqn:Eml; [lia|]. cbn [mac_bytes]. cbv beta iota. cbn [lookupN macs wt]. rewrite (N.eqb_refl mid).
  cbn [me_secret me_prefix]. rewrite (N.eqb_refl (k_secret k)).
  rewrite (list_eqb_refl wbyte_eqb (fun x => proj2 (wbyte_eqb_eq x x) eq_refl)). cbn [andb].
  match goal with |- list_eqb tok_eqb (map wt ?l) _ = true =>
    assert (Et : map wt l = mark_toks mid) end.
  { unfold mark_toks. rewrite Eml. cbn [mac_bytes map wt]. rewrite (mac_bytes_toks mid (0 + 1) ml tagvals). reflexivity. }
  rewrite Et. apply (list_eqb_refl tok_eqb (fun x => proj2 (tok_eqb_eq x x) eq_refl)).
Qed.

(* distinct RNG outputs give distinct salts (pairwise freshness reduces to the RNG not repeating) *)
Lemma vals_raws bs : vals (raws bs) = bs.
Proof. unfold vals, raws. rewrite map_map. cbn. apply map_id. Qed.
Lemma app_eq_len {A} (a b x y : list A) : length a = length b -> a ++ x = b ++ y -> a = b.
Proof.
  revert b. induction a as [|h a IH]; intros [|h' b] Hl H; cbn in *; try discriminate; [reflexivity|].
  inversion H; subst. f_equal. apply IH; [lia|assumption].
Qed.
Lemma server_salt_injective_lemma e mid1 mid2 k p1 p2 t1 t2 :
  length p1 = length p2 ->
  snd (mk_server_salt e mid1 k p1 t1) = snd (mk_server_salt e mid2 k p2 t2) -> p1 = p2.
Proof.
  intros Hl. unfold mk_server_salt. destruct (marked (k_cipher k)); cbn [snd]; intros H;
    apply (f_equal vals) in H.
  - unfold vals in H. rewrite !map_app in H. fold (vals (raws p1)) in H. fold (vals (raws p2)) in H.
    rewrite !vals_raws in H. eapply app_eq_len; eassumption.
  - rewrite !vals_raws in H. eapply app_eq_len; eassumption.
Qed.

(* --- authentication ---------------------------------------------------------------------- *)
(* outcome shape: whatever the input, the authenticator never panics when every configured
   cipher fits the key-finding window *)
Lemma need_le_window k : need k <= bytes_for_key_finding.
Proof.
  pose proof key_window_lemma as W. unfold need. destruct (k_cipher k); cbn in W |- *;
    vm_compute; repeat constructor.
Qed.

Lemma authenticate_no_panic e st ip input : snd (authenticate e st ip input) <> Panic.
Proof.
  unfold authenticate. destruct (length input <? bytes_for_key_finding) eqn:L; [cbn; discriminate|].
  apply Nat.ltb_ge in L.
  pose proof (find_entry_no_panic e (firstn bytes_for_key_finding input) (snapshot ip (a_cl st))) as NP.
  destruct (find_entry e (firstn bytes_for_key_finding input) (snapshot ip (a_cl st))) as [[el|]|] eqn:F.
  - destruct (is_server_salt _ _ _); [cbn; discriminate|].
    destruct (rc_add _ _ _) as [rc' fresh]. destruct fresh; cbn; discriminate.
  - cbn. discriminate.
  - exfalso. apply NP; [|reflexivity]. intros el _. rewrite firstn_length_le by exact L. apply need_le_window.
Qed.

(* SOUNDNESS: an authenticated connection is attributed to a configured entry whose key opens
   the client's first message; with honest-only ciphertexts that key is the client's key *)
Lemma auth_sound_lemma e st ip input st' id el salt :
  authenticate e st ip input = (st', Ok (AuthOk id el salt)) ->
  In (snd el) (items (a_cl st)) /\ id = e_id (snd el) /\
  exists pt, unpack e (e_key (snd el)) (firstn (need (e_key (snd el))) (firstn bytes_for_key_finding input)) = Some pt.
Proof.
  unfold authenticate. destruct (length input <? bytes_for_key_finding); [intros H; inversion H|].
  destruct (find_entry e (firstn bytes_for_key_finding input) (snapshot ip (a_cl st))) as [[el0|]|] eqn:F;
    try (intros H; inversion H; fail).
  destruct (is_server_salt _ _ _); [intros H; inversion H|].
  destruct (rc_add _ _ _) as [rc' fresh]. destruct fresh; intros H; inversion H; subst.
  apply find_entry_sound in F as [Hin Hu]. apply snapshot_gen in Hin as [_ Hin].
  split; [exact Hin|]. split; [reflexivity | exact Hu].
Qed.

Lemma sizes c : 16 <= salt_size c /\ salt_size c <= 32 /\ tag_size c = 16.
Proof. destruct c; vm_compute; repeat split; repeat constructor. Qed.

Lemma ct_bytes_nth id a n j : j < n -> nth_error (ct_bytes id a n) j = Some {| wv := 0; wt := TCt id (a + N.of_nat j) |}.
Proof.
  revert a j. induction n as [|n IH]; intros a j Hj; [lia|]. destruct j as [|j]; cbn [ct_bytes nth_error].
  - rewrite N.add_0_r. reflexivity.
  - rewrite IH by lia. do 3 f_equal. lia.
Qed.
Lemma ct_bytes_length id a n : length (ct_bytes id a n) = n.
Proof. revert a. induction n as [|n IH]; intros a; cbn; [reflexivity|]. rewrite IH. reflexivity. Qed.

(* unpack under key k' of an honest first message sealed under k succeeds only if k' = k *)
Lemma unpack_honest_only_own_key e sid k salt len2 rest k' pt :
  honest_env e sid k salt len2 -> length salt = salt_size (k_cipher k) ->
  Forall (fun w => wt w = TRaw) salt ->
  unpack e k' (firstn (need k') (honest_first sid k salt rest)) = Some pt -> k' = k.
Proof.
  intros [L _] Hs Hraw U. unfold unpack in U.
  destruct (length _ <? salt_size (k_cipher k')); [discriminate|].
  destruct (length _ <? tag_size (k_cipher k')); [discriminate|].
  apply aead_open_sound in U as (id & se & L' & K & _ & _ & _ & W).
  destruct (sizes (k_cipher k)) as (S1 & S2 & T1). destruct (sizes (k_cipher k')) as (S1' & S2' & T1').
  set (s' := salt_size (k_cipher k')) in *.
  destruct (skipn s' (firstn (need k') (honest_first sid k salt rest))) as [|w ws] eqn:Sk.
  { unfold seal_wire in W. rewrite T1' in W. rewrite Nat.add_comm in W. cbn in W. discriminate. }
  assert (Hw : wt w = TCt id 0).
  { unfold seal_wire in W. rewrite T1' in W. rewrite Nat.add_comm in W. cbn in W. inversion W. reflexivity. }
  assert (Hnth : nth_error (honest_first sid k salt rest) s' = Some w).
  { apply skipn_head_nth in Sk. apply nth_error_firstn_some in Sk. exact Sk. }
  unfold honest_first in Hnth.
  destruct (Nat.lt_ge_cases s' (length salt)) as [Hlt|Hge].
  - rewrite nth_error_app1 in Hnth by exact Hlt. apply nth_error_In in Hnth.
    rewrite Forall_forall in Hraw. rewrite (Hraw w Hnth) in Hw. discriminate.
  - rewrite nth_error_app2 in Hnth by exact Hge.
    rewrite nth_error_app1 in Hnth by (unfold seal_wire; rewrite ct_bytes_length; lia).
    unfold seal_wire in Hnth. rewrite ct_bytes_nth in Hnth by lia. inversion Hnth; subst w. cbn in Hw.
    inversion Hw as [[Hid Hz]]. subst id. rewrite L in L'. inversion L'; subst se. cbn in K. symmetry. exact K.
Qed.

(* Unpack of an honestly sealed datagram / first message *)
Lemma unpack_sealed e id k salt pt :
  lookupN id (seals e) = Some {| se_key := k; se_salt := salt; se_nonce := 0; se_pt := pt |} ->
  length salt = salt_size (k_cipher k) ->
  unpack e k (salt ++ seal_wire id (length pt) (tag_size (k_cipher k))) = Some pt.
Proof.
  intros L Hs. destruct (sizes (k_cipher k)) as (S1 & S2 & T1). unfold unpack.
  set (cw := seal_wire id (length pt) (tag_size (k_cipher k))).
  assert (Lc : length cw = length pt + tag_size (k_cipher k)) by (unfold cw, seal_wire; apply ct_bytes_length).
  assert (Sk : skipn (salt_size (k_cipher k)) (salt ++ cw) = cw).
  { rewrite <- Hs, skipn_app, skipn_all, Nat.sub_diag. reflexivity. }
  assert (Fi : firstn (salt_size (k_cipher k)) (salt ++ cw) = salt).
  { rewrite <- Hs, firstn_app, firstn_all, Nat.sub_diag. cbn [firstn]. apply app_nil_r. }
  rewrite Sk, Fi, app_length, Lc, Hs.
  assert (B1 : (salt_size (k_cipher k) + (length pt + tag_size (k_cipher k)) <? salt_size (k_cipher k)) = false) by (apply Nat.ltb_ge; lia). rewrite B1.
  assert (B2 : (length pt + tag_size (k_cipher k) <? tag_size (k_cipher k)) = false) by (apply Nat.ltb_ge; lia). rewrite B2.
  pose proof (aead_open_complete e id _ k L eq_refl) as C. cbn [se_pt se_salt se_nonce] in C. apply C. lia.
Qed.

(* COMPLETENESS: an honest handshake under a configured key is found, under that key *)
Lemma find_entry_honest e sid k salt len2 rest snap :
  honest_env e sid k salt len2 -> length salt = salt_size (k_cipher k) ->
  Forall (fun w => wt w = TRaw) salt ->
  bytes_for_key_finding <= length (honest_first sid k salt rest) ->   (* a complete first chunk was sent *)
  (exists el, In el snap /\ e_key (snd el) = k) ->
  let first := firstn bytes_for_key_finding (honest_first sid k salt rest) in
  exists el, find_entry e first snap = Ok (Some el) /\ In el snap /\ e_key (snd el) = k.
Proof.
  intros HE Hs Hraw Hfull [el0 [Hin0 Hk0]] first.
  destruct (sizes (k_cipher k)) as (S1 & S2 & T1).
  assert (Hlen : length first = bytes_for_key_finding).
  { unfold first. apply firstn_length_le. exact Hfull. }
  (* the own key opens *)
  assert (Hopen : unpack e k (firstn (need k) first) = Some len2).
  { destruct HE as [L Hl2]. unfold first. rewrite firstn_firstn. rewrite Nat.min_l by apply need_le_window.
    unfold honest_first. unfold need. rewrite <- Hs.
    assert (F : firstn (length salt + 2 + tag_size (k_cipher k)) (salt ++ seal_wire sid 2 (tag_size (k_cipher k)) ++ rest)
                = salt ++ seal_wire sid 2 (tag_size (k_cipher k))).
    { rewrite app_assoc. rewrite firstn_app.
      assert (E : length (salt ++ seal_wire sid 2 (tag_size (k_cipher k))) = length salt + 2 + tag_size (k_cipher k)).
      { rewrite app_length. unfold seal_wire. rewrite ct_bytes_length. lia. }
      rewrite <- E, firstn_all, Nat.sub_diag. cbn [firstn]. apply app_nil_r. }
    rewrite F. unfold unpack.
    set (cw := seal_wire sid 2 (tag_size (k_cipher k))).
    assert (Lc : length cw = 2 + tag_size (k_cipher k)) by (unfold cw, seal_wire; apply ct_bytes_length).
    assert (Sk : skipn (salt_size (k_cipher k)) (salt ++ cw) = cw).
    { rewrite <- Hs, skipn_app, skipn_all, Nat.sub_diag. reflexivity. }
    assert (Fi : firstn (salt_size (k_cipher k)) (salt ++ cw) = salt).
    { rewrite <- Hs, firstn_app, firstn_all, Nat.sub_diag. cbn [firstn]. apply app_nil_r. }
    rewrite Sk, Fi, app_length, Lc, Hs.
    assert (B1 : (salt_size (k_cipher k) + (2 + tag_size (k_cipher k)) <? salt_size (k_cipher k)) = false) by (apply Nat.ltb_ge; lia). rewrite B1.
    assert (B2 : (2 + tag_size (k_cipher k) <? tag_size (k_cipher k)) = false) by (apply Nat.ltb_ge; lia). rewrite B2.
    pose proof (aead_open_complete e sid _ k L eq_refl) as C. cbn [se_pt se_salt se_nonce] in C. rewrite Hl2 in C.
    apply C. lia. }
  destruct (find_entry_complete e first snap) as [el F].
  - intros el _. rewrite Hlen. apply need_le_window.
  - exists el0. split; [exact Hin0|]. rewrite Hk0, Hopen. discriminate.
  - exists el. split; [exact F|]. apply find_entry_sound in F as [Hin [pt U]]. split; [exact Hin|].
    unfold first in U. rewrite firstn_firstn, Nat.min_l in U by apply need_le_window.
    eapply unpack_honest_only_own_key; eauto.
Qed.

(* INVALID INPUT: if no configured key opens the opening bytes, the connection is refused with
   ERR_CIPHER and neither the key list nor the replay history changes *)
Lemma auth_invalid_lemma e st ip input :
  (forall ent, In ent (items (a_cl st)) ->
      unpack e (e_key ent) (firstn (need (e_key ent)) (firstn bytes_for_key_finding input)) = None) ->
  authenticate e st ip input = (st, Ok (AuthErr ErrCipher [])).
Proof.
  intros Hnone. unfold authenticate. destruct (length input <? bytes_for_key_finding) eqn:L; [reflexivity|].
  apply Nat.ltb_ge in L.
  destruct (find_entry e (firstn bytes_for_key_finding input) (snapshot ip (a_cl st))) as [[el|]|] eqn:F.
  - apply find_entry_sound in F as [Hin [pt U]]. apply snapshot_gen in Hin as [_ Hin].
    rewrite (Hnone _ Hin) in U. discriminate.
  - reflexivity.
  - exfalso. revert F. apply find_entry_no_panic. intros el _. rewrite firstn_length_le by exact L. apply need_le_window.
Qed.

(* COMPLETENESS at the authenticator: an honest handshake under a configured key is never
   answered with ERR_CIPHER; it is attributed to an entry configured with exactly that key,
   or refused as a replay of that entry *)
Lemma auth_complete_lemma e st ip sid k salt len2 rest :
  honest_env e sid k salt len2 -> length salt = salt_size (k_cipher k) ->
  Forall (fun w => wt w = TRaw) salt ->
  bytes_for_key_finding <= length (honest_first sid k salt rest) ->
  (exists ent, In ent (items (a_cl st)) /\ e_key ent = k) ->
  exists st' r, authenticate e st ip (honest_first sid k salt rest) = (st', Ok r) /\
    match r with
    | AuthOk id el _ => e_key (snd el) = k /\ In (snd el) (items (a_cl st)) /\ id = e_id (snd el)
    | AuthErr ErrCipher _ => False
    | AuthErr _ id => exists ent, In ent (items (a_cl st)) /\ e_key ent = k /\ id = e_id ent
    end.
Proof.
  intros HE Hs Hraw Hfull [ent [Hent Hk]].
  assert (Hsnap : exists el, In el (snapshot ip (a_cl st)) /\ e_key (snd el) = k).
  { pose proof (snapshot_permutation_lemma ip (a_cl st)) as P.
    apply Permutation_sym in P. pose proof (Permutation_in _ P Hent) as Hin.
    apply in_map_iff in Hin as [el [E Hin]]. exists el. subst. tauto. }
  destruct (find_entry_honest e sid k salt len2 rest (snapshot ip (a_cl st)) HE Hs Hraw Hfull Hsnap) as (el & F & Hin & Hkel).
  unfold authenticate. assert (L : (length (honest_first sid k salt rest) <? bytes_for_key_finding) = false) by (apply Nat.ltb_ge; exact Hfull).
  rewrite L, F. apply snapshot_gen in Hin as [_ Hin].
  destruct (is_server_salt _ _ _).
  - eexists _, _. split; [reflexivity|]. cbn. exists (snd el). tauto.
  - destruct (rc_add _ _ _) as [rc' fresh]. destruct fresh; eexists _, _; (split; [reflexivity|]); cbn; [tauto|].
    exists (snd el). tauto.
Qed.

(* a reflected server salt is refused whatever the replay history (even nil or capacity 0) *)
Lemma reflected_refused_lemma e st ip input el :
  bytes_for_key_finding <= length input ->
  find_entry e (firstn bytes_for_key_finding input) (snapshot ip (a_cl st)) = Ok (Some el) ->
  is_server_salt e (e_key (snd el)) (firstn (salt_size (k_cipher (e_key (snd el)))) (firstn bytes_for_key_finding input)) = true ->
  exists st', authenticate e st ip input = (st', Ok (AuthErr ErrReplayServer (e_id (snd el)))) /\ a_rc st' = a_rc st.
Proof.
  intros L F S. unfold authenticate. apply Nat.ltb_ge in L. rewrite L, F, S. eexists. split; reflexivity.
Qed.

(* a client replay is refused exactly when the shared history refuses the handshake *)
Lemma replay_refused_lemma e st ip input el :
  bytes_for_key_finding <= length input ->
  find_entry e (firstn bytes_for_key_finding input) (snapshot ip (a_cl st)) = Ok (Some el) ->
  let salt := firstn (salt_size (k_cipher (e_key (snd el)))) (firstn bytes_for_key_finding input) in
  is_server_salt e (e_key (snd el)) salt = false ->
  forall c, a_rc st = Some c ->
  snd (authenticate e st ip input) =
    if snd (add c (pre_hash (e_id (snd el)) (vals salt)))
    then Ok (AuthOk (e_id (snd el)) el salt) else Ok (AuthErr ErrReplayClient (e_id (snd el))).
Proof.
  intros L F salt S c Hc. unfold authenticate. apply Nat.ltb_ge in L. rewrite L, F. fold salt. rewrite S, Hc.
  cbn [rc_add]. destruct (add c _) as [c' ok]. destruct ok; reflexivity.
Qed.
