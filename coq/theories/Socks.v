(* Socks.v — model of go-shadowsocks2/socks address parsing (ReadAddr / SplitAddr) and of the
   host string the server dials (tcp.go getProxyRequest, udp.go validatePacket)
   (C02, C03, C05, C18). Address type constants come from Gen.Consts. *)
From OSS Require Import theories.Base theories.IPClass.
From OSS Require Gen.Consts.
Open Scope N_scope.

Definition atyp_v4 : N := Z.to_N Gen.Consts.socks_atyp_ipv4.
Definition atyp_dom : N := Z.to_N Gen.Consts.socks_atyp_domain.
Definition atyp_v6 : N := Z.to_N Gen.Consts.socks_atyp_ipv6.

Inductive host := HostV4 (a : N) | HostV6 (a : N) | HostDomain (name : bytes).
Record saddr := { sa_host : host; sa_port : N }.

Fixpoint be_val (bs : bytes) : N := match bs with [] => 0 | b :: r => b * 256 ^ N.of_nat (length r) + be_val r end.

(* length of the address at the head of [b], if the type byte (and domain length byte) allow it *)
Definition addr_len (b : bytes) : option nat :=
  match b with
  | [] => None
  | t :: r =>
      if t =? atyp_dom then match r with [] => None | n :: _ => Some (1 + 1 + N.to_nat n + 2)%nat end
      else if t =? atyp_v4 then Some (1 + 4 + 2)%nat
      else if t =? atyp_v6 then Some (1 + 16 + 2)%nat
      else None
  end.

(* SplitAddr: the address slice at the head of a datagram's plaintext, or nil *)
Definition split_addr (b : bytes) : option (bytes * bytes) :=
  match addr_len b with
  | Some n => if (length b <? n)%nat then None else Some (firstn n b, skipn n b)
  | None => None
  end.

Definition decode_addr (a : bytes) : option saddr :=
  match a with
  | [] => None
  | t :: r =>
      if t =? atyp_dom then
        match r with
        | [] => None
        | n :: r' => Some {| sa_host := HostDomain (firstn (N.to_nat n) r'); sa_port := be_val (firstn 2 (skipn (N.to_nat n) r')) |}
        end
      else if t =? atyp_v4 then Some {| sa_host := HostV4 (be_val (firstn 4 r)); sa_port := be_val (firstn 2 (skipn 4 r)) |}
      else if t =? atyp_v6 then Some {| sa_host := HostV6 (be_val (firstn 16 r)); sa_port := be_val (firstn 2 (skipn 16 r)) |}
      else None
  end.

(* ReadAddr on a byte stream: result and the rest of the stream.
   [RNeedMore]: the stream ended first (io.ReadFull error); [RBadType]: ErrAddressNotSupported *)
Inductive read_res := RAddr (a : bytes) (rest : bytes) | RNeedMore | RBadType.
Definition read_addr (s : bytes) : read_res :=
  match s with
  | [] => RNeedMore
  | t :: r =>
      if (t =? atyp_dom) || (t =? atyp_v4) || (t =? atyp_v6) then
        match addr_len s with
        | Some n => if (length s <? n)%nat then RNeedMore else RAddr (firstn n s) (skipn n s)
        | None => RNeedMore        (* domain type with no length byte yet *)
        end
      else RBadType
  end.

(* encoding, as an honest client / socks.ParseAddr produce it *)
Definition be_bytes (n : nat) (v : N) : bytes :=
  map (fun i => (v / 256 ^ N.of_nat (n - 1 - i)) mod 256) (seq 0 n).
Definition encode_addr (a : saddr) : bytes :=
  match sa_host a with
  | HostV4 x => atyp_v4 :: be_bytes 4 x ++ be_bytes 2 (sa_port a)
  | HostV6 x => atyp_v6 :: be_bytes 16 x ++ be_bytes 2 (sa_port a)
  | HostDomain d => atyp_dom :: N.of_nat (length d) :: d ++ be_bytes 2 (sa_port a)
  end.

(* the net.IP a host denotes when it is an IP literal in SOCKS form (the dialed address of
   types 1 and 4; domain names go through the resolver oracle) *)
Definition host_ip (h : host) : option ip :=
  match h with HostV4 a => Some (V4 a) | HostV6 a => Some (V16 a) | HostDomain _ => None end.

Example split_example : split_addr [1; 8;8;8;8; 0;53; 7;7] = Some ([1;8;8;8;8;0;53], [7;7]).
Proof. reflexivity. Qed.
Example read_dom_example : read_addr [3; 2; 97;98; 1;187; 9] = RAddr [3;2;97;98;1;187] [9].
Proof. reflexivity. Qed.
