(* Serve.v — model of service.StreamServe (tcp.go): the accept loop, the WaitGroup of running
   handlers, the per-connection recover and the deferred cancel / wait (C18, C11). *)
From OSS Require Import theories.Base.

Inductive phase := Serving | Draining | Returned.
Record serve := {
  ph : phase;
  lopen : bool;            (* the listener handed to StreamServe is still open *)
  running : nat;           (* WaitGroup counter: handlers started and not yet returned *)
  accepted : nat; finished : nat; panicked : nat;
  cancelled : bool }.      (* the handlers' context *)
Definition serve0 : serve :=
  {| ph := Serving; lopen := true; running := 0; accepted := 0; finished := 0; panicked := 0; cancelled := false |}.

Inductive slabel :=
| SAccept            (* accept() returned a connection: running.Add(1); go handler *)
| SAcceptError       (* accept() returned another error: logged, loop continues *)
| SCloseListener     (* environment: somebody closes the listener *)
| SSeesClosed        (* accept() returned ErrClosed: break; deferred cancel runs *)
| SHandlerDone       (* a handler returned: deferred running.Done() *)
| SHandlerPanic      (* a handler panicked: recovered and logged, running.Done() still runs *)
| SReturn.           (* deferred running.Wait() returned: StreamServe returns *)

Definition sstep (s : serve) (l : slabel) : option serve :=
  match l with
  | SAccept =>
      match ph s with
      | Serving => if lopen s then Some {| ph := Serving; lopen := true; running := S (running s); accepted := S (accepted s);
                                           finished := finished s; panicked := panicked s; cancelled := cancelled s |}
                   else None
      | _ => None
      end
  | SAcceptError => match ph s with Serving => Some s | _ => None end
  | SCloseListener => Some {| ph := ph s; lopen := false; running := running s; accepted := accepted s;
                              finished := finished s; panicked := panicked s; cancelled := cancelled s |}
  | SSeesClosed =>
      match ph s with
      | Serving => if lopen s then None
                   else Some {| ph := Draining; lopen := false; running := running s; accepted := accepted s;
                                finished := finished s; panicked := panicked s; cancelled := true |}
      | _ => None
      end
  | SHandlerDone =>
      match running s with
      | O => None
      | S n => Some {| ph := ph s; lopen := lopen s; running := n; accepted := accepted s;
                       finished := S (finished s); panicked := panicked s; cancelled := cancelled s |}
      end
  | SHandlerPanic =>
      match running s with
      | O => None
      | S n => Some {| ph := ph s; lopen := lopen s; running := n; accepted := accepted s;
                       finished := S (finished s); panicked := S (panicked s); cancelled := cancelled s |}
      end
  | SReturn =>
      match ph s, running s with
      | Draining, O => Some {| ph := Returned; lopen := lopen s; running := 0; accepted := accepted s;
                               finished := finished s; panicked := panicked s; cancelled := cancelled s |}
      | _, _ => None
      end
  end.

Fixpoint srun (s : serve) (tr : list slabel) : option serve :=
  match tr with
  | [] => Some s
  | l :: r => match sstep s l with Some s' => srun s' r | None => None end
  end.

Definition sinv (s : serve) : Prop :=
  accepted s = finished s + running s /\
  (ph s = Returned -> running s = 0 /\ lopen s = false /\ cancelled s = true) /\
  (ph s = Draining -> lopen s = false /\ cancelled s = true) /\
  (ph s = Serving -> cancelled s = false) /\
  panicked s <= finished s.

Example serve_example :
  srun serve0 [SAccept; SAccept; SHandlerPanic; SCloseListener; SSeesClosed; SHandlerDone; SReturn]
  = Some {| ph := Returned; lopen := false; running := 0; accepted := 2; finished := 2; panicked := 1; cancelled := true |}.
Proof. reflexivity. Qed.
