(* IPClassProofs.v — lemmas about the model in IPClass.v (C05, C20). *)
From OSS Require Import theories.Base theories.IPClass.
From OSS Require Gen.Consts.
From Coq Require Import ZifyBool ZifyN String.
Open Scope N_scope.
Ltac Zify.zify_post_hook ::= Z.div_mod_to_equations.

(* --- division atoms as ranges -------------------------------------------------- *)
Lemma div_eqb_rng a d p : 0 < d -> (a / d =? p) = rngb (p * d) ((p + 1) * d) a.
Proof.
  intros Hd. unfold rngb.
  pose proof (N.div_mod a d ltac:(lia)) as E. pose proof (N.mod_lt a d ltac:(lia)) as L.
  remember (a / d) as q eqn:Eq. remember (a mod d) as r eqn:Er. clear Eq Er.
  destruct (N.eqb_spec q p) as [Heq|Hne].
  - subst q. symmetry. apply andb_true_iff. split; [apply N.leb_le | apply N.ltb_lt]; lia.
  - symmetry. apply andb_false_iff.
    destruct (N.lt_ge_cases q p) as [Hlt|Hge].
    + left. apply N.leb_gt. assert (d * (q + 1) <= d * p) by (apply N.mul_le_mono_l; lia). lia.
    + right. apply N.ltb_ge. assert (d * (p + 1) <= d * q) by (apply N.mul_le_mono_l; lia). lia.
Qed.

Lemma pow2_pos k : 0 < 2 ^ k.
Proof. apply N.neq_0_lt_0. apply N.pow_nonzero. discriminate. Qed.

(* prefix test of IPNet.Contains as a range *)
Lemma prefix_rng x value k :
  (x / 2^k =? value / 2^k) = rngb ((value / 2^k) * 2^k) ((value / 2^k + 1) * 2^k) x.
Proof. apply div_eqb_rng. apply pow2_pos. Qed.

(* evaluate closed bounds of [rngb] atoms *)
Ltac eval_rng_bounds :=
  repeat match goal with
  | |- context [rngb ?lo ?hi ?x] =>
      let lo' := eval vm_compute in lo in
      let hi' := eval vm_compute in hi in
      progress (change (rngb lo hi x) with (rngb lo' hi' x))
  end.

Lemma linklocal4_rng x : x < 2^32 ->
  ((x / 2^24 =? 169) && ((x / 2^16) mod 256 =? 254)) = rngb (43518 * 2^16) (43519 * 2^16) x.
Proof.
  intros Hx. unfold rngb.
  change (2^24) with 16777216. change (2^16) with 65536. change (2^32) with 4294967296 in Hx.
  lia.
Qed.
Lemma multicast4_rng x : ((x / 2^24) / 16 =? 14) = rngb (224 * 2^24) (240 * 2^24) x.
Proof.
  rewrite N.div_div by discriminate.
  rewrite (div_eqb_rng x (2^24 * 16) 14) by reflexivity. reflexivity.
Qed.
Lemma linklocal16_rng a : a < 2^128 ->
  ((a / 2^120 =? 254) && (((a / 2^112) mod 256) / 64 =? 2)) = rngb (1018 * 2^118) (1019 * 2^118) a.
Proof.
  intros Ha. unfold rngb.
  change (2^120) with 1329227995784915872903807060280344576.
  change (2^112) with 5192296858534827628530496329220096.
  change (2^118) with 332306998946228968225951765070086144.
  change (2^128) with 340282366920938463463374607431768211456 in Ha.
  lia.
Qed.

Lemma require_public_allowed i :
  require_public i = Allowed <-> is_global_unicast i = true /\ is_private i = false.
Proof.
  unfold require_public. destruct (is_global_unicast i), (is_private i); cbv [negb];
    (split; [intros H; try discriminate H; split; reflexivity
            | intros [H1 H2]; try discriminate H1; try discriminate H2; reflexivity]).
Qed.

(* IPv4 (4-byte form) *)
Lemma global_unicast_v4 a : a < 2^32 ->
  is_global_unicast (V4 a) =
  negb (a =? 2^32 - 1) && negb (a =? 0) && negb (rngb (127 * 2^24) (128 * 2^24) a)
  && negb (rngb (224 * 2^24) (240 * 2^24) a) && negb (rngb (43518 * 2^16) (43519 * 2^16) a).
Proof.
  intros Ha. unfold is_global_unicast, is_bcast, is_unspecified, is_loopback, is_multicast,
    is_link_local_unicast, has_ip_len, to4.
  rewrite multicast4_rng, (linklocal4_rng a Ha), (div_eqb_rng a (2^24) 127) by reflexivity.
  reflexivity.
Qed.

Lemma private_v4 a :
  is_private (V4 a) = true <->
  (10 * 2^24 <= a < 11 * 2^24) \/ (2753 * 2^20 <= a < 2754 * 2^20)
  \/ (49320 * 2^16 <= a < 49321 * 2^16) \/ (401 * 2^22 <= a < 402 * 2^22).
Proof.
  unfold is_private, Gen.Consts.private_networks. cbn [existsb contains to4].
  rewrite !prefix_rng. eval_rng_bounds. unfold rngb. lia.
Qed.

Lemma require_public_v4 a : a < 2^32 -> (require_public (V4 a) = Allowed <-> ~ listed4 a).
Proof.
  intros Ha. rewrite require_public_allowed, (global_unicast_v4 a Ha).
  rewrite <- not_true_iff_false, private_v4. unfold listed4, rngb.
  change (2^32) with 4294967296 in *. change (2^24) with 16777216. change (2^16) with 65536.
  change (2^20) with 1048576. change (2^22) with 4194304.
  lia.
Qed.

(* IPv4-mapped IPv6 addresses are classified exactly as the embedded IPv4 address *)
Lemma mapped_iff a : (a / 2^32 =? 65535) = true <-> mapped a.
Proof.
  rewrite (div_eqb_rng a (2^32) 65535) by reflexivity. unfold rngb, mapped.
  change (2^32) with 4294967296. lia.
Qed.

Lemma mapped_as_v4_lemma a :
  mapped a -> require_public (V16 a) = require_public (V4 (a mod 2^32)).
Proof.
  intros M. pose proof (proj2 (mapped_iff a) M) as Mb.
  assert (Hb : is_bcast (V16 a) = is_bcast (V4 (a mod 2^32))).
  { unfold is_bcast. unfold mapped in M. change (2^32) with 4294967296 in *. lia. }
  assert (Hu : is_unspecified (V16 a) = is_unspecified (V4 (a mod 2^32))).
  { unfold is_unspecified. unfold mapped in M. change (2^32) with 4294967296 in *. lia. }
  unfold require_public, is_global_unicast, is_private. rewrite Hb, Hu.
  unfold is_loopback, is_multicast, is_link_local_unicast, has_ip_len, contains, to4. rewrite Mb.
  reflexivity.
Qed.

Lemma listed16_mapped a : mapped a -> (listed16 a <-> listed4 (a mod 2^32)).
Proof.
  intros M. unfold listed16. unfold mapped in *.
  change (2^32) with 4294967296 in *. change (2^118) with 332306998946228968225951765070086144.
  change (2^120) with 1329227995784915872903807060280344576.
  change (2^121) with 2658455991569831745807614120560689152.
  split; [|tauto]. intros [H|[H|[H|[H|[H|[_ H]]]]]]; try lia. exact H.
Qed.

Lemma private_v16_unmapped a : (a / 2^32 =? 65535) = false ->
  is_private (V16 a) = true <-> (126 * 2^121 <= a < 127 * 2^121).
Proof.
  intros M. unfold is_private, Gen.Consts.private_networks. cbn [existsb contains to4]. rewrite M.
  rewrite !prefix_rng. eval_rng_bounds. unfold rngb.
  change (2^121) with 2658455991569831745807614120560689152. lia.
Qed.

Lemma global_unicast_v16_unmapped a : a < 2^128 -> (a / 2^32 =? 65535) = false ->
  is_global_unicast (V16 a) =
  negb (a =? 0) && negb (a =? 1) && negb (rngb (255 * 2^120) (256 * 2^120) a)
  && negb (rngb (1018 * 2^118) (1019 * 2^118) a).
Proof.
  intros Ha M.
  assert (Hm : ~ mapped a) by (rewrite <- mapped_iff, M; discriminate).
  unfold is_global_unicast, is_bcast, is_unspecified, is_loopback, is_multicast,
    is_link_local_unicast, has_ip_len, to4. rewrite M.
  rewrite (linklocal16_rng a Ha), (div_eqb_rng a (2^120) 255) by reflexivity.
  unfold mapped in Hm. change (2^32) with 4294967296 in *.
  assert (E1 : (a =? 65535 * 4294967296 + (4294967296 - 1)) = false) by lia.
  assert (E2 : (a =? 65535 * 4294967296) = false) by lia.
  rewrite E1, E2. reflexivity.
Qed.

Lemma require_public_v16 a : a < 2^128 -> (require_public (V16 a) = Allowed <-> ~ listed16 a).
Proof.
  intros Ha. destruct (a / 2^32 =? 65535) eqn:M.
  - apply mapped_iff in M. rewrite (mapped_as_v4_lemma a M), (listed16_mapped a M).
    apply require_public_v4. apply N.mod_lt. discriminate.
  - assert (Hm : ~ mapped a) by (rewrite <- mapped_iff, M; discriminate).
    rewrite require_public_allowed, (global_unicast_v16_unmapped a Ha M).
    rewrite <- not_true_iff_false, (private_v16_unmapped a M).
    unfold listed16, rngb.
    change (2^118) with 332306998946228968225951765070086144.
    change (2^120) with 1329227995784915872903807060280344576.
    change (2^121) with 2658455991569831745807614120560689152.
    change (2^128) with 340282366920938463463374607431768211456 in Ha.
    split.
    + intros H L. destruct L as [L|[L|[L|[L|[L|[L _]]]]]]; try lia. exact (Hm L).
    + intros H. assert (a <> 0 /\ a <> 1 /\ ~ (332306998946228968225951765070086144 * 1018 <= a < 1019 * 332306998946228968225951765070086144)
        /\ ~ (255 * 1329227995784915872903807060280344576 <= a < 256 * 1329227995784915872903807060280344576)
        /\ ~ (126 * 2658455991569831745807614120560689152 <= a < 127 * 2658455991569831745807614120560689152)) as G.
      { repeat split; intro; apply H; tauto || (right; tauto) || lia. }
      lia.
Qed.

Lemma bad_ip_rejected_lemma : require_public BadIP = ErrInvalid.
Proof. reflexivity. Qed.

Lemma require_public_exact_lemma i : wf i -> (require_public i = Allowed <-> ~ listed i).
Proof.
  destruct i as [a|a|]; cbn [wf listed].
  - apply require_public_v4.
  - apply require_public_v16.
  - intros _. rewrite bad_ip_rejected_lemma. split; [discriminate | tauto].
Qed.

(* which error: not-global-unicast addresses are ERR_ADDRESS_INVALID, private ones ERR_ADDRESS_PRIVATE *)
Lemma verdict_kind i :
  (require_public i = ErrInvalid <-> is_global_unicast i = false) /\
  (require_public i = ErrPrivate <-> is_global_unicast i = true /\ is_private i = true).
Proof.
  unfold require_public. destruct (is_global_unicast i), (is_private i); cbv [negb]; intuition congruence.
Qed.

Lemma guards_as_modelled_lemma : Gen.Consts.require_public_guards = expected_guards.
Proof. reflexivity. Qed.

(* non-vacuity *)
Example public_example : require_public (V4 (8 * 2^24 + 8 * 2^16 + 8 * 2^8 + 8)) = Allowed.
Proof. reflexivity. Qed.
Example cgnat_example : require_public (V4 (100 * 2^24 + 64 * 2^16 + 1)) = ErrPrivate.
Proof. reflexivity. Qed.
Example mapped_loopback_example : require_public (V16 (65535 * 2^32 + 127 * 2^24 + 1)) = ErrInvalid.
Proof. reflexivity. Qed.
Example ula_example : require_public (V16 (64768 * 2^112 + 5)) = ErrPrivate.  (* fd00::5 *)
Proof. reflexivity. Qed.
Example public6_example : require_public (V16 (8193 * 2^112 + 3512 * 2^96 + 1)) = Allowed.  (* 2001:db8::1 *)
Proof. reflexivity. Qed.
