(* TcpAuth.v — model of service/server_salt.go and of the Shadowsocks stream authenticator
   (NewShadowsocksStreamAuthenticator / findAccessKey in service/tcp.go) (C01, C06, C07, C08). *)
From OSS Require Import theories.Base theories.Crypto theories.CipherList theories.Replay.
From OSS Require Gen.Consts.

(* --- server salts --------------------------------------------------------------------- *)
(* MakeCipherEntry: salts are marked only if enough entropy remains *)
Definition marked (c : cipher) : bool :=
  (Gen.Consts.min_salt_entropy <=? Z.of_nat (salt_size c) - Gen.Consts.server_salt_mark_len)%Z.

(* GetSalt: [prefix] are the RNG bytes, [tagvals] the numeric values of the HMAC output *)
Definition mk_server_salt (e : env) (mid : N) (k : skey) (prefix : bytes) (tagvals : bytes) : env * list wbyte :=
  if marked (k_cipher k) then
    let pre := raws prefix in
    ({| seals := seals e; macs := (mid, {| me_secret := k_secret k; me_prefix := pre |}) :: macs e |},
     pre ++ mac_bytes mid 0 mark_len tagvals)
  else (e, raws (prefix ++ tagvals)).

Definition mark_toks (id : N) : list tok := map wt (mac_bytes id 0 mark_len []).
Definition is_server_salt (e : env) (k : skey) (salt : list wbyte) : bool :=
  if marked (k_cipher k) then
    if length salt <? mark_len then false
    else
      let n := length salt - mark_len in
      match skipn n salt with
      | {| wt := TMac id 0 |} :: _ =>
          match lookupN id (macs e) with
          | Some me => N.eqb (me_secret me) (k_secret k)
                       && list_eqb wbyte_eqb (me_prefix me) (firstn n salt)
                       && list_eqb tok_eqb (map wt (skipn n salt)) (mark_toks id)
          | None => false
          end
      | _ => false
      end
  else false.

(* --- the authenticator ------------------------------------------------------------------ *)
Inductive status := ErrCipher | ErrReplayServer | ErrReplayClient.
Inductive auth_res :=
| AuthOk (id : bytes) (el : elem) (salt : list wbyte)
| AuthErr (s : status) (id : bytes).

Record astate := { a_cl : clist; a_rc : option cache }.   (* None = nil *ReplayCache *)

Definition rc_add (rc : option cache) (id : bytes) (salt : list wbyte) : option cache * bool :=
  match rc with
  | None => (None, true)
  | Some c => let '(c', ok) := add c (pre_hash id (vals salt)) in (Some c', ok)
  end.

(* [input] is everything the client sends before the server would need more *)
Definition authenticate (e : env) (st : astate) (ip : N) (input : list wbyte) : astate * outcome auth_res :=
  let snap := snapshot ip (a_cl st) in
  if length input <? bytes_for_key_finding then (st, Ok (AuthErr ErrCipher []))     (* ReadFull fails *)
  else
    let first := firstn bytes_for_key_finding input in
    match find_entry e first snap with
    | Panic => (st, Panic)
    | Ok None => (st, Ok (AuthErr ErrCipher []))
    | Ok (Some el) =>
        let ent := snd el in
        let cl' := mark_used (a_cl st) el ip in
        let salt := firstn (salt_size (k_cipher (e_key ent))) first in
        if is_server_salt e (e_key ent) salt
        then ({| a_cl := cl'; a_rc := a_rc st |}, Ok (AuthErr ErrReplayServer (e_id ent)))
        else
          let '(rc', fresh) := rc_add (a_rc st) (e_id ent) salt in
          if fresh then ({| a_cl := cl'; a_rc := rc' |}, Ok (AuthOk (e_id ent) el salt))
          else ({| a_cl := cl'; a_rc := rc' |}, Ok (AuthErr ErrReplayClient (e_id ent)))
    end.

(* an honest client's opening bytes under key k: salt, sealed 2-byte length, then anything *)
Definition honest_first (sid : N) (k : skey) (salt : list wbyte) (rest : list wbyte) : list wbyte :=
  salt ++ seal_wire sid 2 (tag_size (k_cipher k)) ++ rest.
Definition honest_env (e : env) (sid : N) (k : skey) (salt : list wbyte) (len2 : bytes) : Prop :=
  lookupN sid (seals e) = Some {| se_key := k; se_salt := salt; se_nonce := 0; se_pt := len2 |} /\ length len2 = 2.

Example marked_table : map marked all_ciphers = [true; true; true; false].
Proof. reflexivity. Qed.
