(* LockOrderProofs.v — rank discipline => no reachable state is stuck and every thread
   finishes; soundness of the boolean checker and of the executable scheduler (C13). *)
From OSS Require Import theories.Base theories.LockOrder.

Section Rank.
  Variable rank : nat -> nat.
  Local Notation ok := (ok rank).
  Local Notation inv := (inv rank).

  Lemma inv_step st st' : inv st -> step st st' -> inv st'.
  Proof.
    intros I S. destruct S as [pre t t' post T]. unfold LockOrder.inv in *.
    apply Forall_app in I as [I1 I2]. inversion I2 as [|? ? It I3]; subst.
    apply Forall_app; split; [assumption|]. constructor; [|assumption].
    inversion T; subst; cbn [fst snd LockOrder.ok] in It |- *; destruct It as [_ It]; exact It.
  Qed.

  Lemma inv_exec st st' : inv st -> exec st st' -> inv st'.
  Proof. intros I X. induction X as [|st st1 st2 S _ IH]; [exact I|]. apply IH. eapply inv_step; eassumption. Qed.

  Fixpoint all_held (st : state) : list nat := match st with [] => [] | t :: r => fst t ++ all_held r end.
  Lemma all_held_spec st l : In l (all_held st) <-> held_by_any st l.
  Proof.
    induction st as [|t r IH]; cbn.
    - split; [tauto|]. intros [t [[] _]].
    - rewrite in_app_iff, IH. split.
      + intros [H|[t' [H1 H2]]]; [exists t; cbn; tauto | exists t'; cbn; tauto].
      + intros [t' [[->|H1] H2]]; [tauto | right; exists t'; tauto].
  Qed.

  (* an element of maximal rank *)
  Lemma max_rank_exists (l : list nat) : l <> [] -> exists m, In m l /\ forall x, In x l -> rank x <= rank m.
  Proof.
    induction l as [|a r IH]; [congruence|]. intros _. destruct r as [|b r'].
    - exists a. split; [left; reflexivity|]. intros x [->|[]]. lia.
    - destruct (IH ltac:(congruence)) as [m [Hm Hmax]].
      destruct (le_lt_dec (rank a) (rank m)).
      + exists m. split; [right; exact Hm|]. intros x [->|Hx]; [assumption|apply Hmax; exact Hx].
      + exists a. split; [left; reflexivity|]. intros x [->|Hx]; [lia|]. specialize (Hmax x Hx). lia.
  Qed.

  Definition rel_head (t : thread) : bool := match snd t with Rel _ :: _ => true | _ => false end.

  (* progress: under the discipline, if some thread is unfinished then some thread can step *)
  Lemma progress st : inv st -> (exists t, In t st /\ ~ finished t) -> exists st', step st st'.
  Proof.
    intros I [t0 [Ht0 Hnf]].
    destruct (existsb rel_head st) eqn:ER.
    - apply existsb_exists in ER as [t [Ht Hr]].
      apply in_split in Ht as [pre [post ->]]. destruct t as [h p]. unfold rel_head in Hr. cbn in Hr.
      destruct p as [|[l|l] r]; try discriminate.
      eexists. apply Step. apply TRel.
    - assert (Hnorel : forall t, In t st -> rel_head t = false).
      { intros t Ht. destruct (rel_head t) eqn:E; [|reflexivity].
        assert (existsb rel_head st = true) by (apply existsb_exists; eauto). congruence. }
      destruct (all_held st) as [|a ah] eqn:EH.
      + pose proof (Hnorel t0 Ht0) as Hr0.
        apply in_split in Ht0 as [pre [post ->]]. destruct t0 as [h p]. unfold rel_head, finished in *. cbn in *.
        destruct p as [|[l|l] r]; [exfalso; apply Hnf; reflexivity| |discriminate].
        eexists. apply Step. apply TAcq. rewrite <- all_held_spec, EH. tauto.
      + destruct (max_rank_exists (all_held st)) as [m [Hm Hmax]]; [rewrite EH; congruence|].
        pose proof Hm as Hm'. apply all_held_spec in Hm' as [t [Ht Hmt]].
        pose proof I as I'. unfold LockOrder.inv in I'. rewrite Forall_forall in I'. specialize (I' t Ht).
        pose proof (Hnorel t Ht) as Hrt.
        apply in_split in Ht as [pre [post E]]. destruct t as [h p]. unfold rel_head in Hrt. cbn in *.
        destruct p as [|[l|l] r]; cbn in I'; try discriminate.
        * subst h. destruct Hmt.
        * destruct I' as [Hlt _]. rewrite Forall_forall in Hlt. specialize (Hlt m Hmt).
          eexists. rewrite E. apply Step. apply TAcq. rewrite <- E. intros Hh. apply all_held_spec in Hh.
          specialize (Hmax l Hh). exact (Nat.lt_irrefl _ (Nat.lt_le_trans _ _ _ Hlt Hmax)).
  Qed.

  Lemma step_remaining st st' : step st st' -> S (remaining st') = remaining st.
  Proof.
    intros Hs. destruct Hs as [pre t t' post T]. unfold remaining. rewrite !fold_right_app. cbn [fold_right].
    assert (E : S (length (snd t')) = length (snd t)) by (inversion T; subst; reflexivity).
    clear T. generalize (fold_right (fun t n => length (snd t) + n) 0 post). intros n.
    assert (G : forall a b, S a = b ->
      S (fold_right (fun (t : thread) n => length (snd t) + n) a pre) = fold_right (fun (t : thread) n => length (snd t) + n) b pre).
    { induction pre as [|x pre IH]; intros a b Hab; cbn [fold_right]; [exact Hab|].
      rewrite <- (IH a b Hab). lia. }
    apply G. lia.
  Qed.

  Lemma exec_bounded st st' : exec st st' -> remaining st' <= remaining st.
  Proof.
    intros X. induction X as [|st st1 st2 Hs _ IH]; [lia|]. apply step_remaining in Hs. lia.
  Qed.

  (* every call returns: any execution from a disciplined state can only stop (no step enabled)
     when every thread has finished, and executions are bounded by the program sizes *)
  Lemma all_calls_return_lemma st st' :
    inv st -> exec st st' -> (forall st'', ~ step st' st'') -> Forall finished st'.
  Proof.
    intros I X Stuck. pose proof (inv_exec st st' I X) as I'.
    apply Forall_forall. intros t Ht.
    destruct (snd t) eqn:E; [exact E|]. exfalso.
    destruct (progress st' I') as [st'' S]; [|exact (Stuck st'' S)].
    exists t. split; [exact Ht|]. unfold finished. rewrite E. discriminate.
  Qed.

  (* soundness of the boolean checker *)
  Lemma okb_ok h p : okb rank h p = true -> ok h p.
  Proof.
    revert h. induction p as [|[l|l] r IH]; intros h; cbn.
    - destruct h; [reflexivity|discriminate].
    - rewrite andb_true_iff, forallb_forall. intros [H1 H2]. split; [|apply IH; exact H2].
      apply Forall_forall. intros x Hx. specialize (H1 x Hx). apply Nat.ltb_lt. exact H1.
    - rewrite andb_true_iff, existsb_exists. intros [[x [Hx E]] H2]. apply Nat.eqb_eq in E. subst.
      split; [exact Hx | apply IH; exact H2].
  Qed.

  Lemma okb_except_none h p : okb_except rank (fun _ _ => false) h p = okb rank h p.
  Proof.
    revert h. induction p as [|[l|l] r IH]; intros h; cbn; [reflexivity| |rewrite IH; reflexivity].
    rewrite IH. f_equal. clear. induction h as [|x h IHh]; cbn; [reflexivity|]. rewrite orb_false_r, IHh. reflexivity.
  Qed.
End Rank.

(* instances: relabelling locks by an injective, rank-preserving map (class -> instance)
   preserves the discipline, so class-level paths cover any choice of instances *)
Lemma in_map_inj (f : nat -> nat) x l : (forall a b, f a = f b -> a = b) -> In (f x) (map f l) <-> In x l.
Proof.
  intros Hf. split; [|apply in_map]. intros H. apply in_map_iff in H as [y [E Hy]]. apply Hf in E. subst. exact Hy.
Qed.
Lemma remove_map_inj (f : nat -> nat) x l : (forall a b, f a = f b -> a = b) ->
  remove Nat.eq_dec (f x) (map f l) = map f (remove Nat.eq_dec x l).
Proof.
  intros Hf. induction l as [|y r IH]; cbn; [reflexivity|].
  destruct (Nat.eq_dec (f x) (f y)) as [E|E]; destruct (Nat.eq_dec x y) as [E2|E2]; cbn.
  - exact IH.
  - apply Hf in E. contradiction.
  - subst. contradiction.
  - rewrite IH. reflexivity.
Qed.
Definition map_instr (f : nat -> nat) (i : instr) : instr := match i with Acq l => Acq (f l) | Rel l => Rel (f l) end.
Lemma ok_instances (rank rank' : nat -> nat) (f : nat -> nat) h p :
  (forall a b, f a = f b -> a = b) -> (forall x, rank' (f x) = rank x) ->
  ok rank h p -> ok rank' (map f h) (map (map_instr f) p).
Proof.
  intros Hf Hr. revert h. induction p as [|[l|l] r IH]; intros h; cbn.
  - intros ->. reflexivity.
  - intros [H1 H2]. split; [|apply (IH (l :: h)); exact H2].
    apply Forall_forall. intros y Hy. apply in_map_iff in Hy as [x [<- Hx]].
    rewrite !Hr. rewrite Forall_forall in H1. apply H1. exact Hx.
  - intros [H1 H2]. split; [apply in_map; exact H1|]. rewrite (remove_map_inj f l h Hf). apply IH. exact H2.
Qed.

(* soundness of the executable scheduler *)
Lemma heldb_spec st l : heldb st l = true <-> held_by_any st l.
Proof.
  unfold heldb, held_by_any. rewrite existsb_exists. split.
  - intros [t [Ht H]]. apply existsb_exists in H as [x [Hx E]]. apply Nat.eqb_eq in E. subst. eauto.
  - intros [t [Ht H]]. exists t. split; [exact Ht|]. apply existsb_exists. exists l. split; [exact H|apply Nat.eqb_refl].
Qed.
Lemma tstepb_sound st t t' : tstepb st t = Some t' -> tstep st t t'.
Proof.
  destruct t as [h [|[l|l] r]]; cbn; try discriminate.
  - destruct (heldb st l) eqn:H; [discriminate|]. intros E. inversion E; subst. apply TAcq.
    intros Hh. apply heldb_spec in Hh. congruence.
  - intros E. inversion E; subst. apply TRel.
Qed.
Lemma tstepb_complete st t t' : tstep st t t' -> tstepb st t = Some t'.
Proof.
  intros T. inversion T as [h l r Hn|h l r]; subst; cbn; [|reflexivity].
  destruct (heldb st l) eqn:Hb; [|reflexivity]. apply heldb_spec in Hb. contradiction.
Qed.
Lemma nth_error_split_set {A} (l : list A) i x y :
  nth_error l i = Some x -> exists pre post, l = pre ++ x :: post /\ set_nth i y l = pre ++ y :: post.
Proof.
  revert i. induction l as [|a r IH]; intros [|i]; cbn; try discriminate.
  - intros E. inversion E; subst. exists [], r. split; reflexivity.
  - intros E. destruct (IH i E) as [pre [post [E1 E2]]]. exists (a :: pre), post. cbn. rewrite <- E1, E2. split; reflexivity.
Qed.
Lemma sched_step_sound st i st' : sched_step st i = Some st' -> step st st'.
Proof.
  unfold sched_step. destruct (nth_error st i) as [t|] eqn:N; [|discriminate].
  destruct (tstepb st t) as [t'|] eqn:T; [|discriminate]. intros E. inversion E; subst.
  destruct (nth_error_split_set st i t t' N) as [pre [post [E1 E2]]]. rewrite E2.
  rewrite E1 at 1. apply Step. rewrite <- E1. apply tstepb_sound. exact T.
Qed.
Lemma run_sched_sound st s st' : run_sched st s = Some st' -> exec st st'.
Proof.
  revert st. induction s as [|i r IH]; intros st; cbn.
  - intros E. inversion E. constructor.
  - destruct (sched_step st i) as [st1|] eqn:Hs; [|discriminate]. intros E.
    eapply exec_step; [eapply sched_step_sound; exact Hs | apply IH; exact E].
Qed.
Lemma enabledb_false_stuck st : enabledb st = false -> forall st', ~ step st st'.
Proof.
  intros H st' S. destruct S as [pre t t' post T]. apply tstepb_complete in T.
  assert (enabledb (pre ++ t :: post) = true); [|congruence].
  apply existsb_exists. exists t. split; [apply in_or_app; right; left; reflexivity|]. rewrite T. reflexivity.
Qed.
Lemma all_finishedb_spec st : all_finishedb st = false -> ~ Forall finished st.
Proof.
  intros H F. assert (all_finishedb st = true); [|congruence].
  apply forallb_forall. intros t Ht. rewrite Forall_forall in F. specialize (F t Ht). unfold finished in F. rewrite F. reflexivity.
Qed.

(* a reachable stuck state with unfinished threads = deadlock *)
Lemma deadlock_witness st s st' :
  run_sched st s = Some st' -> enabledb st' = false -> all_finishedb st' = false ->
  exec st st' /\ (forall st'', ~ step st' st'') /\ ~ Forall finished st'.
Proof.
  intros R E F. split; [apply run_sched_sound with s; exact R|]. split; [apply enabledb_false_stuck; exact E | apply all_finishedb_spec; exact F].
Qed.

(* non-vacuity: a disciplined two-thread state *)
Example disciplined_example :
  inv (fun l => l) [([], [Acq 1; Acq 2; Rel 2; Rel 1]); ([], [Acq 2; Rel 2])].
Proof. repeat constructor; cbn; intuition. Qed.
