(* UdpProofs.v — forwarding is sound and complete, invalid datagrams have no effect, the NAT
   table is injective and stable, replies round-trip, the buffer layout never panics
   (C03, C04, C16, C18). *)
From OSS Require Import theories.Base theories.AList theories.IPClass theories.Socks theories.SocksProofs.
From OSS Require Import theories.Crypto theories.CipherList theories.CipherListProofs theories.TcpAuthProofs theories.Udp.
Open Scope N_scope.

Lemma Neqb_spec a b : N.eqb a b = true <-> a = b.
Proof. apply N.eqb_eq. Qed.

Lemma find_entry_udp_sound e pkt snap el pt :
  find_entry_udp e pkt snap = Some (el, pt) -> In el snap /\ unpack e (e_key (snd el)) pkt = Some pt.
Proof.
  induction snap as [|x r IH]; cbn [find_entry_udp]; [discriminate|].
  destruct (unpack e (e_key (snd x)) pkt) as [p|] eqn:U.
  - intros H. inversion H; subst. split; [left; reflexivity | exact U].
  - intros H. destruct (IH H). split; [right; assumption | assumption].
Qed.
Lemma find_entry_udp_none e pkt snap :
  find_entry_udp e pkt snap = None -> forall el, In el snap -> unpack e (e_key (snd el)) pkt = None.
Proof.
  induction snap as [|x r IH]; cbn [find_entry_udp]; [intros _ el []|].
  destruct (unpack e (e_key (snd x)) pkt) eqn:U; [discriminate|]. intros H el [<-|Hin]; [exact U | apply IH; assumption].
Qed.
Lemma find_entry_udp_complete e pkt snap el pt :
  In el snap -> unpack e (e_key (snd el)) pkt = Some pt -> exists el' pt', find_entry_udp e pkt snap = Some (el', pt').
Proof.
  induction snap as [|x r IH]; intros Hin U; [destruct Hin|]. cbn [find_entry_udp].
  destruct (unpack e (e_key (snd x)) pkt) eqn:Ux; [eexists; eexists; reflexivity|].
  destruct Hin as [<-|Hin]; [congruence | apply IH; assumption].
Qed.

(* SOUND: a datagram leaves the proxy only if the client's datagram opened under a configured
   key (new client) or under the association's key (known client) to an address followed by
   exactly that payload, and the destination passed the policy *)
Lemma udp_forward_sound_lemma e ue st ca cip pkt st' evs s dst port payload :
  udp_client_step e ue st ca cip pkt = (st', evs) -> In (USend s dst port payload) evs ->
  exists k pt, unpack e k pkt = Some pt /\ validate_packet ue pt = inl (payload, dst, port) /\
    match alookup N.eqb ca (u_nat st) with
    | Some a => k = as_key a /\ s = as_sock a
    | None => exists ent, In ent (items (u_cl st)) /\ k = e_key ent
    end.
Proof.
  unfold udp_client_step. destruct (alookup N.eqb ca (u_nat st)) as [a|] eqn:L.
  - destruct (unpack e (as_key a) pkt) as [pt|] eqn:U; [|intros H; inversion H; subst; intros [E|[]]; discriminate].
    destruct (validate_packet ue pt) as [[[pl d] po]|code] eqn:V; [destruct (ue_sendable ue d po)|]; intros H; inversion H; subst.
    + intros [E|[E|[]]]; inversion E; subst. exists (as_key a), pt. repeat split; assumption.
    + intros [E|[]]. discriminate.
    + intros [E|[]]. discriminate.
  - destruct (find_entry_udp e pkt (snapshot cip (u_cl st))) as [[el pt]|] eqn:F; [|intros H; inversion H; subst; intros []].
    apply find_entry_udp_sound in F as [Hin U]. apply snapshot_gen in Hin as [_ Hin].
    destruct (validate_packet ue pt) as [[[pl d] po]|code] eqn:V; [destruct (ue_sendable ue d po)|]; intros H; inversion H; subst; [| |intros []].
    + intros [E|[E|[E|[]]]]; inversion E; subst. exists (e_key (snd el)), pt. repeat split; try assumption.
      exists (snd el). split; [exact Hin | reflexivity].
    + intros [E|[E|[]]]; discriminate.
Qed.

(* COMPLETE: a datagram that opens under a configured key (new client) to an allowed address
   creates an association and is forwarded with exactly its payload *)
Lemma udp_forward_complete_lemma e ue st ca cip pkt ent pt payload dst port :
  alookup N.eqb ca (u_nat st) = None ->
  In ent (items (u_cl st)) -> unpack e (e_key ent) pkt = Some pt ->
  (forall k' pt', unpack e k' pkt = Some pt' -> pt' = pt) ->          (* a ciphertext has one plaintext *)
  validate_packet ue pt = inl (payload, dst, port) ->
  ue_sendable ue dst port = true ->                                   (* the kernel accepts the send *)
  exists st' id, udp_client_step e ue st ca cip pkt =
    (st', [UNew ca (u_next st) id; USend (u_next st) dst port payload; UReport (u_next st) us_ok (zlen pkt) (zlen payload)])
    /\ alookup N.eqb ca (u_nat st') <> None.
Proof.
  intros L Hin U Huniq V Hsend. unfold udp_client_step. rewrite L.
  assert (Hsnap : exists el, In el (snapshot cip (u_cl st)) /\ snd el = ent).
  { pose proof (snapshot_permutation_lemma cip (u_cl st)) as P. apply Permutation.Permutation_sym in P.
    pose proof (Permutation.Permutation_in _ P Hin) as H. apply in_map_iff in H as [el [E H]]. exists el. tauto. }
  destruct Hsnap as [el0 [Hin0 E0]]. subst ent.
  destruct (find_entry_udp_complete e pkt _ el0 pt Hin0 U) as (el & pt' & F). rewrite F.
  apply find_entry_udp_sound in F as [_ U']. rewrite (Huniq _ _ U'), V, Hsend.
  eexists; eexists. split; [reflexivity|]. cbn [u_nat].
  rewrite (alookup_app N.eqb), L. cbn. rewrite N.eqb_refl. discriminate.
Qed.

(* INVALID: a datagram from a new client address that opens under no configured key causes no
   outbound traffic, no association, no report, and leaves the whole state unchanged *)
Lemma udp_invalid_no_effect_lemma e ue st ca cip pkt :
  alookup N.eqb ca (u_nat st) = None ->
  (forall ent, In ent (items (u_cl st)) -> unpack e (e_key ent) pkt = None) ->
  udp_client_step e ue st ca cip pkt = (st, []).
Proof.
  intros L Hnone. unfold udp_client_step. rewrite L.
  destruct (find_entry_udp e pkt (snapshot cip (u_cl st))) as [[el pt]|] eqn:F; [|reflexivity].
  apply find_entry_udp_sound in F as [Hin U]. apply snapshot_gen in Hin as [_ Hin]. rewrite (Hnone _ Hin) in U. discriminate.
Qed.

(* every datagram is validated, not only the first of an association *)
Lemma udp_every_datagram_validated_lemma e st ca cip pkt st' evs s dst port payload validate resolve sendable :
  udp_client_step e {| ue_validate := true; ue_resolve := resolve; ue_sendable := sendable |} st ca cip pkt = (st', evs) ->
  In (USend s dst port payload) evs -> validate = true -> require_public dst = Allowed.
Proof.
  intros H Hin _. destruct (udp_forward_sound_lemma _ _ _ _ _ _ _ _ _ _ _ _ H Hin) as (k & pt & _ & V & _).
  unfold validate_packet in V. destruct (split_addr pt) as [[ab pl]|]; [|discriminate].
  destruct (decode_addr ab) as [a|]; [|discriminate]. cbn [ue_resolve ue_validate] in V.
  destruct (match sa_host a with HostV4 x => Some (V4 x) | HostV6 x => Some (V16 x) | HostDomain d => resolve d end) as [i|]; [|discriminate].
  destruct (require_public i) eqn:R; inversion V; subst. exact R.
Qed.

(* --- the NAT table ----------------------------------------------------------------------- *)
Definition nat_inv (st : ustate) : Prop :=
  NoDup (akeys (u_nat st)) /\ NoDup (nat_socks st) /\ Forall (fun s => s < u_next st) (nat_socks st).

Lemma nat_inv_step e ue st ca cip pkt :
  nat_inv st -> nat_inv (fst (udp_client_step e ue st ca cip pkt)).
Proof.
  intros (K & S & B). unfold udp_client_step.
  destruct (alookup N.eqb ca (u_nat st)) as [a|] eqn:L.
  - destruct (unpack e (as_key a) pkt); [destruct (validate_packet ue _) as [[[? ?] ?]|?]|]; cbn [fst]; repeat split; assumption.
  - destruct (find_entry_udp e pkt (snapshot cip (u_cl st))) as [[el pt]|]; [|repeat split; assumption].
    destruct (validate_packet ue pt) as [[[pl d] po]|code]; cbn [fst]; unfold nat_inv, nat_socks, akeys; cbn [u_nat u_next u_cl];
      [|repeat split; assumption].
    rewrite !map_app. cbn [map fst snd as_sock].
    repeat split.
    + apply (NoDup_Add (a:=ca) (l:=map fst (u_nat st))).
      * pose proof (Add_app ca (map fst (u_nat st)) []) as A. rewrite app_nil_r in A. exact A.
      * split; [exact K | apply (alookup_None_notin N.eqb Neqb_spec); exact L].
    + apply (NoDup_Add (a:=u_next st) (l:=map (fun kv => as_sock (snd kv)) (u_nat st))).
      * pose proof (Add_app (u_next st) (map (fun kv : N * assoc => as_sock (snd kv)) (u_nat st)) []) as A. rewrite app_nil_r in A. exact A.
      * split; [exact S|]. intros Hin. rewrite Forall_forall in B. specialize (B _ Hin). lia.
    + apply Forall_app. split; [|constructor; [lia|constructor]].
      rewrite Forall_forall in *. intros x Hx. specialize (B x Hx). lia.
Qed.

Lemma nat_inv_expire st ca : nat_inv st -> nat_inv (udp_expire st ca).
Proof.
  intros (K & S & B). unfold nat_inv, udp_expire, nat_socks. cbn [u_nat u_next].
  split; [apply NoDup_remove; exact K|].
  assert (Sub : forall x, In x (map (fun kv : N * assoc => as_sock (snd kv)) (aremove N.eqb ca (u_nat st))) ->
                          In x (map (fun kv : N * assoc => as_sock (snd kv)) (u_nat st))).
  { intros x Hx. apply in_map_iff in Hx as [kv [E Hin]]. apply filter_In in Hin as [Hin _]. apply in_map_iff. exists kv. tauto. }
  split.
  - clear - S. unfold nat_socks in S. induction (u_nat st) as [|[k a] r IH]; cbn; [constructor|].
    inversion S as [|? ? Hn Hr]; subst. destruct (N.eqb ca k); cbn; [apply IH; exact Hr|].
    constructor; [|apply IH; exact Hr]. intros Hin. apply Hn.
    apply in_map_iff in Hin as [kv [E Hin]]. apply filter_In in Hin as [Hin _]. apply in_map_iff. exists kv. tauto.
  - rewrite Forall_forall in *. intros x Hx. apply B. apply Sub. exact Hx.
Qed.

(* histories of client datagrams and expirations, from any number of clients in any order *)
Inductive uop := OpDgram (ca cip : N) (pkt : list wbyte) | OpExpire (ca : N).
Definition urun_step (e : env) (ue : uenv) (st : ustate) (o : uop) : ustate :=
  match o with
  | OpDgram ca cip pkt => fst (udp_client_step e ue st ca cip pkt)
  | OpExpire ca => udp_expire st ca
  end.

Lemma nat_injective_lemma e ue ops st0 :
  nat_inv st0 -> nat_inv (fold_left (urun_step e ue) ops st0).
Proof.
  revert st0. induction ops as [|o r IH]; intros st0 I; cbn [fold_left]; [exact I|].
  apply IH. destruct o; cbn [urun_step]; [apply nat_inv_step | apply nat_inv_expire]; exact I.
Qed.

(* in every reachable state two different client addresses never share an outbound socket *)
Lemma distinct_clients_distinct_sockets st c1 c2 a1 a2 :
  nat_inv st -> alookup N.eqb c1 (u_nat st) = Some a1 -> alookup N.eqb c2 (u_nat st) = Some a2 ->
  c1 <> c2 -> as_sock a1 <> as_sock a2.
Proof.
  intros (K & S & _) L1 L2 Hne E.
  apply (alookup_In N.eqb Neqb_spec) in L1, L2. unfold nat_socks in S.
  induction (u_nat st) as [|[k a] r IH]; [destruct L1|].
  cbn in S, K. inversion S as [|? ? Hn Hr]; subst. inversion K as [|? ? Kn Kr]; subst.
  destruct L1 as [E1|L1]; destruct L2 as [E2|L2].
  - inversion E1; inversion E2; subst. congruence.
  - inversion E1; subst. apply Hn. apply in_map_iff. exists (c2, a2). split; [cbn; symmetry; exact E | exact L2].
  - inversion E2; subst. apply Hn. apply in_map_iff. exists (c1, a1). split; [cbn; exact E | exact L1].
  - apply IH; assumption.
Qed.

(* while its association exists, every datagram of a client leaves from the same socket, and a
   step of one client never changes another client's association *)
Lemma nat_stable_source_lemma e ue st ca cip pkt a :
  alookup N.eqb ca (u_nat st) = Some a ->
  let '(st', evs) := udp_client_step e ue st ca cip pkt in
  alookup N.eqb ca (u_nat st') = Some a /\ forall s d p pl, In (USend s d p pl) evs -> s = as_sock a.
Proof.
  intros L. unfold udp_client_step. rewrite L.
  destruct (unpack e (as_key a) pkt) as [pt|]; [|split; [exact L | intros s d p pl [E|[]]; discriminate]].
  destruct (validate_packet ue pt) as [[[pl0 d0] p0]|code]; [destruct (ue_sendable ue d0 p0)|]; (split; [exact L|]); intros s d p pl.
  - intros [E|[E|[]]]; inversion E; reflexivity.
  - intros [E|[]]; discriminate.
  - intros [E|[]]; discriminate.
Qed.
Lemma nat_other_client_untouched_lemma e ue st ca cip pkt cb :
  cb <> ca -> alookup N.eqb cb (u_nat (fst (udp_client_step e ue st ca cip pkt))) = alookup N.eqb cb (u_nat st).
Proof.
  intros Hne. unfold udp_client_step. destruct (alookup N.eqb ca (u_nat st)) as [a|] eqn:L.
  - destruct (unpack e (as_key a) pkt); [destruct (validate_packet ue _) as [[[? ?] ?]|?]|]; reflexivity.
  - destruct (find_entry_udp e pkt (snapshot cip (u_cl st))) as [[el pt]|]; [|reflexivity].
    destruct (validate_packet ue pt) as [[[pl d] po]|code]; cbn [fst u_nat]; [|reflexivity].
    rewrite (alookup_app N.eqb). destruct (alookup N.eqb cb (u_nat st)); [reflexivity|]. cbn.
    rewrite (proj2 (N.eqb_neq cb ca) Hne). reflexivity.
Qed.

(* an association (and its socket) is created only by a datagram that authenticated under a
   configured key and whose destination passed the policy *)
Lemma nat_create_guard_lemma e ue st ca cip pkt st' evs s id :
  udp_client_step e ue st ca cip pkt = (st', evs) -> In (UNew ca s id) evs ->
  alookup N.eqb ca (u_nat st) = None /\
  exists ent pt payload dst port, In ent (items (u_cl st)) /\ unpack e (e_key ent) pkt = Some pt /\
     validate_packet ue pt = inl (payload, dst, port) /\ id = e_id ent /\ s = u_next st.
Proof.
  unfold udp_client_step. destruct (alookup N.eqb ca (u_nat st)) as [a|] eqn:L.
  - destruct (unpack e (as_key a) pkt) as [pt|]; [destruct (validate_packet ue pt) as [[[? d0] p0]|?]; [destruct (ue_sendable ue d0 p0)|]|];
      intros H; inversion H; subst; intros Hin; cbn in Hin; repeat (destruct Hin as [Hin|Hin]; try discriminate); destruct Hin.
  - destruct (find_entry_udp e pkt (snapshot cip (u_cl st))) as [[el pt]|] eqn:F; [|intros H; inversion H; subst; intros []].
    apply find_entry_udp_sound in F as [Hin U]. apply snapshot_gen in Hin as [_ Hin].
    destruct (validate_packet ue pt) as [[[pl d] po]|code] eqn:V; [destruct (ue_sendable ue d po)|]; intros H; inversion H; subst; [| |intros []].
    + intros [E|[E|[E|[]]]]; inversion E; subst. split; [reflexivity|].
      exists (snd el), pt, pl, d, po. repeat split; assumption.
    + intros [E|[E|[]]]; inversion E; subst. split; [reflexivity|].
      exists (snd el), pt, pl, d, po. repeat split; assumption.
Qed.

(* --- reports (C16) ------------------------------------------------------------------------- *)
Definition is_report (x : uev) : bool := match x with UReport _ _ _ _ => true | _ => false end.
Definition is_new (x : uev) : bool := match x with UNew _ _ _ => true | _ => false end.
Definition is_send (x : uev) : bool := match x with USend _ _ _ _ => true | _ => false end.
Definition ucount (p : uev -> bool) (l : list uev) : nat := length (filter p l).

Lemma validate_packet_err_not_ok ue pt code : validate_packet ue pt = inr code -> code <> us_ok.
Proof.
  unfold validate_packet. destruct (split_addr pt) as [[ab p2]|]; [|intros H; inversion H; discriminate].
  destruct (decode_addr ab) as [a0|]; [|intros H; inversion H; discriminate].
  destruct (match sa_host a0 with HostV4 x => Some (V4 x) | HostV6 x => Some (V16 x) | HostDomain d => ue_resolve ue d end) as [i|];
    [|intros H; inversion H; discriminate].
  destruct (ue_validate ue); [destruct (require_public i)|]; intros H; inversion H; discriminate.
Qed.

(* case analysis of one Handle iteration: the four shapes the event list can take *)
Lemma udp_step_cases e ue st ca cip pkt :
  let '(st', evs) := udp_client_step e ue st ca cip pkt in
  (* known client *)
  (exists a, alookup N.eqb ca (u_nat st) = Some a /\ alookup N.eqb ca (u_nat st') = Some a /\
     ((exists code, code <> us_ok /\ evs = [UReport (as_sock a) code (zlen pkt) 0]) \/
      (exists d p pl, evs = [USend (as_sock a) d p pl; UReport (as_sock a) us_ok (zlen pkt) (zlen pl)]))) \/
  (* new client, refused: nothing *)
  (alookup N.eqb ca (u_nat st) = None /\ alookup N.eqb ca (u_nat st') = None /\ evs = []) \/
  (* new client, accepted: the association exists; the datagram was sent, or the send failed *)
  (alookup N.eqb ca (u_nat st) = None /\
     exists a d p pl, alookup N.eqb ca (u_nat st') = Some a /\ as_sock a = u_next st /\
       (evs = [UNew ca (as_sock a) (as_id a); USend (as_sock a) d p pl; UReport (as_sock a) us_ok (zlen pkt) (zlen pl)] \/
        evs = [UNew ca (as_sock a) (as_id a); UReport (as_sock a) us_write (zlen pkt) 0])).
Proof.
  unfold udp_client_step. destruct (alookup N.eqb ca (u_nat st)) as [a|] eqn:L.
  - destruct (unpack e (as_key a) pkt) as [pt|].
    + destruct (validate_packet ue pt) as [[[pl d] po]|code] eqn:V; [destruct (ue_sendable ue d po)|]; left; exists a; (split; [reflexivity|]); (split; [exact L|]).
      * right. exists d, po, pl. reflexivity.
      * left. exists us_write. split; [discriminate | reflexivity].
      * left. exists code. split; [eapply validate_packet_err_not_ok; exact V | reflexivity].
    + left. exists a. split; [reflexivity|]. split; [exact L|]. left. exists us_cipher. split; [discriminate|reflexivity].
  - destruct (find_entry_udp e pkt (snapshot cip (u_cl st))) as [[el pt]|].
    + destruct (validate_packet ue pt) as [[[pl d] po]|code]; right.
      * right. split; [reflexivity|]. exists {| as_sock := u_next st; as_key := e_key (snd el); as_id := e_id (snd el) |}, d, po, pl.
        cbn [u_nat as_sock as_id]. rewrite (alookup_app N.eqb), L. cbn. rewrite N.eqb_refl.
        split; [reflexivity|]. split; [reflexivity|]. destruct (ue_sendable ue d po); [left|right]; reflexivity.
      * left. cbn [u_nat]. split; [reflexivity|]. split; [exact L | reflexivity].
    + right. left. split; [reflexivity|]. split; [exact L | reflexivity].
Qed.

(* every datagram that creates or arrives on an association is reported exactly once with its
   wire size on that association; a datagram is sent at most once, exactly when the report says
   OK, and the report then carries the payload size; datagrams that create no association
   produce no report at all; an association is reported added exactly when it is created *)
Lemma udp_report_shape_lemma e ue st ca cip pkt :
  let '(st', evs) := udp_client_step e ue st ca cip pkt in
  (ucount is_report evs <= 1)%nat /\ (ucount is_send evs <= 1)%nat /\ (ucount is_new evs <= 1)%nat /\
  (ucount is_report evs = 1%nat <-> alookup N.eqb ca (u_nat st') <> None) /\
  (forall s code cb pb, In (UReport s code cb pb) evs -> cb = zlen pkt /\
      (exists a, alookup N.eqb ca (u_nat st') = Some a /\ s = as_sock a) /\
      (code = us_ok <-> ucount is_send evs = 1%nat) /\
      (forall s' d p pl, In (USend s' d p pl) evs -> pb = zlen pl /\ s' = s)) /\
  (ucount is_new evs = 1%nat <-> alookup N.eqb ca (u_nat st) = None /\ alookup N.eqb ca (u_nat st') <> None).
Proof.
  pose proof (udp_step_cases e ue st ca cip pkt) as C.
  destruct (udp_client_step e ue st ca cip pkt) as [st' evs].
  destruct C as [(a & L & L' & [(code & Hc & ->)|(d & p & pl & ->)])|[(L & L' & ->)|(L & a & d & p & pl & L' & Hs & [->| ->])]];
    cbn [ucount filter is_report is_send is_new length]; rewrite ?L, ?L'.
  - split; [lia|]. split; [lia|]. split; [lia|]. split; [split; [discriminate|reflexivity]|]. split.
    + intros s0 c0 cb0 pb0 [E|[]]. inversion E; subst. split; [reflexivity|]. split; [exists a; split; reflexivity|].
      split; [split; [intros ->; contradiction | discriminate]|]. intros s1 d1 p1 pl1 [E1|[]]. discriminate.
    + split; [discriminate | intros [H _]; discriminate].
  - split; [lia|]. split; [lia|]. split; [lia|]. split; [split; [discriminate|reflexivity]|]. split.
    + intros s0 c0 cb0 pb0 [E|[E|[]]]; inversion E; subst. split; [reflexivity|]. split; [exists a; split; reflexivity|].
      split; [split; reflexivity|]. intros s1 d1 p1 pl1 [E1|[E1|[]]]; inversion E1; subst. split; reflexivity.
    + split; [discriminate | intros [H _]; discriminate].
  - split; [lia|]. split; [lia|]. split; [lia|]. split; [split; [discriminate | intros H; exfalso; apply H; reflexivity]|]. split.
    + intros s0 c0 cb0 pb0 [].
    + split; [discriminate | intros [_ H]; exfalso; apply H; reflexivity].
  - split; [lia|]. split; [lia|]. split; [lia|]. split; [split; [discriminate|reflexivity]|]. split.
    + intros s0 c0 cb0 pb0 [E|[E|[E|[]]]]; inversion E; subst. split; [reflexivity|]. split; [exists a; split; reflexivity|].
      split; [split; reflexivity|]. intros s1 d1 p1 pl1 [E1|[E1|[E1|[]]]]; inversion E1; subst. split; reflexivity.
    + split; [intros _; split; [reflexivity|discriminate] | reflexivity].
  - split; [lia|]. split; [lia|]. split; [lia|]. split; [split; [discriminate|reflexivity]|]. split.
    + intros s0 c0 cb0 pb0 [E|[E|[]]]; inversion E; subst. split; [reflexivity|]. split; [exists a; split; reflexivity|].
      split; [split; [discriminate | discriminate]|]. intros s1 d1 p1 pl1 [E1|[E1|[]]]; discriminate.
    + split; [intros _; split; [reflexivity|discriminate] | reflexivity].
Qed.

(* --- reply path ----------------------------------------------------------------------------- *)
(* the buffer layout never panics: for every source address form the fix admits (7 or 19 bytes),
   every body that fits the read buffer and every cipher *)
Lemma layout_no_panic_lemma c addr_len body_len :
  (0 <= addr_len)%Z -> (0 <= body_len)%Z ->
  (body_len <= buf_size - (Z.of_nat (salt_size c) + max_addr_len))%Z ->
  layout (Z.of_nat (salt_size c)) addr_len body_len <> Panic.
Proof.
  intros Ha Hb Hfit. unfold layout.
  destruct (Z.ltb_spec (buf_size - (Z.of_nat (salt_size c) + max_addr_len)) body_len); [lia|].
  destruct (Z.ltb_spec max_addr_len addr_len); [discriminate|].
  destruct (Z.ltb_spec (Z.of_nat (salt_size c) + max_addr_len - addr_len - Z.of_nat (salt_size c)) 0); [lia|].
  destruct (_ <? _)%Z; discriminate.
Qed.

Lemma reply_addr_len i port ab : reply_addr i port = Some ab -> (zlen ab = 7 \/ zlen ab = 19)%Z.
Proof.
  unfold reply_addr, zlen. destruct i as [x|x|]; [| |discriminate].
  - intros H. inversion H. left. reflexivity.
  - destruct (to4 (V16 x)); intros H; inversion H; [left|right]; reflexivity.
Qed.

(* ROUND TRIP: the datagram sent to the client opens under the association's key to the true
   sender address (7-byte IPv4 form or 19-byte IPv6 form) followed by the unmodified body, and
   goes to the owner of the socket and to nobody else *)
Lemma udp_reply_roundtrip_lemma e st sock src port body salt sid e' ca dgram stc tb cb :
  lookupN sid (seals e) = None ->
  udp_reply e st sock src port body salt sid = (e', Ok (ReplySent ca dgram stc tb cb)) ->
  exists a ab, In (ca, a) (u_nat st) /\ as_sock a = sock /\ reply_addr src port = Some ab /\
    dgram = salt ++ seal_wire sid (length (ab ++ body)) (tag_size (k_cipher (as_key a))) /\
    (length salt = salt_size (k_cipher (as_key a)) -> unpack e' (as_key a) dgram = Some (ab ++ body)) /\
    split_addr (ab ++ body) = Some (ab, body) /\ tb = zlen body /\ cb = zlen dgram.
Proof.
  intros Hfresh. unfold udp_reply.
  destruct (find (fun kv => N.eqb (as_sock (snd kv)) sock) (u_nat st)) as [[c a]|] eqn:F; [|intros H; inversion H].
  apply find_some in F as [Hin Hs]. cbn in Hs. apply N.eqb_eq in Hs.
  destruct (reply_addr src port) as [ab|] eqn:RA; [|intros H; inversion H].
  destruct (layout _ _ _) as [[ss| |]|]; intros H; inversion H; subst; clear H.
  exists a, ab. split; [exact Hin|]. split; [reflexivity|]. split; [reflexivity|]. split; [reflexivity|].
  split; [|split; [|split; reflexivity]].
  - intros Hsalt. apply unpack_sealed; [|exact Hsalt]. cbn [seals lookupN]. rewrite N.eqb_refl. reflexivity.
  - unfold reply_addr in RA. destruct atyp_distinct_lemma as (N1 & N2 & N3).
    destruct src as [x|x|]; [| |discriminate].
    + inversion RA. apply (split_encode_lemma {| sa_host := HostV4 x; sa_port := port |} body I N1 N2 N3).
    + destruct (to4 (V16 x)); inversion RA;
        [apply (split_encode_lemma {| sa_host := HostV4 n; sa_port := port |} body I N1 N2 N3)
        | apply (split_encode_lemma {| sa_host := HostV6 x; sa_port := port |} body I N1 N2 N3)].
Qed.

(* replies never panic: every sender address, every body that fits the read buffer *)
Lemma udp_reply_no_panic_lemma e st sock src port body salt sid :
  (zlen body <= buf_size - 51)%Z -> snd (udp_reply e st sock src port body salt sid) <> Panic.
Proof.
  intros Hb. unfold udp_reply.
  destruct (find _ (u_nat st)) as [[c a]|]; [|cbn; discriminate].
  destruct (reply_addr src port) as [ab|] eqn:RA; [|cbn; discriminate].
  pose proof (layout_no_panic_lemma (k_cipher (as_key a)) (zlen ab) (zlen body)) as NP.
  destruct (sizes (k_cipher (as_key a))) as (_ & S2 & _).
  destruct (layout _ _ _) as [[ss| |]|] eqn:Ly; try (cbn; discriminate).
  exfalso. apply NP; try (unfold zlen; lia); [|reflexivity].
  change max_addr_len with 19%Z. lia.
Qed.

(* a datagram valid under a configured key whose send the kernel refuses (port 0, unreachable
   family): the association is created all the same, nothing leaves, and the failure is reported
   on it with 0 payload bytes — so the association is subject to the ordinary expiry (C14, C16) *)
Lemma udp_send_failure_lemma e ue st ca cip pkt ent pt payload dst port :
  alookup N.eqb ca (u_nat st) = None ->
  In ent (items (u_cl st)) -> unpack e (e_key ent) pkt = Some pt ->
  (forall k' pt', unpack e k' pkt = Some pt' -> pt' = pt) ->
  validate_packet ue pt = inl (payload, dst, port) ->
  ue_sendable ue dst port = false ->
  exists st' id, udp_client_step e ue st ca cip pkt =
    (st', [UNew ca (u_next st) id; UReport (u_next st) us_write (zlen pkt) 0])
    /\ alookup N.eqb ca (u_nat st') <> None.
Proof.
  intros L Hin U Huniq V Hsend. unfold udp_client_step. rewrite L.
  assert (Hsnap : exists el, In el (snapshot cip (u_cl st)) /\ snd el = ent).
  { pose proof (snapshot_permutation_lemma cip (u_cl st)) as P. apply Permutation.Permutation_sym in P.
    pose proof (Permutation.Permutation_in _ P Hin) as H. apply in_map_iff in H as [el [E H]]. exists el. tauto. }
  destruct Hsnap as [el0 [Hin0 E0]]. subst ent.
  destruct (find_entry_udp_complete e pkt _ el0 pt Hin0 U) as (el & pt' & F). rewrite F.
  apply find_entry_udp_sound in F as [_ U']. rewrite (Huniq _ _ U'), V, Hsend.
  eexists; eexists. split; [reflexivity|]. cbn [u_nat].
  rewrite (alookup_app N.eqb), L. cbn. rewrite N.eqb_refl. discriminate.
Qed.
