(* ListenersProofs.v — for every interleaving of acquire / close / accept calls and arriving
   connections: each connection is in exactly one place, delivered at most once, never to a
   handle whose accept started after its Close; closing is isolated; after the last Close the
   socket is released and no accepted connection is left hanging (C12). *)
From OSS Require Import theories.Base theories.Listeners.
From Coq Require Import Permutation.

Lemma existsb_In s l : existsb (N.eqb s) l = true <-> In s l.
Proof. rewrite existsb_exists. split; [intros [x [H E]]; apply N.eqb_eq in E; subst; exact H | intros H; exists s; split; [exact H | apply N.eqb_refl]]. Qed.
Lemma hupd_same f h v : hupd f h v h = v.
Proof. unfold hupd. rewrite N.eqb_refl. reflexivity. Qed.
Lemma hupd_other f h v x : x <> h -> hupd f h v x = f x.
Proof. intros H. unfold hupd. apply N.eqb_neq in H. rewrite H. reflexivity. Qed.

Lemma count_open_notin f h v ids : ~ In h ids -> count_open (hupd f h v) ids = count_open f ids.
Proof.
  unfold count_open. induction ids as [|x r IH]; intros Hn; cbn; [reflexivity|].
  rewrite hupd_other by (intros ->; apply Hn; left; reflexivity).
  destruct (h_closed (f x)); cbn; rewrite IH by (intros H; apply Hn; right; exact H); reflexivity.
Qed.
Lemma count_open_upd f h v ids :
  NoDup ids -> In h ids ->
  count_open (hupd f h v) ids + (if h_closed (f h) then 0 else 1) = count_open f ids + (if h_closed v then 0 else 1).
Proof.
  unfold count_open. induction ids as [|x r IH]; intros ND Hin; [destruct Hin|].
  inversion ND as [|? ? Hn Hr]; subst. cbn [filter].
  destruct Hin as [->|Hin].
  - rewrite hupd_same. fold (count_open (hupd f h v) r). fold (count_open f r). 
    pose proof (count_open_notin f h v r Hn) as C. unfold count_open in C.
    destruct (h_closed v), (h_closed (f h)); cbn [negb length]; rewrite C; lia.
  - assert (x <> h) by (intros ->; contradiction). rewrite hupd_other by assumption.
    specialize (IH Hr Hin). destruct (h_closed (f x)); cbn [negb length]; lia.
Qed.
Lemma count_open_app f ids h : count_open f (ids ++ [h]) = count_open f ids + (if h_closed (f h) then 0 else 1).
Proof. unfold count_open. rewrite filter_app, app_length. cbn. destruct (h_closed (f h)); reflexivity. Qed.

(* --- invariant ------------------------------------------------------------------------------ *)
Definition inv (s : sl) : Prop :=
  Permutation (whereabouts s) (arrived s) /\ NoDup (arrived s) /\
  count s = open_handles s /\
  (sock s = Open <-> 0 < count s) /\
  (sock s = Unbound -> g s = GNone /\ handles s = [] /\ arrived s = []) /\
  (done s = true <-> sock s = Closed) /\
  (g s = GNone -> sock s = Unbound) /\
  (ch_closed s = true -> g s = GExited) /\
  (g s = GExited -> sock s = Closed) /\
  (sock s = Closed -> kq s = []) /\
  NoDup (handles s) /\
  (forall h c, In (h, c) (delivered s) -> In h (handles s)).

Lemma inv0 : inv sl0.
Proof.
  unfold inv, whereabouts, held, open_handles, count_open. cbn.
  repeat split; try apply NoDup_nil; try apply perm_nil; try discriminate; try tauto; try lia.
Qed.

Ltac inv_destruct I :=
  destruct I as (IP & IND & IC & IO & IU & ID & IGN & ICH & IGE & IKQ & IH & IDL).

Lemma perm_move_last (a b : list N) c : Permutation (a ++ c :: b) (a ++ b ++ [c]).
Proof. apply Permutation_app_head. change (c :: b) with ([c] ++ b). apply Permutation_app_comm. Qed.

Lemma NoDup_snoc (l : list N) x : NoDup l -> ~ In x l -> NoDup (l ++ [x]).
Proof.
  intros ND Hn. apply (NoDup_Add (a:=x) (l:=l)); [pose proof (Add_app x l []) as A; rewrite app_nil_r in A; exact A | tauto].
Qed.

Ltac gen := repeat split; try discriminate; try tauto; try lia; try assumption; try apply perm_nil; try apply NoDup_nil.
Ltac unf := unfold inv, with_hstate, whereabouts, held, open_handles in *;
            cbn [sock kq g ch_closed done count handles hstate arrived delivered srv_closed] in *.
Ltac left_over := match goal with |- ?g => fail 1 "LEFT" g end.

Lemma t_acquire s h s' : inv s -> step s (Acquire h) = Some s' -> inv s'.
Proof.
  intros I S. inv_destruct I. cbn [step] in S.
  destruct (has_handle s h) eqn:Hh; [discriminate|].
  assert (Hn : ~ In h (handles s)) by (intros H; apply existsb_In in H; unfold has_handle in Hh; congruence).
  assert (Cz : sock s = Closed -> count s = 0).
  { intros Sc. destruct (count s) eqn:Cn; [reflexivity|]. exfalso. assert (sock s = Open) by (apply IO; lia). congruence. }
  destruct (sock s) eqn:Sk; [| |destruct (g s) eqn:G; try discriminate]; inversion S; subst; clear S.
  3: { (* new generation on a released address *)
    specialize (Cz eq_refl).
    unf. rewrite ?G in *. unf. pose proof (IKQ eq_refl) as K0. rewrite K0 in IP. cbn [app] in IP. gen.
    + rewrite count_open_app, hupd_same, count_open_notin by exact Hn. cbn. lia.
    + apply NoDup_snoc; assumption.
    + intros h0 c0 Hd. apply in_or_app. left. eapply IDL. exact Hd. }
  - destruct (IU eq_refl) as (G0 & H0 & A0). unfold whereabouts, held in IP. rewrite G0 in IP.
    assert (Ekq : kq s = [] /\ delivered s = [] /\ srv_closed s = []).
    { rewrite A0 in IP. apply Permutation_sym in IP. apply Permutation_nil in IP. cbn in IP.
      destruct (kq s); [|discriminate]. cbn in IP. destruct (delivered s); [|discriminate]. cbn in IP. tauto. }
    destruct Ekq as (E1 & E2 & E3). unf. rewrite H0, A0, E2, E3. cbn. gen.
    + unfold count_open. cbn. rewrite hupd_same. reflexivity.
    + constructor; [intros []|constructor].
  - unf. gen.
    + rewrite count_open_app, hupd_same, count_open_notin by exact Hn. cbn. lia.
    + apply NoDup_snoc; assumption.
    + intros h0 c0 Hd. apply in_or_app. left. eapply IDL. exact Hd.
Qed.

Lemma t_arrive s c s' : inv s -> step s (Arrive c) = Some s' -> inv s'.
Proof.
  intros I S. inv_destruct I. cbn [step] in S.
  destruct (sock s) eqn:Sk; try discriminate. destruct (existsb (N.eqb c) (arrived s)) eqn:Ea; [discriminate|].
  assert (Hn : ~ In c (arrived s)) by (intros H; apply existsb_In in H; congruence).
  inversion S; subst; clear S. unf. gen.
  - rewrite <- app_assoc. eapply Permutation_trans; [apply perm_move_last|].
    rewrite !app_assoc. apply Permutation_app_tail. rewrite <- !app_assoc. exact IP.
  - apply NoDup_snoc; assumption.
Qed.

Lemma t_gaccept s s' : inv s -> step s GAccept = Some s' -> inv s'.
Proof.
  intros I S. inv_destruct I. cbn [step] in S.
  destruct (g s) eqn:G; try discriminate. destruct (sock s) eqn:Sk; try discriminate.
  destruct (kq s) as [|c1 r] eqn:K; [discriminate|]. inversion S; subst; clear S. unf. rewrite ?G, ?K in *. unf. gen.
  - cbn [app] in IP |- *. eapply Permutation_trans; [|exact IP]. apply Permutation_sym. apply Permutation_middle.
  - intros Hx. apply ICH in Hx. discriminate.
Qed.

Lemma t_gsees s s' : inv s -> step s GSeesClosed = Some s' -> inv s'.
Proof.
  intros I S. inv_destruct I. cbn [step] in S.
  destruct (g s) eqn:G; try discriminate. destruct (sock s) eqn:Sk; try discriminate.
  inversion S; subst; clear S. unf. rewrite ?G in *. unf. gen.
  all: left_over.
Qed.

Lemma count_open_same f h v ids :
  NoDup ids -> In h ids -> h_closed v = h_closed (f h) -> count_open (hupd f h v) ids = count_open f ids.
Proof. intros ND Hin E. pose proof (count_open_upd f h v ids ND Hin) as C. rewrite E in C. lia. Qed.

Ltac side :=
  first
  [ solve [intuition congruence]
  | solve [intuition lia]
  | solve [rewrite count_open_same by (try assumption; cbn; congruence); assumption]
  | solve [intros; match goal with H : _ <-> (0 < _) |- _ => apply H; lia end] ].

Lemma t_deliver s h s' : inv s -> step s (Deliver h) = Some s' -> inv s'.
Proof.
  intros I S. inv_destruct I. cbn [step] in S.
  destruct (g s) as [| |c1|] eqn:G; try discriminate.
  destruct (has_handle s h && h_pending (hstate s h)) eqn:C; [|discriminate]. apply andb_true_iff in C as [C1 C2].
  apply existsb_In in C1. inversion S; subst; clear S. unf. rewrite ?G in *. unf. gen; try side.
  - rewrite map_app. cbn [map snd app]. eapply Permutation_trans; [|exact IP]. apply Permutation_app_head. cbn [app].
    rewrite <- app_assoc. cbn [app]. apply Permutation_sym. apply Permutation_middle.
  - intros h0 c0 Hd. apply in_app_or in Hd as [Hd|[E|[]]]; [eapply IDL; exact Hd | inversion E; subst; exact C1].
Qed.

Lemma t_gorphan s s' : inv s -> step s GOrphan = Some s' -> inv s'.
Proof.
  intros I S. inv_destruct I. cbn [step] in S.
  destruct (g s) as [| |c1|] eqn:G; try discriminate. destruct (done s) eqn:D; [|discriminate].
  inversion S; subst; clear S. unf. rewrite ?G in *. unf. assert (Sk : sock s = Closed) by (apply ID; reflexivity). gen; try side.
  - cbn [app]. eapply Permutation_trans; [|exact IP]. cbn [app]. apply Permutation_app_head.
    rewrite app_assoc. eapply Permutation_trans; [apply Permutation_sym, Permutation_middle|]. rewrite app_nil_r. reflexivity.
Qed.

Lemma t_acall s h s' : inv s -> step s (AcceptCall h) = Some s' -> inv s'.
Proof.
  intros I S. inv_destruct I. cbn [step] in S.
  destruct (has_handle s h && negb (h_pending (hstate s h)) && negb (h_closed (hstate s h))) eqn:C; [|discriminate].
  apply andb_true_iff in C as [C C3]. apply andb_true_iff in C as [C1 C2]. apply existsb_In in C1.
  apply negb_true_iff in C3. inversion S; subst; clear S. unf. gen; try side.
  all: left_over.
Qed.

Lemma t_aret s h s' : inv s -> step s (AcceptRetClosed h) = Some s' -> inv s'.
Proof.
  intros I S. inv_destruct I. cbn [step] in S.
  destruct (has_handle s h && h_pending (hstate s h) && (h_closed (hstate s h) || ch_closed s)) eqn:C; [|discriminate].
  apply andb_true_iff in C as [C _]. apply andb_true_iff in C as [C1 _]. apply existsb_In in C1.
  inversion S; subst; clear S. unf. gen; try side.
  all: left_over.
Qed.

Lemma t_close s h s' : inv s -> step s (CloseH h) = Some s' -> inv s'.
Proof.
  intros I S. inv_destruct I. cbn [step] in S.
  destruct (has_handle s h && negb (h_closed (hstate s h))) eqn:C; [|discriminate].
  apply andb_true_iff in C as [C1 C2]. apply existsb_In in C1. apply negb_true_iff in C2.
  pose proof (count_open_upd (hstate s) h {| h_closed := true; h_pending := h_pending (hstate s h) |} (handles s) IH C1) as CU.
  cbn [h_closed] in CU. rewrite C2 in CU. unfold open_handles in IC.
  destruct (count s) as [|[|n]] eqn:Cn; [discriminate| |]; inversion S; subst; clear S; unf.
  - assert (Sk : sock s = Open) by (apply IO; lia). gen; try side.
    all: try (match goal with |- Permutation _ _ =>
      cbn [app]; eapply Permutation_trans; [|exact IP];
      rewrite !app_assoc; eapply Permutation_trans; [apply Permutation_app_comm|]; rewrite <- !app_assoc; reflexivity end).
    all: left_over.
  - gen; try side. all: left_over.
Qed.

Lemma inv_step s l s' : inv s -> step s l = Some s' -> inv s'.
Proof.
  intros I S. destruct l as [h|c| | |h| |h|h|h].
  - eapply t_acquire; eassumption.
  - eapply t_arrive; eassumption.
  - eapply t_gaccept; eassumption.
  - eapply t_gsees; eassumption.
  - eapply t_deliver; eassumption.
  - eapply t_gorphan; eassumption.
  - eapply t_acall; eassumption.
  - eapply t_aret; eassumption.
  - eapply t_close; eassumption.
Qed.

Lemma inv_run tr : forall s s', inv s -> run s tr = Some s' -> inv s'.
Proof.
  induction tr as [|l t IH]; intros s s' I R; cbn in R; [inversion R; subst; exact I|].
  destruct (step s l) as [s1|] eqn:S; [|discriminate]. apply (IH s1); [eapply inv_step; eassumption | exact R].
Qed.

Lemma NoDup_app_parts {A} (a b : list A) : NoDup (a ++ b) -> NoDup a /\ NoDup b.
Proof.
  induction a as [|x a IH]; cbn; intros H; [split; [constructor|exact H]|].
  inversion H as [|? ? Hn Hr]; subst. destruct (IH Hr) as [Ha Hb]. split; [|exact Hb].
  constructor; [|exact Ha]. intros Hin. apply Hn. apply in_or_app. left. exact Hin.
Qed.

(* EXACTLY ONCE: after any interleaving, every connection that reached the socket is in exactly
   one place — kernel queue, held by the accept goroutine, delivered to one handle, or closed by
   the server — and no connection is delivered twice *)
Lemma exactly_one_place_lemma tr s :
  run sl0 tr = Some s ->
  Permutation (kq s ++ held s ++ map snd (delivered s) ++ srv_closed s) (arrived s) /\
  NoDup (kq s ++ held s ++ map snd (delivered s) ++ srv_closed s) /\
  NoDup (map snd (delivered s)).
Proof.
  intros R. pose proof (inv_run tr sl0 s inv0 R) as I. inv_destruct I. unfold whereabouts in IP.
  assert (ND : NoDup (kq s ++ held s ++ map snd (delivered s) ++ srv_closed s)).
  { eapply Permutation_NoDup; [apply Permutation_sym; exact IP | exact IND]. }
  split; [exact IP|]. split; [exact ND|].
  apply NoDup_app_parts in ND as [_ ND]. apply NoDup_app_parts in ND as [_ ND]. apply NoDup_app_parts in ND as [ND _]. exact ND.
Qed.

(* never lost while a handle is open: while some handle is open the socket is open (connections
   keep being queued and can be accepted); nothing is dropped on the way *)
Lemma open_while_handle_open_lemma tr s :
  run sl0 tr = Some s -> (0 < open_handles s <-> sock s = Open) /\ count s = open_handles s.
Proof.
  intros R. pose proof (inv_run tr sl0 s inv0 R) as I. inv_destruct I. rewrite <- IC. split; [split; apply IO | reflexivity].
Qed.

(* CLOSED HANDLES: a handle that is closed and has no call in progress can never be delivered a
   connection again, whatever happens next; an accept started on it fails at once *)
Definition dead (s : sl) (h : N) : Prop :=
  In h (handles s) /\ h_closed (hstate s h) = true /\ h_pending (hstate s h) = false.
Lemma dead_step s l s' h : dead s h -> step s l = Some s' -> dead s' h /\ l <> Deliver h /\ l <> AcceptCall h.
Proof.
  intros (Din & Dc & Dp) S. destruct l as [h0|c| | |h0| |h0|h0|h0]; cbn [step] in S.
  - destruct (has_handle s h0) eqn:Hh; [discriminate|].
    assert (Hne : h <> h0).
    { intros ->. unfold has_handle in Hh. assert (existsb (N.eqb h0) (handles s) = true) by (apply existsb_In; exact Din). congruence. }
    destruct (sock s); [| |destruct (g s); try discriminate]; inversion S; subst; clear S; unfold dead; cbn [hstate handles];
      rewrite hupd_other by exact Hne; (split; [|split; discriminate]); (split; [apply in_or_app; left; exact Din | tauto]).
  - destruct (sock s); try discriminate. destruct (existsb _ _); [discriminate|]. inversion S; subst. unfold dead. cbn. repeat split; try assumption; discriminate.
  - destruct (g s); try discriminate. destruct (sock s); try discriminate. destruct (kq s); [discriminate|]. inversion S; subst.
    unfold dead. cbn. repeat split; try assumption; discriminate.
  - destruct (g s); try discriminate. destruct (sock s); try discriminate. inversion S; subst. unfold dead. cbn. repeat split; try assumption; discriminate.
  - destruct (g s) as [| |c1|]; try discriminate.
    destruct (has_handle s h0 && h_pending (hstate s h0)) eqn:C; [|discriminate]. apply andb_true_iff in C as [_ C2].
    inversion S; subst; clear S. unfold dead; cbn [hstate handles].
    destruct (N.eqb_spec h h0) as [->|Hne]; [congruence|]. rewrite hupd_other by exact Hne. repeat split; try assumption; try discriminate. congruence.
  - destruct (g s); try discriminate. destruct (done s); [|discriminate]. inversion S; subst. unfold dead. cbn. repeat split; try assumption; discriminate.
  - destruct (has_handle s h0 && negb (h_pending (hstate s h0)) && negb (h_closed (hstate s h0))) eqn:C; [|discriminate].
    apply andb_true_iff in C as [_ C3]. apply negb_true_iff in C3. inversion S; subst; clear S.
    unfold dead, with_hstate; cbn [hstate handles]. destruct (N.eqb_spec h h0) as [->|Hne]; [congruence|]. rewrite hupd_other by exact Hne.
    repeat split; try assumption; try discriminate. congruence.
  - destruct (has_handle s h0 && h_pending (hstate s h0) && (h_closed (hstate s h0) || ch_closed s)) eqn:C; [|discriminate].
    apply andb_true_iff in C as [C _]. apply andb_true_iff in C as [_ C2]. inversion S; subst; clear S.
    unfold dead, with_hstate; cbn [hstate handles]. destruct (N.eqb_spec h h0) as [->|Hne]; [congruence|]. rewrite hupd_other by exact Hne.
    repeat split; try assumption; discriminate.
  - destruct (has_handle s h0 && negb (h_closed (hstate s h0))) eqn:C; [|discriminate].
    apply andb_true_iff in C as [_ C2]. apply negb_true_iff in C2.
    destruct (count s) as [|[|n]]; [discriminate| |]; inversion S; subst; clear S; unfold dead; cbn [hstate handles];
      (destruct (N.eqb_spec h h0) as [->|Hne]; [congruence|]); rewrite hupd_other by exact Hne; repeat split; try assumption; discriminate.
Qed.

(* ... hence along ANY continuation no connection is delivered to it and no accept on it blocks *)
Lemma closed_handle_fails_lemma tr : forall s s' h,
  dead s h -> run s tr = Some s' -> dead s' h /\ ~ In (Deliver h) tr /\ ~ In (AcceptCall h) tr.
Proof.
  induction tr as [|l t IH]; intros s s' h D R; cbn in R.
  - inversion R; subst. split; [exact D|]. split; intros [].
  - destruct (step s l) as [s1|] eqn:S; [|discriminate].
    destruct (dead_step s l s1 h D S) as (D1 & N1 & N2). destruct (IH s1 s' h D1 R) as (D2 & N3 & N4).
    split; [exact D2|]. split; (intros [E|Hin]; [congruence|contradiction]).
Qed.

(* Close makes the handle dead as soon as its pending call (if any) has returned, and it is
   isolated: other handles, what was delivered, and — unless it was the last — the socket, the
   kernel queue and the accept goroutine are untouched *)
Lemma close_isolated_lemma s h s' :
  step s (CloseH h) = Some s' ->
  h_closed (hstate s' h) = true /\
  (forall x, x <> h -> hstate s' x = hstate s x) /\ delivered s' = delivered s /\ arrived s' = arrived s /\ handles s' = handles s /\
  (1 < count s -> sock s' = sock s /\ kq s' = kq s /\ g s' = g s /\ srv_closed s' = srv_closed s) /\
  (count s = 1 -> sock s' = Closed /\ done s' = true /\ kq s' = [] /\ srv_closed s' = srv_closed s ++ kq s).
Proof.
  cbn [step]. destruct (has_handle s h && negb (h_closed (hstate s h))); [|discriminate].
  destruct (count s) as [|[|n]] eqn:Cn; [discriminate| |]; intros S; inversion S; subst; clear S;
    cbn [hstate delivered arrived handles sock kq g srv_closed done]; rewrite hupd_same; cbn [h_closed];
    (split; [reflexivity|]); (split; [intros x Hx; apply hupd_other; exact Hx|]); repeat split; try reflexivity; try lia.
Qed.

(* LAST CLOSE: in every reachable state in which no handle is open and the accept goroutine has
   nothing left to do, the socket is released (closed, so the address can be bound again), the
   goroutine has exited, and every connection that ever arrived was either delivered to a handle
   or closed by the server: none is left hanging *)
Lemma last_close_releases_lemma tr s :
  run sl0 tr = Some s -> count s = 0 -> handles s <> [] -> g_enabled s = false ->
  sock s = Closed /\ g s = GExited /\ kq s = [] /\ held s = [] /\
  Permutation (map snd (delivered s) ++ srv_closed s) (arrived s).
Proof.
  intros R C0 Hh Ge. pose proof (inv_run tr sl0 s inv0 R) as I. inv_destruct I.
  assert (Sk : sock s = Closed).
  { destruct (sock s) eqn:Sk; [|exfalso|reflexivity].
    - destruct (IU eq_refl) as (_ & H0 & _). contradiction.
    - assert (0 < count s) by (apply IO; reflexivity). lia. }
  assert (Dn : done s = true) by (apply ID; exact Sk).
  unfold g_enabled in Ge. rewrite Sk, Dn in Ge.
  destruct (g s) as [| |c|] eqn:G.
  - pose proof (IGN eq_refl) as U. congruence.
  - discriminate.
  - cbn in Ge. discriminate.
  - unfold whereabouts, held in IP. rewrite G in IP. rewrite (IKQ Sk) in IP. cbn in IP.
    split; [exact Sk|]. split; [reflexivity|]. split; [apply IKQ; exact Sk|]. split; [unfold held; rewrite G; reflexivity | exact IP].
Qed.

(* the accept goroutine always gets there: from any reachable state with no handle open, at most
   two of its own steps lead to the state above *)
Lemma g_finishes_lemma tr s :
  run sl0 tr = Some s -> count s = 0 -> handles s <> [] ->
  exists gs s', run s gs = Some s' /\ length gs <= 1 /\ g s' = GExited /\
               Forall (fun l => l = GSeesClosed \/ l = GOrphan) gs.
Proof.
  intros R C0 Hh. pose proof (inv_run tr sl0 s inv0 R) as I. inv_destruct I.
  assert (Sk : sock s = Closed).
  { destruct (sock s) eqn:Sk; [|exfalso|reflexivity].
    - destruct (IU eq_refl) as (_ & H0 & _). contradiction.
    - assert (0 < count s) by (apply IO; reflexivity). lia. }
  assert (Dn : done s = true) by (apply ID; exact Sk).
  destruct (g s) as [| |c|] eqn:G.
  - pose proof (IGN eq_refl) as U. congruence.
  - exists [GSeesClosed]. eexists. cbn [run step]. rewrite G, Sk. split; [reflexivity|]. cbn. split; [lia|]. split; [reflexivity|]. constructor; [left; reflexivity | constructor].
  - exists [GOrphan]. eexists. cbn [run step]. rewrite G, Dn. split; [reflexivity|]. cbn. split; [lia|]. split; [reflexivity|]. constructor; [right; reflexivity | constructor].
  - exists []. exists s. cbn. split; [reflexivity|]. split; [lia|]. split; [exact G | constructor].
Qed.

(* NO LOSS WHILE SOME HANDLE KEEPS ACCEPTING, as progress: in every reachable state in which the
   socket is open and some handle h has an AcceptStream call pending, a connection that has
   reached the socket is handed to h after at most one step of the accept goroutine *)
Lemma no_loss_progress_lemma tr s h :
  run sl0 tr = Some s -> sock s = Open -> has_handle s h = true -> h_pending (hstate s h) = true ->
  (forall c, g s = GHolding c ->
     exists s', step s (Deliver h) = Some s' /\ In (h, c) (delivered s') /\ g s' = GAccepting) /\
  (forall c r, kq s = c :: r -> (forall c', g s <> GHolding c') ->
     exists s1 s2, step s GAccept = Some s1 /\ step s1 (Deliver h) = Some s2 /\ In (h, c) (delivered s2) /\ kq s2 = r).
Proof.
  intros R So Hh Hp. pose proof (inv_run tr sl0 s inv0 R) as I.
  destruct I as (IP & IND & IC & IO & IU & ID & IGN & ICH & IGE & IKQ & IH & IDL).
  split.
  - intros c G. cbn [step]. rewrite G, Hh, Hp. cbn [andb]. eexists. split; [reflexivity|]. cbn [delivered g].
    split; [apply in_or_app; right; left; reflexivity | reflexivity].
  - intros c r K Hn.
    assert (G : g s = GAccepting).
    { destruct (g s) as [| |c'|] eqn:E; [| reflexivity | exfalso; apply (Hn c'); reflexivity |].
      - specialize (IGN eq_refl). congruence.
      - specialize (IGE eq_refl). congruence. }
    cbn [step]. rewrite G, So, K. eexists. eexists. split; [reflexivity|].
    cbn [step g handles hstate]. unfold has_handle in *. cbn [handles]. rewrite Hh, Hp. cbn [andb].
    split; [reflexivity|]. cbn [delivered kq]. split; [apply in_or_app; right; left; reflexivity | reflexivity].
Qed.
