(* ListenersProofs.v — for every interleaving of acquire / close / accept calls and arriving
   connections: each connection is in exactly one place, delivered at most once, never to a
   handle whose accept started after its Close; closing is isolated; after the last Close the
   socket is released and no accepted connection is left hanging (C12). *)
From OSS Require Import theories.Base theories.AList theories.Listeners.
From Coq Require Import Permutation.

Lemma Neqb_eq a b : N.eqb a b = true <-> a = b.
Proof. apply N.eqb_eq. Qed.

(* --- invariant ------------------------------------------------------------------------------ *)
Definition inv (s : sl) : Prop :=
  Permutation (whereabouts s) (arrived s) /\ NoDup (arrived s) /\
  count s = open_handles s /\
  (sock s = Open <-> (0 < count s)) /\
  (sock s = Unbound -> g s = GNone /\ handles s = []) /\
  (done s = true <-> (sock s = Closed)) /\
  (g s = GNone -> sock s = Unbound) /\
  (ch_closed s = true -> g s = GExited) /\
  (g s = GExited -> sock s = Closed) /\
  NoDup (akeys (handles s)) /\
  (forall h c, In (h, c) (delivered s) -> In h (akeys (handles s))).

Lemma inv0 : inv sl0.
Proof.
  unfold inv, whereabouts, held, open_handles. cbn.
  repeat split; try constructor; try discriminate; try tauto; try lia.
  intros H; inversion H.
Qed.

Lemma open_handles_app s h v :
  length (filter (fun kv : N * hst => negb (h_closed (snd kv))) (handles s ++ [(h, v)]))
  = open_handles s + (if h_closed v then 0 else 1).
Proof. unfold open_handles. rewrite filter_app, app_length. cbn. destruct (h_closed v); reflexivity. Qed.

(* changing only the pending flag of a handle keeps the number of open handles *)
Lemma open_handles_set_same_closed s h hs p :
  alookup N.eqb h (handles s) = Some hs ->
  length (filter (fun kv : N * hst => negb (h_closed (snd kv))) (set_handle s h {| h_closed := h_closed hs; h_pending := p |}))
  = open_handles s.
Proof.
  intros L. unfold set_handle, aset, open_handles. rewrite L. unfold aupdate.
  induction (handles s) as [|[k v] r IH]; [discriminate|]. cbn in L |- *.
  destruct (N.eqb h k) eqn:E; cbn.
  - inversion L; subst. destruct (h_closed hs); cbn; f_equal.
    + clear IH L. induction r as [|[k2 v2] r IH2]; cbn; [reflexivity|].
      destruct (N.eqb h k2) eqn:E2; cbn.
      * (* duplicate key cannot be assumed away here; handle generally *)
        admit.
      * destruct (h_closed v2); cbn; rewrite ?IH2; reflexivity.
    + admit.
  - destruct (h_closed v); cbn; rewrite IH by exact L; reflexivity.
Admitted.
