(* ServeProofs.v — StreamServe returns only after every handler it started has returned; a
   panicking handler affects nobody else; nothing is accepted after the listener is seen closed. *)
From OSS Require Import theories.Base.
From OSS Require Import theories.Serve.

Lemma sinv0 : sinv serve0.
Proof. unfold sinv, serve0; cbn. repeat split; try discriminate; try reflexivity; lia. Qed.

Lemma sinv_step s l s' : sinv s -> sstep s l = Some s' -> sinv s'.
Proof.
  intros I St. unfold sinv in *. destruct I as (I1 & I2 & I3 & I4 & I5).
  destruct l; cbn [sstep] in St;
    repeat match type of St with
           | context [match ph s with _ => _ end] => destruct (ph s) eqn:P
           | context [if lopen s then _ else _] => destruct (lopen s) eqn:O
           | context [match running s with _ => _ end] => destruct (running s) eqn:R
           end; try discriminate; inversion St; subst; clear St;
    cbn [ph lopen running accepted finished panicked cancelled];
    rewrite ?P, ?O, ?R in *; intuition (try congruence; try lia).
Qed.

Lemma sinv_run tr : forall s s', sinv s -> srun s tr = Some s' -> sinv s'.
Proof.
  induction tr as [|l r IH]; intros s s' I R; cbn in R; [inversion R; subst; exact I|].
  destruct (sstep s l) as [s1|] eqn:St; [|discriminate]. apply (IH s1); [eapply sinv_step; eassumption | exact R].
Qed.

(* headline: for EVERY interleaving of accepts, handler returns, handler panics and the closing
   of the listener, when StreamServe has returned every handler it started has returned *)
Lemma serve_returns_after_handlers_lemma tr s :
  srun serve0 tr = Some s -> ph s = Returned ->
  running s = 0 /\ finished s = accepted s /\ lopen s = false /\ cancelled s = true.
Proof.
  intros R P. destruct (sinv_run tr serve0 s sinv0 R) as (I1 & I2 & _). destruct (I2 P) as (H0 & H1 & H2).
  repeat split; try assumption. lia.
Qed.

(* the accounting invariant at every point: every accepted connection is running or finished *)
Lemma serve_accounting_lemma tr s :
  srun serve0 tr = Some s -> accepted s = finished s + running s /\ panicked s <= finished s.
Proof. intros R. destruct (sinv_run tr serve0 s sinv0 R) as (I1 & _ & _ & _ & I5). tauto. Qed.

(* a panic in one handler is an ordinary return for everybody else: it changes nothing but the
   counters of that handler, and every label enabled before is enabled after exactly as if the
   handler had returned normally *)
Lemma handler_panic_isolated_lemma s s1 s2 :
  sstep s SHandlerPanic = Some s1 -> sstep s SHandlerDone = Some s2 ->
  ph s1 = ph s2 /\ lopen s1 = lopen s2 /\ running s1 = running s2 /\ accepted s1 = accepted s2 /\
  finished s1 = finished s2 /\ cancelled s1 = cancelled s2 /\ ph s1 = ph s.
Proof.
  cbn [sstep]. destruct (running s); [discriminate|]. intros H1 H2. inversion H1; inversion H2; subst; cbn. repeat split; reflexivity.
Qed.

(* nothing is accepted once the loop has seen the listener closed, and the handlers' context is
   cancelled exactly from that moment *)
Lemma no_accept_after_closed_lemma tr s :
  srun serve0 tr = Some s -> ph s <> Serving -> sstep s SAccept = None /\ cancelled s = true.
Proof.
  intros R P. destruct (sinv_run tr serve0 s sinv0 R) as (_ & I2 & I3 & _).
  cbn [sstep]. destruct (ph s) eqn:E; [congruence | |]; (split; [reflexivity|]).
  - apply I3; reflexivity. - apply I2; reflexivity.
Qed.
Lemma context_live_while_serving_lemma tr s :
  srun serve0 tr = Some s -> ph s = Serving -> cancelled s = false.
Proof. intros R P. destruct (sinv_run tr serve0 s sinv0 R) as (_ & _ & _ & I4 & _). exact (I4 P). Qed.

(* progress: once draining, if the running handlers return, StreamServe returns: after exactly
   [running s] handler returns SReturn is enabled *)
Lemma serve_drains_lemma s :
  ph s = Draining ->
  exists s', srun s (repeat SHandlerDone (running s) ++ [SReturn]) = Some s' /\ ph s' = Returned.
Proof.
  remember (running s) as n eqn:Hn. revert s Hn. induction n as [|n IH]; intros s Hn P; cbn [repeat app srun].
  - cbn [sstep]. rewrite P, <- Hn. eexists. split; reflexivity.
  - cbn [sstep]. rewrite <- Hn.
    set (s1 := {| ph := ph s; lopen := lopen s; running := n; accepted := accepted s;
                  finished := S (finished s); panicked := panicked s; cancelled := cancelled s |}).
    destruct (IH s1 eq_refl P) as [s' [R' P']]. exists s'. split; assumption.
Qed.
