(* NatTimerProofs.v — deadlines never move earlier, promises are kept, fast close fires exactly
   for "one DNS query, then a DNS response"; every association is removed exactly once (C14). *)
From OSS Require Import theories.Base theories.NatTimer.
Open Scope Z_scope.

Lemma on_write_rd_ge T t now d : rd t <= rd (on_write T t now d).
Proof. unfold on_write. destruct (Z.ltb_spec (rd t) (now + (if d then dns_timeout else T))); cbn; lia. Qed.
Lemma on_read_rd t now d : rd (on_read t now d) = rd t.
Proof. unfold on_read. destruct (spent t); [reflexivity|]. destruct d; reflexivity. Qed.

(* the recorded deadline never decreases, whatever the sequence of writes and reads and whatever
   the clock does *)
Lemma deadline_monotone_lemma T ops t : rd t <= rd (fold_left (tstep T) ops t).
Proof.
  revert t. induction ops as [|o r IH]; intros t; cbn [fold_left]; [lia|].
  eapply Z.le_trans; [|apply IH]. destruct o; cbn [tstep]; [apply on_write_rd_ge | rewrite on_read_rd; lia].
Qed.

(* invariant: unless the DNS fast close fired, the socket's deadline is the recorded one *)
Definition tinv (t : timer) : Prop := fast_closed t = false -> sock_dl t = rd t.
Lemma tinv0 : tinv timer0.
Proof. intros _. reflexivity. Qed.
Lemma tinv_step T t o : tinv t -> tinv (tstep T t o).
Proof.
  intros I. destruct o as [now d|now d]; cbn [tstep].
  - unfold on_write. destruct (rd t <? _); intros H; cbn in *; [reflexivity | apply I; exact H].
  - unfold on_read. destruct (spent t); [exact I|]. destruct d; intros H; cbn in *; [discriminate | apply I; exact H].
Qed.
Lemma tinv_run T ops : tinv (trun T ops).
Proof.
  unfold trun. generalize tinv0. generalize timer0. induction ops as [|o r IH]; intros t I; cbn [fold_left]; [exact I|].
  apply IH. apply tinv_step. exact I.
Qed.

(* PROMISE: right after a client datagram is written at [now], the association is promised to
   live at least until now + T (non-DNS) or now + 17 s (DNS), and unless a DNS fast close is in
   force the socket's deadline is at least that *)
Lemma deadline_promise_lemma T t now d :
  tinv t ->
  let t' := on_write T t now d in
  now + (if d then dns_timeout else T) <= rd t' /\ (fast_closed t' = false -> now + (if d then dns_timeout else T) <= sock_dl t').
Proof.
  intros I. cbn zeta. unfold on_write.
  destruct (Z.ltb_spec (rd t) (now + (if d then dns_timeout else T))) as [Hlt|Hge]; cbn.
  - split; [lia | intros _; lia].
  - split; [lia|]. intros Hf. rewrite (I Hf). lia.
Qed.

(* the latch: not yet spent exactly when nothing was read and the writes so far are none, or one
   single DNS write *)
Lemma spent_iff T ops :
  0 <= T -> (forall o, In o ops -> 0 < op_time o) ->
  spent (trun T ops) = false <-> reads_of ops = 0%nat /\ (writes_of ops = [] \/ writes_of ops = [true]).
Proof.
  intros HT Hpos.
  assert (G : forall ops t,
             (forall o, In o ops -> 0 < op_time o) -> (0 <= rd t) ->
             forall ws0 : list bool,
             (spent t = false <-> (ws0 = [] \/ ws0 = [true])) -> (rd t = 0 <-> ws0 = []) ->
             (spent (fold_left (tstep T) ops t) = false <->
              reads_of ops = 0%nat /\ (ws0 ++ writes_of ops = [] \/ ws0 ++ writes_of ops = [true]))).
  { clear - HT. induction ops as [|o r IH]; intros t Hpos Hrd ws0 Hs Hz; cbn [fold_left writes_of flat_map reads_of filter length].
    - rewrite app_nil_r. split; [intros H; split; [reflexivity | apply Hs; exact H] | intros [_ H]; apply Hs; exact H].
    - assert (Hpos' : forall o', In o' r -> 0 < op_time o') by (intros o' H; apply Hpos; right; exact H).
      pose proof (Hpos o (or_introl eq_refl)) as Ho.
      destruct o as [now d|now d]; cbn [tstep op_time] in *.
      + (* write *)
        specialize (IH (on_write T t now d) Hpos').
        assert (Hrd' : 0 <= rd (on_write T t now d)) by (pose proof (on_write_rd_ge T t now d); lia).
        assert (Hnz : rd (on_write T t now d) <> 0).
        { unfold on_write. assert (Hd : 0 < dns_timeout) by reflexivity.
          assert (Hnd : 0 < now + (if d then dns_timeout else T)) by (destruct d; lia).
          destruct (Z.ltb_spec (rd t) (now + (if d then dns_timeout else T))) as [Hlt|Hge]; cbn; lia. }
        specialize (IH Hrd' (ws0 ++ [d])).
        rewrite <- app_assoc in IH. cbn [app] in IH. cbn [fold_left]. fold (reads_of r). 
        change (length (filter (fun o => match o with TRead _ _ => true | _ => false end) r)) with (reads_of r).
        apply IH.
        * (* spent after the write *)
          assert (Sp : spent (on_write T t now d) = (if negb d || negb (rd t =? 0) then true else spent t)).
          { unfold on_write. destruct (rd t <? _); reflexivity. }
          rewrite Sp. destruct d; cbn [negb orb].
          -- destruct (Z.eqb_spec (rd t) 0) as [E|E]; cbn [negb].
             ++ apply Hz in E. subst ws0. cbn. rewrite Hs. split; [intros _; right; reflexivity | intros _; left; reflexivity].
             ++ split; [discriminate|]. intros [H|H].
                ** destruct ws0; discriminate.
                ** destruct ws0 as [|b [|b2 w]]; [exfalso; apply E; apply Hz; reflexivity | discriminate | discriminate].
          -- split; [discriminate|]. intros [H|H]; [destruct ws0; discriminate|].
             destruct ws0 as [|b [|b2 w]]; cbn in H; inversion H.
        * split; [intros E; contradiction | intros E; destruct ws0; discriminate].
      + (* read: spends the latch *)
        cbn [filter length]. split; [|intros [H _]; discriminate].
        intros H. exfalso.
        assert (Sp : spent (on_read t now d) = true) by (unfold on_read; destruct (spent t) eqn:E; [exact E | destruct d; reflexivity]).
        assert (Keep : forall ops t, spent t = true -> spent (fold_left (tstep T) ops t) = true).
        { clear. induction ops as [|o r IH]; intros t Ht; cbn [fold_left]; [exact Ht|]. apply IH.
          destruct o as [n d|n d]; cbn [tstep].
          - unfold on_write. destruct (rd t <? _); cbn; rewrite Ht; destruct (negb d || negb (rd t =? 0)); reflexivity.
          - unfold on_read. rewrite Ht. exact Ht. }
        rewrite (Keep r _ Sp) in H. discriminate. }
  unfold trun. specialize (G ops timer0 Hpos (Z.le_refl 0) []). cbn [app] in G. apply G.
  - cbn. split; [intros _; left; reflexivity | reflexivity].
  - cbn. split; reflexivity.
Qed.

(* FAST CLOSE: a read sets the socket deadline to "now" exactly when the latch is still armed and
   the datagram comes from a DNS server *)
Lemma fast_close_iff_lemma t now d :
  fast_closed t = false ->
  (fast_closed (on_read t now d) = true <-> spent t = false /\ d = true) /\
  (fast_closed (on_read t now d) = true -> sock_dl (on_read t now d) = now).
Proof.
  intros F. unfold on_read. destruct (spent t); [rewrite F; split; [split; [discriminate | intros [H _]; discriminate] | discriminate]|].
  destruct d; cbn; [split; [tauto|reflexivity]|]. rewrite F. split; [split; [discriminate | intros [_ H]; discriminate] | discriminate].
Qed.

(* --- life cycle ------------------------------------------------------------------------------ *)
Lemma lcount_app p a b : lcount p (a ++ b) = (lcount p a + lcount p b)%nat.
Proof. unfold lcount. rewrite filter_app, app_length. reflexivity. Qed.

Definition linv (st : list N * list lev) : Prop :=
  let '(live, log) := st in
  NoDup live /\
  forall s, (In s live -> lcount (is_add s) log = S (lcount (is_remove s) log)) /\
            (~ In s live -> lcount (is_add s) log = lcount (is_remove s) log) /\
            lcount (is_remove s) log = lcount (is_close s) log.

Lemma existsb_In s l : existsb (N.eqb s) l = true <-> In s l.
Proof. rewrite existsb_exists. split; [intros [x [H E]]; apply N.eqb_eq in E; subst; exact H | intros H; exists s; split; [exact H | apply N.eqb_refl]]. Qed.

Lemma linv_step st o : linv st -> linv (lstep st o).
Proof.
  destruct st as [live log]. intros [ND I]. destruct o as [s|s|]; cbn [lstep].
  - destruct (existsb (N.eqb s) live) eqn:E; [split; assumption|].
    assert (Hn : ~ In s live) by (intros H; apply existsb_In in H; congruence).
    split.
    + apply (NoDup_Add (a:=s) (l:=live)); [pose proof (Add_app s live []) as A; rewrite app_nil_r in A; exact A | tauto].
    + intros x. rewrite !lcount_app. cbn [lcount filter is_add is_remove is_close length]. destruct (I x) as (I1 & I2 & I3).
      destruct (N.eqb_spec x s) as [->|Hne]; cbn [length].
      * split; [intros _; rewrite (I2 Hn); lia|]. split; [intros H; exfalso; apply H; apply in_or_app; right; left; reflexivity | lia].
      * split; [intros H; apply in_app_or in H as [H|[H|[]]]; [rewrite (I1 H); lia | congruence]|].
        split; [intros H; rewrite I2; [lia | intros H2; apply H; apply in_or_app; left; exact H2] | lia].
  - destruct (existsb (N.eqb s) live) eqn:E; [|split; assumption]. apply existsb_In in E.
    split; [apply NoDup_filter; exact ND|].
    intros x. rewrite !lcount_app. cbn [lcount filter is_add is_remove is_close length]. destruct (I x) as (I1 & I2 & I3).
    rewrite filter_In. destruct (N.eqb_spec x s) as [->|Hne]; cbn [length negb].
    + split; [intros [_ H]; discriminate|]. split; [intros _; rewrite (I1 E); lia | lia].
    + split; [intros [H _]; rewrite (I1 H); lia|]. split; [|lia].
      intros H. rewrite I2; [lia|]. intros H2. apply H. split; [exact H2|reflexivity].
  - split; [constructor|]. intros x. rewrite !lcount_app. destruct (I x) as (I1 & I2 & I3).
    assert (C : forall l, NoDup l ->
              lcount (is_remove x) (flat_map (fun s => [LRemove s; LDel s; LCloseSock s]) l) = (if existsb (N.eqb x) l then 1 else 0)%nat /\
              lcount (is_close x) (flat_map (fun s => [LRemove s; LDel s; LCloseSock s]) l) = (if existsb (N.eqb x) l then 1 else 0)%nat /\
              lcount (is_add x) (flat_map (fun s => [LRemove s; LDel s; LCloseSock s]) l) = 0%nat).
    { clear. induction l as [|y l IH]; intros ND; cbn [flat_map existsb]; [repeat split; reflexivity|].
      inversion ND as [|? ? Hn Hr]; subst. destruct (IH Hr) as (A & B & C).
      change ([LRemove y; LDel y; LCloseSock y] ++ flat_map (fun s => [LRemove s; LDel s; LCloseSock s]) l)
        with ([LRemove y; LDel y; LCloseSock y] ++ flat_map (fun s => [LRemove s; LDel s; LCloseSock s]) l).
      rewrite !lcount_app, A, B, C. cbn [lcount filter is_remove is_close is_add length].
      destruct (N.eqb_spec x y) as [->|Hne]; cbn [length orb].
      - assert (existsb (N.eqb y) l = false).
        { destruct (existsb (N.eqb y) l) eqn:E; [|reflexivity]. apply existsb_In in E. contradiction. }
        rewrite H. repeat split; reflexivity.
      - repeat split; reflexivity. }
    destruct (C live ND) as (C1 & C2 & C3). rewrite C1, C2, C3.
    split; [intros []|]. split; [|lia]. intros _.
    destruct (existsb (N.eqb x) live) eqn:E.
    + apply existsb_In in E. rewrite (I1 E). lia.
    + assert (~ In x live) by (intros H; apply existsb_In in H; congruence). rewrite (I2 H). lia.
Qed.

Lemma linv_run ops : linv (lrun ops).
Proof.
  unfold lrun. assert (I0 : linv ([], [])) by (split; [apply NoDup_nil | intros s; split; [intros [] | split; reflexivity]]).
  revert I0. generalize (@nil N, @nil lev). induction ops as [|o r IH]; intros st I; cbn [fold_left]; [exact I|].
  apply IH. apply linv_step. exact I.
Qed.

(* REMOVED EXACTLY ONCE: in every history of creations, timeouts and listener shutdowns, each
   association's removal is reported as many times as it was torn down, its socket closed the
   same number of times, never more often than it was added; a live one has exactly one
   outstanding *)
Lemma removed_exactly_once_lemma ops s :
  let '(live, log) := lrun ops in
  lcount (is_remove s) log = lcount (is_close s) log /\
  (In s live -> lcount (is_add s) log = S (lcount (is_remove s) log)) /\
  (~ In s live -> lcount (is_add s) log = lcount (is_remove s) log).
Proof.
  pose proof (linv_run ops) as I. destruct (lrun ops) as [live log]. destruct I as [_ I]. destruct (I s) as (A & B & C). tauto.
Qed.

(* after the listener is shut down nothing is left: no association, every socket closed *)
Lemma shutdown_expires_all_lemma ops :
  fst (lrun (ops ++ [LShutdown])) = [] /\
  forall s, lcount (is_add s) (snd (lrun (ops ++ [LShutdown]))) = lcount (is_close s) (snd (lrun (ops ++ [LShutdown]))).
Proof.
  pose proof (linv_run (ops ++ [LShutdown])) as I.
  unfold lrun in *. rewrite fold_left_app in *. cbn [fold_left] in *.
  destruct (fold_left lstep ops ([], [])) as [live log]. cbn [lstep fst snd] in *.
  split; [reflexivity|]. intros s. destruct I as [_ I]. destruct (I s) as (_ & B & C). rewrite <- C. apply B. intros [].
Qed.
