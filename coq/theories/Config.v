(* Config.v — model of cmd/outline-ss-server: Config.Validate (config.go), runConfig /
   newCipherListFromConfig / listenerSet (main.go) and loadConfig's hot swap with shared
   listeners (C09, C10, C11). The OS is an oracle saying which addresses can be bound. *)
From OSS Require Import theories.Base theories.AList theories.Crypto theories.CipherList.

Record keycfg := { kc_id : bytes; kc_cipher : N; kc_secret : N }.     (* cipher 0..3 supported, else unknown name *)
Inductive ltype := LTcp | LUdp | LBad.
Record lcfg := { l_type : ltype; l_addr : N; l_host_is_ip : bool }.    (* address string identified by a number *)
Record svc := { s_listeners : list lcfg; s_keys : list keycfg }.
Record config := { services : list svc; legacy : list (keycfg * N) }.  (* legacy: key + port *)

Definition ltype_eqb (a b : ltype) : bool := match a, b with LTcp, LTcp | LUdp, LUdp | LBad, LBad => true | _, _ => false end.
Definition lkey := (ltype * N)%type.                                    (* "stream/"+addr or "packet/"+addr *)
Definition lkey_eqb (a b : lkey) : bool := ltype_eqb (fst a) (fst b) && N.eqb (snd a) (snd b).
Definition legacy_addr (port : N) : N := 1000000 + port.              (* ":port", never equal to a validated service address *)

Inductive lerr := EParse | EValidate | EKey | EListen.

(* Config.Validate *)
Fixpoint validate_listeners (seen : list lkey) (ls : list lcfg) : option (list lkey) :=
  match ls with
  | [] => Some seen
  | l :: r =>
      match l_type l with
      | LBad => None
      | t => if negb (l_host_is_ip l) then None
             else if existsb (lkey_eqb (t, l_addr l)) seen then None
             else validate_listeners ((t, l_addr l) :: seen) r
      end
  end.
Fixpoint validate_services (seen : list lkey) (ss : list svc) : bool :=
  match ss with
  | [] => true
  | s :: r => match validate_listeners seen (s_listeners s) with Some seen' => validate_services seen' r | None => false end
  end.
Definition validate (c : config) : bool := validate_services [] (services c).

Definition cipher_ok (c : N) : bool := (c <? 4)%N.
Definition cipher_of (n : N) : cipher := match n with 0 => Chacha | 1 => Aes256 | 2 => Aes192 | _ => Aes128 end%N.
Definition key_of (k : keycfg) : skey := {| k_cipher := cipher_of (kc_cipher k); k_secret := kc_secret k |}.
Definition same_key (a b : keycfg) : bool := N.eqb (kc_cipher a) (kc_cipher b) && N.eqb (kc_secret a) (kc_secret b).

(* newCipherListFromConfig: skip later keys with the same (cipher, secret); fail on an unknown cipher *)
Fixpoint dedupe (seen : list keycfg) (ks : list keycfg) : option (list keycfg) :=
  match ks with
  | [] => Some []
  | k :: r =>
      if existsb (same_key k) seen then dedupe seen r
      else if cipher_ok (kc_cipher k) then option_map (cons k) (dedupe (k :: seen) r) else None
  end.
Definition all_ciphers_ok (ks : list keycfg) : bool := forallb (fun k => cipher_ok (kc_cipher k)) ks.

(* what a running configuration serves: for each listener the ordered key list of its owner *)
Definition table := list (lkey * list keycfg).

(* runConfig: legacy keys first (all keys are created before any listener), one service per port
   on tcp+udp ":port" without de-duplication; then the services in order. [bindable] is the OS. *)
Definition ports_of (lg : list (keycfg * N)) : list N := nodup N.eq_dec (map snd lg).
Definition legacy_table (lg : list (keycfg * N)) : table :=
  flat_map (fun p => let ks := map fst (filter (fun kp => N.eqb (snd kp) p) lg) in
                     [((LTcp, legacy_addr p), ks); ((LUdp, legacy_addr p), ks)]) (ports_of lg).

(* acquire listeners one by one; stop at the first failure; report what had been acquired *)
Fixpoint acquire (bindable : lkey -> bool) (have : list lkey) (want : list lkey) : list lkey * bool :=
  match want with
  | [] => (have, true)
  | l :: r => if existsb (lkey_eqb l) have then (have, false)                 (* listenerSet: "already exists" *)
              else if bindable l then acquire bindable (have ++ [l]) r else (have, false)
  end.

Fixpoint start_services (bindable : lkey -> bool) (have : list lkey) (t : table) (ss : list svc)
  : list lkey * option table * option lerr :=
  match ss with
  | [] => (have, Some t, None)
  | s :: r =>
      match dedupe [] (s_keys s) with
      | None => (have, None, Some EKey)
      | Some ks =>
          let want := map (fun l => (l_type l, l_addr l)) (s_listeners s) in
          let '(have', ok) := acquire bindable have want in
          if ok then start_services bindable have' (t ++ map (fun l => (l, ks)) want) r
          else (have', None, Some EListen)
      end
  end.

(* result of runConfig: the listeners acquired (all of them on success, the partial set on
   failure) and the table served on success *)
Definition start (bindable : lkey -> bool) (c : config) : list lkey * option table * option lerr :=
  if negb (all_ciphers_ok (map fst (legacy c))) then ([], None, Some EKey)
  else
    let lt := legacy_table (legacy c) in
    let '(have, ok) := acquire bindable [] (map fst lt) in
    if ok then start_services bindable have lt (services c) else (have, None, Some EListen).

(* --- the server: loadConfig ------------------------------------------------------------- *)
(* refs: how many handles each shared listener has (the socket is open iff > 0) *)
Record server := { serving : option (list lkey * table); refs : list (lkey * nat) }.
Definition server0 : server := {| serving := None; refs := [] |}.
Definition ref_of (r : list (lkey * nat)) (l : lkey) : nat := match alookup lkey_eqb l r with Some n => n | None => 0 end.
Definition ref_add (r : list (lkey * nat)) (l : lkey) : list (lkey * nat) := aset lkey_eqb l (S (ref_of r l)) r.
Definition ref_del (r : list (lkey * nat)) (l : lkey) : list (lkey * nat) := aset lkey_eqb l (pred (ref_of r l)) r.

(* an address held by this server is bindable again through the shared listener *)
Definition can_bind (os : lkey -> bool) (r : list (lkey * nat)) (l : lkey) : bool := (0 <? ref_of r l) || os l.

Inductive file := FUnreadable | FMalformed | FConfig (c : config).

(* loadConfig as micro-steps: acquire the new listeners, then either (success) stop the old
   configuration or (failure, after fix 10b729c) release what was acquired *)
Definition load (os : lkey -> bool) (s : server) (f : file) : server * option lerr * list (list (lkey * nat)) :=
  match f with
  | FUnreadable | FMalformed => (s, Some EParse, [refs s])
  | FConfig c =>
      if negb (validate c) then (s, Some EValidate, [refs s])
      else
        let '(got, tb, err) := start (can_bind os (refs s)) c in
        let r1 := fold_left ref_add got (refs s) in
        let inter1 := snd (fold_left (fun acc l => let r := ref_add (fst acc) l in (r, snd acc ++ [r])) got (refs s, [refs s])) in
        match tb with
        | Some t =>
            let old := match serving s with Some (ls, _) => ls | None => [] end in
            let r2 := fold_left ref_del old r1 in
            let inter2 := snd (fold_left (fun acc l => let r := ref_del (fst acc) l in (r, snd acc ++ [r])) old (r1, [])) in
            ({| serving := Some (got, t); refs := r2 |}, None, inter1 ++ inter2)
        | None =>
            let r2 := fold_left ref_del got r1 in
            let inter2 := snd (fold_left (fun acc l => let r := ref_del (fst acc) l in (r, snd acc ++ [r])) got (r1, [])) in
            ({| serving := serving s; refs := r2 |}, err, inter1 ++ inter2)
        end
  end.

(* which ID a client of key (cipher, secret) gets on a listener: first entry with that key *)
Definition auth_on (t : table) (l : lkey) (cipher secret : N) : option bytes :=
  match alookup lkey_eqb l t with
  | Some ks => option_map kc_id (find (fun k => N.eqb (kc_cipher k) cipher && N.eqb (kc_secret k) secret) ks)
  | None => None
  end.
Definition listening (s : server) (l : lkey) : bool := 0 <? ref_of (refs s) l.
