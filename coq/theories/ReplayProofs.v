(* ReplayProofs.v — lemmas about the model in Replay.v (C07). *)
From OSS Require Import theories.Base theories.Replay.

(* --- lemmas --------------------------------------------------------------- *)
(* potential: number of further Adds for which [h] is guaranteed to stay
   remembered, provided every capacity in effect is >= W >= 1 *)
Definition pot (W : nat) (c : cache) (h : N) : nat :=
  if mem_N h (active c) then S W
  else if mem_N h (archive c) then S (W - length (active c))
  else 0.

Lemma mem_cons h x l : mem_N h (x :: l) = N.eqb h x || mem_N h l.
Proof. reflexivity. Qed.

Lemma add_refuses_iff_pot W c h :
  cap c <> 0%Z -> (snd (add c h) = false <-> 1 <= pot W c h).
Proof.
  intros Hc. unfold add, pot.
  destruct (Z.eqb_spec (cap c) 0); [contradiction|].
  destruct (mem_N h (active c)) eqn:Ha; cbn.
  - split; intros; [lia|reflexivity].
  - destruct (mem_N h (archive c)) eqn:Hr; cbn; split; intros; try lia; try reflexivity; try discriminate.
Qed.

Lemma pot_after_add_self W c h : cap c <> 0%Z -> pot W (fst (add c h)) h = S W.
Proof.
  intros Hc. unfold add, pot.
  destruct (Z.eqb_spec (cap c) 0); [contradiction|].
  destruct (mem_N h (active c)) eqn:Ha; cbn.
  - rewrite Ha. reflexivity.
  - destruct (Z.leb _ _); cbn; rewrite N.eqb_refl; reflexivity.
Qed.

Lemma pot_step_add W c h x :
  1 <= W -> (Z.of_nat W <= cap c)%Z ->
  pot W c h <= S (pot W (fst (add c x)) h).
Proof.
  intros HN Hcap. unfold add.
  destruct (Z.eqb_spec (cap c) 0); [lia|].
  destruct (mem_N x (active c)) eqn:Hx; cbn [fst]; [lia|].
  unfold pot at 1.
  destruct (mem_N h (active c)) eqn:Ha.
  - destruct (Z.leb_spec (cap c) (Z.of_nat (length (active c)))); unfold pot; cbn [active archive].
    + rewrite mem_cons. cbn [mem_N existsb]. destruct (N.eqb h x); cbn; [lia|].
      fold (mem_N h (active c)). rewrite Ha. cbn. lia.
    + rewrite mem_cons, Ha, orb_true_r. lia.
  - destruct (mem_N h (archive c)) eqn:Hr; [|lia].
    destruct (Z.leb_spec (cap c) (Z.of_nat (length (active c)))); unfold pot; cbn [active archive].
    + assert (W - length (active c) = 0) by lia. lia.
    + rewrite mem_cons, Ha. destruct (N.eqb h x); cbn [orb]; [lia|].
      rewrite Hr. cbn [length]. lia.
Qed.

Lemma add_cap c x : cap (fst (add c x)) = cap c.
Proof.
  unfold add. destruct (Z.eqb _ _); [reflexivity|].
  destruct (mem_N x _); [reflexivity|]. destruct (Z.leb _ _); reflexivity.
Qed.

Definition is_add (o : op) := match o with Add _ => true | _ => false end.
Definition adds (ops : list op) := length (filter is_add ops).
(* every capacity in effect during [ops] starting from [c] is >= W.  A Resize
   above MaxCapacity is rejected and changes nothing, so it is harmless. *)
Definition caps_ge (W : nat) (c : cache) (ops : list op) : Prop :=
  (Z.of_nat W <= cap c)%Z /\
  Forall (fun o => match o with Resize n => (Z.of_nat W <= n)%Z | _ => True end) ops.

Lemma resize_pot W c n h : pot W (fst (resize c n)) h = pot W c h.
Proof. unfold resize. destruct (_ <? _)%Z; reflexivity. Qed.
Lemma resize_cap_ge W c n :
  (Z.of_nat W <= cap c)%Z -> (Z.of_nat W <= n)%Z -> (Z.of_nat W <= cap (fst (resize c n)))%Z.
Proof. unfold resize. destruct (_ <? _)%Z; cbn; lia. Qed.

Lemma pot_run W c h mid :
  1 <= W -> caps_ge W c mid ->
  pot W c h <= adds mid + pot W (fst (run c mid)) h /\ (Z.of_nat W <= cap (fst (run c mid)))%Z.
Proof.
  intros HN. revert c. induction mid as [|o r IH]; intros c [Hc HF]; cbn [run].
  - cbn. lia.
  - inversion HF as [|? ? Ho HF']; subst.
    destruct o as [x|n]; cbn [step].
    + destruct (add c x) as [c1 b] eqn:E.
      assert (Hc1 : (Z.of_nat W <= cap c1)%Z).
      { replace c1 with (fst (add c x)) by (rewrite E; reflexivity). rewrite add_cap. exact Hc. }
      specialize (IH c1 (conj Hc1 HF')).
      destruct (run c1 r) as [c2 bs] eqn:E2. cbn [fst] in *.
      pose proof (pot_step_add W c h x HN Hc) as P. rewrite E in P. cbn [fst] in P.
      unfold adds in *. cbn [filter length is_add]. lia.
    + destruct (resize c n) as [c1 b] eqn:E.
      assert (Hc1 : (Z.of_nat W <= cap c1)%Z).
      { replace c1 with (fst (resize c n)) by (rewrite E; reflexivity). apply resize_cap_ge; assumption. }
      specialize (IH c1 (conj Hc1 HF')).
      destruct (run c1 r) as [c2 bs] eqn:E2. cbn [fst] in *.
      assert (pot W c1 h = pot W c h).
      { replace c1 with (fst (resize c n)) by (rewrite E; reflexivity). apply resize_pot. }
      unfold adds in *. cbn [filter is_add]. lia.
Qed.

Lemma replay_refused_within_N_lemma W c h mid :
  1 <= W -> caps_ge W c (Add h :: mid) -> adds mid <= W ->
  let c1 := fst (step c (Add h)) in
  let c2 := fst (run c1 mid) in
  snd (step c2 (Add h)) = false.
Proof.
  intros HN [Hc HF] Hm c1 c2. inversion HF as [|? ? _ HF']; subst.
  assert (Hc0 : cap c <> 0%Z) by lia.
  assert (Hc1 : (Z.of_nat W <= cap c1)%Z).
  { unfold c1. cbn [step]. rewrite add_cap. exact Hc. }
  destruct (pot_run W c1 h mid HN (conj Hc1 HF')) as [P Hc2].
  unfold c1 in P at 1. cbn [step] in P. rewrite (pot_after_add_self W c h Hc0) in P.
  cbn [step]. subst c2. apply (add_refuses_iff_pot W); lia.
Qed.

(* outputs of the [Add h] operations of a history *)
Fixpoint outs_of (h : N) (ops : list op) (outs : list bool) : list bool :=
  match ops, outs with
  | Add x :: r, b :: bs => if N.eqb x h then b :: outs_of h r bs else outs_of h r bs
  | _ :: r, _ :: bs => outs_of h r bs
  | _, _ => []
  end.

Lemma pot_le W c h : pot W c h <= S W.
Proof. unfold pot. destruct (mem_N _ _); [lia|]. destruct (mem_N _ _); lia. Qed.

(* once remembered with enough potential, every further presentation is refused *)
Lemma all_refused W c h ops :
  1 <= W -> caps_ge W c ops -> adds ops <= pot W c h ->
  Forall (fun b => b = false) (outs_of h ops (snd (run c ops))).
Proof.
  intros HN. revert c. induction ops as [|o r IH]; intros c [Hc HF] Hp; cbn [run].
  - constructor.
  - inversion HF as [|? ? Ho HF']; subst.
    destruct o as [x|n]; cbn [step].
    + destruct (add c x) as [c1 b] eqn:E.
      assert (Hc1 : (Z.of_nat W <= cap c1)%Z).
      { replace c1 with (fst (add c x)) by (rewrite E; reflexivity). rewrite add_cap. exact Hc. }
      assert (Hc0 : cap c <> 0%Z) by lia.
      unfold adds in Hp. cbn [filter is_add length] in Hp. fold (adds r) in Hp.
      destruct (run c1 r) as [c2 bs] eqn:E2. cbn [snd outs_of].
      destruct (N.eqb_spec x h) as [->|Hne].
      * constructor.
        { pose proof (proj2 (add_refuses_iff_pot W c h Hc0)) as R. rewrite E in R. apply R. lia. }
        replace bs with (snd (run c1 r)) by (rewrite E2; reflexivity).
        apply IH; [split; assumption|].
        replace c1 with (fst (add c h)) by (rewrite E; reflexivity).
        rewrite pot_after_add_self by exact Hc0. pose proof (pot_le W c h). lia.
      * replace bs with (snd (run c1 r)) by (rewrite E2; reflexivity).
        apply IH; [split; assumption|].
        pose proof (pot_step_add W c h x HN Hc) as P. rewrite E in P. cbn [fst] in P. lia.
    + destruct (resize c n) as [c1 b] eqn:E.
      assert (Hc1 : (Z.of_nat W <= cap c1)%Z).
      { replace c1 with (fst (resize c n)) by (rewrite E; reflexivity). apply resize_cap_ge; assumption. }
      destruct (run c1 r) as [c2 bs] eqn:E2. cbn [snd outs_of].
      replace bs with (snd (run c1 r)) by (rewrite E2; reflexivity).
      apply IH; [split; assumption|].
      replace c1 with (fst (resize c n)) by (rewrite E; reflexivity). rewrite resize_pot.
      unfold adds in *. cbn [filter is_add] in Hp. exact Hp.
Qed.

(* --- provenance invariant: everything remembered was added earlier --------- *)
Definition remembered (c : cache) (h : N) : Prop := In h (active c) \/ In h (archive c).

Lemma add_remembered c x h :
  remembered (fst (add c x)) h -> remembered c h \/ h = x.
Proof.
  unfold add, remembered. destruct (Z.eqb _ _); [tauto|].
  destruct (mem_N x (active c)); [tauto|].
  destruct (Z.leb _ _); cbn; intuition.
Qed.
Lemma resize_remembered c n h : remembered (fst (resize c n)) h <-> remembered c h.
Proof. unfold resize, remembered. destruct (_ <? _)%Z; cbn; tauto. Qed.

Lemma add_false_remembered c h : snd (add c h) = false -> remembered c h.
Proof.
  unfold add, remembered. destruct (Z.eqb _ _); [discriminate|].
  destruct (mem_N h (active c)) eqn:Ha; cbn.
  - intros _. left. apply mem_N_In. exact Ha.
  - destruct (mem_N h (archive c)) eqn:Hr; [|discriminate].
    intros _. right. apply mem_N_In. exact Hr.
Qed.

Definition hashes_of (ops : list op) : list N :=
  flat_map (fun o => match o with Add h => [h] | _ => [] end) ops.

Lemma run_remembered c ops h :
  remembered (fst (run c ops)) h -> remembered c h \/ In h (hashes_of ops).
Proof.
  revert c. induction ops as [|o r IH]; intros c; cbn [run].
  - cbn. tauto.
  - destruct o as [x|n]; cbn [step].
    + destruct (add c x) as [c1 b] eqn:E. specialize (IH c1).
      destruct (run c1 r) as [c2 bs]. cbn [fst] in *. intros H.
      destruct (IH H) as [H1|H1]; [|right; cbn; right; exact H1].
      replace c1 with (fst (add c x)) in H1 by (rewrite E; reflexivity).
      apply add_remembered in H1 as [H1| ->]; [left; exact H1 | right; cbn; left; reflexivity].
    + destruct (resize c n) as [c1 b] eqn:E. specialize (IH c1).
      destruct (run c1 r) as [c2 bs]. cbn [fst] in *. intros H.
      destruct (IH H) as [H1|H1]; [|right; exact H1].
      left. replace c1 with (fst (resize c n)) in H1 by (rewrite E; reflexivity).
      apply resize_remembered in H1. exact H1.
Qed.

Lemma disabled_add c h : cap c = 0%Z -> add c h = (c, true).
Proof. intros H. unfold add. rewrite H. reflexivity. Qed.

(* --- fresh handshakes and the single winner -------------------------------- *)
Lemma add_fresh_true c h : ~ remembered c h -> snd (add c h) = true.
Proof.
  intros H. destruct (snd (add c h)) eqn:E; [reflexivity|].
  exfalso. apply H. apply add_false_remembered. exact E.
Qed.

Definition winner_shape (l : list bool) : Prop :=
  l = [] \/ exists r, l = true :: r /\ Forall (fun b => b = false) r.

Lemma one_winner W c h ops :
  1 <= W -> caps_ge W c ops -> adds ops <= S W -> ~ remembered c h ->
  winner_shape (outs_of h ops (snd (run c ops))).
Proof.
  intros HW. revert c. induction ops as [|o r IH]; intros c [Hc HF] Ha Hfresh; cbn [run].
  - left. reflexivity.
  - inversion HF as [|? ? Ho HF']; subst.
    destruct o as [x|n]; cbn [step].
    + destruct (add c x) as [c1 b] eqn:E.
      assert (Hc1 : (Z.of_nat W <= cap c1)%Z).
      { replace c1 with (fst (add c x)) by (rewrite E; reflexivity). rewrite add_cap. exact Hc. }
      assert (Hc0 : cap c <> 0%Z) by lia.
      unfold adds in Ha. cbn [filter is_add length] in Ha. fold (adds r) in Ha.
      destruct (run c1 r) as [c2 bs] eqn:E2. cbn [snd outs_of].
      replace bs with (snd (run c1 r)) by (rewrite E2; reflexivity).
      destruct (N.eqb_spec x h) as [->|Hne].
      * right. exists (outs_of h r (snd (run c1 r))). split.
        { f_equal. replace b with (snd (add c h)) by (rewrite E; reflexivity).
          apply add_fresh_true. exact Hfresh. }
        apply (all_refused W); [exact HW | split; assumption |].
        replace c1 with (fst (add c h)) by (rewrite E; reflexivity).
        rewrite pot_after_add_self by exact Hc0. lia.
      * apply IH; [split; assumption | lia |].
        intros R. replace c1 with (fst (add c x)) in R by (rewrite E; reflexivity).
        apply add_remembered in R as [R|R]; [exact (Hfresh R) | congruence].
    + destruct (resize c n) as [c1 b] eqn:E.
      assert (Hc1 : (Z.of_nat W <= cap c1)%Z).
      { replace c1 with (fst (resize c n)) by (rewrite E; reflexivity). apply resize_cap_ge; assumption. }
      destruct (run c1 r) as [c2 bs] eqn:E2. cbn [snd outs_of].
      replace bs with (snd (run c1 r)) by (rewrite E2; reflexivity).
      apply IH; [split; assumption | unfold adds in *; cbn [filter is_add] in Ha; exact Ha |].
      intros R. replace c1 with (fst (resize c n)) in R by (rewrite E; reflexivity).
      apply resize_remembered in R. exact (Hfresh R).
Qed.

(* --- refusals only on a collision with an earlier presentation ------------- *)
Lemma run_app c a b :
  run c (a ++ b) = let '(c1, o1) := run c a in let '(c2, o2) := run c1 b in (c2, o1 ++ o2).
Proof.
  revert c. induction a as [|o r IH]; intros c; cbn [run app].
  - destruct (run c b). reflexivity.
  - destruct (step c o) as [c1 x]. rewrite IH. destruct (run c1 r) as [c2 o1].
    destruct (run c2 b). reflexivity.
Qed.

Lemma refused_only_if_seen c pre h :
  snd (step (fst (run c pre)) (Add h)) = false ->
  remembered c h \/ In h (hashes_of pre).
Proof.
  cbn [step]. intros H. apply add_false_remembered in H. apply run_remembered. exact H.
Qed.


Lemma refused_only_if_collision_lemma capacity pre id salt :
  snd (step (fst (run (empty_cache capacity) (map lower pre))) (lower (HAdd id salt))) = false ->
  exists id' salt', In (HAdd id' salt') pre /\ pre_hash id' salt' = pre_hash id salt.
Proof.
  intros H. apply refused_only_if_seen in H as [[[]|[]]|H].
  unfold hashes_of in H. apply in_flat_map in H as [o [Ho Hin]].
  apply in_map_iff in Ho as [ho [<- Hho]].
  destruct ho as [id' salt'|n]; cbn in Hin; [|contradiction].
  destruct Hin as [E|[]]. exists id', salt'. split; [exact Hho | exact E].
Qed.

Lemma disabled_accepts_all_lemma c ops :
  cap c = 0%Z -> Forall (fun o => is_add o = true) ops ->
  fst (run c ops) = c /\ Forall (fun b => b = true) (snd (run c ops)).
Proof.
  intros Hc. induction ops as [|o r IH]; intros HF; cbn [run].
  - split; [reflexivity | constructor].
  - inversion HF as [|? ? Ho HF']; subst. destruct o as [x|n]; [|discriminate].
    cbn [step]. rewrite (disabled_add c x Hc). specialize (IH HF').
    destruct (run c r) as [c2 bs]. cbn in *. destruct IH as [-> IH]. split; [reflexivity|].
    constructor; [reflexivity | exact IH].
Qed.

(* non-vacuity: concrete histories meeting the hypotheses *)
Example replay_window_example :
  snd (step (fst (run (fst (step (empty_cache 2) (Add 7))) [Add 1; Add 2])) (Add 7))%N = false.
Proof. reflexivity. Qed.
Example caps_ge_example : caps_ge 2 (empty_cache 2) [Add 7; Add 1; Resize 5; Add 2]%N.
Proof. split; [cbn; lia|]. repeat constructor; cbn; lia. Qed.
Example one_winner_example :
  outs_of 7 [Add 7; Add 1; Add 7; Add 7]%N (snd (run (empty_cache 3) [Add 7; Add 1; Add 7; Add 7]%N))
  = [true; false; false].
Proof. reflexivity. Qed.
Example pre_hash_example : pre_hash [1;2;3;4;5]%N [16;32]%N = be32 [20;34;3;4]%N.
Proof. reflexivity. Qed.

(* with one shared slot the placement of presentations over services, listeners and reload
   generations is irrelevant: the outcomes are those of the single cache on the plain sequence *)
Lemma shared_cache_placement_irrelevant_lemma ref r0 pl : forall st,
  (forall sv, ref sv = r0) ->
  snd (prun ref st pl) = snd (run (st r0) (map snd pl)) /\
  fst (prun ref st pl) r0 = fst (run (st r0) (map snd pl)).
Proof.
  induction pl as [|[sv o] r IH]; intros st Hr; cbn [prun run map snd fst]; [split; reflexivity|].
  rewrite Hr. destruct (step (st r0) o) as [c' out] eqn:S.
  specialize (IH (supd st r0 c') Hr).
  destruct (prun ref (supd st r0 c') r) as [st' outs] eqn:P. cbn [fst snd] in *.
  assert (E : supd st r0 c' r0 = c') by (unfold supd; rewrite Nat.eqb_refl; reflexivity).
  rewrite E in IH. destruct (run c' (map snd r)) as [c'' outs'] eqn:R. cbn [fst snd] in *.
  destruct IH as [I1 I2]. split; [f_equal; exact I1 | exact I2].
Qed.

(* a handshake first seen by service a is refused when replayed to ANY service b of any
   generation, within the window *)
Lemma cross_service_replay_refused_lemma W ref r0 st h a b mid :
  (forall sv, ref sv = r0) ->
  1 <= W -> caps_ge W (st r0) (Add h :: map snd mid) -> adds (map snd mid) <= W ->
  last (snd (prun ref st ((a, Add h) :: mid ++ [(b, Add h)]))) true = false.
Proof.
  intros Hr HW Hc Ha.
  rewrite (proj1 (shared_cache_placement_irrelevant_lemma ref r0 _ st Hr)).
  cbn [map snd]. rewrite map_app. cbn [map snd].
  pose proof (replay_refused_within_N_lemma W (st r0) h (map snd mid) HW Hc Ha) as R.
  (* run over (Add h :: mid ++ [Add h]) ends with the output of the final step *)
  assert (G : forall ops c o, last (snd (run c (ops ++ [o]))) true = snd (step (fst (run c ops)) o)).
  { clear. induction ops as [|x r IH]; intros c o; cbn [app run fst snd].
    - destruct (step c o) as [c' out]. cbn. reflexivity.
    - destruct (step c x) as [c1 o1]. specialize (IH c1 o).
      destruct (run c1 (r ++ [o])) as [c2 outs] eqn:R2. destruct (run c1 r) as [c3 outs3] eqn:R3. cbn [fst snd] in *.
      destruct outs as [|y ys]; [|exact IH].
      (* outs cannot be empty: r ++ [o] is not *)
      exfalso. clear - R2. revert c1 R2. induction r as [|z r IHr]; intros c1 R2; cbn [app run] in R2.
      + destruct (step c1 o); inversion R2.
      + destruct (step c1 z) as [c4 o4]. destruct (run c4 (r ++ [o])) eqn:R5. inversion R2. }
  change (Add h :: map snd mid ++ [Add h]) with ((Add h :: map snd mid) ++ [Add h]).
  rewrite G. cbn [run]. destruct (step (st r0) (Add h)) as [c1 o1] eqn:S1. cbn [fst] in R.
  destruct (run c1 (map snd mid)) as [c2 outs2]. cbn [fst snd] in *. exact R.
Qed.
