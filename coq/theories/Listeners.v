(* Listeners.v — labelled transition system of one shared stream listener
   (multiStreamListener + its virtualStreamListener handles, service/listeners.go), after the
   repairs eacc1d7 / f63a94d: kernel accept queue, the accept goroutine G with at most one held
   connection, the unbuffered acceptCh rendezvous, handles with their closeCh, the reference
   count (C12).  Go's select with several ready cases = several enabled labels. *)
From OSS Require Import theories.Base theories.AList.

Inductive sockst := Unbound | Open | Closed.
Inductive gst := GNone | GAccepting | GHolding (c : N) | GExited.
Record hst := { h_closed : bool; h_pending : bool }.   (* pending: an AcceptStream call is blocked in its select *)

Record sl := {
  sock : sockst;
  kq : list N;                 (* connections in the kernel's accept queue *)
  g : gst;
  ch_closed : bool;            (* acceptCh has been closed *)
  done : bool;                 (* doneCh has been closed (last handle closed) *)
  count : nat;
  handles : list N;            (* handle ids, in order of acquisition *)
  hstate : N -> hst;           (* state of each handle *)
  arrived : list N;            (* every connection that ever reached the socket *)
  delivered : list (N * N);    (* (handle, connection) returned by AcceptStream *)
  srv_closed : list N          (* connections closed by the server side without being delivered *)
}.
Definition hst0 : hst := {| h_closed := false; h_pending := false |}.
Definition sl0 : sl := {| sock := Unbound; kq := []; g := GNone; ch_closed := false; done := false; count := 0;
                          handles := []; hstate := fun _ => hst0; arrived := []; delivered := []; srv_closed := [] |}.
Definition hupd (f : N -> hst) (h : N) (v : hst) : N -> hst := fun x => if N.eqb x h then v else f x.
Definition has_handle (s : sl) (h : N) : bool := existsb (N.eqb h) (handles s).

Inductive label :=
| Acquire (h : N)            (* Acquire(): a new handle; the first one binds the socket and starts G *)
| Arrive (c : N)             (* a client connects *)
| GAccept                    (* G's AcceptStream returns the head of the kernel queue *)
| GSeesClosed                (* G's AcceptStream fails with ErrClosed: close(acceptCh), exit *)
| Deliver (h : N)            (* rendezvous on acceptCh between G and a pending AcceptStream of h *)
| GOrphan                    (* G, holding a connection, sees doneCh: closes the connection, exits *)
| AcceptCall (h : N)         (* AcceptStream is called on h *)
| AcceptRetClosed (h : N)    (* a pending AcceptStream returns net.ErrClosed *)
| CloseH (h : N).            (* Close() on h *)

Definition with_hstate (s : sl) (f : N -> hst) : sl :=
  {| sock := sock s; kq := kq s; g := g s; ch_closed := ch_closed s; done := done s; count := count s;
     handles := handles s; hstate := f; arrived := arrived s; delivered := delivered s; srv_closed := srv_closed s |}.

Definition step (s : sl) (l : label) : option sl :=
  match l with
  | Acquire h =>
      if has_handle s h then None else
      match sock s with
      | Closed =>
          (* re-acquisition after full release: the manager dropped the old shared listener and
             builds a new one on the same address (a new generation); the old accept goroutine
             has finished *)
          match g s with
          | GExited =>
              Some {| sock := Open; kq := []; g := GAccepting; ch_closed := false; done := false; count := 1;
                      handles := handles s ++ [h]; hstate := hupd (hstate s) h hst0;
                      arrived := arrived s; delivered := delivered s; srv_closed := srv_closed s |}
          | _ => None
          end
      | Unbound =>
          Some {| sock := Open; kq := []; g := GAccepting; ch_closed := false; done := false; count := 1;
                  handles := handles s ++ [h]; hstate := hupd (hstate s) h hst0;
                  arrived := arrived s; delivered := delivered s; srv_closed := srv_closed s |}
      | Open =>
          Some {| sock := Open; kq := kq s; g := g s; ch_closed := ch_closed s; done := done s; count := S (count s);
                  handles := handles s ++ [h]; hstate := hupd (hstate s) h hst0;
                  arrived := arrived s; delivered := delivered s; srv_closed := srv_closed s |}
      end
  | Arrive c =>
      match sock s with
      | Open => if existsb (N.eqb c) (arrived s) then None
                else Some {| sock := Open; kq := kq s ++ [c]; g := g s; ch_closed := ch_closed s; done := done s; count := count s;
                             handles := handles s; hstate := hstate s; arrived := arrived s ++ [c]; delivered := delivered s; srv_closed := srv_closed s |}
      | _ => None
      end
  | GAccept =>
      match g s, sock s, kq s with
      | GAccepting, Open, c :: r =>
          Some {| sock := Open; kq := r; g := GHolding c; ch_closed := ch_closed s; done := done s; count := count s;
                  handles := handles s; hstate := hstate s; arrived := arrived s; delivered := delivered s; srv_closed := srv_closed s |}
      | _, _, _ => None
      end
  | GSeesClosed =>
      match g s, sock s with
      | GAccepting, Closed =>
          Some {| sock := Closed; kq := kq s; g := GExited; ch_closed := true; done := done s; count := count s;
                  handles := handles s; hstate := hstate s; arrived := arrived s; delivered := delivered s; srv_closed := srv_closed s |}
      | _, _ => None
      end
  | Deliver h =>
      match g s with
      | GHolding c =>
          if has_handle s h && h_pending (hstate s h)
          then Some {| sock := sock s; kq := kq s; g := GAccepting; ch_closed := ch_closed s; done := done s; count := count s;
                       handles := handles s; hstate := hupd (hstate s) h {| h_closed := h_closed (hstate s h); h_pending := false |};
                       arrived := arrived s; delivered := delivered s ++ [(h, c)]; srv_closed := srv_closed s |}
          else None
      | _ => None
      end
  | GOrphan =>
      match g s with
      | GHolding c =>
          if done s
          then Some {| sock := sock s; kq := kq s; g := GExited; ch_closed := true; done := true; count := count s;
                       handles := handles s; hstate := hstate s; arrived := arrived s; delivered := delivered s; srv_closed := srv_closed s ++ [c] |}
          else None
      | _ => None
      end
  | AcceptCall h =>
      (* on a closed handle the call fails at once with ErrClosed: no state change, never pending *)
      if has_handle s h && negb (h_pending (hstate s h)) && negb (h_closed (hstate s h))
      then Some (with_hstate s (hupd (hstate s) h {| h_closed := false; h_pending := true |}))
      else None
  | AcceptRetClosed h =>
      if has_handle s h && h_pending (hstate s h) && (h_closed (hstate s h) || ch_closed s)
      then Some (with_hstate s (hupd (hstate s) h {| h_closed := h_closed (hstate s h); h_pending := false |}))
      else None
  | CloseH h =>
      if has_handle s h && negb (h_closed (hstate s h))      (* Close is idempotent: a second call does nothing *)
      then
        let f' := hupd (hstate s) h {| h_closed := true; h_pending := h_pending (hstate s h) |} in
        match count s with
        | 1 => (* last handle: doneCh closed, socket closed, the kernel resets what is still queued *)
            Some {| sock := Closed; kq := []; g := g s; ch_closed := ch_closed s; done := true; count := 0;
                    handles := handles s; hstate := f'; arrived := arrived s; delivered := delivered s; srv_closed := srv_closed s ++ kq s |}
        | S n => Some {| sock := sock s; kq := kq s; g := g s; ch_closed := ch_closed s; done := done s; count := n;
                         handles := handles s; hstate := f'; arrived := arrived s; delivered := delivered s; srv_closed := srv_closed s |}
        | O => None
        end
      else None
  end.

Fixpoint run (s : sl) (tr : list label) : option sl :=
  match tr with
  | [] => Some s
  | l :: t => match step s l with Some s' => run s' t | None => None end
  end.

Definition held (s : sl) : list N := match g s with GHolding c => [c] | _ => [] end.
(* where every arrived connection is *)
Definition whereabouts (s : sl) : list N := kq s ++ held s ++ map snd (delivered s) ++ srv_closed s.
Definition count_open (f : N -> hst) (ids : list N) : nat := length (filter (fun h => negb (h_closed (f h))) ids).
Definition open_handles (s : sl) : nat := count_open (hstate s) (handles s).
(* the accept goroutine can make a step on its own *)
Definition g_enabled (s : sl) : bool :=
  match g s with
  | GAccepting => match sock s, kq s with Open, _ :: _ => true | Closed, _ => true | _, _ => false end
  | GHolding _ => done s || existsb (fun h => h_pending (hstate s h)) (handles s)
  | _ => false
  end.

Example stranded_conn_is_closed :
  match run sl0 [Acquire 1; Arrive 7; GAccept; CloseH 1; GOrphan] with
  | Some s => srv_closed s = [7%N] /\ g s = GExited /\ sock s = Closed
  | None => False end.
Proof. cbn. repeat split; reflexivity. Qed.
