(* SsStreamProofs.v — decoding an honest stream returns exactly the plaintext, for every list of
   chunk sizes; the 50-byte prefetch is transparent (C02). *)
From OSS Require Import theories.Base theories.Crypto theories.SsStream theories.TcpAuthProofs.
From Coq Require Import ZifyBool ZifyNat ZifyN.

Lemma lookupN_cons_ne {A} id id' (v : A) l : id <> id' -> lookupN id ((id', v) :: l) = lookupN id l.
Proof. intros H. cbn. apply N.eqb_neq in H. rewrite H. reflexivity. Qed.
Lemma lookupN_cons_eq {A} id (v : A) l : lookupN id ((id, v) :: l) = Some v.
Proof. cbn. rewrite N.eqb_refl. reflexivity. Qed.

Definition env_after_chunk (e : env) (idb : N) (k : skey) (salt : list wbyte) (ctr : N) (c : bytes) : env :=
  {| seals := ((idb + 1)%N, {| se_key := k; se_salt := salt; se_nonce := (ctr + 1)%N; se_pt := c |})
              :: (idb, {| se_key := k; se_salt := salt; se_nonce := ctr; se_pt := be16 (length c) |}) :: seals e;
     macs := macs e |}.

Lemma encode_chunks_cons e idb k salt ctr c r :
  encode_chunks e idb k salt ctr (c :: r) =
  (fst (encode_chunks (env_after_chunk e idb k salt ctr c) (idb + 2) k salt (ctr + 2) r),
   seal_wire idb 2 (tag_size (k_cipher k)) ++ seal_wire (idb + 1) (length c) (tag_size (k_cipher k))
   ++ snd (encode_chunks (env_after_chunk e idb k salt ctr c) (idb + 2) k salt (ctr + 2) r)).
Proof.
  cbn [encode_chunks]. unfold seal, env_after_chunk. cbn [seals macs].
  destruct (encode_chunks _ (idb + 2) k salt (ctr + 2) r) as [e3 w3]. reflexivity.
Qed.

(* sealing with ids >= idb never disturbs entries below idb *)
Lemma encode_chunks_preserves chunks : forall e idb k salt ctr id,
  (id < idb)%N -> lookupN id (seals (fst (encode_chunks e idb k salt ctr chunks))) = lookupN id (seals e).
Proof.
  induction chunks as [|c r IH]; intros e idb k salt ctr id Hlt; [reflexivity|].
  rewrite encode_chunks_cons. cbn [fst]. rewrite IH by lia. unfold env_after_chunk. cbn [seals].
  rewrite !lookupN_cons_ne by lia. reflexivity.
Qed.

Lemma un16_be16 n : un16 (be16 n) = N.of_nat n.
Proof.
  unfold un16, be16. cbn [nth].
  pose proof (N.div_mod (N.of_nat n) 256 ltac:(discriminate)). lia.
Qed.
Lemma land_mask_small n : (n <= size_mask)%N -> N.land n size_mask = n.
Proof.
  intros H. change size_mask with 16383%N in *. change 16383%N with (N.ones 14).
  rewrite N.land_ones. apply N.mod_small. change (2 ^ 14)%N with 16384%N. lia.
Qed.

Lemma seal_wire_length id n t : length (seal_wire id n t) = n + t.
Proof. unfold seal_wire. apply ct_bytes_length. Qed.

(* main lemma: decoding what encode_chunks produced, in the environment it produced *)
Lemma decode_encode_chunks chunks : forall fuel e idb k salt ctr,
  length chunks <= fuel ->
  Forall (fun c => (N.of_nat (length c) <= size_mask)%N) chunks ->
  (forall id, (idb <= id)%N -> lookupN id (seals e) = None) ->
  forall e'', (forall id, (id < idb + 2 * N.of_nat (length chunks))%N ->
                 lookupN id (seals e'') = lookupN id (seals (fst (encode_chunks e idb k salt ctr chunks)))) ->
  decode_chunks fuel e'' k salt ctr (snd (encode_chunks e idb k salt ctr chunks)) = (concat chunks, DEof).
Proof.
  induction chunks as [|c r IH]; intros fuel e idb k salt ctr Hf Hsz Hfresh.
  - cbn [encode_chunks snd concat]. intros e'' _. destruct fuel; reflexivity.
  - rewrite encode_chunks_cons. set (e2 := env_after_chunk e idb k salt ctr c).
    destruct (encode_chunks e2 (idb + 2) k salt (ctr + 2) r) as [e3 w3] eqn:E. cbn [fst snd].
    intros e'' Hagree. destruct fuel as [|fuel]; [cbn in Hf; lia|]. inversion Hsz as [|? ? Hc Hr]; subst.
    destruct (sizes (k_cipher k)) as (_ & _ & T). set (tag := tag_size (k_cipher k)) in *.
    set (w1 := seal_wire idb 2 tag). set (w2 := seal_wire (idb + 1)%N (length c) tag).
    assert (L1 : length w1 = 2 + tag) by (unfold w1; rewrite seal_wire_length; reflexivity).
    assert (L2 : length w2 = length c + tag) by (unfold w2; apply seal_wire_length).
    (* lookups of the two entries in e'' *)
    assert (Hlen : N.of_nat (length (c :: r)) = (N.of_nat (length r) + 1)%N) by (cbn [length]; lia).
    assert (K1 : lookupN idb (seals e'') = Some {| se_key := k; se_salt := salt; se_nonce := ctr; se_pt := be16 (length c) |}).
    { rewrite Hagree by lia.
      pose proof (encode_chunks_preserves r e2 (idb + 2)%N k salt (ctr + 2)%N idb ltac:(lia)) as P.
      rewrite E in P. cbn [fst] in P. rewrite P. unfold e2, env_after_chunk. cbn [seals].
      rewrite lookupN_cons_ne by lia. apply lookupN_cons_eq. }
    assert (K2 : lookupN (idb + 1)%N (seals e'') = Some {| se_key := k; se_salt := salt; se_nonce := (ctr + 1)%N; se_pt := c |}).
    { rewrite Hagree by lia.
      pose proof (encode_chunks_preserves r e2 (idb + 2)%N k salt (ctr + 2)%N (idb + 1)%N ltac:(lia)) as P.
      rewrite E in P. cbn [fst] in P. rewrite P. unfold e2, env_after_chunk. cbn [seals]. apply lookupN_cons_eq. }
    cbn [decode_chunks]. fold tag.
    assert (Hne : w1 ++ w2 ++ w3 <> []).
    { intros H. apply (f_equal (@length wbyte)) in H. rewrite !app_length, L1 in H. cbn in H. lia. }
    destruct (w1 ++ w2 ++ w3) as [|x xs] eqn:Ew; [congruence|]. rewrite <- Ew. clear Hne.
    assert (B1 : (length (w1 ++ w2 ++ w3) <? 2 + tag) = false) by (apply Nat.ltb_ge; rewrite app_length; lia).
    rewrite B1.
    assert (F1 : firstn (2 + tag) (w1 ++ w2 ++ w3) = w1).
    { rewrite <- L1, firstn_app, firstn_all, Nat.sub_diag. cbn [firstn]. apply app_nil_r. }
    assert (S1 : skipn (2 + tag) (w1 ++ w2 ++ w3) = w2 ++ w3).
    { rewrite <- L1, skipn_app, skipn_all, Nat.sub_diag. reflexivity. }
    rewrite F1, S1.
    pose proof (aead_open_complete e'' idb _ k K1 eq_refl) as O1. cbn [se_pt se_salt se_nonce] in O1.
    change (length (be16 (length c))) with 2 in O1. fold tag in O1. fold w1 in O1. rewrite O1 by lia.
    assert (Hsize : N.to_nat (N.land (un16 (be16 (length c))) size_mask) = length c).
    { rewrite un16_be16. rewrite land_mask_small by exact Hc. apply Nat2N.id. }
    rewrite Hsize.
    assert (B2 : (length (w2 ++ w3) <? length c + tag) = false) by (apply Nat.ltb_ge; rewrite app_length; lia).
    rewrite B2.
    assert (F2 : firstn (length c + tag) (w2 ++ w3) = w2).
    { rewrite <- L2, firstn_app, firstn_all, Nat.sub_diag. cbn [firstn]. apply app_nil_r. }
    assert (S2 : skipn (length c + tag) (w2 ++ w3) = w3).
    { rewrite <- L2, skipn_app, skipn_all, Nat.sub_diag. reflexivity. }
    rewrite F2, S2.
    pose proof (aead_open_complete e'' (idb + 1)%N _ k K2 eq_refl) as O2. cbn [se_pt se_salt se_nonce] in O2.
    fold tag in O2. fold w2 in O2. rewrite O2 by lia.
    (* the rest, by induction *)
    specialize (IH fuel e2 (idb + 2)%N k salt (ctr + 2)%N).
    rewrite E in IH. cbn [fst snd] in IH. rewrite IH; [reflexivity | cbn in Hf; lia | exact Hr | | ].
    + intros id Hid. unfold e2, env_after_chunk. cbn [seals]. rewrite !lookupN_cons_ne by lia. apply Hfresh. lia.
    + intros id Hid. apply Hagree. lia.
Qed.

Lemma encode_chunks_length chunks : forall e idb k salt ctr,
  length (snd (encode_chunks e idb k salt ctr chunks)) = chunks_wire_len (tag_size (k_cipher k)) chunks.
Proof.
  induction chunks as [|c r IH]; intros e idb k salt ctr; [reflexivity|].
  rewrite encode_chunks_cons. cbn [snd chunks_wire_len]. rewrite !app_length, !seal_wire_length, IH. lia.
Qed.
Lemma chunks_wire_len_ge tag chunks : length chunks <= chunks_wire_len tag chunks.
Proof. induction chunks as [|c r IH]; cbn; lia. Qed.

(* HEADLINE: for every list of chunk payloads (any number, each 0..16383 bytes) the reader
   returns exactly their concatenation and a clean EOF.  The stream is a byte list: how TCP
   segments it is invisible to a ReadFull-based reader. *)
Lemma decode_encode_lemma e idb k salt chunks :
  length salt = salt_size (k_cipher k) ->
  Forall (fun c => (N.of_nat (length c) <= size_mask)%N) chunks ->
  (forall id, (idb <= id)%N -> lookupN id (seals e) = None) ->
  let '(e', w) := encode_stream e idb k salt chunks in
  decode_stream e' k w = (concat chunks, DEof).
Proof.
  intros Hs Hsz Hfresh. unfold encode_stream.
  pose proof (decode_encode_chunks chunks (S (length (salt ++ snd (encode_chunks e idb k salt 0 chunks)))) e idb k salt 0%N) as D.
  pose proof (encode_chunks_length chunks e idb k salt 0%N) as Lw.
  destruct (encode_chunks e idb k salt 0 chunks) as [e' w] eqn:E. cbn [fst snd] in *.
  unfold decode_stream. destruct (sizes (k_cipher k)) as (S1 & _ & _).
  destruct (salt ++ w) as [|x xs] eqn:Esw.
  { apply (f_equal (@length wbyte)) in Esw. rewrite app_length in Esw. cbn in Esw. lia. }
  rewrite <- Esw. rewrite <- Esw in D.
  assert (B : (length (salt ++ w) <? salt_size (k_cipher k)) = false) by (apply Nat.ltb_ge; rewrite app_length; lia).
  rewrite B.
  assert (F : firstn (salt_size (k_cipher k)) (salt ++ w) = salt).
  { rewrite <- Hs, firstn_app, firstn_all, Nat.sub_diag. cbn [firstn]. apply app_nil_r. }
  assert (Sk : skipn (salt_size (k_cipher k)) (salt ++ w) = w).
  { rewrite <- Hs, skipn_app, skipn_all, Nat.sub_diag. reflexivity. }
  rewrite F, Sk. apply D; [ | exact Hsz | exact Hfresh | reflexivity].
  rewrite app_length, Lw. pose proof (chunks_wire_len_ge (tag_size (k_cipher k)) chunks) as H. clear - H. lia.
Qed.

(* reading exactly n bytes first and putting them back in front (io.MultiReader) gives the
   reader the identical byte sequence *)
Lemma prefetch_transparent_lemma {A} n (ws : list A) : firstn n ws ++ skipn n ws = ws.
Proof. apply firstn_skipn. Qed.

(* a corrupted or foreign length block stops decoding with an authentication failure and
   releases no plaintext from that block on *)
Lemma decode_auth_fail fuel e k salt ctr ws :
  ws <> [] -> 2 + tag_size (k_cipher k) <= length ws ->
  aead_open e k salt ctr (firstn (2 + tag_size (k_cipher k)) ws) = None ->
  decode_chunks (S fuel) e k salt ctr ws = ([], DAuthFail).
Proof.
  intros Hne Hl Ho. cbn [decode_chunks]. destruct ws as [|x xs]; [congruence|].
  assert (B : (length (x :: xs) <? 2 + tag_size (k_cipher k)) = false) by (apply Nat.ltb_ge; exact Hl).
  rewrite B, Ho. reflexivity.
Qed.
