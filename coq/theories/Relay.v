(* Relay.v — labelled transition system of proxyConnection (service/tcp.go): two copy
   directions that share nothing; any interleaving of client / target / copy steps (C02).
   Plaintext level: the codec of each hop is SsStream.v. *)
From OSS Require Import theories.Base.

(* one direction: source endpoint -> proxy -> destination endpoint *)
Record dir := {
  d_sent : bytes;       (* everything the source has sent so far *)
  d_src : bytes;        (* sent, not yet read by the proxy *)
  d_src_fin : bool;     (* the source has half-closed after d_sent *)
  d_buf : bytes;        (* read by the proxy, not yet written *)
  d_dst : bytes;        (* received by the destination *)
  d_eof_seen : bool;    (* the copy loop has seen EOF *)
  d_fin_sent : bool     (* the proxy has half-closed the destination (CloseWrite) *)
}.
Definition dir0 : dir := {| d_sent := []; d_src := []; d_src_fin := false; d_buf := []; d_dst := [];
                           d_eof_seen := false; d_fin_sent := false |}.

Inductive dlabel :=
| Send (bs : bytes)     (* the source writes *)
| Fin                   (* the source half-closes *)
| CopyRead (n : nat)    (* the copy loop reads n >= 1 available bytes *)
| CopyWrite             (* ... and writes them *)
| SeeEof                (* the copy loop's Read returns EOF *)
| CloseW.               (* CloseWrite on the destination *)

Definition dstep (d : dir) (l : dlabel) : option dir :=
  match l with
  | Send bs => if d_src_fin d then None
               else Some {| d_sent := d_sent d ++ bs; d_src := d_src d ++ bs; d_src_fin := false; d_buf := d_buf d;
                            d_dst := d_dst d; d_eof_seen := d_eof_seen d; d_fin_sent := d_fin_sent d |}
  | Fin => Some {| d_sent := d_sent d; d_src := d_src d; d_src_fin := true; d_buf := d_buf d;
                   d_dst := d_dst d; d_eof_seen := d_eof_seen d; d_fin_sent := d_fin_sent d |}
  | CopyRead n =>
      match d_buf d with
      | [] => if (0 <? n) && (n <=? length (d_src d)) && negb (d_eof_seen d)
              then Some {| d_sent := d_sent d; d_src := skipn n (d_src d); d_src_fin := d_src_fin d;
                           d_buf := firstn n (d_src d); d_dst := d_dst d; d_eof_seen := false; d_fin_sent := d_fin_sent d |}
              else None
      | _ => None
      end
  | CopyWrite =>
      match d_buf d with
      | [] => None
      | b => Some {| d_sent := d_sent d; d_src := d_src d; d_src_fin := d_src_fin d; d_buf := [];
                     d_dst := d_dst d ++ b; d_eof_seen := d_eof_seen d; d_fin_sent := d_fin_sent d |}
      end
  | SeeEof =>
      match d_buf d, d_src d with
      | [], [] => if d_src_fin d && negb (d_eof_seen d)
                  then Some {| d_sent := d_sent d; d_src := []; d_src_fin := true; d_buf := []; d_dst := d_dst d;
                               d_eof_seen := true; d_fin_sent := d_fin_sent d |}
                  else None
      | _, _ => None
      end
  | CloseW => if d_eof_seen d && negb (d_fin_sent d)
              then Some {| d_sent := d_sent d; d_src := d_src d; d_src_fin := d_src_fin d; d_buf := d_buf d;
                           d_dst := d_dst d; d_eof_seen := true; d_fin_sent := true |}
              else None
  end.

(* the relay: upstream (client -> target) and downstream (target -> client) *)
Record relay := { up : dir; down : dir }.
Definition relay0 : relay := {| up := dir0; down := dir0 |}.
Inductive rlabel := Up (l : dlabel) | Down (l : dlabel).
Definition rstep (r : relay) (l : rlabel) : option relay :=
  match l with
  | Up x => option_map (fun u => {| up := u; down := down r |}) (dstep (up r) x)
  | Down x => option_map (fun d => {| up := up r; down := d |}) (dstep (down r) x)
  end.
Fixpoint rrun (r : relay) (tr : list rlabel) : option relay :=
  match tr with
  | [] => Some r
  | l :: t => match rstep r l with Some r' => rrun r' t | None => None end
  end.

Definition dinv (d : dir) : Prop :=
  d_sent d = d_dst d ++ d_buf d ++ d_src d /\
  (d_eof_seen d = true -> d_src_fin d = true /\ d_src d = [] /\ d_buf d = []) /\
  (d_fin_sent d = true -> d_eof_seen d = true).

Example relay_example :
  rrun relay0 [Up (Send [1;2;3]%N); Down (Send [9]%N); Up (CopyRead 2); Down Fin; Up CopyWrite; Up Fin;
               Down (CopyRead 1); Up (CopyRead 1); Down CopyWrite; Up CopyWrite; Down SeeEof; Up SeeEof; Down CloseW; Up CloseW]
  <> None.
Proof. vm_compute. discriminate. Qed.
