(* TunnelTimeProofs.v — the tunnel-time invariant and its corollaries (C17). *)
From OSS Require Import theories.Base theories.AList theories.TunnelTime.
Open Scope Z_scope.

Lemma ipkey_eqb_spec a b : ipkey_eqb a b = true <-> a = b.
Proof.
  unfold ipkey_eqb. destruct a as [a1 a2], b as [b1 b2]. cbn.
  rewrite andb_true_iff, !N.eqb_eq. split; [intros [-> ->]; reflexivity | intros H; inversion H; tauto].
Qed.
Local Notation lk := (alookup ipkey_eqb).
Local Notation E := ipkey_eqb_spec.

Lemma sum_where_app p l1 l2 : sum_where p (l1 ++ l2) = sum_where p l1 + sum_where p l2.
Proof. induction l1 as [|[k z] r IH]; cbn; [reflexivity|]. rewrite IH. lia. Qed.

(* contribution of one Collect to pair p *)
Lemma collect_sum p now l :
  NoDup (akeys l) ->
  sum_where (ipkey_eqb p) (map (fun kc : ipkey * client => (fst kc, now - start (snd kc))) l)
  = match lk p l with Some c => now - start c | None => 0 end.
Proof.
  induction l as [|[k c] r IH]; cbn; [reflexivity|]. intros H. inversion H as [|? ? Hn Hr]; subst.
  specialize (IH Hr). destruct (ipkey_eqb p k) eqn:Ek.
  - apply E in Ek. subst k. rewrite IH.
    rewrite (notin_alookup_None ipkey_eqb E p r Hn). lia.
  - rewrite IH. lia.
Qed.
Lemma collect_lookup p now l :
  lk p (map (fun kc : ipkey * client => (fst kc, {| cnt := cnt (snd kc); start := now |})) l)
  = option_map (fun c => {| cnt := cnt c; start := now |}) (lk p l).
Proof. induction l as [|[k c] r IH]; cbn; [reflexivity|]. destruct (ipkey_eqb p k); [reflexivity|exact IH]. Qed.
Lemma collect_keys now (l : list (ipkey * client)) :
  akeys (map (fun kc : ipkey * client => (fst kc, {| cnt := cnt (snd kc); start := now |})) l) = akeys l.
Proof. unfold akeys. rewrite map_map. reflexivity. Qed.

(* the invariant relating the collector state to the specification for pair p *)
Definition inv (p : ipkey) (s : tt) (now o t : Z) : Prop :=
  NoDup (akeys (act s)) /\
  match lk p (act s) with
  | Some c => cnt c = o /\ 0 < o /\ start c <= now /\ reported_pair s p + (now - start c) = t
  | None => o = 0 /\ reported_pair s p = t
  end.

Lemma inv_init p : inv p tt_init 0 0 0.
Proof. split; [constructor|]. cbn. split; reflexivity. Qed.

Lemma NoDup_start s k now : NoDup (akeys (act s)) -> NoDup (akeys (act (tt_start s k now))).
Proof.
  intros H. unfold tt_start. destruct (lk k (act s)) eqn:L; cbn [act].
  - rewrite akeys_update. exact H.
  - pose proof (NoDup_set ipkey_eqb E k {| cnt := 1; start := now |} (act s) H) as N.
    unfold aset in N. rewrite L in N. exact N.
Qed.
Lemma NoDup_stop s k now : NoDup (akeys (act s)) -> NoDup (akeys (act (tt_stop s k now))).
Proof.
  intros H. unfold tt_stop. destruct (lk k (act s)) eqn:L; [|exact H].
  destruct (cnt c - 1 <=? 0); cbn [act].
  - apply NoDup_remove. exact H.
  - rewrite akeys_update. exact H.
Qed.

Lemma inv_step p s now o t e :
  inv p s now o t ->
  (match e with
   | Stop k => if ipkey_eqb k p then 0 < o else True
   | Tick dt => 0 <= dt
   | _ => True end) ->
  let '(s', now') := step (s, now) e in
  let '(o', t') := spec_step p (o, t) e in
  inv p s' now' o' t'.
Proof.
  intros [ND I] Hwf. destruct e as [k|k|dt|]; cbn [step spec_step].
  - (* Start *)
    destruct (ipkey_eqb k p) eqn:Ek; (split; [apply NoDup_start; exact ND|]).
    + apply E in Ek. subst k. unfold tt_start, reported_pair in *.
      destruct (lk p (act s)) as [c|] eqn:L; cbn [act log].
      * rewrite (alookup_update_same ipkey_eqb), L. cbn. destruct I as (I1 & I2 & I3 & I4). repeat split; lia.
      * rewrite (alookup_app ipkey_eqb), L. cbn. rewrite (eqb_refl ipkey_eqb E). cbn.
        destruct I as (I1 & I2). repeat split; lia.
    + assert (Hne : k <> p) by (intros ->; rewrite (eqb_refl ipkey_eqb E) in Ek; discriminate).
      unfold tt_start, reported_pair in *.
      destruct (lk k (act s)) as [c|] eqn:L; cbn [act log].
      * rewrite (alookup_update_other ipkey_eqb E) by exact Hne. exact I.
      * rewrite (alookup_app ipkey_eqb). destruct (lk p (act s)); [exact I|]. cbn.
        rewrite (eqb_neq ipkey_eqb E p k) by congruence. exact I.
  - (* Stop *)
    destruct (ipkey_eqb k p) eqn:Ek; (split; [apply NoDup_stop; exact ND|]).
    + apply E in Ek. subst k. unfold tt_stop, reported_pair in *.
      destruct (lk p (act s)) as [c|] eqn:L.
      * destruct I as (I1 & I2 & I3 & I4).
        destruct (Z.leb_spec (cnt c - 1) 0); cbn [act log].
        -- rewrite (alookup_remove_same ipkey_eqb). rewrite sum_where_app. cbn.
           rewrite (eqb_refl ipkey_eqb E). split; lia.
        -- rewrite (alookup_update_same ipkey_eqb), L. cbn. repeat split; lia.
      * destruct I as (I1 & I2). lia.
    + assert (Hne : k <> p) by (intros ->; rewrite (eqb_refl ipkey_eqb E) in Ek; discriminate).
      unfold tt_stop, reported_pair in *.
      destruct (lk k (act s)) as [c|] eqn:L; [|exact I].
      destruct (cnt c - 1 <=? 0); cbn [act log].
      * rewrite (alookup_remove_other ipkey_eqb E) by exact Hne. rewrite sum_where_app. cbn.
        rewrite (eqb_neq ipkey_eqb E p k) by congruence.
        destruct (lk p (act s)); [destruct I as (I1 & I2 & I3 & I4); repeat split; lia | destruct I; split; lia].
      * rewrite (alookup_update_other ipkey_eqb E) by exact Hne. exact I.
  - (* Tick *)
    split; [exact ND|]. destruct (lk p (act s)) as [c|].
    + destruct I as (I1 & I2 & I3 & I4). destruct (Z.ltb_spec 0 o); repeat split; lia.
    + destruct I as (I1 & I2). destruct (Z.ltb_spec 0 o); split; lia.
  - (* Collect *)
    split; [cbn [tt_collect act]; rewrite collect_keys; exact ND|].
    unfold reported_pair in *. cbn [tt_collect act log]. rewrite collect_lookup, sum_where_app, (collect_sum p now _ ND).
    destruct (lk p (act s)) as [c|]; cbn.
    + destruct I as (I1 & I2 & I3 & I4). repeat split; lia.
    + destruct I as (I1 & I2). split; lia.
Qed.

Lemma inv_run_from p h : forall s now o t,
  inv p s now o t -> wf_from p o h ->
  let '(s', now') := fold_left step h (s, now) in
  let '(o', t') := fold_left (spec_step p) h (o, t) in
  inv p s' now' o' t'.
Proof.
  induction h as [|e r IH]; intros s now o t I W; cbn [fold_left].
  - exact I.
  - assert (Hpre : match e with
                   | Stop k => if ipkey_eqb k p then 0 < o else True
                   | Tick dt => 0 <= dt | _ => True end).
    { destruct e; cbn in W; tauto. }
    pose proof (inv_step p s now o t e I Hpre) as S.
    destruct (step (s, now) e) as [s1 now1] eqn:Es. destruct (spec_step p (o, t) e) as [o1 t1] eqn:Ep.
    apply IH; [exact S|].
    destruct e as [k|k|dt|]; cbn in W, Ep.
    + destruct (ipkey_eqb k p); inversion Ep; subst; exact W.
    + destruct W as [_ W]. destruct (ipkey_eqb k p); inversion Ep; subst; exact W.
    + destruct W as [_ W]. inversion Ep; subst. exact W.
    + inversion Ep; subst. exact W.
Qed.

(* headline: at every point of every well-formed history, for every (ip,key):
   reported + running time of the current period = true tunnel time *)
Lemma tunnel_time_invariant_lemma p h :
  wf p h ->
  let s := fst (run h) in let now := snd (run h) in
  NoDup (akeys (act s)) /\
  match alookup ipkey_eqb p (act s) with
  | Some c => cnt c = open_count p h /\ 0 < open_count p h /\
              reported_pair s p + (now - start c) = truth p h
  | None => open_count p h = 0 /\ reported_pair s p = truth p h
  end.
Proof.
  intros W. pose proof (inv_run_from p h tt_init 0 0 0 (inv_init p) W) as I.
  unfold run, open_count, truth, spec. destruct (fold_left step h (tt_init, 0)) as [s now].
  destruct (fold_left (spec_step p) h (0, 0)) as [o t]. cbn [fst snd].
  destruct I as [ND I]. split; [exact ND|]. destruct (lk p (act s)); [|exact I]. tauto.
Qed.

Lemma run_snoc h e : run (h ++ [e]) = step (run h) e.
Proof. unfold run. rewrite fold_left_app. reflexivity. Qed.
Lemma spec_snoc p h e : spec p (h ++ [e]) = spec_step p (spec p h) e.
Proof. unfold spec. rewrite fold_left_app. reflexivity. Qed.
Lemma wf_from_app p h1 h2 o :
  wf_from p o (h1 ++ h2) <-> wf_from p o h1 /\ wf_from p (fst (fold_left (spec_step p) h1 (o, 0))) h2.
Proof.
  revert o. induction h1 as [|e r IH]; intros o; cbn [app wf_from fold_left].
  - cbn. tauto.
  - assert (G : forall o t t', fst (fold_left (spec_step p) r (o, t)) = fst (fold_left (spec_step p) r (o, t'))).
    { clear. induction r as [|e r IH]; intros o t t'; cbn [fold_left]; [reflexivity|].
      destruct e as [k|k|dt|]; cbn [spec_step]; try (destruct (ipkey_eqb k p)); apply IH. }
    destruct e as [k|k|dt|]; cbn [spec_step].
    + destruct (ipkey_eqb k p); rewrite IH; tauto.
    + destruct (ipkey_eqb k p); rewrite IH; tauto.
    + rewrite IH. rewrite (G o (if 0 <? o then 0 + dt else 0) 0). tauto.
    + rewrite IH. tauto.
Qed.

(* right after a scrape the reported value is exactly the true tunnel time *)
Lemma exact_after_scrape_lemma p h :
  wf p h -> reported_pair (fst (run (h ++ [Collect]))) p = truth p (h ++ [Collect]).
Proof.
  intros W. assert (W' : wf p (h ++ [Collect])).
  { unfold wf. apply wf_from_app. split; [exact W|]. cbn. trivial. }
  pose proof (tunnel_time_invariant_lemma p _ W') as [ND I].
  pose proof (tunnel_time_invariant_lemma p _ W) as [ND0 I0].
  rewrite run_snoc in *. destruct (run h) as [s now] eqn:R. cbn [step fst snd] in *.
  cbn [tt_collect act] in I. rewrite collect_lookup in I.
  destruct (lk p (act s)) as [c|]; cbn [option_map] in I.
  - destruct I as (_ & _ & I). cbn [start] in I. lia.
  - destruct I as (_ & I). exact I.
Qed.

(* when no tunnel of the pair is open, too *)
Lemma exact_when_closed_lemma p h :
  wf p h -> open_count p h = 0 -> reported_pair (fst (run h)) p = truth p h.
Proof.
  intros W O. pose proof (tunnel_time_invariant_lemma p h W) as [_ I].
  destruct (alookup ipkey_eqb p (act (fst (run h)))); [lia|tauto].
Qed.

(* time between two scrapes is counted exactly once *)
Lemma no_double_count_across_scrapes_lemma p h1 h2 :
  wf p (h1 ++ [Collect] ++ h2) ->
  reported_pair (fst (run (h1 ++ [Collect] ++ h2 ++ [Collect]))) p
  - reported_pair (fst (run (h1 ++ [Collect]))) p
  = truth p (h1 ++ [Collect] ++ h2 ++ [Collect]) - truth p (h1 ++ [Collect]).
Proof.
  intros W.
  assert (W1 : wf p h1).
  { unfold wf in *. apply wf_from_app in W. tauto. }
  replace (h1 ++ [Collect] ++ h2 ++ [Collect]) with ((h1 ++ [Collect] ++ h2) ++ [Collect])
    by (rewrite <- !app_assoc; reflexivity).
  rewrite (exact_after_scrape_lemma p _ W), (exact_after_scrape_lemma p _ W1). reflexivity.
Qed.

(* --- totals per label class are sums of the per-pair values ------------------------- *)
Fixpoint sum_list (l : list Z) : Z := match l with [] => 0 | x :: r => x + sum_list r end.

Lemma zero_others (cls : ipkey -> bool) r k z :
  ~ In k r -> sum_list (map (fun p => if cls p then (if ipkey_eqb p k then z else 0) else 0) r) = 0.
Proof.
  induction r as [|q r IH]; cbn [map sum_list]; [reflexivity|]. intros Hn.
  rewrite IH by (intros H; apply Hn; right; exact H).
  rewrite (eqb_neq ipkey_eqb E q k) by (intros ->; apply Hn; left; reflexivity).
  destruct (cls q); reflexivity.
Qed.

Lemma pick_one (cls : ipkey -> bool) ps k z :
  NoDup ps -> In k ps ->
  sum_list (map (fun p => if cls p then (if ipkey_eqb p k then z else 0) else 0) ps) = if cls k then z else 0.
Proof.
  induction ps as [|q r IH]; cbn [map sum_list In]; [tauto|].
  intros ND Hin. inversion ND as [|? ? Hn Hr]; subst. destruct Hin as [->|Hin].
  - rewrite (eqb_refl ipkey_eqb E), (zero_others cls r k z Hn). destruct (cls k); lia.
  - rewrite (IH Hr Hin). rewrite (eqb_neq ipkey_eqb E q k) by (intros ->; contradiction).
    destruct (cls q); lia.
Qed.

Lemma class_total_lemma (cls : ipkey -> bool) ps l :
  NoDup ps -> (forall k z, In (k, z) l -> In k ps) ->
  sum_where cls l = sum_list (map (fun p => if cls p then sum_where (ipkey_eqb p) l else 0) ps).
Proof.
  intros ND. induction l as [|[k z] r IH]; intros Hc; cbn [sum_where].
  - clear. induction ps as [|q ps IHp]; cbn; [reflexivity|]. rewrite <- IHp.
    destruct (cls q); reflexivity.
  - rewrite IH by (intros k' z' H; apply (Hc k' z'); right; exact H).
    rewrite <- (pick_one cls ps k z ND (Hc k z (or_introl eq_refl))).
    clear. induction ps as [|q ps IHp]; cbn; [reflexivity|]. rewrite <- Z.add_assoc, <- IHp.
    destruct (cls q); destruct (ipkey_eqb q k); lia.
Qed.

(* a labelling [f] partitions the log: the per-label totals add up to the grand total,
   whatever the labelling — hence per-location totals = per-key totals *)
Lemma partition_total_lemma (f : ipkey -> N) cs l :
  NoDup cs -> (forall k z, In (k, z) l -> In (f k) cs) ->
  sum_list (map (fun c => sum_where (fun k => N.eqb (f k) c) l) cs) = sum_where (fun _ => true) l.
Proof.
  intros ND. induction l as [|[k z] r IH]; intros Hc; cbn [sum_where].
  - clear. induction cs as [|c cs IHc]; cbn; [reflexivity|]. rewrite IHc. reflexivity.
  - rewrite <- IH by (intros k' z' H; apply (Hc k' z'); right; exact H).
    assert (P : sum_list (map (fun c => if N.eqb (f k) c then z else 0) cs) = z).
    { pose proof (Hc k z (or_introl eq_refl)) as Hin. clear - ND Hin.
      induction cs as [|c cs IHc]; cbn [map sum_list In] in *; [tauto|].
      inversion ND as [|? ? Hn Hr]; subst. destruct Hin as [->|Hin].
      - rewrite N.eqb_refl.
        assert (Z0 : sum_list (map (fun c => if N.eqb (f k) c then z else 0) cs) = 0).
        { clear - Hn. induction cs as [|c cs IHc]; cbn [map sum_list]; [reflexivity|].
          rewrite IHc by (intros H; apply Hn; right; exact H).
          destruct (N.eqb_spec (f k) c) as [Heq|_]; [exfalso; apply Hn; left; symmetry; exact Heq | reflexivity]. }
        lia.
      - rewrite (IHc Hr Hin). destruct (N.eqb_spec (f k) c) as [Heq|_]; [exfalso; apply Hn; rewrite <- Heq; exact Hin | lia]. }
    assert (S : forall g h : N -> Z, sum_list (map (fun c => g c + h c) cs) = sum_list (map g cs) + sum_list (map h cs)).
    { clear. intros g h. induction cs as [|c cs IHc]; cbn [map sum_list]; [reflexivity|]. rewrite IHc. lia. }
    rewrite (S (fun c => if N.eqb (f k) c then z else 0) (fun c => sum_where (fun k0 => N.eqb (f k0) c) r)), P.
    reflexivity.
Qed.

(* unauthenticated TCP connections produce no collector event at all; events of other
   pairs leave the pair's value alone (they are invisible to [spec p]) *)
Lemma unauthenticated_no_events_lemma s c ip :
  snd (lower s (TcpOpen c ip)) = [] /\
  (forall cn, alookup N.eqb c (tcp s) = Some cn -> c_key cn = None -> snd (lower s (TcpClose c)) = []).
Proof. split; [reflexivity|]. intros cn L K. cbn. rewrite L, K. reflexivity. Qed.

(* --- noninterference: client IPs matter only through distinctness and location (C20) --- *)
Section Rename.
  Variable rho : N -> N.
  Hypothesis rho_inj : forall a b, rho a = rho b -> a = b.

  Definition rk (k : ipkey) : ipkey := (rho (fst k), snd k).
  Definition rev (e : ev) : ev :=
    match e with Start k => Start (rk k) | Stop k => Stop (rk k) | Tick dt => Tick dt | Collect => Collect end.
  Definition ract (l : list (ipkey * client)) := map (fun kc => (rk (fst kc), snd kc)) l.
  Definition rlog (l : list (ipkey * Z)) := map (fun kz => (rk (fst kz), snd kz)) l.
  Definition rtt (s : tt) : tt := {| act := ract (act s); log := rlog (log s) |}.

  Lemma rk_eqb a b : ipkey_eqb (rk a) (rk b) = ipkey_eqb a b.
  Proof.
    destruct (ipkey_eqb a b) eqn:H.
    - apply E in H. subst. apply (eqb_refl ipkey_eqb E).
    - destruct (ipkey_eqb (rk a) (rk b)) eqn:H2; [|reflexivity]. apply E in H2.
      destruct a as [a1 a2], b as [b1 b2]. unfold rk in H2. cbn in H2. inversion H2 as [[H3 H4]].
      apply rho_inj in H3. subst. rewrite (eqb_refl ipkey_eqb E) in H. discriminate.
  Qed.
  Lemma lk_ract k l : lk (rk k) (ract l) = lk k l.
  Proof. unfold ract. induction l as [|[k' c] r IH]; cbn [map alookup fst snd]; [reflexivity|]. rewrite rk_eqb, IH. reflexivity. Qed.
  Lemma update_ract k c l : aupdate ipkey_eqb (rk k) c (ract l) = ract (aupdate ipkey_eqb k c l).
  Proof.
    unfold aupdate, ract. rewrite !map_map. apply map_ext. intros [k' c']. cbn [fst snd].
    rewrite rk_eqb. destruct (ipkey_eqb k k'); reflexivity.
  Qed.
  Lemma remove_ract k l : aremove ipkey_eqb (rk k) (ract l) = ract (aremove ipkey_eqb k l).
  Proof.
    unfold ract, aremove. induction l as [|[k' c'] r IH]; cbn [map filter fst snd]; [reflexivity|]. rewrite rk_eqb.
    destruct (ipkey_eqb k k'); cbn [negb map fst snd]; [exact IH|]. rewrite <- IH. reflexivity.
  Qed.

  Lemma step_rename s now e :
    step (rtt s, now) (rev e) = (rtt (fst (step (s, now) e)), snd (step (s, now) e)).
  Proof.
    destruct e as [k|k|dt|]; cbn [rev step fst snd].
    - f_equal. unfold tt_start, rtt. cbn [act log]. rewrite lk_ract.
      destruct (lk k (act s)); cbn [act log].
      + rewrite update_ract. reflexivity.
      + unfold ract. rewrite map_app. reflexivity.
    - f_equal. unfold tt_stop, rtt. cbn [act log]. rewrite lk_ract.
      destruct (lk k (act s)) as [c|]; [|reflexivity].
      destruct (cnt c - 1 <=? 0); cbn [act log].
      + rewrite remove_ract. unfold rlog. rewrite map_app. reflexivity.
      + rewrite update_ract. reflexivity.
    - reflexivity.
    - f_equal. unfold tt_collect, rtt, ract, rlog. cbn [act log]. rewrite map_app, !map_map. reflexivity.
  Qed.

  Lemma run_rename h : run (map rev h) = (rtt (fst (run h)), snd (run h)).
  Proof.
    unfold run. change (tt_init, 0) with (rtt tt_init, 0) at 1.
    generalize tt_init 0. induction h as [|e r IH]; intros s now; cbn [map fold_left]; [reflexivity|].
    rewrite step_rename. destruct (step (s, now) e) as [s1 now1]. cbn [fst snd]. apply IH.
  Qed.

  Lemma sum_where_rlog (p q : ipkey -> bool) l :
    (forall k, p (rk k) = q k) -> sum_where p (rlog l) = sum_where q l.
  Proof. intros H. unfold rlog. induction l as [|[k z] r IH]; cbn [map sum_where fst snd]; [reflexivity|]. rewrite H, IH. reflexivity. Qed.

  Lemma noninterference_lemma (locf : N -> N) h :
    (forall ip, locf (rho ip) = locf ip) ->
    (forall key, reported_key (fst (run (map rev h))) key = reported_key (fst (run h)) key) /\
    (forall loc, reported_loc locf (fst (run (map rev h))) loc = reported_loc locf (fst (run h)) loc).
  Proof.
    intros Hl. rewrite run_rename. cbn [fst]. split.
    - intros key. unfold reported_key, rtt. cbn [log]. apply sum_where_rlog. reflexivity.
    - intros loc. unfold reported_loc, rtt. cbn [log]. apply sum_where_rlog. intros k. cbn. rewrite Hl. reflexivity.
  Qed.
End Rename.
