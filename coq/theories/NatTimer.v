(* NatTimer.v — model of natconn.onWrite / onRead (service/udp.go): the read deadline of an
   association's socket, the DNS fast-close latch (sync.Once), and the association's life cycle
   (C14). Times are integer nanoseconds; 0 is the zero time.Time. *)
From OSS Require Import theories.Base.
From OSS Require Gen.Consts.
Open Scope Z_scope.

Definition dns_timeout : Z := Gen.Consts.dns_timeout_ns.

Record timer := {
  rd : Z;            (* natconn.readDeadline: the latest deadline promised so far *)
  spent : bool;      (* fastClose sync.Once already done *)
  sock_dl : Z;       (* read deadline currently set on the socket (0 = none) *)
  fast_closed : bool (* the latch fired on a DNS response: the socket deadline is "now" *)
}.
Definition timer0 : timer := {| rd := 0; spent := false; sock_dl := 0; fast_closed := false |}.

(* onWrite: a datagram is about to be sent to [is_dns ? port 53 : other]; T = NAT timeout *)
Definition on_write (T : Z) (t : timer) (now : Z) (is_dns : bool) : timer :=
  let first := rd t =? 0 in
  let spent' := if negb is_dns || negb first then true else spent t in
  let nd := now + (if is_dns then dns_timeout else T) in
  if rd t <? nd
  then {| rd := nd; spent := spent'; sock_dl := nd; fast_closed := false |}
  else {| rd := rd t; spent := spent'; sock_dl := sock_dl t; fast_closed := fast_closed t |}.

(* onRead: a datagram was received from [from_dns ? port 53 : other] *)
Definition on_read (t : timer) (now : Z) (from_dns : bool) : timer :=
  if spent t then t
  else if from_dns then {| rd := rd t; spent := true; sock_dl := now; fast_closed := true |}
  else {| rd := rd t; spent := true; sock_dl := sock_dl t; fast_closed := fast_closed t |}.

Inductive top := TWrite (now : Z) (is_dns : bool) | TRead (now : Z) (from_dns : bool).
Definition tstep (T : Z) (t : timer) (o : top) : timer :=
  match o with TWrite now d => on_write T t now d | TRead now d => on_read t now d end.
Definition trun (T : Z) (ops : list top) : timer := fold_left (tstep T) ops timer0.

Definition writes_of (ops : list top) : list bool :=
  flat_map (fun o => match o with TWrite _ d => [d] | _ => [] end) ops.
Definition reads_of (ops : list top) : nat := length (filter (fun o => match o with TRead _ _ => true | _ => false end) ops).
Definition op_time (o : top) : Z := match o with TWrite n _ | TRead n _ => n end.

(* --- life cycle of associations: what the association goroutine does after its copy loop
   has seen the timeout (timedCopy returns): report, delete, close — in this order, once ---- *)
Inductive lev :=
| LAdd (s : N)            (* AddUDPNatEntry *)
| LRemove (s : N)         (* RemoveNatEntry *)
| LDel (s : N)            (* natmap.del *)
| LCloseSock (s : N).     (* the outbound socket is closed *)
Inductive lop :=
| LCreate (s : N)         (* an authenticated datagram with an allowed destination from a new client *)
| LTimeout (s : N)        (* the socket's read deadline passes with no traffic *)
| LShutdown.              (* the packet listener is closed: natmap.Close sets every deadline to now *)
(* live associations, event log *)
Definition lstep (st : list N * list lev) (o : lop) : list N * list lev :=
  let '(live, log) := st in
  match o with
  | LCreate s => if existsb (N.eqb s) live then st else (live ++ [s], log ++ [LAdd s])
  | LTimeout s => if existsb (N.eqb s) live
                  then (filter (fun x => negb (N.eqb x s)) live, log ++ [LRemove s; LDel s; LCloseSock s])
                  else st
  | LShutdown => ([], log ++ flat_map (fun s => [LRemove s; LDel s; LCloseSock s]) live)
  end.
Definition lrun (ops : list lop) : list N * list lev := fold_left lstep ops ([], []).
Definition lcount (p : lev -> bool) (l : list lev) : nat := length (filter p l).
Definition is_remove (s : N) (x : lev) : bool := match x with LRemove s' => N.eqb s s' | _ => false end.
Definition is_add (s : N) (x : lev) : bool := match x with LAdd s' => N.eqb s s' | _ => false end.
Definition is_close (s : N) (x : lev) : bool := match x with LCloseSock s' => N.eqb s s' | _ => false end.

Example fast_close_example :
  fast_closed (trun 300 [TWrite 1000 true; TRead 1500 true]) = true /\
  fast_closed (trun 300 [TWrite 1000 true; TWrite 1100 true; TRead 1500 true]) = false /\
  fast_closed (trun 300 [TWrite 1000 false; TRead 1500 true]) = false.
Proof. repeat split; reflexivity. Qed.
