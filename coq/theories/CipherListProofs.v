(* CipherListProofs.v — snapshots and marking never lose, duplicate or alter entries; the
   trial-decryption search is sound and complete (C01, C03). *)
From OSS Require Import theories.Base theories.Crypto theories.CipherList.
From Coq Require Import Permutation.

Lemma filter_partition_perm {A} (p : A -> bool) (l : list A) :
  Permutation (filter p l ++ filter (fun x => negb (p x)) l) l.
Proof.
  induction l as [|x r IH]; cbn; [constructor|].
  destruct (p x); cbn.
  - constructor. exact IH.
  - apply Permutation_sym. apply Permutation_cons_app. apply Permutation_sym. exact IH.
Qed.

Lemma snapshot_permutation_lemma ip cl : Permutation (map snd (snapshot ip cl)) (items cl).
Proof.
  unfold snapshot. rewrite map_map. cbn. rewrite map_id. apply filter_partition_perm.
Qed.

Lemma snapshot_gen ip cl el : In el (snapshot ip cl) -> fst el = gen cl /\ In (snd el) (items cl).
Proof.
  unfold snapshot. intros H. apply in_map_iff in H as [e [<- He]]. split; [reflexivity|].
  cbn. apply in_app_or in He as [He|He]; apply filter_In in He; tauto.
Qed.

(* marking keeps the configured entries: same multiset of (uid, id, key) *)
Lemma mark_cfg_perm cl el ip :
  NoDup (map e_uid (items cl)) ->
  Permutation (map cfg_of (items (mark_used cl el ip))) (map cfg_of (items cl)).
Proof.
  intros ND. unfold mark_used. destruct (N.eqb (fst el) (gen cl)); [|reflexivity].
  set (u := e_uid (snd el)).
  destruct (filter (fun e => N.eqb (e_uid e) u) (items cl)) as [|e r] eqn:F; [reflexivity|].
  cbn [items map].
  assert (He : In e (items cl) /\ e_uid e = u).
  { assert (In e (filter (fun e => N.eqb (e_uid e) u) (items cl))) by (rewrite F; left; reflexivity).
    apply filter_In in H as [H1 H2]. apply N.eqb_eq in H2. tauto. }
  destruct He as [Hin Hu]. clearbody u. subst u. clear F.
  (* with distinct uids, the matching filter is exactly [e] *)
  assert (G : forall l, NoDup (map e_uid l) -> In e l ->
            Permutation (cfg_of e :: map cfg_of (filter (fun x => negb (N.eqb (e_uid x) (e_uid e))) l)) (map cfg_of l)).
  { clear. induction l as [|x l IH]; cbn; [tauto|]. intros ND [->|Hin]; inversion ND as [|? ? Hn Hr]; subst.
    - rewrite N.eqb_refl. cbn. constructor.
      assert (Z : filter (fun x => negb (N.eqb (e_uid x) (e_uid e))) l = l).
      { clear - Hn. induction l as [|y l IH]; cbn; [reflexivity|].
        destruct (N.eqb_spec (e_uid y) (e_uid e)) as [E|_]; cbn.
        - exfalso. apply Hn. left. exact E.
        - f_equal. apply IH. intros H. apply Hn. right. exact H. }
      rewrite Z. reflexivity.
    - destruct (N.eqb_spec (e_uid x) (e_uid e)) as [E|_]; cbn.
      + exfalso. apply Hn. rewrite E. apply in_map. exact Hin.
      + eapply Permutation_trans; [apply perm_swap|]. constructor. apply IH; assumption. }
  replace (cfg_of (set_last ip e)) with (cfg_of e) by reflexivity.
  apply G; assumption.
Qed.

Lemma mark_uids cl el ip :
  NoDup (map e_uid (items cl)) -> NoDup (map e_uid (items (mark_used cl el ip))).
Proof.
  intros ND. pose proof (mark_cfg_perm cl el ip ND) as P.
  assert (P2 : Permutation (map e_uid (items (mark_used cl el ip))) (map e_uid (items cl))).
  { apply (Permutation_map (fun c : N * bytes * skey => fst (fst c))) in P. rewrite !map_map in P. exact P. }
  eapply Permutation_NoDup; [apply Permutation_sym; exact P2 | exact ND].
Qed.
Lemma mark_gen cl el ip : gen (mark_used cl el ip) = gen cl.
Proof.
  unfold mark_used. destruct (N.eqb _ _); [|reflexivity].
  destruct (filter _ _); reflexivity.
Qed.

(* any interleaving of snapshots and marks (from any number of connections, with stale or
   current elements, any IPs) leaves exactly the entries of the last Update *)
Fixpoint last_update (g0 : N) (l0 : list entry) (ops : list clop) : N * list entry :=
  match ops with
  | [] => (g0, l0)
  | OpUpdate g l :: r => last_update g l r
  | _ :: r => last_update g0 l0 r
  end.
Definition updates_wf (ops : list clop) : Prop :=
  Forall (fun o => match o with OpUpdate _ l => NoDup (map e_uid l) | _ => True end) ops.

Lemma history_independent_lemma ops : forall cl,
  NoDup (map e_uid (items cl)) -> updates_wf ops ->
  let cl' := fold_left cl_step ops cl in
  gen cl' = fst (last_update (gen cl) (items cl) ops) /\
  Permutation (map cfg_of (items cl')) (map cfg_of (snd (last_update (gen cl) (items cl) ops))) /\
  NoDup (map e_uid (items cl')).
Proof.
  induction ops as [|o r IH]; intros cl ND W; cbn [fold_left last_update].
  - repeat split; [reflexivity | exact ND].
  - inversion W as [|? ? Wo Wr]; subst. destruct o as [ip|el ip|g l]; cbn [cl_step].
    + apply IH; assumption.
    + specialize (IH (mark_used cl el ip) (mark_uids cl el ip ND) Wr). cbn zeta in IH.
      destruct IH as (G & P & N2). rewrite mark_gen in G.
      (* last_update depends only on the Updates in r, or else on the starting pair *)
      assert (L : forall g l1 l2, Permutation (map cfg_of l1) (map cfg_of l2) ->
                  fst (last_update g l1 r) = fst (last_update g l2 r) /\
                  Permutation (map cfg_of (snd (last_update g l1 r))) (map cfg_of (snd (last_update g l2 r)))).
      { clear. induction r as [|o r IHr]; intros g l1 l2 P; cbn [last_update]; [split; [reflexivity|exact P]|].
        destruct o; try (apply IHr; exact P). split; reflexivity. }
      destruct (L (gen cl) _ _ (mark_cfg_perm cl el ip ND)) as [L1 L2].
      repeat split; [rewrite G; rewrite mark_gen in *; exact L1 | | exact N2].
      eapply Permutation_trans; [exact P|]. rewrite mark_gen. exact L2.
    + apply (IH (update cl g l)); [exact Wo | exact Wr].
Qed.

(* --- the search --------------------------------------------------------------------- *)
Lemma find_entry_sound e first snap el :
  find_entry e first snap = Ok (Some el) ->
  In el snap /\ exists pt, unpack e (e_key (snd el)) (firstn (need (e_key (snd el))) first) = Some pt.
Proof.
  induction snap as [|x r IH]; cbn [find_entry]; [discriminate|].
  destruct (length first <? need (e_key (snd x))); [discriminate|].
  destruct (unpack e (e_key (snd x)) (firstn (need (e_key (snd x))) first)) as [pt|] eqn:U.
  - intros H. inversion H; subst. split; [left; reflexivity | exists pt; exact U].
  - intros H. destruct (IH H) as [H1 H2]. split; [right; exact H1 | exact H2].
Qed.

Lemma find_entry_none e first snap :
  find_entry e first snap = Ok None ->
  forall el, In el snap -> unpack e (e_key (snd el)) (firstn (need (e_key (snd el))) first) = None.
Proof.
  induction snap as [|x r IH]; cbn [find_entry]; [intros _ el []|].
  destruct (length first <? need (e_key (snd x))); [discriminate|].
  destruct (unpack e (e_key (snd x)) (firstn (need (e_key (snd x))) first)) eqn:U; [discriminate|].
  intros H el [<-|Hin]; [exact U | apply IH; assumption].
Qed.

Lemma find_entry_complete e first snap :
  (forall el, In el snap -> need (e_key (snd el)) <= length first) ->
  (exists el, In el snap /\ unpack e (e_key (snd el)) (firstn (need (e_key (snd el))) first) <> None) ->
  exists el, find_entry e first snap = Ok (Some el).
Proof.
  induction snap as [|x r IH]; intros Hlen [el [Hin Hu]]; [destruct Hin|]. cbn [find_entry].
  assert (Hx : (length first <? need (e_key (snd x))) = false).
  { apply Nat.ltb_ge. apply Hlen. left. reflexivity. }
  rewrite Hx. destruct (unpack e (e_key (snd x)) (firstn (need (e_key (snd x))) first)) eqn:U.
  - exists x. reflexivity.
  - destruct Hin as [<-|Hin]; [congruence|].
    apply IH; [intros y Hy; apply Hlen; right; exact Hy | exists el; tauto].
Qed.

Lemma find_entry_no_panic e first snap :
  (forall el, In el snap -> need (e_key (snd el)) <= length first) -> find_entry e first snap <> Panic.
Proof.
  induction snap as [|x r IH]; intros Hlen; cbn [find_entry]; [discriminate|].
  assert (Hx : (length first <? need (e_key (snd x))) = false).
  { apply Nat.ltb_ge. apply Hlen. left. reflexivity. }
  rewrite Hx. destruct (unpack _ _ _); [discriminate|]. apply IH. intros y Hy. apply Hlen. right. exact Hy.
Qed.

(* the four ciphers of the pinned SDK fit the 50-byte window (recomputed from Gen) *)
Lemma key_window_lemma :
  forallb (fun c => (salt_size c + 2 + tag_size c <=? bytes_for_key_finding) &&
                    (bytes_for_key_finding <=? salt_size c + 2 + 2 * tag_size c)) all_ciphers = true.
Proof. reflexivity. Qed.
