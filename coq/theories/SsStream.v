(* SsStream.v — model of the Shadowsocks AEAD stream format as the SDK's Writer produces it and
   its chunkReader consumes it (outline-sdk transport/shadowsocks/stream.go; modelled, the
   correspondence drives the real ones): salt, then per chunk a sealed 2-byte length and the
   sealed payload, nonces counting up; the length is masked with payloadSizeMask (C02, C06). *)
From OSS Require Import theories.Base theories.Crypto.
From OSS Require Gen.Consts.

Definition size_mask : N := Z.to_N Gen.Consts.payload_size_mask.
Definition be16 (n : nat) : bytes := [N.of_nat n / 256; N.of_nat n mod 256]%N.
Definition un16 (b : bytes) : N := (nth 0 b 0 * 256 + nth 1 b 0)%N.

(* honest encoding of [chunks] (each at most the mask), sealed entries get ids idb, idb+1, ... *)
Fixpoint encode_chunks (e : env) (idb : N) (k : skey) (salt : list wbyte) (ctr : N) (chunks : list bytes)
  : env * list wbyte :=
  match chunks with
  | [] => (e, [])
  | c :: r =>
      let '(e1, w1) := seal e idb k salt ctr (be16 (length c)) in
      let '(e2, w2) := seal e1 (idb + 1) k salt (ctr + 1) c in
      let '(e3, w3) := encode_chunks e2 (idb + 2) k salt (ctr + 2) r in
      (e3, w1 ++ w2 ++ w3)
  end.
Definition encode_stream (e : env) (idb : N) (k : skey) (salt : list wbyte) (chunks : list bytes) : env * list wbyte :=
  let '(e', w) := encode_chunks e idb k salt 0 chunks in (e', salt ++ w).

Inductive dec_end :=
| DEof              (* the stream ended on a chunk boundary *)
| DUnexpectedEof    (* ... in the middle of a chunk *)
| DAuthFail.        (* a length or payload block failed authentication *)

(* the chunk reader over the whole byte stream that follows the salt; one unit of fuel per chunk *)
Fixpoint decode_chunks (fuel : nat) (e : env) (k : skey) (salt : list wbyte) (ctr : N) (ws : list wbyte)
  : bytes * dec_end :=
  match fuel with
  | O => ([], DEof)
  | S f =>
      let tag := tag_size (k_cipher k) in
      match ws with
      | [] => ([], DEof)
      | _ =>
        if length ws <? 2 + tag then ([], DUnexpectedEof)
        else match aead_open e k salt ctr (firstn (2 + tag) ws) with
             | None => ([], DAuthFail)
             | Some lenb =>
                 let size := N.to_nat (N.land (un16 lenb) size_mask) in
                 let rest := skipn (2 + tag) ws in
                 if length rest <? size + tag then ([], DUnexpectedEof)
                 else match aead_open e k salt (ctr + 1) (firstn (size + tag) rest) with
                      | None => ([], DAuthFail)
                      | Some pt =>
                          let '(out, fin) := decode_chunks f e k salt (ctr + 2) (skipn (size + tag) rest) in
                          (pt ++ out, fin)
                      end
             end
      end
  end.

(* the reader: salt first. Enough fuel for any stream: one chunk consumes at least 2+tag bytes *)
Definition decode_stream (e : env) (k : skey) (ws : list wbyte) : bytes * dec_end :=
  let ss := salt_size (k_cipher k) in
  match ws with
  | [] => ([], DEof)
  | _ => if length ws <? ss then ([], DUnexpectedEof)
         else decode_chunks (S (length ws)) e k (firstn ss ws) 0 (skipn ss ws)
  end.

(* wire size of an honest stream *)
Fixpoint chunks_wire_len (tag : nat) (chunks : list bytes) : nat :=
  match chunks with [] => 0 | c :: r => 2 + tag + (length c + tag) + chunks_wire_len tag r end.
