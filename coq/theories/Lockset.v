(* Lockset.v — threads with mutex / RW-mutex operations and shared-memory accesses;
   the lockset discipline and the access-site table vocabulary (C19). *)
From OSS Require Import theories.Base.
From Coq Require String.
Notation string := String.string.

Inductive mode := MR | MW.                       (* read (shared) / write (exclusive) hold *)
Inductive instr :=
| Acq (l : nat) (m : mode) | Rel (l : nat)
| Read (x : nat) | Write (x : nat).
Definition thread := (list (nat * mode) * list instr)%type.   (* held (lock, mode), remaining *)
Definition state := nat -> thread.               (* thread id -> thread; unused ids are ([], []) *)

Definition holds (t : thread) (l : nat) : Prop := exists m, In (l, m) (fst t).
Definition holds_w (t : thread) (l : nat) : Prop := In (l, MW) (fst t).
Definition drop_lock (l : nat) (h : list (nat * mode)) := filter (fun lm => negb (Nat.eqb (fst lm) l)) h.
Definition upd (st : state) (i : nat) (t : thread) : state := fun j => if Nat.eqb j i then t else st j.

(* a step of thread i; W acquisition needs the lock free, R acquisition needs no writer *)
Inductive tstep (st : state) (i : nat) : thread -> thread -> Prop :=
| TAcqW h l r : (forall j, j <> i -> ~ holds (st j) l) -> tstep st i (h, Acq l MW :: r) ((l, MW) :: h, r)
| TAcqR h l r : (forall j, j <> i -> ~ holds_w (st j) l) -> tstep st i (h, Acq l MR :: r) ((l, MR) :: h, r)
| TRel h l r : tstep st i (h, Rel l :: r) (drop_lock l h, r)
| TRead h x r : tstep st i (h, Read x :: r) (h, r)
| TWrite h x r : tstep st i (h, Write x :: r) (h, r).
Inductive step : state -> state -> Prop :=
| Step st i t' : tstep st i (st i) t' -> step st (upd st i t').
Inductive exec : state -> state -> Prop :=
| exec_refl st : exec st st
| exec_step st st' st'' : step st st' -> exec st' st'' -> exec st st''.

(* next access of a thread *)
Definition next_access (t : thread) : option (nat * bool) :=   (* (location, is_write) *)
  match snd t with Read x :: _ => Some (x, false) | Write x :: _ => Some (x, true) | _ => None end.

(* a data race: two different threads poised at accesses to one location, one a write *)
Definition race (st : state) : Prop :=
  exists i j x w1 w2, i <> j /\
    next_access (st i) = Some (x, w1) /\ next_access (st j) = Some (x, w2) /\ (w1 = true \/ w2 = true).

Section Discipline.
  Variable guard : nat -> nat.                   (* the lock guarding each location *)

  (* static discipline of one program: reads hold the guard (any mode), writes hold it in W mode *)
  Fixpoint ok (h : list (nat * mode)) (p : list instr) : Prop :=
    match p with
    | [] => True
    | Acq l m :: r => ok ((l, m) :: h) r
    | Rel l :: r => ok (drop_lock l h) r
    | Read x :: r => (exists m, In (guard x, m) h) /\ ok h r
    | Write x :: r => In (guard x, MW) h /\ ok h r
    end.
  Fixpoint okb (h : list (nat * mode)) (p : list instr) : bool :=
    match p with
    | [] => true
    | Acq l m :: r => okb ((l, m) :: h) r
    | Rel l :: r => okb (drop_lock l h) r
    | Read x :: r => existsb (fun lm => Nat.eqb (fst lm) (guard x)) h && okb h r
    | Write x :: r => existsb (fun lm => Nat.eqb (fst lm) (guard x) && match snd lm with MW => true | MR => false end) h && okb h r
    end.

  (* lock exclusion: a W hold excludes every hold of that lock by another thread *)
  Definition excl (st : state) : Prop :=
    forall i j l, i <> j -> holds_w (st i) l -> ~ holds (st j) l.
  Definition inv (st : state) : Prop := (forall i, ok (fst (st i)) (snd (st i))) /\ excl st.
End Discipline.

(* --- access-site table vocabulary (filled by the translator, Gen/Sites.v) -------------- *)
Record site := {
  s_field : string;          (* "Struct.field" *)
  s_func : string;           (* enclosing function, "$go" suffix inside a spawned goroutine literal *)
  s_write : bool;
  s_held : list (string * bool);   (* (lock class, exclusive?) held at the site *)
  s_pos : string             (* file:line, informational *)
}.

Inductive discipline :=
| Guarded (lock : string)            (* every access holds the lock; writes hold it exclusively *)
| WriteOnceBeforeSpawn (lock : string) (writers readers_unlocked : list string)
      (* written only under [lock] in [writers], before the goroutines that read it without
         the lock ([readers_unlocked]) are created; any other access holds the lock *)
| Confined (funcs : list string)     (* accessed only by the one goroutine running these functions *)
| ConstructionOnly (funcs : list string).  (* written only while the object is still private *)

(* --- the discipline table (hand-written; the translator supplies the sites) ------------- *)
Import String.StringSyntax.
Local Open Scope string_scope.

Definition discipline_table : list (string * discipline) :=
  [ ("ReplayCache.capacity", Guarded "ReplayCache.mutex");
    ("ReplayCache.active", Guarded "ReplayCache.mutex");
    ("ReplayCache.archive", Guarded "ReplayCache.mutex");
    ("cipherList.list", Guarded "cipherList.mu");
    ("CipherEntry.lastClientIP", Guarded "cipherList.mu");
    ("natmap.keyConn", Guarded "natmap.(embedded)");
    ("natconn.readDeadline", Confined ["natconn.onWrite"]);     (* only the Handle loop goroutine writes to a target *)
    ("multiStreamListener.ln", Guarded "multiStreamListener.mu");
    ("multiStreamListener.count", Guarded "multiStreamListener.mu");
    ("multiStreamListener.onCloseFunc", Guarded "multiStreamListener.mu");
    ("multiStreamListener.acceptCh",
       WriteOnceBeforeSpawn "multiStreamListener.mu" ["multiStreamListener.Acquire"] ["multiStreamListener.Acquire$go"]);
    ("multiPacketListener.count", Guarded "multiPacketListener.mu");
    ("multiPacketListener.onCloseFunc", Guarded "multiPacketListener.mu");
    ("multiPacketListener.pc",
       WriteOnceBeforeSpawn "multiPacketListener.mu" ["multiPacketListener.Acquire"] ["multiPacketListener.Acquire$go"]);
    ("multiPacketListener.readCh",
       WriteOnceBeforeSpawn "multiPacketListener.mu" ["multiPacketListener.Acquire"] ["multiPacketListener.Acquire$go"]);
    ("multiPacketListener.doneCh",
       WriteOnceBeforeSpawn "multiPacketListener.mu" ["multiPacketListener.Acquire"] ["multiPacketListener.Acquire$go"]);
    ("virtualStreamListener.acceptCh", Guarded "virtualStreamListener.mu");
    ("virtualStreamListener.onCloseFunc", Guarded "virtualStreamListener.mu");
    ("virtualPacketConn.onCloseFunc", Guarded "virtualPacketConn.mu");
    ("listenerManager.streamListeners", Guarded "listenerManager.mu");
    ("listenerManager.packetListeners", Guarded "listenerManager.mu");
    ("tunnelTimeMetrics.activeClients", Guarded "tunnelTimeMetrics.mu");
    ("activeClient.connCount", Guarded "tunnelTimeMetrics.mu");
    ("activeClient.startTime", Guarded "tunnelTimeMetrics.mu");
    (* the listener set lives entirely inside the runConfig goroutine *)
    ("listenerSet.listenerCloseFuncs",
       Confined ["listenerSet.ListenStream"; "listenerSet.ListenPacket"; "listenerSet.Close"; "listenerSet.Len"]) ].

Fixpoint lookup_discipline (f : string) (t : list (string * discipline)) : option discipline :=
  match t with
  | [] => None
  | (k, d) :: r => if String.eqb k f then Some d else lookup_discipline f r
  end.

Definition in_strs (x : string) (l : list string) : bool := existsb (String.eqb x) l.
Definition holds_lock (l : string) (need_excl : bool) (held : list (string * bool)) : bool :=
  existsb (fun h => String.eqb (fst h) l && (negb need_excl || snd h)) held.

(* functions that initialise an object before it is shared with any other goroutine *)
Definition constructors : list string := ["newNATmap"].

Definition site_okb (s : site) : bool :=
  in_strs (s_func s) constructors ||
  match lookup_discipline (s_field s) discipline_table with
  | None => false
  | Some (Guarded l) => holds_lock l (s_write s) (s_held s)
  | Some (WriteOnceBeforeSpawn l writers readers) =>
      if s_write s then holds_lock l true (s_held s) && in_strs (s_func s) writers
      else holds_lock l false (s_held s) || in_strs (s_func s) readers
  | Some (Confined funcs) => in_strs (s_func s) funcs
  | Some (ConstructionOnly funcs) => negb (s_write s) || in_strs (s_func s) funcs
  end.

(* every field of the table is seen by the translator (a renamed field must not drop out silently) *)
Definition fields_covered (ss : list site) : bool :=
  forallb (fun kd => existsb (fun s => String.eqb (s_field s) (fst kd)) ss) discipline_table.

(* a Guarded site as a one-instruction program of the LTS above: the locks held at the site
   become the thread's held set, the access becomes Read/Write of the field's location *)
Definition lock_id (l : string) (classes : list string) : nat :=
  match @index_where string (String.eqb l) classes with Some i => i | None => List.length classes end.
Definition site_held (classes : list string) (s : site) : list (nat * mode) :=
  map (fun h : string * bool => (lock_id (fst h) classes, if snd h then MW else MR)) (s_held s).
