(* TcpMetrics.v — end to end for TCP: a sequence of connections through the handler model
   (TcpConn.handle), the calls each makes on its metrics sink, and the Prometheus collector model.
   Gathered data_bytes{proto="tcp",dir="c>p"} per key = the bytes the clients of the connections
   attributed to that key put on the wire (the empty key: connections that never authenticated). *)
From OSS Require Import theories.Base theories.IPClass theories.Socks theories.Crypto theories.CipherList theories.Replay.
From OSS Require Import theories.TcpAuth theories.SsStream theories.TcpConn theories.TcpConnProofs.
From OSS Require Import theories.Collector theories.CollectorProofs.
From Coq Require Import String.
Import String.StringSyntax.
Open Scope Z_scope.

Section TcpMetrics.
  Variable f : bytes -> string.          (* key ID as a label value *)
  Variable sname : N -> string.          (* status code as a label value *)
  Variable dname : drain -> string.      (* drain result as a label value *)
  Variable port : string.                (* the listener's label *)

  Definition tcall_of (c : N) (x : ev) : list mcall :=
    match x with
    | EAuth id => [MTAuth c (f id)]
    | EProbe s d n => [MTProbe c port (sname s) (dname d) n]
    | EClosed s cp pt tp => [MTClosed c (sname s) cp pt tp 0]   (* bytes towards the client are not modelled *)
    | _ => []
    end.
  Definition conn_calls (c : N) (evs : list ev) : list mcall := MTOpen c :: flat_map (tcall_of c) evs.

  (* connection ids count up; a panic ends the process *)
  Fixpoint trun (e : env) (st : astate) (c : N) (cis : list conn_in) : list mcall :=
    match cis with
    | [] => []
    | ci :: r =>
        match handle e st ci with
        | (st', Ok evs) => conn_calls c evs ++ trun e st' (c + 1) r
        | (_, Panic) => []
        end
    end.

  Definition conn_key (evs : list ev) : string := match evs with EAuth id :: _ => f id | _ => EmptyString end.
  (* the wire of one connection, per direction: the bytes its client sent; the payload bytes delivered
     to the target; the bytes of the target that were relayed towards the client (the ciphertext
     bytes written to the client are not modelled: that direction counts 0) *)
  Definition to_target (evs : list ev) : Z :=
    fold_right (fun x acc => match x with EToTarget bs => zlen bs + acc | _ => acc end) 0 evs.
  Definition to_client (evs : list ev) : Z :=
    fold_right (fun x acc => match x with EToClient bs => zlen bs + acc | _ => acc end) 0 evs.
  Definition conn_wire (fc first : bool) (ci : conn_in) (evs : list ev) : Z :=
    match fc, first with
    | true, true => zlen (ci_bytes ci) | true, false => to_target evs | false, true => to_client evs | false, false => 0
    end.
  Fixpoint twire (fc first : bool) (k : string) (e : env) (st : astate) (cis : list conn_in) : Z :=
    match cis with
    | [] => 0
    | ci :: r =>
        match handle e st ci with
        | (st', Ok evs) => (if String.eqb k (conn_key evs) then conn_wire fc first ci evs else 0) + twire fc first k e st' r
        | (_, Panic) => 0
        end
    end.

  (* ---------------------------------------------------------------------------------------- *)
  Fixpoint tk_after (tk : list (N * string)) (calls : list mcall) : list (N * string) :=
    match calls with
    | [] => tk
    | MTAuth c k :: r => tk_after ((c, k) :: tk) r
    | _ :: r => tk_after tk r
    end.
  Lemma tclosed_app tk l1 l2 : tclosed tk (l1 ++ l2) = tclosed tk l1 ++ tclosed (tk_after tk l1) l2.
  Proof.
    revert tk. induction l1 as [|c r IH]; intros tk; [reflexivity|].
    destruct c; cbn [app tclosed tk_after]; rewrite ?IH; reflexivity.
  Qed.
  Lemma tk_after_app tk l1 l2 : tk_after tk (l1 ++ l2) = tk_after (tk_after tk l1) l2.
  Proof.
    revert tk. induction l1 as [|c r IH]; intros tk; [reflexivity|].
    destruct c; cbn [app tk_after]; rewrite ?IH; reflexivity.
  Qed.
  Lemma sum_closed_app k fc first l1 l2 :
    sum_closed k fc first (l1 ++ l2) = sum_closed k fc first l1 + sum_closed k fc first l2.
  Proof. induction l1 as [|x r IH]; [reflexivity|]. cbn [app]. rewrite !sum_closed_cons, IH. lia. Qed.

  Definition below (c : N) (tk : list (N * string)) : Prop := forall x, In x tk -> (fst x < c)%N.
  Lemma key_of_below c tk : below c tk -> key_of tk c = EmptyString.
  Proof.
    induction tk as [|[a k] r IH]; intros H; [reflexivity|]. cbn [key_of].
    destruct (N.eqb_spec c a) as [->|_].
    - specialize (H (a, k) (or_introl eq_refl)). cbn in H. lia.
    - apply IH. intros x Hx. apply H. right. exact Hx.
  Qed.

  (* events before the Closed report: no Closed among them *)
  Lemma pre_no_closed c tk pre :
    count is_closed pre = 0%nat -> tclosed tk (flat_map (tcall_of c) pre) = [].
  Proof.
    revert tk. induction pre as [|x r IH]; intros tk H; [reflexivity|].
    unfold count in *. destruct x; cbn [flat_map tcall_of app tclosed filter is_closed] in *;
      try (apply IH; exact H); discriminate.
  Qed.
  Lemma pre_no_auth c tk pre :
    count is_auth pre = 0%nat -> tk_after tk (flat_map (tcall_of c) pre) = tk.
  Proof.
    revert tk. induction pre as [|x r IH]; intros tk H; [reflexivity|].
    unfold count in *. destruct x; cbn [flat_map tcall_of app tk_after filter is_auth] in *;
      try (apply IH; exact H); discriminate.
  Qed.
  Lemma count_app p l1 l2 : count p (l1 ++ l2) = (count p l1 + count p l2)%nat.
  Proof. unfold count. rewrite filter_app, app_length. reflexivity. Qed.

  Lemma zlen_nonneg {A} (l : list A) : 0 <= zlen l.
  Proof. unfold zlen. lia. Qed.
  Lemma pos_nonneg v : 0 <= v -> pos v = v.
  Proof. intros H. unfold pos. destruct (0 <? v) eqn:E; [reflexivity|]. apply Z.ltb_ge in E. lia. Qed.

  (* the Closed report's target-side counters are the bytes of the relay events *)
  Lemma closed_counts e st ci st' evs s cp pt tp :
    handle e st ci = (st', Ok evs) -> In (EClosed s cp pt tp) evs ->
    pt = to_target evs /\ tp = to_client evs.
  Proof.
    unfold handle. destruct (authenticate e st (ci_ip ci) (ci_bytes ci)) as [st1 res].
    destruct res as [[id el salt|sa id]|]; [| |intros H; inversion H].
    - unfold after_auth. destruct (decode_stream e (e_key (snd el)) (ci_bytes ci)) as [p fin].
      destruct (read_addr p) as [ab payload| |].
      + destruct (decode_addr ab) as [a|].
        * destruct (dial ci a) as [i|s0].
          -- destruct fin; intros H Hin; inversion H; subst; clear H; cbn in Hin;
               repeat (destruct Hin as [Hin|Hin]; [try discriminate; inversion Hin; subst|]); try contradiction;
               cbn [to_target to_client fold_right app]; split; lia.
          -- intros H Hin; inversion H; subst; clear H; cbn in Hin.
             repeat (destruct Hin as [Hin|Hin]; [try discriminate; inversion Hin; subst|]); try contradiction. split; reflexivity.
        * intros H Hin; inversion H; subst; clear H; cbn in Hin.
          repeat (destruct Hin as [Hin|Hin]; [try discriminate; inversion Hin; subst|]); try contradiction. split; reflexivity.
      + intros H Hin; inversion H; subst; clear H; cbn in Hin.
        repeat (destruct Hin as [Hin|Hin]; [try discriminate; inversion Hin; subst|]); try contradiction. split; reflexivity.
      + intros H Hin; inversion H; subst; clear H; cbn in Hin.
        repeat (destruct Hin as [Hin|Hin]; [try discriminate; inversion Hin; subst|]); try contradiction. split; reflexivity.
    - intros H Hin; inversion H; subst; clear H; cbn in Hin.
      repeat (destruct Hin as [Hin|Hin]; [try discriminate; inversion Hin; subst|]); try contradiction. split; reflexivity.
  Qed.
  Lemma to_target_nonneg evs : 0 <= to_target evs.
  Proof. induction evs as [|x r IH]; cbn [to_target fold_right]; [lia|]. fold (to_target r). destruct x; try exact IH. pose proof (zlen_nonneg bs). lia. Qed.
  Lemma to_client_nonneg evs : 0 <= to_client evs.
  Proof. induction evs as [|x r IH]; cbn [to_client fold_right]; [lia|]. fold (to_client r). destruct x; try exact IH. pose proof (zlen_nonneg bs). lia. Qed.

  (* one connection: its calls contribute one Closed entry, under the connection's key, with all
     the bytes its client sent; the keys recorded afterwards stay below the next id *)
  Lemma conn_step e st ci st' evs c tk k fc first :
    handle e st ci = (st', Ok evs) -> below c tk ->
    sum_closed k fc first (tclosed tk (conn_calls c evs)) = (if String.eqb k (conn_key evs) then conn_wire fc first ci evs else 0) /\
    below (c + 1) (tk_after tk (conn_calls c evs)).
  Proof.
    intros H Hb.
    destruct (tcp_report_shape_lemma e st ci st' evs H) as (_ & Hle & Hauth & Hnoauth & (pre & s & cp & pt & tp & w & Hevs & Hcp & Hpre)).
    assert (Hap : count is_auth evs = count is_auth pre).
    { rewrite Hevs, count_app. unfold count at 2. cbn. lia. }
    unfold conn_calls. cbn [tclosed tk_after].
    assert (Hcalls : flat_map (tcall_of c) evs = flat_map (tcall_of c) pre ++ [MTClosed c (sname s) cp pt tp 0]).
    { rewrite Hevs, flat_map_app. cbn. reflexivity. }
    rewrite Hcalls, tclosed_app, (pre_no_closed c tk pre Hpre). cbn [app tclosed].
    rewrite sum_closed_cons. cbn [fst snd sum_closed fold_right].
    assert (Hin : In (EClosed s cp pt tp) evs) by (rewrite Hevs; apply in_or_app; right; left; reflexivity).
    destruct (closed_counts e st ci st' evs s cp pt tp H Hin) as [Hpt Htp].
    assert (Hpos : pos (pick fc first (cp, pt, tp, 0)) = conn_wire fc first ci evs).
    { unfold pick, conn_wire. destruct fc, first.
      - rewrite Hcp. apply pos_nonneg, zlen_nonneg.
      - rewrite Hpt. apply pos_nonneg, to_target_nonneg.
      - rewrite Htp. apply pos_nonneg, to_client_nonneg.
      - reflexivity. }
    destruct (count is_auth evs) as [|[|n]] eqn:Ca.
    - (* never authenticated *)
      assert (Hp0 : count is_auth pre = 0%nat) by (symmetry; exact Hap).
      destruct (Hnoauth eq_refl) as (s0 & d0 & Hshape).
      rewrite (pre_no_auth c tk pre Hp0). rewrite (key_of_below c tk Hb).
      assert (Hk : conn_key evs = EmptyString) by (rewrite Hshape; reflexivity).
      rewrite Hk, Hpos. split; [destruct (String.eqb k EmptyString); ring|].
      rewrite tk_after_app; cbn [tk_after]. rewrite (pre_no_auth c tk pre Hp0).
      intros x Hx. specialize (Hb x Hx). lia.
    - (* authenticated: the report comes first *)
      destruct (Hauth eq_refl) as (id & r & Hshape & _).
      assert (Hpre' : exists pre', pre = EAuth id :: pre' /\ count is_auth pre' = 0%nat).
      { destruct pre as [|x pre'].
        - rewrite Hevs in Hshape. cbn in Hshape. discriminate.
        - rewrite Hevs in Hshape. cbn in Hshape. inversion Hshape; subst x. exists pre'. split; [reflexivity|].
          unfold count in Hap |- *. cbn [filter is_auth List.length] in Hap. lia. }
      destruct Hpre' as (pre' & -> & Hp0).
      cbn [flat_map tcall_of app tk_after]. rewrite (pre_no_auth c ((c, f id) :: tk) pre' Hp0).
      cbn [key_of]. rewrite N.eqb_refl.
      assert (Hk : conn_key evs = f id) by (rewrite Hshape; reflexivity).
      rewrite Hk, Hpos. split; [destruct (String.eqb k (f id)); ring|].
      rewrite tk_after_app; cbn [tk_after]. cbn [flat_map tcall_of app tk_after]. rewrite (pre_no_auth c ((c, f id) :: tk) pre' Hp0).
      intros x [<-|Hx]; [cbn; lia|]. specialize (Hb x Hx). lia.
    - lia.
  Qed.

  Lemma trun_sum e cis fc first : forall st c tk k, below c tk ->
    sum_closed k fc first (tclosed tk (trun e st c cis)) = twire fc first k e st cis.
  Proof.
    induction cis as [|ci r IH]; intros st c tk k Hb; cbn [trun twire]; [reflexivity|].
    destruct (handle e st ci) as [st' [evs|]] eqn:H; [|reflexivity].
    destruct (conn_step e st ci st' evs c tk k fc first H Hb) as [Hs Hb'].
    rewrite tclosed_app, sum_closed_app, Hs, (IH st' (c + 1)%N _ k Hb'). reflexivity.
  Qed.

  Lemma gathered_tcp_equals_wire_lemma e st c cis k fc first :
    value (vals (crun (trun e st c cis))) (data "tcp" (udir fc first) k) = twire fc first k e st cis.
  Proof. rewrite gathered_tcp_bytes_lemma. apply trun_sum. intros x []. Qed.
End TcpMetrics.
