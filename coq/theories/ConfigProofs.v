(* ConfigProofs.v — a key works exactly where its configuration binds it; reload is
   all-or-nothing; retained listeners are never closed (C09, C10, C11). *)
From OSS Require Import theories.Base theories.AList theories.Crypto theories.CipherList theories.Config.

Lemma same_key_sym a b : same_key a b = same_key b a.
Proof. unfold same_key. rewrite (N.eqb_sym (kc_cipher a)), (N.eqb_sym (kc_secret a)). reflexivity. Qed.

(* de-duplication keeps, for every (cipher, secret), exactly its first configured key *)
Lemma find_dedupe cipher secret ks : forall seen out,
  dedupe seen ks = Some out ->
  (forall k, In k seen -> (N.eqb (kc_cipher k) cipher && N.eqb (kc_secret k) secret) = false) ->
  find (fun k => N.eqb (kc_cipher k) cipher && N.eqb (kc_secret k) secret) out
  = find (fun k => N.eqb (kc_cipher k) cipher && N.eqb (kc_secret k) secret) ks.
Proof.
  induction ks as [|k r IH]; intros seen out D Hs; cbn [dedupe] in D.
  - inversion D. reflexivity.
  - destruct (existsb (same_key k) seen) eqn:Ex.
    + (* k is skipped: it has the key of an earlier one, which does not match *)
      apply existsb_exists in Ex as [k0 [Hin Sk]]. cbn [find].
      assert (M : (N.eqb (kc_cipher k) cipher && N.eqb (kc_secret k) secret) = false).
      { pose proof (Hs k0 Hin) as H0. unfold same_key in Sk. apply andb_true_iff in Sk as [S1 S2].
        apply N.eqb_eq in S1, S2. rewrite S1, S2. exact H0. }
      rewrite M. apply (IH seen out D Hs).
    + destruct (cipher_ok (kc_cipher k)); [|discriminate].
      destruct (dedupe (k :: seen) r) as [out'|] eqn:D'; [|discriminate]. inversion D; subst. cbn [find].
      destruct (N.eqb (kc_cipher k) cipher && N.eqb (kc_secret k) secret) eqn:M; [reflexivity|].
      apply (IH (k :: seen) out' D'). intros k0 [<-|Hin]; [exact M | apply Hs; exact Hin].
Qed.

Lemma dedupe_subset ks : forall seen out, dedupe seen ks = Some out -> forall k, In k out -> In k ks.
Proof.
  induction ks as [|k r IH]; intros seen out D k0 Hin; cbn [dedupe] in D.
  - inversion D; subst. destruct Hin.
  - destruct (existsb (same_key k) seen); [right; eapply IH; eassumption|].
    destruct (cipher_ok (kc_cipher k)); [|discriminate].
    destruct (dedupe (k :: seen) r) as [out'|] eqn:D'; [|discriminate]. inversion D; subst.
    destruct Hin as [<-|Hin]; [left; reflexivity | right; eapply IH; eassumption].
Qed.

(* C09 for one service: on its listeners a client authenticates iff its cipher and secret are
   among the service's keys, and is attributed to the first configured ID with them *)
Lemma service_auth_iff s ks cipher secret :
  dedupe [] (s_keys s) = Some ks ->
  option_map kc_id (find (fun k => N.eqb (kc_cipher k) cipher && N.eqb (kc_secret k) secret) ks)
  = option_map kc_id (find (fun k => N.eqb (kc_cipher k) cipher && N.eqb (kc_secret k) secret) (s_keys s)).
Proof. intros D. f_equal. apply (find_dedupe cipher secret (s_keys s) [] ks D). intros k []. Qed.

Lemma find_some_in {A} (p : A -> bool) l x : find p l = Some x -> In x l /\ p x = true.
Proof. apply find_some. Qed.

(* keys of another service never authenticate: if no key of the owner has this cipher and secret *)
Lemma no_cross_service_lemma (t : table) l ks cipher secret :
  alookup lkey_eqb l t = Some ks ->
  (forall k, In k ks -> N.eqb (kc_cipher k) cipher && N.eqb (kc_secret k) secret = false) ->
  auth_on t l cipher secret = None.
Proof.
  intros L Hn. unfold auth_on. rewrite L.
  destruct (find _ ks) as [k|] eqn:F; [|reflexivity]. apply find_some in F as [Hin Hm]. rewrite (Hn k Hin) in Hm. discriminate.
Qed.
Lemma auth_in_owner_lemma (t : table) l cipher secret id :
  auth_on t l cipher secret = Some id ->
  exists ks k, alookup lkey_eqb l t = Some ks /\ In k ks /\ kc_cipher k = cipher /\ kc_secret k = secret /\ kc_id k = id.
Proof.
  unfold auth_on. destruct (alookup lkey_eqb l t) as [ks|]; [|discriminate].
  destruct (find _ ks) as [k|] eqn:F; [|discriminate]. intros H. inversion H; subst.
  apply find_some in F as [Hin Hm]. apply andb_true_iff in Hm as [M1 M2]. apply N.eqb_eq in M1, M2.
  exists ks, k. repeat split; assumption.
Qed.

(* --- reload ------------------------------------------------------------------------------- *)
Lemma lkey_eqb_spec a b : lkey_eqb a b = true <-> a = b.
Proof.
  unfold lkey_eqb. destruct a as [t1 a1], b as [t2 a2]. cbn. rewrite andb_true_iff, N.eqb_eq.
  split; [intros [H ->]; destruct t1, t2; try discriminate; reflexivity | intros H; inversion H; subst; split; [destruct t2|]; reflexivity].
Qed.

Lemma ref_add_same r l : ref_of (ref_add r l) l = S (ref_of r l).
Proof. unfold ref_add, ref_of at 1. rewrite (alookup_set_same lkey_eqb lkey_eqb_spec). reflexivity. Qed.
Lemma ref_add_other r l x : l <> x -> ref_of (ref_add r l) x = ref_of r x.
Proof. intros H. unfold ref_add, ref_of at 1. rewrite (alookup_set_other lkey_eqb lkey_eqb_spec) by exact H. reflexivity. Qed.
Lemma ref_del_same r l : ref_of (ref_del r l) l = pred (ref_of r l).
Proof. unfold ref_del, ref_of at 1. rewrite (alookup_set_same lkey_eqb lkey_eqb_spec). reflexivity. Qed.
Lemma ref_del_other r l x : l <> x -> ref_of (ref_del r l) x = ref_of r x.
Proof. intros H. unfold ref_del, ref_of at 1. rewrite (alookup_set_other lkey_eqb lkey_eqb_spec) by exact H. reflexivity. Qed.

Definition count_in (l : lkey) (ls : list lkey) : nat := length (filter (lkey_eqb l) ls).

Lemma fold_add_ref ls : forall r x, ref_of (fold_left ref_add ls r) x = ref_of r x + count_in x ls.
Proof.
  induction ls as [|l ls IH]; intros r x; cbn [fold_left]; [unfold count_in; cbn; lia|].
  rewrite IH. unfold count_in. cbn [filter]. destruct (lkey_eqb x l) eqn:E.
  - apply lkey_eqb_spec in E. subst. rewrite ref_add_same. cbn. lia.
  - rewrite ref_add_other; [lia|]. intros ->. rewrite (proj2 (lkey_eqb_spec x x) eq_refl) in E. discriminate.
Qed.
Lemma fold_del_ref ls : forall r x, count_in x ls <= ref_of r x -> ref_of (fold_left ref_del ls r) x = ref_of r x - count_in x ls.
Proof.
  induction ls as [|l ls IH]; intros r x Hc; cbn [fold_left]; [unfold count_in; cbn; lia|].
  unfold count_in in *. cbn [filter] in *. destruct (lkey_eqb x l) eqn:E.
  - apply lkey_eqb_spec in E. subst. cbn [length] in Hc. rewrite IH; rewrite ref_del_same; cbn [length]; lia.
  - assert (l <> x) by (intros ->; rewrite (proj2 (lkey_eqb_spec x x) eq_refl) in E; discriminate).
    rewrite IH; rewrite ref_del_other by assumption; lia.
Qed.
Lemma fold_del_ref_le ls : forall r x, ref_of (fold_left ref_del ls r) x <= ref_of r x.
Proof.
  induction ls as [|l ls IH]; intros r x; cbn [fold_left]; [lia|].
  eapply Nat.le_trans; [apply IH|]. destruct (lkey_eqb x l) eqn:E.
  - apply lkey_eqb_spec in E. subst. rewrite ref_del_same. lia.
  - rewrite ref_del_other; [lia|]. intros ->. rewrite (proj2 (lkey_eqb_spec x x) eq_refl) in E. discriminate.
Qed.

(* FAILED RELOAD: whatever the failure (unreadable, malformed, validation, a bad cipher in any
   service, an address that cannot be bound, a duplicate listener) the serving table is untouched
   and every listener's reference count is what it was: nothing of the failed configuration is
   left running *)
Lemma failed_reload_noop_lemma os s f s' e inter :
  load os s f = (s', Some e, inter) ->
  serving s' = serving s /\ forall x, ref_of (refs s') x = ref_of (refs s) x.
Proof.
  unfold load. destruct f as [| |c].
  - intros H. inversion H; subst. split; reflexivity.
  - intros H. inversion H; subst. split; reflexivity.
  - destruct (negb (validate c)); [intros H; inversion H; subst; split; reflexivity|].
    destruct (start (can_bind os (refs s)) c) as [[got tb] err].
    destruct tb as [t|]; intros H; inversion H; subst; clear H. cbn [serving refs].
    split; [reflexivity|]. intros x.
    rewrite fold_del_ref; rewrite fold_add_ref; lia.
Qed.

(* start reports an error exactly when it produces no table *)
Lemma start_services_consistent b ss : forall have t got tb err,
  start_services b have t ss = (got, tb, err) -> (tb = None /\ err <> None) \/ (tb <> None /\ err = None).
Proof.
  induction ss as [|sv r IH]; intros have t got tb err St; cbn [start_services] in St.
  - inversion St. right. split; [discriminate|reflexivity].
  - destruct (dedupe [] (s_keys sv)); [|inversion St; left; split; [reflexivity|discriminate]].
    destruct (acquire b have _) as [hv' ok']. destruct ok'; [eapply IH; exact St | inversion St; left; split; [reflexivity|discriminate]].
Qed.
Lemma start_consistent b c got tb err :
  start b c = (got, tb, err) -> (tb = None /\ err <> None) \/ (tb <> None /\ err = None).
Proof.
  unfold start. destruct (negb (all_ciphers_ok _)); [intros H; inversion H; left; split; [reflexivity|discriminate]|].
  destruct (acquire b [] _) as [have ok]. destruct ok; [apply start_services_consistent | intros H; inversion H; left; split; [reflexivity|discriminate]].
Qed.

(* SUCCESSFUL RELOAD: serves exactly the new table; the count of each listener is its old count
   plus its occurrences in the new configuration minus those in the old one *)
Lemma successful_reload_replaces_lemma os s c s' inter :
  load os s (FConfig c) = (s', None, inter) ->
  exists got t, serving s' = Some (got, t) /\ start (can_bind os (refs s)) c = (got, Some t, None) /\
    forall x, count_in x (match serving s with Some (ls, _) => ls | None => [] end) <= ref_of (refs s) x ->
              ref_of (refs s') x = ref_of (refs s) x + count_in x got - count_in x (match serving s with Some (ls, _) => ls | None => [] end).
Proof.
  unfold load. destruct (negb (validate c)); [intros H; inversion H|].
  destruct (start (can_bind os (refs s)) c) as [[got tb] err] eqn:St.
  destruct (start_consistent _ _ _ _ _ St) as [[-> He]|[Ht ->]].
  - intros H; inversion H; subst. congruence.
  - destruct tb as [t|]; [|congruence]. intros H; inversion H; subst; clear H.
    exists got, t. split; [reflexivity|]. split; [reflexivity|].
    intros x Hc. cbn [refs]. rewrite fold_del_ref; rewrite fold_add_ref; lia.
Qed.

(* RETAINED LISTENERS: during a successful reload, a listener of both the old and the new
   configuration has a positive reference count at EVERY intermediate point (the new handles are
   acquired before the old ones are released), so its socket is never closed *)
Lemma retained_never_closed_aux add del r0 x :
  0 < ref_of r0 x -> count_in x del <= ref_of r0 x -> 0 < count_in x add ->
  Forall (fun r => 0 < ref_of r x)
    (snd (fold_left (fun acc l => let r := ref_add (fst acc) l in (r, snd acc ++ [r])) add (r0, [r0])) ++
     snd (fold_left (fun acc l => let r := ref_del (fst acc) l in (r, snd acc ++ [r])) del (fold_left ref_add add r0, []))).
Proof.
  intros H0 Hd Ha. apply Forall_app. split.
  - (* acquisitions only increase *)
    assert (G : forall add r acc, Forall (fun r => 0 < ref_of r x) acc -> 0 < ref_of r x ->
                Forall (fun r => 0 < ref_of r x) (snd (fold_left (fun acc l => let r := ref_add (fst acc) l in (r, snd acc ++ [r])) add (r, acc)))).
    { clear. induction add as [|l add IH]; intros r acc Hacc Hr; cbn [fold_left snd fst]; [exact Hacc|].
      assert (0 < ref_of (ref_add r l) x).
      { destruct (lkey_eqb x l) eqn:E; [apply lkey_eqb_spec in E; subst; rewrite ref_add_same; lia|].
        rewrite ref_add_other; [exact Hr|]. intros ->. rewrite (proj2 (lkey_eqb_spec x x) eq_refl) in E. discriminate. }
      apply IH; [apply Forall_app; split; [exact Hacc | constructor; [assumption|constructor]] | assumption]. }
    apply G; [constructor; [exact H0|constructor] | exact H0].
  - (* releases: the count never drops below what the new configuration added *)
    assert (G : forall del r acc, Forall (fun r => 0 < ref_of r x) acc -> count_in x del < ref_of r x ->
                Forall (fun r => 0 < ref_of r x) (snd (fold_left (fun acc l => let r := ref_del (fst acc) l in (r, snd acc ++ [r])) del (r, acc)))).
    { clear. induction del as [|l del IH]; intros r acc Hacc Hr; cbn [fold_left snd fst]; [exact Hacc|].
      unfold count_in in Hr. cbn [filter] in Hr. destruct (lkey_eqb x l) eqn:E.
      - apply lkey_eqb_spec in E. subst. cbn [length] in Hr.
        apply IH; [apply Forall_app; split; [exact Hacc | constructor; [rewrite ref_del_same; lia | constructor]] | rewrite ref_del_same; unfold count_in; lia].
      - assert (l <> x) by (intros ->; rewrite (proj2 (lkey_eqb_spec x x) eq_refl) in E; discriminate).
        apply IH; [apply Forall_app; split; [exact Hacc | constructor; [rewrite ref_del_other by assumption; lia | constructor]] | rewrite ref_del_other by assumption; unfold count_in; lia]. }
    apply G; [constructor|]. rewrite fold_add_ref. lia.
Qed.

Lemma retained_socket_never_closed_lemma os s c s' inter x old tb0 :
  serving s = Some (old, tb0) -> load os s (FConfig c) = (s', None, inter) ->
  0 < ref_of (refs s) x -> count_in x old <= ref_of (refs s) x ->
  (forall got t, serving s' = Some (got, t) -> 0 < count_in x got) ->
  Forall (fun r => 0 < ref_of r x) inter.
Proof.
  intros Sv L H0 Hold Hnew. unfold load in L. destruct (negb (validate c)); [inversion L|].
  destruct (start (can_bind os (refs s)) c) as [[got tb] err] eqn:St.
  destruct (start_consistent _ _ _ _ _ St) as [[-> He]|[Ht ->]]; [inversion L; subst; congruence|].
  destruct tb as [t|]; [|congruence]. inversion L; subst; clear L.
  rewrite Sv. apply retained_never_closed_aux; [exact H0 | exact Hold | apply (Hnew got t); reflexivity].
Qed.

(* non-vacuity *)
Example reload_example :
  let os := fun _ => true in
  let k1 := {| kc_id := [65]; kc_cipher := 0; kc_secret := 1 |}%N in
  let k2 := {| kc_id := [66]; kc_cipher := 9; kc_secret := 2 |}%N in
  let l1 := {| l_type := LTcp; l_addr := 1; l_host_is_ip := true |}%N in
  let l2 := {| l_type := LTcp; l_addr := 2; l_host_is_ip := true |}%N in
  let c1 := {| services := [{| s_listeners := [l1]; s_keys := [k1] |}]; legacy := [] |} in
  let c2 := {| services := [{| s_listeners := [l1; l2]; s_keys := [k1] |}; {| s_listeners := []; s_keys := [k2] |}]; legacy := [] |} in
  let '(s1, e1, _) := load os server0 (FConfig c1) in
  let '(s2, e2, _) := load os s1 (FConfig c2) in
  e1 = None /\ e2 = Some EKey /\ serving s2 = serving s1 /\ listening s2 (LTcp, 1%N) = true /\ listening s2 (LTcp, 2%N) = false.
Proof. vm_compute. repeat split; reflexivity. Qed.

Lemma NoDup_snoc {A} (l : list A) x : NoDup l -> ~ In x l -> NoDup (l ++ [x]).
Proof.
  induction l as [|y r IH]; intros ND Hn; cbn; [constructor; [intros []|constructor]|].
  inversion ND; subst. constructor.
  - intros H. apply in_app_or in H as [H|[<-|[]]]; [contradiction | apply Hn; left; reflexivity].
  - apply IH; [assumption | intros H; apply Hn; right; exact H].
Qed.

(* --- the table of a started configuration (C09) ------------------------------------------- *)
Lemma acquire_ok b want : forall have got, acquire b have want = (got, true) ->
  got = have ++ want /\ (NoDup have -> NoDup got).
Proof.
  induction want as [|l r IH]; intros have got A; cbn [acquire] in A.
  - inversion A; subst. rewrite app_nil_r. split; [reflexivity|tauto].
  - destruct (existsb (lkey_eqb l) have) eqn:E; [inversion A|]. destruct (b l); [|inversion A].
    destruct (IH _ _ A) as [-> ND]. split; [rewrite <- app_assoc; reflexivity|].
    intros Hh. apply ND. apply NoDup_snoc; [exact Hh|].
    intros Hx. assert (existsb (lkey_eqb l) have = true) by (apply existsb_exists; exists l; split; [exact Hx | apply lkey_eqb_spec; reflexivity]). congruence.
Qed.

Definition svc_rows (s : svc) (ks : list keycfg) : table := map (fun l => ((l_type l, l_addr l), ks)) (s_listeners s).

Lemma start_services_table b ss : forall have t got t',
  start_services b have t ss = (got, Some t', None) -> NoDup have -> map fst t = have ->
  NoDup got /\ map fst t' = got /\
  (forall row, In row t -> In row t') /\
  (forall s, In s ss -> exists ks, dedupe [] (s_keys s) = Some ks /\ forall row, In row (svc_rows s ks) -> In row t').
Proof.
  induction ss as [|sv r IH]; intros have t got t' St ND Hm; cbn [start_services] in St.
  - inversion St; subst. repeat split; [exact ND | tauto | intros s []].
  - destruct (dedupe [] (s_keys sv)) as [ks|] eqn:D; [|inversion St].
    destruct (acquire b have _) as [hv' ok'] eqn:A. destruct ok'; [|inversion St].
    destruct (acquire_ok _ _ _ _ A) as [-> ND'].
    specialize (IH _ _ _ _ St (ND' ND)).
    rewrite map_app, map_map in IH. cbn [fst] in IH. rewrite Hm, map_map in IH. specialize (IH eq_refl).
    destruct IH as (G1 & G2 & G3 & G4). repeat split; [exact G1 | exact G2 | intros row Hr; apply G3; apply in_or_app; left; exact Hr |].
    intros s [<-|Hs]; [|apply G4; exact Hs]. exists ks. split; [exact D|].
    intros row Hr. apply G3. apply in_or_app. right. unfold svc_rows in Hr. rewrite map_map. exact Hr.
Qed.

Lemma alookup_in_nodup (t : table) l ks : NoDup (map fst t) -> In (l, ks) t -> alookup lkey_eqb l t = Some ks.
Proof.
  induction t as [|[l0 k0] r IH]; intros ND Hin; [destruct Hin|]. cbn [alookup]. inversion ND as [|? ? Hn Hr]; subst.
  destruct Hin as [E|Hin].
  - inversion E; subst. rewrite (proj2 (lkey_eqb_spec l l) eq_refl). reflexivity.
  - destruct (lkey_eqb l l0) eqn:E; [|apply IH; assumption].
    apply lkey_eqb_spec in E. subst. exfalso. apply Hn. change l0 with (fst (l0, ks)). apply in_map. exact Hin.
Qed.

(* C09: a started configuration authenticates a client on a listener of service s exactly with
   the keys of s, attributing it to the first configured key with that cipher and secret; the
   same for each legacy port on both of its listeners *)
Lemma config_auth_iff_lemma b c got t :
  start b c = (got, Some t, None) ->
  (forall s l, In s (services c) -> In l (s_listeners s) -> forall cipher secret,
     auth_on t (l_type l, l_addr l) cipher secret
     = option_map kc_id (find (fun k => N.eqb (kc_cipher k) cipher && N.eqb (kc_secret k) secret) (s_keys s))) /\
  (forall p, In p (ports_of (legacy c)) -> forall ty, ty = LTcp \/ ty = LUdp -> forall cipher secret,
     auth_on t (ty, legacy_addr p) cipher secret
     = option_map kc_id (find (fun k => N.eqb (kc_cipher k) cipher && N.eqb (kc_secret k) secret)
                              (map fst (filter (fun kp => N.eqb (snd kp) p) (legacy c))))).
Proof.
  unfold start. destruct (negb (all_ciphers_ok _)); [intros H; inversion H|].
  destruct (acquire b [] _) as [have ok] eqn:A. destruct ok; [|intros H; inversion H].
  destruct (acquire_ok _ _ _ _ A) as [-> ND]. cbn [app] in *. intros St.
  destruct (start_services_table _ _ _ _ _ _ St (ND (NoDup_nil _)) eq_refl) as (G1 & G2 & G3 & G4).
  rewrite <- G2 in G1. split.
  - intros s l Hs Hl cipher secret. destruct (G4 s Hs) as [ks [D Hrows]].
    unfold auth_on. rewrite (alookup_in_nodup t _ ks G1).
    + apply service_auth_iff. exact D.
    + apply Hrows. unfold svc_rows. apply in_map_iff. exists l. split; [reflexivity|exact Hl].
  - intros p Hp ty Hty cipher secret. unfold auth_on.
    rewrite (alookup_in_nodup t _ (map fst (filter (fun kp => N.eqb (snd kp) p) (legacy c))) G1); [reflexivity|].
    apply G3. unfold legacy_table. apply in_flat_map. exists p. split; [exact Hp|].
    destruct Hty as [->| ->]; [left; reflexivity | right; left; reflexivity].
Qed.

(* the listeners a started configuration holds are exactly its configured ones, each once *)
Lemma start_listeners_lemma b c got t :
  start b c = (got, Some t, None) -> NoDup got /\ map fst t = got.
Proof.
  unfold start. destruct (negb (all_ciphers_ok _)); [intros H; inversion H|].
  destruct (acquire b [] _) as [have ok] eqn:A. destruct ok; [|intros H; inversion H].
  destruct (acquire_ok _ _ _ _ A) as [-> ND]. cbn [app] in *. intros St.
  destruct (start_services_table _ _ _ _ _ _ St (ND (NoDup_nil _)) eq_refl) as (G1 & G2 & _). tauto.
Qed.

(* --- sequences of reloads: the server always serves the last configuration that loaded ----- *)
Definition reloads (os : lkey -> bool) (s : server) (fs : list file) : server :=
  fold_left (fun s f => fst (fst (load os s f))) fs s.
Fixpoint last_ok (os : lkey -> bool) (s : server) (fs : list file) : option (list lkey * table) :=
  match fs with
  | [] => serving s
  | f :: r => last_ok os (fst (fst (load os s f))) r
  end.
Lemma reload_atomic_lemma os fs : forall s, serving (reloads os s fs) = last_ok os s fs.
Proof. induction fs as [|f r IH]; intros s; cbn [reloads fold_left last_ok]; [reflexivity | apply IH]. Qed.

(* the serving table only ever changes to the complete table of a configuration that started *)
Lemma serving_is_whole_config_lemma os s f s' e inter :
  load os s f = (s', e, inter) ->
  serving s' = serving s \/ exists c got t, f = FConfig c /\ validate c = true /\ e = None /\
                                     start (can_bind os (refs s)) c = (got, Some t, None) /\ serving s' = Some (got, t).
Proof.
  unfold load. destruct f as [| |c]; try (intros H; inversion H; left; reflexivity).
  destruct (validate c) eqn:V; cbn [negb]; [|intros H; inversion H; left; reflexivity].
  destruct (start (can_bind os (refs s)) c) as [[got tb] err] eqn:St.
  destruct (start_consistent _ _ _ _ _ St) as [[-> He]|[Ht ->]]; intros H; inversion H; subst; [left; reflexivity|].
  destruct tb as [t|]; [|congruence]. inversion H; subst. right. exists c, got, t. repeat split; try reflexivity; assumption.
Qed.

(* reference counts stay consistent with the serving configuration: each listener's count is the
   number of times the serving configuration holds it (so with the NoDup above: 1 or 0) *)
Definition refs_ok (s : server) : Prop :=
  forall x, ref_of (refs s) x = count_in x (match serving s with Some (ls, _) => ls | None => [] end).
Lemma refs_ok0 : refs_ok server0.
Proof. intros x. reflexivity. Qed.
Lemma refs_ok_load os s f s' e inter : refs_ok s -> load os s f = (s', e, inter) -> refs_ok s'.
Proof.
  intros R L. destruct e as [e|].
  - destruct (failed_reload_noop_lemma _ _ _ _ _ _ L) as [Sv Rf]. intros x. rewrite Rf, Sv. apply R.
  - destruct f as [| |c]; try (cbn in L; inversion L).
    destruct (successful_reload_replaces_lemma _ _ _ _ _ L) as (got & t & Sv & _ & Rf).
    intros x. rewrite Sv. rewrite Rf; [rewrite R; lia | rewrite R; lia].
Qed.
Lemma refs_ok_reloads os fs : forall s, refs_ok s -> refs_ok (reloads os s fs).
Proof.
  induction fs as [|f r IH]; intros s R; cbn [reloads fold_left]; [exact R|]. apply IH.
  destruct (load os s f) as [[s' e] inter] eqn:L. eapply refs_ok_load; eassumption.
Qed.

(* C10/C11 headline over every history of reloads from boot: a listener is open iff the last
   successfully loaded configuration has it *)
Lemma listening_iff_last_ok_lemma os fs x :
  listening (reloads os server0 fs) x = true <->
  exists ls t, last_ok os server0 fs = Some (ls, t) /\ In x ls.
Proof.
  pose proof (refs_ok_reloads os fs server0 refs_ok0 x) as R. rewrite reload_atomic_lemma in R.
  unfold listening. rewrite Nat.ltb_lt, R. unfold count_in.
  destruct (last_ok os server0 fs) as [[ls t]|].
  - split.
    + intros H. exists ls, t. split; [reflexivity|]. destruct (filter (lkey_eqb x) ls) as [|y r] eqn:F; [cbn in H; lia|].
      assert (In y (filter (lkey_eqb x) ls)) by (rewrite F; left; reflexivity). apply filter_In in H0 as [H1 H2]. apply lkey_eqb_spec in H2. subst. exact H1.
    + intros (ls' & t' & E & Hin). inversion E; subst.
      assert (In x (filter (lkey_eqb x) ls')) by (apply filter_In; split; [exact Hin | apply lkey_eqb_spec; reflexivity]).
      destruct (filter (lkey_eqb x) ls'); [destruct H | cbn; lia].
  - split; [cbn; lia | intros (ls & t & E & _); discriminate].
Qed.

Lemma find_exists_not_none ks cipher secret :
  (exists k, In k ks /\ kc_cipher k = cipher /\ kc_secret k = secret) ->
  option_map kc_id (find (fun k => N.eqb (kc_cipher k) cipher && N.eqb (kc_secret k) secret) ks) <> None.
Proof.
  intros (k & Hin & Hc & Hs). destruct (find _ ks) eqn:F; [discriminate|].
  pose proof (find_none _ _ F k Hin) as Hn. cbn in Hn. rewrite Hc, Hs, !N.eqb_refl in Hn. discriminate.
Qed.

Lemma retained_key_lemma b1 b2 c1 c2 got1 t1 got2 t2 s1 s2 l cipher secret :
  start b1 c1 = (got1, Some t1, None) -> start b2 c2 = (got2, Some t2, None) ->
  In s1 (services c1) -> In l (s_listeners s1) -> In s2 (services c2) -> In l (s_listeners s2) ->
  (exists k, In k (s_keys s1) /\ kc_cipher k = cipher /\ kc_secret k = secret) ->
  (exists k, In k (s_keys s2) /\ kc_cipher k = cipher /\ kc_secret k = secret) ->
  auth_on t1 (l_type l, l_addr l) cipher secret <> None /\ auth_on t2 (l_type l, l_addr l) cipher secret <> None.
Proof.
  intros St1 St2 H1 L1 H2 L2 K1 K2.
  rewrite (proj1 (config_auth_iff_lemma _ _ _ _ St1) s1 l H1 L1), (proj1 (config_auth_iff_lemma _ _ _ _ St2) s2 l H2 L2).
  split; apply find_exists_not_none; assumption.
Qed.
