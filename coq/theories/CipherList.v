(* CipherList.v — model of service/cipher_list.go (snapshot ordered by last client IP,
   move-to-front marking, replacement) and of the trial-decryption search findEntry /
   findAccessKeyUDP (tcp.go, udp.go) (C01, C03, C09). *)
From OSS Require Import theories.Base theories.Crypto.
From OSS Require Gen.Consts.

(* a CipherEntry inside a container/list element.  [e_uid] stands for the element's
   identity; client IPs are numbers, 0 being the zero netip.Addr (which never matches). *)
Record entry := { e_uid : N; e_id : bytes; e_key : skey; e_last : N }.
(* the cipherList: [gen] identifies the *list.List currently installed *)
Record clist := { gen : N; items : list entry }.
Definition elem := (N * entry)%type.          (* (generation of its list, element) *)

Definition matches_ip (ip : N) (e : entry) : bool := negb (N.eqb ip 0) && N.eqb ip (e_last e).

Definition snapshot (ip : N) (cl : clist) : list elem :=
  map (fun e => (gen cl, e)) (filter (matches_ip ip) (items cl) ++ filter (fun e => negb (matches_ip ip e)) (items cl)).

(* MarkUsedByClientIP: MoveToFront is a no-op when the element belongs to another list
   (container/list checks e.list); the IP is then written to an entry the current list
   does not contain *)
Definition set_last (ip : N) (e : entry) : entry :=
  {| e_uid := e_uid e; e_id := e_id e; e_key := e_key e; e_last := ip |}.
Definition mark_used (cl : clist) (el : elem) (ip : N) : clist :=
  if N.eqb (fst el) (gen cl) then
    match filter (fun e => N.eqb (e_uid e) (e_uid (snd el))) (items cl) with
    | [] => cl
    | e :: _ => {| gen := gen cl;
                   items := set_last ip e :: filter (fun x => negb (N.eqb (e_uid x) (e_uid (snd el)))) (items cl) |}
    end
  else cl.
Definition update (cl : clist) (g : N) (l : list entry) : clist := {| gen := g; items := l |}.

(* bytes needed to authenticate with this key: salt + 2-byte length + tag *)
Definition need (k : skey) : nat := salt_size (k_cipher k) + 2 + tag_size (k_cipher k).
Definition bytes_for_key_finding : nat := Z.to_nat Gen.Consts.bytes_for_key_finding.

(* findEntry: the first element whose key opens the first message.  Slicing the 50-byte
   buffer beyond its length would panic in Go. *)
Fixpoint find_entry (e : env) (first : list wbyte) (snap : list elem) : outcome (option elem) :=
  match snap with
  | [] => Ok None
  | el :: r =>
      let k := e_key (snd el) in
      if length first <? need k then Panic
      else match unpack e k (firstn (need k) first) with
           | Some _ => Ok (Some el)
           | None => find_entry e first r
           end
  end.

(* findAccessKeyUDP: the whole datagram is tried under each key *)
Fixpoint find_entry_udp (e : env) (pkt : list wbyte) (snap : list elem) : option (elem * bytes) :=
  match snap with
  | [] => None
  | el :: r =>
      match unpack e (e_key (snd el)) pkt with
      | Some pt => Some (el, pt)
      | None => find_entry_udp e pkt r
      end
  end.

(* histories of the three operations, for "any interleaving" statements *)
Inductive clop := OpSnap (ip : N) | OpMark (el : elem) (ip : N) | OpUpdate (g : N) (l : list entry).
Definition cl_step (cl : clist) (o : clop) : clist :=
  match o with
  | OpSnap _ => cl
  | OpMark el ip => mark_used cl el ip
  | OpUpdate g l => update cl g l
  end.

(* what is configured: identity, ID and key of every entry (the mutable IP is not configuration) *)
Definition cfg_of (e : entry) : N * bytes * skey := (e_uid e, e_id e, e_key e).
