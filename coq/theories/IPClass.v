(* IPClass.v — model of Go's net.IP classification predicates (net/ip.go, stdlib:
   modelled, validated by correspondence), of net/private_net.go (RequirePublicIP,
   IsPrivateAddress over the CIDR list regenerated in Gen.Consts), and the exact
   characterisation of the rejected set (C05, also used by C20). *)
From OSS Require Import theories.Base.
From OSS Require Gen.Consts.
From Coq Require Import ZifyBool ZifyN String.
Open Scope N_scope.
Ltac Zify.zify_post_hook ::= Z.div_mod_to_equations.

(* a net.IP value: 4 bytes, 16 bytes, or anything else (nil, odd length) *)
Inductive ip := V4 (a : N) | V16 (a : N) | BadIP.
Definition wf (i : ip) : Prop :=
  match i with V4 a => a < 2^32 | V16 a => a < 2^128 | BadIP => True end.

Definition rngb (lo hi a : N) : bool := (lo <=? a) && (a <? hi).

(* ip.To4(): 4-byte form of an IPv4 or IPv4-mapped address *)
Definition to4 (i : ip) : option N :=
  match i with
  | V4 a => Some a
  | V16 a => if a / 2^32 =? 65535 then Some (a mod 2^32) else None
  | BadIP => None
  end.

Definition is_unspecified (i : ip) : bool :=
  match i with
  | V4 a => a =? 0
  | V16 a => (a =? 65535 * 2^32) || (a =? 0)
  | BadIP => false
  end.
Definition is_bcast (i : ip) : bool :=
  match i with
  | V4 a => a =? 2^32 - 1
  | V16 a => a =? 65535 * 2^32 + (2^32 - 1)
  | BadIP => false
  end.
Definition is_loopback (i : ip) : bool :=
  match to4 i with
  | Some x => x / 2^24 =? 127
  | None => match i with V16 a => a =? 1 | _ => false end
  end.
Definition is_multicast (i : ip) : bool :=
  match to4 i with
  | Some x => (x / 2^24) / 16 =? 14                (* ip4[0]&0xf0 == 0xe0 *)
  | None => match i with V16 a => a / 2^120 =? 255 | _ => false end
  end.
Definition is_link_local_unicast (i : ip) : bool :=
  match to4 i with
  | Some x => (x / 2^24 =? 169) && ((x / 2^16) mod 256 =? 254)
  | None => match i with
            | V16 a => (a / 2^120 =? 254) && (((a / 2^112) mod 256) / 64 =? 2)  (* ip[1]&0xc0 == 0x80 *)
            | _ => false end
  end.
Definition has_ip_len (i : ip) : bool := match i with BadIP => false | _ => true end.
Definition is_global_unicast (i : ip) : bool :=
  has_ip_len i && negb (is_bcast i) && negb (is_unspecified i) && negb (is_loopback i)
  && negb (is_multicast i) && negb (is_link_local_unicast i).

(* IPNet.Contains for a network given as (is_v6, prefix value, prefix bits) *)
Definition contains (net : bool * N * N) (i : ip) : bool :=
  let '(v6, value, bits) := net in
  match to4 i with
  | Some x => if v6 then false else x / 2^(32 - bits) =? value / 2^(32 - bits)
  | None => match i with
            | V16 a => if v6 then a / 2^(128 - bits) =? value / 2^(128 - bits) else false
            | _ => false end
  end.
Definition is_private (i : ip) : bool := existsb (fun n => contains n i) Gen.Consts.private_networks.

Inductive verdict := Allowed | ErrInvalid | ErrPrivate.
Definition require_public (i : ip) : verdict :=
  if negb (is_global_unicast i) then ErrInvalid
  else if is_private i then ErrPrivate else Allowed.

(* The guard structure of RequirePublicIP as the translator sees it. *)
Definition expected_guards : list (bool * string * string) :=
  [(true, "IsGlobalUnicast"%string, "ERR_ADDRESS_INVALID"%string);
   (false, "IsPrivateAddress"%string, "ERR_ADDRESS_PRIVATE"%string)].

(* --- the statement's list of special-purpose blocks, as ranges ---------------- *)
Definition listed4 (a : N) : Prop :=
  a = 0                                                   (* 0.0.0.0 *)
  \/ (127 * 2^24 <= a < 128 * 2^24)                        (* 127/8 loopback *)
  \/ (43518 * 2^16 <= a < 43519 * 2^16)                    (* 169.254/16 link-local *)
  \/ (224 * 2^24 <= a < 240 * 2^24)                        (* 224/4 multicast *)
  \/ a = 2^32 - 1                                          (* broadcast *)
  \/ (10 * 2^24 <= a < 11 * 2^24)                          (* 10/8 *)
  \/ (2753 * 2^20 <= a < 2754 * 2^20)                      (* 172.16/12 *)
  \/ (49320 * 2^16 <= a < 49321 * 2^16)                    (* 192.168/16 *)
  \/ (401 * 2^22 <= a < 402 * 2^22).                       (* 100.64/10 CGNAT *)
Definition mapped (a : N) : Prop := 65535 * 2^32 <= a < 65536 * 2^32.
Definition listed16 (a : N) : Prop :=
  a = 0 \/ a = 1                                           (* :: and ::1 *)
  \/ (1018 * 2^118 <= a < 1019 * 2^118)                    (* fe80::/10 *)
  \/ (255 * 2^120 <= a < 256 * 2^120)                      (* ff00::/8 *)
  \/ (126 * 2^121 <= a < 127 * 2^121)                      (* fc00::/7 *)
  \/ (mapped a /\ listed4 (a mod 2^32)).                   (* ::ffff:0:0/96 embeds IPv4 *)
Definition listed (i : ip) : Prop :=
  match i with V4 a => listed4 a | V16 a => listed16 a | BadIP => True end.

