(* Base.v — shared conventions for the model of outline-ss-server.
   Bytes are [N] (< 256 where it matters), byte strings [list N], lengths and
   indices [nat], clocks / counters / capacities [Z]. *)
From Coq Require Export List NArith ZArith Lia Bool Arith.
Export ListNotations.

Notation bytes := (list N) (only parsing).

Fixpoint list_eqb {A} (eqb : A -> A -> bool) (a b : list A) : bool :=
  match a, b with
  | [], [] => true
  | x :: a', y :: b' => eqb x y && list_eqb eqb a' b'
  | _, _ => false
  end.

Lemma list_eqb_spec {A} (eqb : A -> A -> bool) :
  (forall x y, eqb x y = true <-> x = y) ->
  forall a b, list_eqb eqb a b = true <-> a = b.
Proof.
  intros H a. induction a as [|x a IH]; intros [|y b]; cbn; split; intros E;
    try reflexivity; try discriminate.
  - apply andb_true_iff in E as [E1 E2]. apply H in E1. apply IH in E2. congruence.
  - inversion E; subst. apply andb_true_iff. split; [apply H; reflexivity | apply IH; reflexivity].
Qed.

Definition bytes_eqb : bytes -> bytes -> bool := list_eqb N.eqb.
Lemma bytes_eqb_spec a b : bytes_eqb a b = true <-> a = b.
Proof. apply list_eqb_spec. intros x y. apply N.eqb_eq. Qed.
Lemma bytes_eqb_refl a : bytes_eqb a a = true.
Proof. apply bytes_eqb_spec. reflexivity. Qed.

(* Outcome of a Go operation that may panic: the model never totalises a slice
   expression with a default; it returns [Panic]. *)
Inductive outcome (A : Type) := Ok (a : A) | Panic.
Arguments Ok {A} a.
Arguments Panic {A}.

Definition mem_N (h : N) (l : list N) : bool := existsb (N.eqb h) l.
Lemma mem_N_In h l : mem_N h l = true <-> In h l.
Proof.
  unfold mem_N. rewrite existsb_exists. split.
  - intros [x [Hx E]]. apply N.eqb_eq in E. subst. exact Hx.
  - intros H. exists h. split; [exact H | apply N.eqb_refl].
Qed.

Fixpoint index_where {A} (p : A -> bool) (l : list A) : option nat :=
  match l with
  | [] => None
  | x :: r => if p x then Some 0 else option_map S (index_where p r)
  end.

(* Deterministic pseudo-random bytes, mirrored in the Go harness (util.go genBytes):
   lets a case carry (length, seed) instead of a long literal. *)
(* mod 2^32 and / 2^24, written with bit operations (fast under vm_compute) *)
Definition lcg (x : N) : N := N.land (x * 1664525 + 1013904223) 4294967295.
Fixpoint gen_bytes (n : nat) (x : N) : bytes :=
  match n with
  | O => []
  | S k => let y := lcg x in N.shiftr y 24 :: gen_bytes k y
  end.
Definition gb (n : N) (seed : N) : bytes := gen_bytes (N.to_nat n) seed.

Lemma skipn_head_nth {A} n (l : list A) w ws : skipn n l = w :: ws -> nth_error l n = Some w.
Proof.
  revert l. induction n as [|n IH]; intros l H; cbn in *.
  - subst. reflexivity.
  - destruct l; [discriminate|]. cbn. apply IH. exact H.
Qed.
Lemma nth_error_firstn_some {A} n (l : list A) i x : nth_error (firstn n l) i = Some x -> nth_error l i = Some x.
Proof.
  revert n l. induction i as [|i IH]; intros [|n] [|y l] H; cbn in *; try discriminate; [exact H|].
  apply (IH n). exact H.
Qed.
