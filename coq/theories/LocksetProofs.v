(* LocksetProofs.v — the lockset discipline implies data-race freedom (C19). *)
From OSS Require Import theories.Base theories.Lockset.

Lemma in_drop l l' m h : In (l', m) (drop_lock l h) -> In (l', m) h.
Proof. unfold drop_lock. rewrite filter_In. tauto. Qed.

Lemma upd_same st i t : upd st i t i = t.
Proof. unfold upd. rewrite Nat.eqb_refl. reflexivity. Qed.
Lemma upd_other st i t j : j <> i -> upd st i t j = st j.
Proof. intros H. unfold upd. apply Nat.eqb_neq in H. rewrite H. reflexivity. Qed.

Section Discipline.
  Variable guard : nat -> nat.
  Local Notation ok := (ok guard).
  Local Notation inv := (inv guard).

  Lemma ok_step st i t t' : tstep st i t t' -> ok (fst t) (snd t) -> ok (fst t') (snd t').
  Proof. intros T H. inversion T; subst; cbn [fst snd Lockset.ok] in *; tauto. Qed.

  (* holds of the stepping thread after the step, in terms of before *)
  Lemma holds_after st i t t' l :
    tstep st i t t' -> holds t' l ->
    holds t l \/ (forall j, j <> i -> ~ holds_w (st j) l).
  Proof.
    intros T [m Hin]. inversion T as [h l0 r Hf|h l0 r Hf|h l0 r|h x r|h x r]; subst; cbn [fst] in Hin.
    - destruct Hin as [E|Hin]; [inversion E; subst; right; intros j Hj Hw; apply (Hf j Hj); exists MW; exact Hw | left; exists m; exact Hin].
    - destruct Hin as [E|Hin]; [inversion E; subst; right; exact Hf | left; exists m; exact Hin].
    - left. exists m. eapply in_drop. exact Hin.
    - left. exists m. exact Hin.
    - left. exists m. exact Hin.
  Qed.
  Lemma holds_w_after st i t t' l :
    tstep st i t t' -> holds_w t' l ->
    holds_w t l \/ (forall j, j <> i -> ~ holds (st j) l).
  Proof.
    intros T Hin. unfold holds_w in *. inversion T as [h l0 r Hf|h l0 r Hf|h l0 r|h x r|h x r]; subst; cbn [fst] in Hin.
    - destruct Hin as [E|Hin]; [inversion E; subst; right; exact Hf | left; exact Hin].
    - destruct Hin as [E|Hin]; [inversion E | left; exact Hin].
    - left. eapply in_drop. exact Hin.
    - left. exact Hin.
    - left. exact Hin.
  Qed.

  Lemma inv_step st st' : inv st -> step st st' -> inv st'.
  Proof.
    intros [Hok Hex] S. destruct S as [st i t' T]. split.
    - intros j. destruct (Nat.eq_dec j i) as [->|Hne].
      + rewrite upd_same. eapply ok_step; [exact T | apply Hok].
      + rewrite upd_other by exact Hne. apply Hok.
    - intros a b l Hab Hw Hh.
      destruct (Nat.eq_dec a i) as [->|Ha]; destruct (Nat.eq_dec b i) as [->|Hb]; try congruence.
      + rewrite upd_same in Hw. rewrite upd_other in Hh by exact Hb.
        destruct (holds_w_after st i (st i) t' l T Hw) as [Hw0|Hfree].
        * exact (Hex i b l Hab Hw0 Hh).
        * exact (Hfree b Hb Hh).
      + rewrite upd_same in Hh. rewrite upd_other in Hw by exact Ha.
        destruct (holds_after st i (st i) t' l T Hh) as [Hh0|Hfree].
        * exact (Hex a i l Hab Hw Hh0).
        * exact (Hfree a Ha Hw).
      + rewrite upd_other in Hw by exact Ha. rewrite upd_other in Hh by exact Hb.
        exact (Hex a b l Hab Hw Hh).
  Qed.

  Lemma inv_exec st st' : inv st -> exec st st' -> inv st'.
  Proof. intros I X. induction X as [|st st1 st2 Hs _ IH]; [exact I|]. apply IH. eapply inv_step; eassumption. Qed.

  (* a disciplined state has no race *)
  Lemma inv_no_race st : inv st -> ~ race st.
  Proof.
    intros [Hok Hex] (i & j & x & w1 & w2 & Hij & A1 & A2 & Hw).
    pose proof (Hok i) as Oi. pose proof (Hok j) as Oj.
    unfold next_access in A1, A2.
    destruct (snd (st i)) as [|[l m|l|y|y] r1] eqn:E1; try discriminate;
    destruct (snd (st j)) as [|[l' m'|l'|z|z] r2] eqn:E2; try discriminate;
    inversion A1; inversion A2; subst; cbn [Lockset.ok] in Oi, Oj.
    - destruct Hw; discriminate.
    - destruct Oi as [[m Hi] _]. destruct Oj as [Hj _].
      apply (Hex j i (guard x)); [congruence | exact Hj | exists m; exact Hi].
    - destruct Oi as [Hi _]. destruct Oj as [[m Hj] _].
      apply (Hex i j (guard x)); [exact Hij | exact Hi | exists m; exact Hj].
    - destruct Oi as [Hi _]. destruct Oj as [Hj _].
      apply (Hex i j (guard x)); [exact Hij | exact Hi | exists MW; exact Hj].
  Qed.

  (* headline: from a disciplined initial state (nothing held), no reachable state has a race *)
  Lemma lockset_discipline_drf_lemma st st' : inv st -> exec st st' -> ~ race st'.
  Proof. intros I X. apply inv_no_race. eapply inv_exec; eassumption. Qed.

  Lemma initial_inv (progs : nat -> list instr) :
    (forall i, ok [] (progs i)) -> inv (fun i => ([], progs i)).
  Proof.
    intros H. split; [intros i; apply H|]. intros i j l _ Hw. destruct Hw.
  Qed.

  Lemma okb_ok h p : okb guard h p = true -> ok h p.
  Proof.
    revert h. induction p as [|[l m|l|x|x] r IH]; intros h; cbn; try tauto.
    - apply IH.
    - apply IH.
    - rewrite andb_true_iff, existsb_exists. intros [[[l m] [Hin E]] H2]. cbn in E. apply Nat.eqb_eq in E. subst.
      split; [exists m; exact Hin | apply IH; exact H2].
    - rewrite andb_true_iff, existsb_exists. intros [[[l m] [Hin E]] H2]. cbn in E.
      apply andb_true_iff in E as [E1 E2]. apply Nat.eqb_eq in E1. subst. destruct m; [discriminate|].
      split; [exact Hin | apply IH; exact H2].
  Qed.
End Discipline.

(* mutex-protected critical sections are serialisable: while a thread holds a lock in W mode no
   other thread performs any access to a location guarded by it *)
Lemma critical_section_exclusive guard st i j x w :
  inv guard st -> i <> j -> holds_w (st i) (guard x) -> next_access (st j) = Some (x, w) -> False.
Proof.
  intros [Hok Hex] Hij Hw A. pose proof (Hok j) as Oj. unfold next_access in A.
  destruct (snd (st j)) as [|[l m|l|y|y] r] eqn:E; try discriminate; inversion A; subst; cbn [ok] in Oj.
  - destruct Oj as [[m Hj] _]. apply (Hex i j (guard x) Hij Hw). exists m. exact Hj.
  - destruct Oj as [Hj _]. apply (Hex i j (guard x) Hij Hw). exists MW. exact Hj.
Qed.

Example two_threads_disciplined :
  inv (fun x => 0) (fun i => ([], if Nat.eqb i 0 then [Acq 0 MW; Write 5; Rel 0] else if Nat.eqb i 1 then [Acq 0 MR; Read 5; Rel 0] else [])).
Proof.
  apply initial_inv. intros i. destruct (Nat.eqb i 0); [cbn; tauto|]. destruct (Nat.eqb i 1); cbn; [|tauto].
  split; [exists MR; left; reflexivity | tauto].
Qed.

(* tie between the site table and the LTS: a site accepted under a Guarded discipline is a
   disciplined access of the LTS, with the field's guard = that lock *)
Import String.StringSyntax.
Lemma guarded_site_is_ok classes (s : site) l x :
  lookup_discipline (s_field s) discipline_table = Some (Guarded l) ->
  in_strs (s_func s) constructors = false ->
  site_okb s = true ->
  okb (fun _ => lock_id l classes) (site_held classes s) [if s_write s then Write x else Read x] = true.
Proof.
  intros D NC H. unfold site_okb in H. rewrite NC, D in H. cbn [orb] in H. unfold holds_lock in H.
  apply existsb_exists in H as [[c e] [Hin Hc]]. cbn [fst snd] in Hc. apply andb_true_iff in Hc as [Hc1 Hc2].
  apply String.eqb_eq in Hc1. subst c.
  assert (Hin' : In (lock_id l classes, if e then MW else MR) (site_held classes s)).
  { unfold site_held. apply in_map_iff. exists (l, e). split; [reflexivity|exact Hin]. }
  destruct (s_write s); cbn [okb]; rewrite andb_true_r; apply existsb_exists;
    exists (lock_id l classes, if e then MW else MR); (split; [exact Hin'|]); cbn [fst snd]; rewrite Nat.eqb_refl.
  - cbn in Hc2. subst e. reflexivity.
  - reflexivity.
Qed.
