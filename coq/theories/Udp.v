(* Udp.v — model of packetHandler.Handle (one datagram), validatePacket, the NAT table and
   timedCopy's reply path with its in-place buffer layout (service/udp.go)
   (C03, C04, C05, C16, C18).  Timers are in NatTimer.v. *)
From OSS Require Import theories.Base theories.AList theories.IPClass theories.Socks theories.Crypto theories.CipherList.
From OSS Require Gen.Consts.
Open Scope N_scope.

Definition us_ok := 0. Definition us_cipher := 1. Definition us_read_address := 4. Definition us_address_invalid := 5.
Definition us_address_private := 6. Definition us_resolve := 10. Definition us_pack := 11. Definition us_write := 12.

Record assoc := { as_sock : N; as_key : skey; as_id : bytes }.
Record ustate := {
  u_cl : clist;
  u_nat : list (N * assoc);      (* client address (IP:port as one number) -> association *)
  u_next : N                     (* OS oracle: the next socket the kernel hands out is not open *)
}.

Inductive uev :=
| UNew (ca sock : N) (id : bytes)                       (* AddUDPNatEntry: a socket and an association are created *)
| USend (sock : N) (dst : ip) (port : N) (payload : bytes)   (* a datagram leaves the proxy from [sock] *)
| UReport (sock : N) (st : N) (cbytes pbytes : Z).      (* AddPacketFromClient on that association *)

Record uenv := {
  ue_validate : bool;                    (* default target policy in force *)
  ue_resolve : bytes -> option ip;       (* net.ResolveUDPAddr on a domain name: oracle *)
  ue_sendable : ip -> N -> bool          (* OS oracle: sendto this address and port succeeds (port 0: EINVAL) *)
}.

(* validatePacket *)
Definition validate_packet (ue : uenv) (pt : bytes) : (bytes * ip * N) + N :=
  match split_addr pt with
  | None => inr us_read_address
  | Some (ab, payload) =>
      match decode_addr ab with
      | None => inr us_read_address
      | Some a =>
          let target := match sa_host a with
                        | HostV4 x => Some (V4 x) | HostV6 x => Some (V16 x)
                        | HostDomain d => ue_resolve ue d end in
          match target with
          | None => inr us_resolve
          | Some i =>
              if ue_validate ue then
                match require_public i with
                | Allowed => inl (payload, i, sa_port a)
                | ErrInvalid => inr us_address_invalid
                | ErrPrivate => inr us_address_private
                end
              else inl (payload, i, sa_port a)
          end
      end
  end.

Definition zlen {A} (l : list A) : Z := Z.of_nat (length l).

(* one iteration of the Handle loop for a datagram [pkt] from client address [ca] (IP [cip]) *)
Definition udp_client_step (e : env) (ue : uenv) (st : ustate) (ca cip : N) (pkt : list wbyte) : ustate * list uev :=
  match alookup N.eqb ca (u_nat st) with
  | None =>
      match find_entry_udp e pkt (snapshot cip (u_cl st)) with
      | None => (st, [])                                           (* ERR_CIPHER: nothing to report on *)
      | Some (el, pt) =>
          let cl' := mark_used (u_cl st) el cip in
          match validate_packet ue pt with
          | inr _ => ({| u_cl := cl'; u_nat := u_nat st; u_next := u_next st |}, [])
          | inl (payload, dst, port) =>
              let s := u_next st in
              let a := {| as_sock := s; as_key := e_key (snd el); as_id := e_id (snd el) |} in
              (* the association exists before the first write: a failing write is reported on it *)
              ({| u_cl := cl'; u_nat := u_nat st ++ [(ca, a)]; u_next := s + 1 |},
               if ue_sendable ue dst port
               then [UNew ca s (e_id (snd el)); USend s dst port payload; UReport s us_ok (zlen pkt) (zlen payload)]
               else [UNew ca s (e_id (snd el)); UReport s us_write (zlen pkt) 0])
          end
      end
  | Some a =>
      match unpack e (as_key a) pkt with
      | None => (st, [UReport (as_sock a) us_cipher (zlen pkt) 0])
      | Some pt =>
          match validate_packet ue pt with
          | inr code => (st, [UReport (as_sock a) code (zlen pkt) 0])
          | inl (payload, dst, port) =>
              (st, if ue_sendable ue dst port
                   then [USend (as_sock a) dst port payload; UReport (as_sock a) us_ok (zlen pkt) (zlen payload)]
                   else [UReport (as_sock a) us_write (zlen pkt) 0])
          end
      end
  end.

(* the association's goroutine ends (timeout): entry removed, socket closed *)
Definition udp_expire (st : ustate) (ca : N) : ustate :=
  {| u_cl := u_cl st; u_nat := aremove N.eqb ca (u_nat st); u_next := u_next st |}.

(* --- reply path: timedCopy ------------------------------------------------------------- *)
Definition buf_size : Z := Gen.Consts.server_udp_buffer_size.
Definition max_addr_len : Z := Gen.Consts.udp_max_addr_len.

(* the SOCKS form of the reply's source address, after the zone has been dropped: IPv4 and
   IPv4-mapped senders get the 7-byte form, other IPv6 senders the 19-byte form *)
Definition reply_addr (i : ip) (port : N) : option bytes :=
  match i with
  | V4 x => Some (encode_addr {| sa_host := HostV4 x; sa_port := port |})
  | V16 x => match to4 i with
             | Some y => Some (encode_addr {| sa_host := HostV4 y; sa_port := port |})
             | None => Some (encode_addr {| sa_host := HostV6 x; sa_port := port |})
             end
  | BadIP => None
  end.

(* slice bounds of the in-place layout [pad][salt][addr][body][tag]; Panic when Go would *)
Inductive layout_res := LayoutOk (salt_start : Z) | LayoutShort | LayoutRefused.
Definition layout (salt_sz addr_len body_len : Z) : outcome layout_res :=
  let body_start := (salt_sz + max_addr_len)%Z in
  if (buf_size - body_start <? body_len)%Z then Panic            (* cannot happen: ReadFrom fills at most the buffer *)
  else if (max_addr_len <? addr_len)%Z then Ok LayoutRefused      (* guard added by the fix of the zoned-sender crash *)
  else
    let addr_start := (body_start - addr_len)%Z in
    let salt_start := (addr_start - salt_sz)%Z in
    if (salt_start <? 0)%Z then Panic
    else if (buf_size - salt_start <? salt_sz + addr_len + body_len + 16)%Z then Ok LayoutShort   (* io.ErrShortBuffer *)
    else Ok (LayoutOk salt_start).

Inductive reply_res :=
| ReplySent (ca : N) (dgram : list wbyte) (status : N) (tbytes cbytes : Z)
| ReplyDropped (status : N) (tbytes : Z)
| ReplyNoOwner.

Definition udp_reply (e : env) (st : ustate) (sock : N) (src : ip) (port : N) (body : bytes)
           (salt : list wbyte) (sid : N) : env * outcome reply_res :=
  match find (fun kv => N.eqb (as_sock (snd kv)) sock) (u_nat st) with
  | None => (e, Ok ReplyNoOwner)
  | Some (ca, a) =>
      match reply_addr src port with
      | None => (e, Ok (ReplyDropped us_pack (zlen body)))
      | Some ab =>
          match layout (Z.of_nat (salt_size (k_cipher (as_key a)))) (zlen ab) (zlen body) with
          | Panic => (e, Panic)
          | Ok LayoutRefused | Ok LayoutShort => (e, Ok (ReplyDropped us_pack (zlen body)))
          | Ok (LayoutOk _) =>
              let '(e', ct) := seal e sid (as_key a) salt 0 (ab ++ body) in
              (e', Ok (ReplySent ca (salt ++ ct) us_ok (zlen body) (zlen (salt ++ ct))))
          end
      end
  end.

Definition nat_socks (st : ustate) : list N := map (fun kv => as_sock (snd kv)) (u_nat st).
