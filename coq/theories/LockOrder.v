(* LockOrder.v — threads as finite Acq/Rel programs over mutexes; the rank discipline,
   its boolean checker, an executable scheduler (C13). *)
From OSS Require Import theories.Base.
From Coq Require String.
Notation string := String.string.

Inductive instr := Acq (l : nat) | Rel (l : nat).
Definition thread := (list nat * list instr)%type.      (* held locks, remaining program *)
Definition state := list thread.

Definition held_by_any (st : state) (l : nat) : Prop := exists t, In t st /\ In l (fst t).

Inductive tstep (st : state) : thread -> thread -> Prop :=
| TAcq h l r : ~ held_by_any st l -> tstep st (h, Acq l :: r) (l :: h, r)
| TRel h l r : tstep st (h, Rel l :: r) (remove Nat.eq_dec l h, r).

Inductive step : state -> state -> Prop :=
| Step pre t t' post : tstep (pre ++ t :: post) t t' -> step (pre ++ t :: post) (pre ++ t' :: post).

Inductive exec : state -> state -> Prop :=
| exec_refl st : exec st st
| exec_step st st' st'' : step st st' -> exec st' st'' -> exec st st''.

Definition finished (t : thread) : Prop := snd t = [].
Definition remaining (st : state) : nat := fold_right (fun t n => length (snd t) + n) 0 st.

Section Rank.
  Variable rank : nat -> nat.

  (* every Acq takes a lock of strictly greater rank than all held; Rel only of held locks;
     nothing held at the end *)
  Fixpoint ok (h : list nat) (p : list instr) : Prop :=
    match p with
    | [] => h = []
    | Acq l :: r => Forall (fun x => rank x < rank l) h /\ ok (l :: h) r
    | Rel l :: r => In l h /\ ok (remove Nat.eq_dec l h) r
    end.

  Fixpoint okb (h : list nat) (p : list instr) : bool :=
    match p with
    | [] => match h with [] => true | _ => false end
    | Acq l :: r => forallb (fun x => rank x <? rank l) h && okb (l :: h) r
    | Rel l :: r => existsb (Nat.eqb l) h && okb (remove Nat.eq_dec l h) r
    end.

  (* the same check tolerating one named kind of inversion: acquiring [lo] while holding [hi] *)
  Fixpoint okb_except (tol : nat -> nat -> bool) (h : list nat) (p : list instr) : bool :=
    match p with
    | [] => match h with [] => true | _ => false end
    | Acq l :: r => forallb (fun x => (rank x <? rank l) || tol x l) h && okb_except tol (l :: h) r
    | Rel l :: r => existsb (Nat.eqb l) h && okb_except tol (remove Nat.eq_dec l h) r
    end.

  Definition inv (st : state) : Prop := Forall (fun t => ok (fst t) (snd t)) st.
End Rank.

(* --- executable scheduler, used for witnesses --------------------------------------- *)
Definition heldb (st : state) (l : nat) : bool := existsb (fun t => existsb (Nat.eqb l) (fst t)) st.
Definition tstepb (st : state) (t : thread) : option thread :=
  match t with
  | (h, Acq l :: r) => if heldb st l then None else Some (l :: h, r)
  | (h, Rel l :: r) => Some (remove Nat.eq_dec l h, r)
  | (_, []) => None
  end.
Fixpoint set_nth {A} (i : nat) (x : A) (l : list A) : list A :=
  match l, i with
  | [], _ => []
  | _ :: r, O => x :: r
  | y :: r, S k => y :: set_nth k x r
  end.
Definition sched_step (st : state) (i : nat) : option state :=
  match nth_error st i with
  | Some t => match tstepb st t with Some t' => Some (set_nth i t' st) | None => None end
  | None => None
  end.
Fixpoint run_sched (st : state) (s : list nat) : option state :=
  match s with
  | [] => Some st
  | i :: r => match sched_step st i with Some st' => run_sched st' r | None => None end
  end.
Definition enabledb (st : state) : bool :=
  existsb (fun t => match tstepb st t with Some _ => true | None => false end) st.
Definition all_finishedb (st : state) : bool :=
  forallb (fun t => match snd t with [] => true | _ => false end) st.

(* --- instance: lock classes of service/listeners.go and the listenerSet of main.go ---- *)
Import String.StringSyntax.
Local Open Scope string_scope.
Definition class_rank (name : string) : option nat :=
  if String.eqb name "listenerSet.listenersMu" then Some 0
  else if String.eqb name "virtualStreamListener.mu" then Some 1
  else if String.eqb name "virtualPacketConn.mu" then Some 1
  else if String.eqb name "listenerManager.mu" then Some 2
  else if String.eqb name "multiStreamListener.mu" then Some 3
  else if String.eqb name "multiPacketListener.mu" then Some 3
  else None.
Definition rank_in (classes : list string) (l : nat) : nat :=
  match nth_error classes l with
  | Some n => match class_rank n with Some r => r | None => 0 end
  | None => 0
  end.
Definition classes_known (classes : list string) : bool :=
  forallb (fun n => match class_rank n with Some _ => true | None => false end) classes.
Definition class_is (classes : list string) (l : nat) (names : list string) : bool :=
  match nth_error classes l with Some n => existsb (String.eqb n) names | None => false end.

(* the one tolerated inversion (known finding, DESIGN §7.5): taking listenerManager.mu while
   holding a shared listener's mu, in the last-Close path *)
Definition known_inversion (classes : list string) (held l : nat) : bool :=
  class_is classes held ["multiStreamListener.mu"; "multiPacketListener.mu"] &&
  class_is classes l ["listenerManager.mu"].

(* callee expressions on lock paths that take no lock of these classes (hand-audited list) *)
Definition lock_free_callees : list string :=
  ["NewMultiPacketListener"; "NewMultiStreamListener"; "close"; "conn.Close"; "copy"; "delete"; "errors.Is"; "fmt.Errorf";
   "len"; "ln.AcceptStream"; "m.ln.Addr"; "m.pc.Close"; "m.pc.ReadFrom"; "make"; "net.ListenPacket";
   "net.ListenTCP"; "net.ResolveTCPAddr"; "t.ln.AcceptTCP"; "t.ln.Addr"; "t.ln.Close"].
Definition callees_known (cs : list string) : bool :=
  forallb (fun c => existsb (String.eqb c) lock_free_callees) cs.
