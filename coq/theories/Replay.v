(* Replay.v — model of service/replay.go (ReplayCache) and its lemmas (C07). *)
From OSS Require Import theories.Base.
From OSS Require Gen.Consts.

(* --- model ---------------------------------------------------------------- *)
(* Go maps of uint32 keys are modelled as duplicate-free lists; [length] is
   [len(map)].  [cap] is a Go int, so it may be negative. *)
Record cache := { cap : Z; active : list N; archive : list N }.

Definition max_capacity : Z := Gen.Consts.replay_max_capacity.

Inductive new_result := NewOk (c : cache) | NewPanic.
Definition new_cache (capacity : Z) : new_result :=
  if (max_capacity <? capacity)%Z then NewPanic
  else NewOk {| cap := capacity; active := []; archive := [] |}.

(* preHash: XOR-fold id then salt into 4 bytes, big endian (replay.go:70-79) *)
Fixpoint xor_fold (buf : list N) (i : nat) (bs : bytes) : list N :=
  match bs with
  | [] => buf
  | b :: r =>
      let j := Nat.modulo i 4 in
      xor_fold (firstn j buf ++ [N.lxor (nth j buf 0%N) b] ++ skipn (S j) buf) (S i) r
  end.
Definition be32 (buf : list N) : N :=
  (nth 0 buf 0 * 16777216 + nth 1 buf 0 * 65536 + nth 2 buf 0 * 256 + nth 3 buf 0)%N.
Definition pre_hash (id salt : bytes) : N :=
  be32 (xor_fold (xor_fold [0;0;0;0]%N 0 id) 0 salt).

Definition add (c : cache) (h : N) : cache * bool :=
  if Z.eqb (cap c) 0 then (c, true) else
  if mem_N h (active c) then (c, false) else
  let inA := mem_N h (archive c) in
  let c' := if Z.leb (cap c) (Z.of_nat (length (active c)))
            then {| cap := cap c; active := [h]; archive := active c |}
            else {| cap := cap c; active := h :: active c; archive := archive c |} in
  (c', negb inA).

(* Resize returns an error and leaves the cache alone above MaxCapacity. *)
Definition resize (c : cache) (n : Z) : cache * bool :=
  if (max_capacity <? n)%Z then (c, false)
  else ({| cap := n; active := active c; archive := archive c |}, true).

Inductive op := Add (h : N) | Resize (n : Z).

Definition step (c : cache) (o : op) : cache * bool :=
  match o with
  | Resize n => resize c n
  | Add h => add c h
  end.

Fixpoint run (c : cache) (ops : list op) : cache * list bool :=
  match ops with
  | [] => (c, [])
  | o :: r => let '(c1, b) := step c o in let '(c2, bs) := run c1 r in (c2, b :: bs)
  end.

(* the level of the API: (key id, salt) presentations *)
Inductive hop := HAdd (id salt : bytes) | HResize (n : Z).
Definition lower (o : hop) : op :=
  match o with HAdd id salt => Add (pre_hash id salt) | HResize n => Resize n end.
Definition empty_cache (capacity : Z) := {| cap := capacity; active := []; archive := [] |}.

(* --- one process, many services and configuration generations ------------------------------ *)
(* every service instance (of any generation) checks handshakes against the cache slot it was
   given; the server passes the same slot (&s.replayCache) to every service it ever creates *)
Definition store := nat -> cache.
Definition supd (st : store) (i : nat) (c : cache) : store := fun j => if Nat.eqb j i then c else st j.
Fixpoint prun (ref : nat -> nat) (st : store) (pl : list (nat * op)) : store * list bool :=
  match pl with
  | [] => (st, [])
  | (sv, o) :: r =>
      let '(c', out) := step (st (ref sv)) o in
      let '(st', outs) := prun ref (supd st (ref sv) c') r in
      (st', out :: outs)
  end.
