(* Collector.v — model of the Prometheus collectors of prometheus/metrics.go as a function from the
   log of calls the service makes on ServiceMetrics / TCPConnMetrics / UDPConnMetrics to the
   gathered counter values.  Series are identified by name and label values; the per-connection
   objects (tcpConnMetrics.accessKey set by AddAuthenticated, udpConnMetrics.accessKey fixed at
   AddUDPNatEntry) are the [tkeys]/[ukeys] maps.  Location labels are those of a server without an
   ip-to-country database (all empty), the configuration the harness runs. *)
From OSS Require Import theories.Base.
From Coq Require Import String.
Import String.StringSyntax.
Open Scope Z_scope.

Definition series := list string.
Definition series_eqb : series -> series -> bool := list_eqb String.eqb.

Inductive mcall :=
| MUAdd (a : N) (key : string)                       (* AddUDPNatEntry *)
| MUPktC (a : N) (status : string) (cp pt : Z)       (* AddPacketFromClient *)
| MUPktT (a : N) (status : string) (tp pc : Z)       (* AddPacketFromTarget *)
| MURemove (a : N)
| MTOpen (c : N)                                     (* AddOpenTCPConnection *)
| MTAuth (c : N) (key : string)
| MTClosed (c : N) (status : string) (cp pt tp pc : Z)
| MTProbe (c : N) (port status drain : string) (n : Z).

Record cst := { vals : list (series * Z); ukeys : list (N * string); tkeys : list (N * string) }.
Definition cinit0 : cst := {| vals := []; ukeys := []; tkeys := [] |}.

Fixpoint value (m : list (series * Z)) (s : series) : Z :=
  match m with
  | [] => 0
  | (s', v) :: r => if series_eqb s s' then v else value r s
  end.
Fixpoint bump (s : series) (v : Z) (m : list (series * Z)) : list (series * Z) :=
  match m with
  | [] => [(s, v)]
  | (s', v') :: r => if series_eqb s s' then (s', v' + v) :: r else (s', v') :: bump s v r
  end.
Fixpoint key_of (m : list (N * string)) (a : N) : string :=
  match m with
  | [] => EmptyString
  | (a', k) :: r => if N.eqb a a' then k else key_of r a
  end.

(* addIfNonZero: a series is touched only by a positive amount *)
Definition nz (s : series) (v : Z) : list (series * Z) := if 0 <? v then [(s, v)] else [].

Definition data (proto dir key : string) : series := ["data_bytes"; proto; dir; key]%string.
Definition dataloc (proto dir : string) : series := ["data_bytes_per_location"; proto; dir]%string.
Definition client_target (proto key : string) (cp pt : Z) : list (series * Z) :=
  nz (data proto "c>p" key) cp ++ nz (dataloc proto "c>p") cp ++ nz (data proto "p>t" key) pt ++ nz (dataloc proto "p>t") pt.
Definition target_client (proto key : string) (tp pc : Z) : list (series * Z) :=
  nz (data proto "p<t" key) tp ++ nz (dataloc proto "p<t") tp ++ nz (data proto "c<p" key) pc ++ nz (dataloc proto "c<p") pc.

(* what one call adds, given the per-connection objects *)
Definition delta (st : cst) (c : mcall) : list (series * Z) :=
  match c with
  | MUAdd _ _ => [(["udp_nat_entries_added"]%string, 1)]
  | MUPktC a status cp pt =>
      (["udp_packets_from_client_per_location"; status]%string, 1) :: client_target "udp" (key_of (ukeys st) a) cp pt
  | MUPktT a _ tp pc => target_client "udp" (key_of (ukeys st) a) tp pc
  | MURemove _ => [(["udp_nat_entries_removed"]%string, 1)]
  | MTOpen _ => [(["tcp_connections_opened"]%string, 1)]
  | MTAuth _ _ => []
  | MTClosed c status cp pt tp pc =>
      let k := key_of (tkeys st) c in
      client_target "tcp" k cp pt ++ target_client "tcp" k tp pc ++
      [(["tcp_connections_closed"; status; k]%string, 1); (["tcp_connection_duration_ms_count"; status]%string, 1)]
  | MTProbe _ port status drain n =>
      [(["tcp_probes_count"; port; status; drain]%string, 1); (["tcp_probes_sum"; port; status; drain]%string, n)]
  end.

Definition apply_delta (d : list (series * Z)) (m : list (series * Z)) : list (series * Z) :=
  fold_left (fun m sv => bump (fst sv) (snd sv) m) d m.

Definition cstep (st : cst) (c : mcall) : cst :=
  {| vals := apply_delta (delta st c) (vals st);
     ukeys := match c with MUAdd a k => (a, k) :: ukeys st | _ => ukeys st end;
     tkeys := match c with MTAuth c k => (c, k) :: tkeys st | _ => tkeys st end |}.
Definition crun (calls : list mcall) : cst := fold_left cstep calls cinit0.

(* -- specification side: the key each call is attributed to, and the sum over the log ---------- *)
Definition dsum (d : list (series * Z)) (s : series) : Z :=
  fold_right (fun sv acc => (if series_eqb s (fst sv) then snd sv else 0) + acc) 0 d.

(* total over a log of what each call adds to series [s], the per-connection state threaded along *)
Fixpoint total_from (st : cst) (calls : list mcall) (s : series) : Z :=
  match calls with
  | [] => 0
  | c :: r => dsum (delta st c) s + total_from (cstep st c) r s
  end.

(* the UDP reports of a log with the key of their association, as (key, cp, pt) and (key, tp, pc) *)
Fixpoint ureports (uk : list (N * string)) (calls : list mcall) : list (string * bool * Z * Z) :=
  match calls with
  | [] => []
  | MUAdd a k :: r => ureports ((a, k) :: uk) r
  | MUPktC a _ cp pt :: r => (key_of uk a, true, cp, pt) :: ureports uk r
  | MUPktT a _ tp pc :: r => (key_of uk a, false, tp, pc) :: ureports uk r
  | _ :: r => ureports uk r
  end.
Definition pos (v : Z) : Z := if 0 <? v then v else 0.
(* bytes reported for key [k]: from-client reports (first component cp, second pt), from-target (tp, pc) *)
Definition sum_reports (k : string) (fromclient first : bool) (l : list (string * bool * Z * Z)) : Z :=
  fold_right (fun r acc =>
    let '(k', fc, x, y) := r in
    (if String.eqb k k' && Bool.eqb fc fromclient then pos (if first then x else y) else 0) + acc) 0 l.
