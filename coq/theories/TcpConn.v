(* TcpConn.v — model of streamHandler.Handle / handleConnection / absorbProbe / proxyConnection
   (service/tcp.go) for one connection: the list of observable events in code order
   (C02, C05, C06, C15). The relay's interleavings are in Relay.v; here a connection is a
   complete scenario (what the client sends and whether it then half-closes or keeps the
   connection open, what the dial does, what the target sends). *)
From OSS Require Import theories.Base theories.IPClass theories.Socks theories.Crypto theories.CipherList.
From OSS Require Import theories.Replay theories.TcpAuth theories.SsStream.
Open Scope N_scope.

(* status vocabulary (the strings are regenerated in Gen.Status and compared in C15) *)
Definition st_ok := 0. Definition st_cipher := 1. Definition st_replay_server := 2. Definition st_replay_client := 3.
Definition st_read_address := 4. Definition st_address_invalid := 5. Definition st_address_private := 6.
Definition st_connect := 7. Definition st_relay_client := 8. Definition st_relay_target := 9.

Definition status_code (s : status) : N :=
  match s with ErrCipher => st_cipher | ErrReplayServer => st_replay_server | ErrReplayClient => st_replay_client end.

Inductive close_when :=
| AtClientFin       (* only once the client has closed its side *)
| AtDeadline        (* at accept time + handshake timeout *)
| AtOnce            (* immediately, while the client may still keep the connection open *)
| AfterRelay.       (* when both directions have finished *)

Inductive drain := DrainEof | DrainTimeout.

Inductive ev :=
| EAuth (id : bytes)                              (* connMetrics.AddAuthenticated *)
| EProbe (st : N) (d : drain) (n : Z)             (* connMetrics.AddProbe *)
| EDial (a : saddr) (i : ip)                      (* a connection to the target is made, to address i *)
| EToTarget (bs : bytes)                          (* payload delivered to the target *)
| ETargetFin                                      (* CloseWrite towards the target *)
| EToClient (bs : bytes)                          (* plaintext encrypted to the client *)
| EClosed (st : N) (cp pt tp : Z)                 (* connMetrics.AddClosed: status + ClientProxy, ProxyTarget, TargetProxy *)
| EClose (w : close_when).                        (* the server closes the client connection *)

Record conn_in := {
  ci_ip : N;
  ci_bytes : list wbyte;        (* everything the client sends *)
  ci_fin : bool;                (* then half-closes (true) or keeps the connection open (false) *)
  ci_validate : bool;           (* default target IP policy in force *)
  ci_connect_ok : bool;         (* the connect itself succeeds *)
  ci_resolved : list ip;        (* resolver oracle: what a domain-name target resolves to *)
  ci_target_out : bytes;        (* what the target sends back before closing *)
  ci_target_reset : bool;       (* the target ends with a reset instead of a close, after having read the whole upload and sent its output *)
  ci_client_reset : bool        (* the client ends with a reset instead of a half-close, after everything it sent was relayed and it has read the target's output *)
}.

(* the validating dialer (net.Dialer with a Control hook): the addresses of the target — the
   literal itself, or the resolver's answers for a domain name — are tried in order; the hook
   validates the literal connect address of EVERY attempt; the first error is reported when no
   attempt succeeds.  Result: the address connected to, or a status. *)
Definition attempt (ci : conn_in) (i : ip) : option N :=      (* None = connected *)
  if ci_validate ci then
    match require_public i with
    | ErrInvalid => Some st_address_invalid
    | ErrPrivate => Some st_address_private
    | Allowed => if ci_connect_ok ci then None else Some st_connect
    end
  else if ci_connect_ok ci then None else Some st_connect.
Fixpoint dial_ips (ci : conn_in) (ips : list ip) (first_err : option N) : ip + N :=
  match ips with
  | [] => inr (match first_err with Some e => e | None => st_connect end)
  | i :: r => match attempt ci i with
              | None => inl i
              | Some e => dial_ips ci r (match first_err with Some f => Some f | None => Some e end)
              end
  end.
Definition dial (ci : conn_in) (a : saddr) : ip + N :=
  match host_ip (sa_host a) with
  | Some i => dial_ips ci [i] None
  | None => dial_ips ci (ci_resolved ci) None
  end.

Definition zlen {A} (l : list A) : Z := Z.of_nat (length l).

(* events of handleConnection after successful authentication *)
Definition after_auth (e : env) (ci : conn_in) (k : skey) : list ev * N * (Z * Z) * close_when :=
  let '(pt, fin) := decode_stream e k (ci_bytes ci) in
  match read_addr pt with
  | RBadType | RNeedMore =>
      (* getProxyRequest failed: drain the raw connection (deadline cleared) until the client closes *)
      ([], st_read_address, (0, 0)%Z, AtClientFin)
  | RAddr ab payload =>
      match decode_addr ab with
      | None => ([], st_read_address, (0, 0)%Z, AtClientFin)
      | Some a =>
          match dial ci a with
          | inr st => ([], st, (0, 0)%Z, AtOnce)       (* no drain: dial errors are reported quickly *)
          | inl i =>
              match fin with
              | DAuthFail =>
                  (* a chunk failed authentication mid-relay: what was decoded before is relayed,
                     then the rest of the stream is drained until the client closes *)
                  ([EDial a i; EToTarget payload; EToClient (ci_target_out ci); ETargetFin],
                   st_relay_client, (zlen payload, zlen (ci_target_out ci)), AtClientFin)
              | _ =>
                  (* the copy from the target ends with an error exactly when the target reset; the
                     upload direction had ended cleanly, so that error is the one reported *)
                  ([EDial a i; EToTarget payload; ETargetFin; EToClient (ci_target_out ci)],
                   (if ci_client_reset ci then st_relay_client          (* the copy from the client ended with an error: reported first *)
                    else if ci_target_reset ci then st_relay_target else st_ok),
                   (zlen payload, zlen (ci_target_out ci)), AfterRelay)
              end
          end
      end
  end.

Definition handle (e : env) (st : astate) (ci : conn_in) : astate * outcome (list ev) :=
  let '(st', res) := authenticate e st (ci_ip ci) (ci_bytes ci) in
  let total := zlen (ci_bytes ci) in
  match res with
  | Panic => (st', Panic)
  | Ok (AuthErr s _) =>
      (* absorbProbe: read everything until the client closes or the deadline, then report *)
      let d := if ci_fin ci then DrainEof else DrainTimeout in
      (st', Ok [EProbe (status_code s) d total; EClosed (status_code s) total 0 0;
                EClose (if ci_fin ci then AtClientFin else AtDeadline)])
  | Ok (AuthOk id el _) =>
      let '(evs, code, (pt, tp), w) := after_auth e ci (e_key (snd el)) in
      (st', Ok (EAuth id :: evs ++ [EClosed code total pt tp; EClose w]))
  end.

(* predicates over event lists *)
Definition is_write_or_dial (x : ev) : bool :=
  match x with EDial _ _ | EToTarget _ | ETargetFin | EToClient _ => true | _ => false end.
Definition is_closed (x : ev) : bool := match x with EClosed _ _ _ _ => true | _ => false end.
Definition is_auth (x : ev) : bool := match x with EAuth _ => true | _ => false end.
Definition is_probe (x : ev) : bool := match x with EProbe _ _ _ => true | _ => false end.
Definition count (p : ev -> bool) (l : list ev) : nat := length (filter p l).
