(* RelayProofs.v — for every interleaving: no loss, duplication or reordering; FIN only after all
   data; the two directions are independent (C02). *)
From OSS Require Import theories.Base theories.Relay.

Lemma dinv0 : dinv dir0.
Proof. repeat split; cbn; try discriminate; reflexivity. Qed.

Lemma dinv_step d l d' : dinv d -> dstep d l = Some d' -> dinv d'.
Proof.
  intros (I1 & I2 & I3) S. destruct l as [bs| |n| | |]; cbn [dstep] in S.
  - destruct (d_src_fin d) eqn:F; [discriminate|]. inversion S; subst; clear S. unfold dinv; cbn.
    split; [rewrite I1, <- !app_assoc; reflexivity|]. split; [|exact I3].
    intros H. destruct (I2 H) as [H1 _]. congruence.
  - inversion S; subst; clear S. unfold dinv; cbn. split; [exact I1|]. split; [|exact I3].
    intros H. destruct (I2 H) as (_ & H2 & H3). tauto.
  - destruct (d_buf d) eqn:B; [|discriminate].
    destruct ((0 <? n) && (n <=? length (d_src d)) && negb (d_eof_seen d)) eqn:C; [|discriminate].
    inversion S; subst; clear S. unfold dinv; cbn.
    split; [rewrite I1; cbn; rewrite firstn_skipn; reflexivity|]. split; [discriminate|].
    intros H. apply I3 in H. apply andb_true_iff in C as [_ C]. rewrite H in C. discriminate.
  - destruct (d_buf d) as [|b0 br] eqn:B; [discriminate|]. inversion S; subst; clear S. unfold dinv; cbn.
    split; [rewrite I1, <- app_assoc; reflexivity|]. split; [|exact I3].
    intros H. destruct (I2 H) as (_ & _ & H3). discriminate.
  - destruct (d_buf d) eqn:B; [|discriminate]. destruct (d_src d) eqn:Sr; [|discriminate].
    destruct (d_src_fin d && negb (d_eof_seen d)) eqn:C; [|discriminate].
    inversion S; subst; clear S. unfold dinv; cbn.
    split; [rewrite I1; cbn; reflexivity|]. split; [tauto|tauto].
  - destruct (d_eof_seen d && negb (d_fin_sent d)) eqn:C; [|discriminate]. apply andb_true_iff in C as [C1 C2].
    inversion S; subst; clear S. unfold dinv; cbn. split; [exact I1|]. split; [intros _; apply I2; exact C1 | tauto].
Qed.

Definition rinv (r : relay) : Prop := dinv (up r) /\ dinv (down r).

Lemma rinv_run tr : forall r r', rinv r -> rrun r tr = Some r' -> rinv r'.
Proof.
  induction tr as [|l t IH]; intros r r' I R; cbn in R; [inversion R; subst; exact I|].
  destruct (rstep r l) as [r1|] eqn:S; [|discriminate]. apply (IH r1); [|exact R].
  destruct I as [Iu Id]. destruct l as [x|x]; cbn in S.
  - destruct (dstep (up r) x) as [u|] eqn:D; [|discriminate]. inversion S; subst. split; cbn [up down]; [exact (dinv_step (up r) x u Iu D) | exact Id].
  - destruct (dstep (down r) x) as [d|] eqn:D; [|discriminate]. inversion S; subst. split; cbn [up down]; [exact Iu | exact (dinv_step (down r) x d Id D)].
Qed.

(* headline: after ANY interleaving of client, target and copy steps, in each direction what the
   destination has received is a prefix of what the source sent, the rest being in flight in
   order: nothing lost, duplicated or reordered *)
Lemma relay_prefix_invariant_lemma tr r :
  rrun relay0 tr = Some r ->
  d_sent (up r) = d_dst (up r) ++ d_buf (up r) ++ d_src (up r) /\
  d_sent (down r) = d_dst (down r) ++ d_buf (down r) ++ d_src (down r).
Proof.
  intros R. destruct (rinv_run tr relay0 r (conj dinv0 dinv0) R) as [(U & _) (D & _)]. tauto.
Qed.

(* FIN reaches a destination only after ALL the source's data, and only after the source's FIN *)
Lemma fin_after_data_lemma tr r :
  rrun relay0 tr = Some r ->
  (d_fin_sent (up r) = true -> d_dst (up r) = d_sent (up r) /\ d_src_fin (up r) = true) /\
  (d_fin_sent (down r) = true -> d_dst (down r) = d_sent (down r) /\ d_src_fin (down r) = true).
Proof.
  intros R. destruct (rinv_run tr relay0 r (conj dinv0 dinv0) R) as [(U1 & U2 & U3) (D1 & D2 & D3)].
  split; intros H.
  - destruct (U2 (U3 H)) as (F & S & B). rewrite U1, S, B, !app_nil_r. tauto.
  - destruct (D2 (D3 H)) as (F & S & B). rewrite D1, S, B, !app_nil_r. tauto.
Qed.

(* the directions are independent: a step of one leaves the other untouched, so whatever one
   direction has done (including its half-close) neither disables nor alters the other *)
Lemma half_close_independent_lemma r x y :
  (forall r1, rstep r (Up x) = Some r1 -> down r1 = down r /\ rstep r1 (Down y) = option_map (fun d => {| up := up r1; down := d |}) (dstep (down r) y)) /\
  (forall r1, rstep r (Down y) = Some r1 -> up r1 = up r /\ rstep r1 (Up x) = option_map (fun u => {| up := u; down := down r1 |}) (dstep (up r) x)).
Proof.
  split; intros r1 S; cbn in S.
  - destruct (dstep (up r) x); [|discriminate]. inversion S; subst. cbn. split; reflexivity.
  - destruct (dstep (down r) y); [|discriminate]. inversion S; subst. cbn. split; reflexivity.
Qed.
Lemma steps_commute_lemma r x y :
  match rstep r (Up x), rstep r (Down y) with
  | Some r1, Some r2 => rstep r1 (Down y) = rstep r2 (Up x) /\ rstep r1 (Down y) <> None
  | _, _ => True
  end.
Proof.
  cbn. destruct (dstep (up r) x) as [u|] eqn:U; destruct (dstep (down r) y) as [d|] eqn:D; cbn; try exact I.
  rewrite U, D. cbn. split; [reflexivity|discriminate].
Qed.

(* completion: once the copy loop of a direction has seen EOF, the destination has everything *)
Lemma relay_complete_lemma tr r :
  rrun relay0 tr = Some r ->
  (d_eof_seen (up r) = true -> d_dst (up r) = d_sent (up r)) /\
  (d_eof_seen (down r) = true -> d_dst (down r) = d_sent (down r)).
Proof.
  intros R. destruct (rinv_run tr relay0 r (conj dinv0 dinv0) R) as [(U1 & U2 & _) (D1 & D2 & _)].
  split; intros H.
  - destruct (U2 H) as (_ & S & B). rewrite U1, S, B, !app_nil_r. reflexivity.
  - destruct (D2 H) as (_ & S & B). rewrite D1, S, B, !app_nil_r. reflexivity.
Qed.

