(* IpInfoProofs.v — the location-label table and when the database is consulted (C20). *)
From OSS Require Import theories.Base theories.IPClass theories.IpInfo.
From OSS Require Gen.Consts.

Lemma info_from_ip_cases enabled db i : i <> BadIP ->
  info_from_ip enabled db i =
  if negb enabled then ([], false)
  else if negb (is_global_unicast i) then (cc_XL, false)
  else match db i with
       | DbErr _ => (cc_XD, true)
       | DbOk c => (match c with [] => cc_ZZ | _ => c end, true)
       end.
Proof. destruct i; [reflexivity | reflexivity | congruence]. Qed.

(* the six cases, exhaustive and mutually exclusive, in the order of the property *)
Lemma location_label_table_lemma enabled db a :
  a <> AIP BadIP ->     (* net.ParseIP never yields a non-nil IP of another length *)
  let lab := fst (info_from_addr enabled db a) in
  (parsable a = false -> lab = cc_XA) /\
  (parsable a = true -> enabled = false -> lab = []) /\
  (parsable a = true -> enabled = true -> is_global_unicast (addr_ip a) = false -> lab = cc_XL) /\
  (parsable a = true -> enabled = true -> is_global_unicast (addr_ip a) = true ->
     forall p, db (addr_ip a) = DbErr p -> lab = cc_XD) /\
  (parsable a = true -> enabled = true -> is_global_unicast (addr_ip a) = true ->
     db (addr_ip a) = DbOk [] -> lab = cc_ZZ) /\
  (forall c, parsable a = true -> enabled = true -> is_global_unicast (addr_ip a) = true ->
     db (addr_ip a) = DbOk c -> c <> [] -> lab = c).
Proof.
  intros Hreach. cbn zeta.
  assert (NP : parsable a = false -> fst (info_from_addr enabled db a) = cc_XA).
  { destruct a as [| | |[x|x|]]; cbn [parsable info_from_addr fst]; try discriminate; try reflexivity.
    congruence. }
  destruct (parsable a) eqn:P.
  2: { split; [exact NP|]. repeat split; intros; discriminate. }
  assert (exists i, a = AIP i /\ i <> BadIP) as (i & -> & Hi).
  { destruct a as [| | |[x|x|]]; try discriminate; eexists; split; try reflexivity; discriminate. }
  cbn [addr_ip info_from_addr]. rewrite (info_from_ip_cases enabled db i Hi).
  split; [intros; discriminate|].
  split; [intros _ ->; reflexivity|].
  split; [intros _ -> ->; reflexivity|].
  split; [intros _ -> -> p ->; reflexivity|].
  split; [intros _ -> -> ->; reflexivity|].
  intros c _ -> -> -> Hc. cbn. destruct c; [congruence|reflexivity].
Qed.

(* The six guards partition all inputs. *)
Lemma cases_exhaustive_lemma enabled db a :
  parsable a = false \/
  (parsable a = true /\ enabled = false) \/
  (parsable a = true /\ enabled = true /\ is_global_unicast (addr_ip a) = false) \/
  (parsable a = true /\ enabled = true /\ is_global_unicast (addr_ip a) = true /\ exists p, db (addr_ip a) = DbErr p) \/
  (parsable a = true /\ enabled = true /\ is_global_unicast (addr_ip a) = true /\ db (addr_ip a) = DbOk []) \/
  (exists c, parsable a = true /\ enabled = true /\ is_global_unicast (addr_ip a) = true /\ db (addr_ip a) = DbOk c /\ c <> []).
Proof.
  destruct (parsable a); [|left; reflexivity]. right.
  destruct enabled; [|left; split; reflexivity]. right.
  destruct (is_global_unicast (addr_ip a)); [|left; repeat split; reflexivity]. right.
  destruct (db (addr_ip a)) as [p|c]; [left; repeat split; try reflexivity; exists p; reflexivity|]. right.
  destruct c as [|x r]; [left; repeat split; reflexivity|]. right.
  exists (x :: r). repeat split; try reflexivity. discriminate.
Qed.

Lemma db_consulted_iff_global_lemma enabled db a :
  snd (info_from_addr enabled db a) = true <->
  enabled = true /\ parsable a = true /\ is_global_unicast (addr_ip a) = true.
Proof.
  destruct a as [| | |[x|x|]]; cbn [parsable addr_ip info_from_addr snd];
    try (split; [discriminate | intros (_ & H & _); discriminate]).
  all: unfold info_from_ip; destruct enabled; cbn [negb];
    try (split; [discriminate | intros (H & _); discriminate]).
  - destruct (is_global_unicast (V4 x)); cbn [negb].
    + destruct (db (V4 x)); cbn; tauto.
    + cbn. split; [discriminate | intros (_ & _ & H); discriminate].
  - destruct (is_global_unicast (V16 x)); cbn [negb].
    + destruct (db (V16 x)); cbn; tauto.
    + cbn. split; [discriminate | intros (_ & _ & H); discriminate].
  - cbn. split; [discriminate | intros (_ & H & _); discriminate].
Qed.

(* the code constants are the ones the property names *)
Lemma country_codes_lemma :
  cc_XA = [88;65]%N /\ cc_XL = [88;76]%N /\ cc_XD = [88;68]%N /\ cc_ZZ = [90;90]%N.
Proof. repeat split; reflexivity. Qed.
