(* UdpMetrics.v — end to end: a history of client datagrams and expiries through the UDP handler
   model (Udp.v), the calls it makes on its metrics sink, and the counters the Prometheus
   collector model (Collector.v) exposes after them.  The theorem ties the gathered
   data_bytes{proto="udp"} per key to the wire: the sizes of the client datagrams that created or
   arrived on an association of that key, and the payload sizes that left towards targets. *)
From OSS Require Import theories.Base theories.AList theories.IPClass theories.Socks theories.Crypto theories.CipherList.
From OSS Require Import theories.Udp theories.Collector theories.CollectorProofs.
From Coq Require Import String.
Import String.StringSyntax.
Open Scope Z_scope.

Section UdpMetrics.
  Variable f : bytes -> string.        (* how a key ID is written as the access_key label *)
  Variable sname : N -> string.        (* status code -> status label *)

  Inductive uop :=
  | UDgram (ca cip : N) (pkt : list wbyte)                 (* a datagram from a client *)
  | UExpireOp (ca : N)                                      (* the association of a client times out *)
  | UReplyOp (sock : N) (src : ip) (port : N) (body : bytes) (salt : list wbyte) (sid : N).
                                                            (* a datagram arrives at a NAT socket *)

  Definition call_of (ev : uev) : list mcall :=
    match ev with
    | UNew _ s id => [MUAdd s (f id)]
    | USend _ _ _ _ => []
    | UReport s code cb pb => [MUPktC s (sname code) cb pb]
    end.
  Definition calls_of (evs : list uev) : list mcall := flat_map call_of evs.

  Definition reply_calls (sock : N) (r : outcome reply_res) : list mcall :=
    match r with
    | Ok (ReplySent _ _ code tb cb) => [MUPktT sock (sname code) tb cb]
    | Ok (ReplyDropped code tb) => [MUPktT sock (sname code) tb 0]
    | _ => []
    end.
  Definition ustep (e : env) (ue : uenv) (st : ustate) (op : uop) : env * ustate * list uev * list mcall :=
    match op with
    | UDgram ca cip pkt => let r := udp_client_step e ue st ca cip pkt in (e, fst r, snd r, calls_of (snd r))
    | UExpireOp ca =>
        match alookup N.eqb ca (u_nat st) with
        | Some a => (e, udp_expire st ca, [], [MURemove (as_sock a)])
        | None => (e, st, [], [])
        end
    | UReplyOp sock src port body salt sid =>
        let r := udp_reply e st sock src port body salt sid in (fst r, st, [], reply_calls sock (snd r))
    end.
  Fixpoint urun (e : env) (ue : uenv) (st : ustate) (ops : list uop) : list mcall :=
    match ops with
    | [] => []
    | op :: r => let '(e', st', _, calls) := ustep e ue st op in calls ++ urun e' ue st' r
    end.

  (* the wire *)
  Definition sent_len (evs : list uev) : Z :=
    fold_right (fun ev acc => match ev with USend _ _ _ p => zlen p + acc | _ => acc end) 0 evs.
  Definition owner (st : ustate) (sock : N) : option (N * assoc) :=
    find (fun kv => N.eqb (as_sock (snd kv)) sock) (u_nat st).
  (* from the clients ([fc = true]): [first]: bytes received from clients, else payload bytes sent to
     targets — counted for key [k] when the datagram created or arrived on an association of that
     key. From the targets ([fc = false]): [first]: payload bytes that arrived at the NAT socket of an
     association of key [k], else bytes of the datagrams sent to its client. *)
  Fixpoint wire (fc first : bool) (k : string) (e : env) (ue : uenv) (st : ustate) (ops : list uop) : Z :=
    match ops with
    | [] => 0
    | op :: r =>
        let '(e', st', evs, _) := ustep e ue st op in
        (match op with
         | UDgram ca _ pkt =>
             match alookup N.eqb ca (u_nat st') with
             | Some a => if fc && String.eqb k (f (as_id a)) then (if first then zlen pkt else sent_len evs) else 0
             | None => 0
             end
         | UExpireOp _ => 0
         | UReplyOp sock src port body salt sid =>
             match owner st sock with
             | Some (_, a) =>
                 if negb fc && String.eqb k (f (as_id a))
                 then match snd (udp_reply e st sock src port body salt sid) with
                      | Panic => 0            (* the process is gone (excluded by pack_layout_in_bounds) *)
                      | Ok (ReplySent _ dgram _ _ _) => if first then zlen body else zlen dgram
                      | Ok _ => if first then zlen body else 0
                      end
                 else 0
             | None => 0
             end
         end) + wire fc first k e' ue st' r
    end.

  (* ---------------------------------------------------------------------------------------- *)
  Definition Inv (st : ustate) (uk : list (N * string)) : Prop :=
    forall ca a, In (ca, a) (u_nat st) ->
                 (as_sock a < u_next st)%N /\ key_of uk (as_sock a) = f (as_id a).

  Fixpoint uk_after (uk : list (N * string)) (calls : list mcall) : list (N * string) :=
    match calls with
    | [] => uk
    | MUAdd a k :: r => uk_after ((a, k) :: uk) r
    | _ :: r => uk_after uk r
    end.

  Lemma ureports_app uk l1 l2 : ureports uk (l1 ++ l2) = ureports uk l1 ++ ureports (uk_after uk l1) l2.
  Proof.
    revert uk. induction l1 as [|c r IH]; intros uk; [reflexivity|].
    destruct c; cbn [app ureports uk_after]; rewrite ?IH; reflexivity.
  Qed.
  Lemma sum_reports_app k fc first l1 l2 :
    sum_reports k fc first (l1 ++ l2) = sum_reports k fc first l1 + sum_reports k fc first l2.
  Proof.
    induction l1 as [|[[[k' fc'] x] y] r IH]; [reflexivity|].
    cbn [app]. rewrite !sum_reports_cons, IH. lia.
  Qed.

  Lemma pos_zlen {A} (l : list A) : pos (zlen l) = zlen l.
  Proof. unfold pos, zlen. destruct (0 <? Z.of_nat (List.length l)) eqn:E; [reflexivity|]. apply Z.ltb_ge in E. lia. Qed.
  Lemma pos_0 : pos 0 = 0.
  Proof. reflexivity. Qed.
  Ltac fin k fc first :=
    cbn [as_id] in *;
    repeat match goal with |- context [String.eqb k ?x] => destruct (String.eqb k x) end;
    destruct fc, first;
    cbn [sum_reports fold_right sent_len andb negb Bool.eqb];
    rewrite ?pos_zlen, ?pos_0; lia.

  Lemma inv_unchanged_nat st st' uk :
    u_nat st' = u_nat st -> u_next st' = u_next st -> Inv st uk -> Inv st' uk.
  Proof. intros Hn Hx H ca a Ha. rewrite Hn in Ha. rewrite Hx. exact (H ca a Ha). Qed.

  (* one datagram from a client *)
  Lemma dgram_step e ue st uk ca cip pkt k :
    Inv st uk ->
    let st' := fst (udp_client_step e ue st ca cip pkt) in
    let evs := snd (udp_client_step e ue st ca cip pkt) in
    Inv st' (uk_after uk (calls_of evs)) /\
    forall fc first,
      sum_reports k fc first (ureports uk (calls_of evs)) =
      match alookup N.eqb ca (u_nat st') with
      | Some a => if fc && String.eqb k (f (as_id a)) then (if first then zlen pkt else sent_len evs) else 0
      | None => 0
      end.
  Proof.
    intros HI. cbn zeta. unfold udp_client_step.
    destruct (alookup N.eqb ca (u_nat st)) as [a|] eqn:La.
    - (* existing association *)
      destruct (HI ca a (alookup_In N.eqb N.eqb_eq ca a _ La)) as [_ Hk].
      destruct (unpack e (as_key a) pkt) as [pt|]; cbn [fst snd].
      2: { split; [exact HI|]. intros fc first. rewrite La. cbn [calls_of flat_map call_of app ureports].
           rewrite sum_reports_cons, Hk. fin k fc first. }
      destruct (validate_packet ue pt) as [[[payload dst] port]|code]; cbn [fst snd].
      2: { split; [exact HI|]. intros fc first. rewrite La. cbn [calls_of flat_map call_of app ureports].
           rewrite sum_reports_cons, Hk. fin k fc first. }
      destruct (ue_sendable ue dst port); cbn [fst snd]; (split; [exact HI|]); intros fc first; rewrite La;
        cbn [calls_of flat_map call_of app ureports]; rewrite sum_reports_cons, Hk; fin k fc first.
    - (* no association yet *)
      destruct (find_entry_udp e pkt (snapshot cip (u_cl st))) as [[el pt]|]; cbn [fst snd].
      2: { split; [exact HI|]. intros fc first. rewrite La. reflexivity. }
      destruct (validate_packet ue pt) as [[[payload dst] port]|code]; cbn [fst snd u_nat].
      2: { split; [apply (inv_unchanged_nat st); [reflexivity|reflexivity|exact HI]|]. intros fc first. rewrite La. reflexivity. }
      set (a := {| as_sock := u_next st; as_key := e_key (snd el); as_id := e_id (snd el) |}).
      assert (Lnew : alookup N.eqb ca (u_nat st ++ [(ca, a)]) = Some a).
      { rewrite alookup_app, La. cbn. rewrite N.eqb_refl. reflexivity. }
      assert (HI' : Inv {| u_cl := mark_used (u_cl st) el cip; u_nat := u_nat st ++ [(ca, a)]; u_next := u_next st + 1 |}
                        ((u_next st, f (e_id (snd el))) :: uk)).
      { intros ca' a' Ha'. cbn [u_nat u_next] in *. apply in_app_or in Ha'. destruct Ha' as [Ha'|[Ha'|[]]].
        - destruct (HI ca' a' Ha') as [Hlt Hk]. split; [lia|].
          cbn [key_of]. destruct (N.eqb_spec (as_sock a') (u_next st)) as [E|_]; [lia|exact Hk].
        - inversion Ha'; subst a'. cbn [as_sock as_id a]. split; [lia|]. cbn [key_of]. rewrite N.eqb_refl. reflexivity. }
      destruct (ue_sendable ue dst port); cbn [fst snd]; (split; [exact HI'|]); intros fc first; rewrite Lnew;
        cbn [calls_of flat_map call_of app ureports]; rewrite sum_reports_cons;
        cbn [key_of]; rewrite N.eqb_refl; subst a; fin k fc first.
  Qed.

  Lemma expire_inv st uk ca : Inv st uk -> Inv (udp_expire st ca) uk.
  Proof.
    intros HI ca' a' Ha'. unfold udp_expire, aremove in *. cbn [u_nat u_next] in *.
    apply filter_In in Ha'. exact (HI ca' a' (proj1 Ha')).
  Qed.

  (* one datagram arriving at a NAT socket *)
  Lemma reply_step e st uk sock src port body salt sid k :
    Inv st uk ->
    forall fc first,
      sum_reports k fc first (ureports uk (reply_calls sock (snd (udp_reply e st sock src port body salt sid)))) =
      match owner st sock with
      | Some (_, a) =>
          if negb fc && String.eqb k (f (as_id a))
          then match snd (udp_reply e st sock src port body salt sid) with
               | Panic => 0
               | Ok (ReplySent _ dgram _ _ _) => if first then zlen body else zlen dgram
               | Ok _ => if first then zlen body else 0
               end
          else 0
      | None => 0
      end.
  Proof.
    intros HI fc first. unfold udp_reply, owner.
    destruct (find (fun kv => N.eqb (as_sock (snd kv)) sock) (u_nat st)) as [[ca a]|] eqn:Fo; [|reflexivity].
    pose proof (find_some _ _ Fo) as [Hin Hs]. cbn [snd] in Hs. apply N.eqb_eq in Hs.
    destruct (HI ca a Hin) as [_ Hk]. rewrite Hs in Hk.
    destruct (reply_addr src port) as [ab|].
    2: { cbn [snd reply_calls ureports]. rewrite sum_reports_cons, Hk. fin k fc first. }
    destruct (layout (Z.of_nat (salt_size (k_cipher (as_key a)))) (zlen ab) (zlen body)) as [[s0| |]|].
    - destruct (seal e sid (as_key a) salt 0 (ab ++ body)) as [e' ct]. cbn [snd reply_calls ureports].
      rewrite sum_reports_cons, Hk. fin k fc first.
    - cbn [snd reply_calls ureports]. rewrite sum_reports_cons, Hk. fin k fc first.
    - cbn [snd reply_calls ureports]. rewrite sum_reports_cons, Hk. fin k fc first.
    - cbn [snd reply_calls ureports sum_reports fold_right]. fin k fc first.
  Qed.

  Lemma run_sum ue ops : forall e st uk k fc first, Inv st uk ->
    sum_reports k fc first (ureports uk (urun e ue st ops)) = wire fc first k e ue st ops.
  Proof.
    induction ops as [|op r IH]; intros e st uk k fc first HI; [reflexivity|].
    cbn [urun wire]. destruct op as [ca cip pkt|ca|sock src port body salt sid]; cbn [ustep].
    - destruct (dgram_step e ue st uk ca cip pkt k HI) as [HI' Hs].
      rewrite ureports_app, sum_reports_app, (Hs fc first), (IH _ _ _ k fc first HI'). reflexivity.
    - destruct (alookup N.eqb ca (u_nat st)) as [a|] eqn:La.
      + cbn [app ureports]. rewrite (IH _ _ _ k fc first (expire_inv st uk ca HI)). lia.
      + cbn [app]. rewrite (IH _ _ _ k fc first HI). lia.
    - rewrite ureports_app, sum_reports_app, (reply_step e st uk sock src port body salt sid k HI fc first).
      assert (U : uk_after uk (reply_calls sock (snd (udp_reply e st sock src port body salt sid))) = uk).
      { destruct (snd (udp_reply e st sock src port body salt sid)) as [[| |]|]; reflexivity. }
      rewrite U, (IH _ _ _ k fc first HI). reflexivity.
  Qed.

  (* the gathered counters of a fresh handler equal the wire, per key and direction *)
  Lemma gathered_udp_equals_wire_lemma e ue st ops k fc first :
    u_nat st = [] ->
    value (vals (crun (urun e ue st ops))) (data "udp" (udir fc first) k) = wire fc first k e ue st ops.
  Proof.
    intros Hn. rewrite gathered_udp_bytes_lemma. apply run_sum.
    intros ca a Ha. rewrite Hn in Ha. destruct Ha.
  Qed.
End UdpMetrics.
