(* TcpConnProofs.v — probe resistance and the shape of the metric reports (C06, C15). *)
From OSS Require Import theories.Base theories.IPClass theories.Socks theories.SocksProofs theories.Crypto theories.CipherList.
From OSS Require Import theories.Replay theories.TcpAuth theories.TcpAuthProofs theories.SsStream theories.TcpConn.
Open Scope N_scope.

(* PROBE SILENCE: whenever authentication fails — any bytes, any length, any key list, any
   replay-history setting, client IP — nothing is written, no target is contacted, every byte
   the client sent is read and reported, and the connection is closed only when the client
   closes or at the handshake deadline; which of the two depends on nothing but whether the
   client closed *)
Lemma probe_silent_lemma e st ci st' s id :
  authenticate e st (ci_ip ci) (ci_bytes ci) = (st', Ok (AuthErr s id)) ->
  exists evs, handle e st ci = (st', Ok evs) /\
    count is_write_or_dial evs = 0%nat /\
    evs = [EProbe (status_code s) (if ci_fin ci then DrainEof else DrainTimeout) (zlen (ci_bytes ci));
           EClosed (status_code s) (zlen (ci_bytes ci)) 0 0;
           EClose (if ci_fin ci then AtClientFin else AtDeadline)].
Proof.
  intros A. unfold handle. rewrite A. eexists. split; [reflexivity|]. split; reflexivity.
Qed.

(* the close time of a refused connection does not depend on the content or length of what was
   sent, nor on why it was refused (bad cipher, client replay, server replay) *)
Lemma probe_deadline_uniform_lemma e1 st1 ci1 st1' s1 id1 e2 st2 ci2 st2' s2 id2 evs1 evs2 :
  authenticate e1 st1 (ci_ip ci1) (ci_bytes ci1) = (st1', Ok (AuthErr s1 id1)) ->
  authenticate e2 st2 (ci_ip ci2) (ci_bytes ci2) = (st2', Ok (AuthErr s2 id2)) ->
  ci_fin ci1 = ci_fin ci2 ->
  snd (handle e1 st1 ci1) = Ok evs1 -> snd (handle e2 st2 ci2) = Ok evs2 ->
  last evs1 (EClose AtOnce) = last evs2 (EClose AtOnce).
Proof.
  intros A1 A2 F H1 H2. unfold handle in H1, H2. rewrite A1 in H1. rewrite A2 in H2. cbn in H1, H2.
  inversion H1; inversion H2; subst. cbn. rewrite F. reflexivity.
Qed.

(* a dial error is one of: address invalid, address private, connect failed *)
Lemma dial_ips_codes ci ips fe st :
  (match fe with Some e => e = st_address_invalid \/ e = st_address_private \/ e = st_connect | None => True end) ->
  dial_ips ci ips fe = inr st -> st = st_address_invalid \/ st = st_address_private \/ st = st_connect.
Proof.
  revert fe. induction ips as [|i r IH]; intros fe Hfe; cbn [dial_ips].
  - intros H. inversion H. destruct fe; [exact Hfe | tauto].
  - destruct (attempt ci i) as [e|] eqn:A; [|discriminate]. apply IH. destruct fe; [exact Hfe|].
    unfold attempt in A. destruct (ci_validate ci); [destruct (require_public i)|]; destruct (ci_connect_ok ci); inversion A; tauto.
Qed.
Lemma dial_status_codes ci a st : st = st_read_address \/ st = st_relay_client -> dial ci a = inr st -> False.
Proof.
  intros Hst D. unfold dial in D.
  assert (st = st_address_invalid \/ st = st_address_private \/ st = st_connect).
  { destruct (host_ip (sa_host a)); eapply dial_ips_codes; try exact D; exact I. }
  destruct Hst as [->| ->]; destruct H as [H|[H|H]]; discriminate.
Qed.

(* after authentication, an unparsable address header or a chunk that fails authentication is
   drained: the server closes only after the client has closed *)
Lemma post_auth_invalid_drains_lemma e ci k evs code c w :
  after_auth e ci k = (evs, code, c, w) -> ci_client_reset ci = false ->
  code = st_read_address \/ code = st_relay_client -> w = AtClientFin.
Proof.
  unfold after_auth. destruct (decode_stream e k (ci_bytes ci)) as [pt fin].
  destruct (read_addr pt) as [ab payload| |]; try (intros H _; inversion H; reflexivity).
  destruct (decode_addr ab) as [a|]; try (intros H _; inversion H; reflexivity).
  destruct (dial ci a) as [i|stc] eqn:D.
  - intros H R; rewrite R in H. destruct fin, (ci_target_reset ci); revert H; intros H [Hc|Hc]; inversion H; subst; try reflexivity; discriminate.
  - intros H _ [Hc|Hc]; inversion H; subst; exfalso; revert D; apply dial_status_codes; [left|right]; reflexivity.
Qed.

Lemma count_app p l1 l2 : count p (l1 ++ l2) = (count p l1 + count p l2)%nat.
Proof. unfold count. rewrite filter_app, app_length. reflexivity. Qed.
Lemma count_cons p x l : count p (x :: l) = ((if p x then 1 else 0) + count p l)%nat.
Proof. unfold count. cbn. destruct (p x); reflexivity. Qed.

(* REPORT SHAPE: every handled connection yields exactly one Closed report, at most one
   Authenticated report which precedes it, a Probe report exactly when authentication failed
   (carrying the bytes received), and the Closed report is the last metric event *)
Lemma tcp_report_shape_lemma e st ci st' evs :
  handle e st ci = (st', Ok evs) ->
  count is_closed evs = 1%nat /\
  (count is_auth evs <= 1)%nat /\
  (count is_auth evs = 1%nat -> exists id r, evs = EAuth id :: r /\ count is_probe evs = 0%nat) /\
  (count is_auth evs = 0%nat -> exists s d, evs = [EProbe s d (zlen (ci_bytes ci)); EClosed s (zlen (ci_bytes ci)) 0 0;
                                               EClose (if ci_fin ci then AtClientFin else AtDeadline)]) /\
  exists pre s cp pt tp w, evs = pre ++ [EClosed s cp pt tp; EClose w] /\ cp = zlen (ci_bytes ci) /\ count is_closed pre = 0%nat.
Proof.
  unfold handle. destruct (authenticate e st (ci_ip ci) (ci_bytes ci)) as [st1 res]. destruct res as [[id el salt|s id]|].
  - destruct (after_auth e ci (e_key (snd el))) as [[[evs0 code] [pt tp]] w] eqn:AA. intros H. inversion H; subst; clear H.
    assert (Hmid : count is_closed evs0 = 0%nat /\ count is_auth evs0 = 0%nat /\ count is_probe evs0 = 0%nat).
    { unfold after_auth in AA. destruct (decode_stream e (e_key (snd el)) (ci_bytes ci)) as [p f].
      destruct (read_addr p) as [ab payload| |]; try (inversion AA; subst; repeat split; reflexivity).
      destruct (decode_addr ab) as [a|]; try (inversion AA; subst; repeat split; reflexivity).
      destruct (dial ci a); try (inversion AA; subst; repeat split; reflexivity).
      destruct f; inversion AA; subst; repeat split; reflexivity. }
    destruct Hmid as (M1 & M2 & M3).
    rewrite !count_cons, !count_app, M1, M2, M3. cbn.
    split; [reflexivity|]. split; [lia|]. split; [intros _; exists id; eexists; split; reflexivity|].
    split; [discriminate|].
    exists (EAuth id :: evs0), code, (zlen (ci_bytes ci)), pt, tp, w. split; [reflexivity|]. split; [reflexivity|].
    rewrite count_cons, M1. reflexivity.
  - intros H. inversion H; subst; clear H. cbn. split; [reflexivity|]. split; [lia|]. split; [discriminate|].
    split; [intros _; eexists; eexists; reflexivity|].
    exists [EProbe (status_code s) (if ci_fin ci then DrainEof else DrainTimeout) (zlen (ci_bytes ci))], (status_code s), (zlen (ci_bytes ci)), 0%Z, 0%Z, (if ci_fin ci then AtClientFin else AtDeadline). repeat split; reflexivity.
  - intros H. inversion H.
Qed.

(* no target is contacted and nothing is written unless the connection authenticated *)
Lemma writes_only_if_authenticated_lemma e st ci st' evs :
  handle e st ci = (st', Ok evs) -> (count is_write_or_dial evs > 0)%nat -> count is_auth evs = 1%nat.
Proof.
  unfold handle. destruct (authenticate e st (ci_ip ci) (ci_bytes ci)) as [st1 res]. destruct res as [[id el salt|s id]|].
  - destruct (after_auth e ci (e_key (snd el))) as [[[evs0 code] [pt tp]] w] eqn:AA. intros H _. inversion H; subst; clear H.
    assert (M2 : count is_auth evs0 = 0%nat).
    { unfold after_auth in AA. destruct (decode_stream e (e_key (snd el)) (ci_bytes ci)) as [p f].
      destruct (read_addr p) as [ab payload| |]; try (inversion AA; subst; reflexivity).
      destruct (decode_addr ab) as [a|]; try (inversion AA; subst; reflexivity).
      destruct (dial ci a); try (inversion AA; subst; reflexivity).
      destruct f; inversion AA; subst; reflexivity. }
    rewrite count_cons, count_app, M2. reflexivity.
  - intros H Hc. inversion H; subst. cbn in Hc. lia.
  - intros H. inversion H.
Qed.

(* handling a connection never panics, whatever the client sends *)
Lemma handle_no_panic_lemma e st ci : snd (handle e st ci) <> Panic.
Proof.
  unfold handle. pose proof (authenticate_no_panic e st (ci_ip ci) (ci_bytes ci)) as NP.
  destruct (authenticate e st (ci_ip ci) (ci_bytes ci)) as [st1 res]. cbn in NP.
  destruct res as [[id el salt|s id]|]; [|cbn; discriminate|congruence].
  destruct (after_auth e ci (e_key (snd el))) as [[[evs0 code] [pt tp]] w]. cbn. discriminate.
Qed.

(* only public destinations are connected to under the default policy — whatever the resolver
   answers (single, multiple, mixed families): every attempt is validated on its own address *)
Lemma dial_ips_public ci ips fe i : ci_validate ci = true -> dial_ips ci ips fe = inl i -> require_public i = Allowed.
Proof.
  intros V. revert fe. induction ips as [|j r IH]; intros fe; cbn [dial_ips]; [discriminate|].
  destruct (attempt ci j) as [e|] eqn:A; [apply IH|].
  intros H. inversion H; subst. unfold attempt in A. rewrite V in A. destruct (require_public i); [reflexivity|discriminate|discriminate].
Qed.
Lemma dial_only_public_lemma e ci k evs code c w a i :
  after_auth e ci k = (evs, code, c, w) -> ci_validate ci = true -> In (EDial a i) evs -> require_public i = Allowed.
Proof.
  unfold after_auth. destruct (decode_stream e k (ci_bytes ci)) as [pt fin].
  destruct (read_addr pt) as [ab payload| |].
  2,3: intros H; inversion H; subst; intros _ [].
  destruct (decode_addr ab) as [a0|]; [|intros H; inversion H; subst; intros _ []].
  destruct (dial ci a0) as [i0|stc] eqn:D; [|intros H; inversion H; subst; intros _ []].
  intros H V Hin.
  assert (i = i0).
  { destruct fin; inversion H; subst; cbn in Hin; destruct Hin as [E|[E|[E|[E|[]]]]]; inversion E; reflexivity. }
  subst i0. unfold dial in D. destruct (host_ip (sa_host a0)); eapply dial_ips_public; eassumption.
Qed.

(* fewer than 50 bytes never authenticate: the header read fails (EOF if the client closed,
   timeout otherwise) and the connection is treated as a probe *)
Lemma short_probe_lemma e st ip input :
  (length input < bytes_for_key_finding)%nat -> authenticate e st ip input = (st, Ok (AuthErr ErrCipher [])).
Proof. intros H. unfold authenticate. apply Nat.ltb_lt in H. rewrite H. reflexivity. Qed.

(* END TO END (C02/C15): an authenticated connection whose stream decodes cleanly to an address
   followed by a payload, with a successful dial, produces exactly: Authenticated, the dial to that
   address, the payload (everything after the address header, including data coalesced into the
   first chunk) at the target, then the target's half-close, the target's bytes to the client,
   and one Closed report with the byte counts of the wire and status OK — or ERR_RELAY_TARGET when
   the target ended with a reset *)
Lemma handle_honest_relay_lemma e st ci st' id el salt a payload i :
  authenticate e st (ci_ip ci) (ci_bytes ci) = (st', Ok (AuthOk id el salt)) ->
  decode_stream e (e_key (snd el)) (ci_bytes ci) = (encode_addr a ++ payload, DEof) ->
  (match sa_host a with HostDomain d => (length d < 256)%nat | _ => True end) ->
  decode_addr (encode_addr a) = Some a ->
  dial ci a = inl i ->
  handle e st ci = (st', Ok [EAuth id; EDial a i; EToTarget payload; ETargetFin; EToClient (ci_target_out ci);
                            EClosed (if ci_client_reset ci then st_relay_client else if ci_target_reset ci then st_relay_target else st_ok)
                                    (zlen (ci_bytes ci)) (zlen payload) (zlen (ci_target_out ci)); EClose AfterRelay]).
Proof.
  intros A D Hd Da Dial. unfold handle. rewrite A. unfold after_auth. rewrite D.
  destruct atyp_distinct_lemma as (N1 & N2 & N3).
  destruct (split_encode_lemma a payload Hd N1 N2 N3) as [_ R]. rewrite R, Da, Dial. reflexivity.
Qed.

(* --- C15: the status names the real outcome; the counters never exceed the wire -------------- *)
(* the outcome of a connection, stated independently of the event list *)
Inductive outcome_class :=
| OAuthFailed (s : N)          (* authentication refused with this status *)
| OBadAddress                  (* authenticated; the address header is missing, truncated or of an unknown type *)
| ODialFailed (s : N)          (* authenticated, address read; the policy or the connect failed with this status *)
| ORelayBroken                 (* relaying started; a later chunk from the client failed authentication, or the client ended with a reset *)
| OTargetBroke                 (* relayed; the upload ended cleanly, the target ended with a reset *)
| OCompleted.                  (* relayed to the end of both streams *)
Definition classify (e : env) (st : astate) (ci : conn_in) : option outcome_class :=
  match snd (authenticate e st (ci_ip ci) (ci_bytes ci)) with
  | Panic => None
  | Ok (AuthErr s _) => Some (OAuthFailed (status_code s))
  | Ok (AuthOk _ el _) =>
      let '(pt, fin) := decode_stream e (e_key (snd el)) (ci_bytes ci) in
      match read_addr pt with
      | RBadType | RNeedMore => Some OBadAddress
      | RAddr ab _ =>
          match decode_addr ab with
          | None => Some OBadAddress
          | Some a => match dial ci a with
                      | inr s => Some (ODialFailed s)
                      | inl _ => match fin with
                                 | DAuthFail => Some ORelayBroken
                                 | _ => Some (if ci_client_reset ci then ORelayBroken
                                              else if ci_target_reset ci then OTargetBroke else OCompleted)
                                 end
                      end
          end
      end
  end.
Definition status_of_class (c : outcome_class) : N :=
  match c with
  | OAuthFailed s => s | OBadAddress => st_read_address | ODialFailed s => s
  | ORelayBroken => st_relay_client | OTargetBroke => st_relay_target | OCompleted => st_ok
  end.

Ltac closed_shape :=
  match goal with
  | |- exists pre cp pt tp w, ?L = _ => exists (removelast (removelast L)); do 4 eexists; reflexivity
  end.

Lemma status_names_outcome_lemma e st ci st' evs :
  handle e st ci = (st', Ok evs) ->
  exists c, classify e st ci = Some c /\
    exists pre cp pt tp w, evs = pre ++ [EClosed (status_of_class c) cp pt tp; EClose w].
Proof.
  unfold handle, classify. destruct (authenticate e st (ci_ip ci) (ci_bytes ci)) as [st1 res]. cbn [snd].
  destruct res as [[id el salt|s id]|]; [| |intros H; inversion H].
  - unfold after_auth. destruct (decode_stream e (e_key (snd el)) (ci_bytes ci)) as [p f].
    destruct (read_addr p) as [ab payload| |].
    + destruct (decode_addr ab) as [a|].
      * destruct (dial ci a) as [i|s].
        -- destruct f, (ci_client_reset ci), (ci_target_reset ci); intros H; injection H as <- <-;
             (eexists; split; [reflexivity|]; cbn [status_of_class]; closed_shape).
        -- intros H; injection H as <- <-. eexists; split; [reflexivity|]. cbn [status_of_class]. closed_shape.
      * intros H; injection H as <- <-. eexists; split; [reflexivity|]. cbn [status_of_class]. closed_shape.
    + intros H; injection H as <- <-. eexists; split; [reflexivity|]. cbn [status_of_class]. closed_shape.
    + intros H; injection H as <- <-. eexists; split; [reflexivity|]. cbn [status_of_class]. closed_shape.
  - intros H; inversion H; subst; clear H. eexists; split; [reflexivity|]. cbn [status_of_class].
    eexists [_]. do 4 eexists. reflexivity.
Qed.

(* whatever happens, the Closed report never claims more than the wire carried: all the client's
   bytes; to the target at most the payload that followed the address; from the target at most
   what the target sent *)
Lemma counters_le_wire_lemma e st ci st' evs s cp pt tp :
  handle e st ci = (st', Ok evs) -> In (EClosed s cp pt tp) evs ->
  cp = zlen (ci_bytes ci) /\ (0 <= pt)%Z /\ (0 <= tp <= zlen (ci_target_out ci))%Z /\
  (forall id el salt, snd (authenticate e st (ci_ip ci) (ci_bytes ci)) = Ok (AuthOk id el salt) ->
     (pt <= zlen (fst (decode_stream e (e_key (snd el)) (ci_bytes ci))))%Z) /\
  (forall sa id, snd (authenticate e st (ci_ip ci) (ci_bytes ci)) = Ok (AuthErr sa id) -> pt = 0%Z /\ tp = 0%Z).
Proof.
  unfold handle. destruct (authenticate e st (ci_ip ci) (ci_bytes ci)) as [st1 res]. cbn [snd].
  destruct res as [[id el salt|sa id]|]; [| |intros H; inversion H].
  - unfold after_auth. destruct (decode_stream e (e_key (snd el)) (ci_bytes ci)) as [p f] eqn:DS.
    assert (Z0 : forall {A} (l : list A), (0 <= zlen l)%Z) by (intros; unfold zlen; lia).
    assert (Hp : forall ab payload, read_addr p = RAddr ab payload -> (zlen payload <= zlen p)%Z).
    { intros ab payload R. unfold read_addr in R. destruct p as [|t r]; [discriminate|].
      destruct ((t =? atyp_dom) || (t =? atyp_v4) || (t =? atyp_v6))%N; [|discriminate].
      destruct (addr_len (t :: r)) as [n|]; [|discriminate].
      destruct (length (t :: r) <? n)%nat; [discriminate|]. inversion R; subst.
      unfold zlen. rewrite skipn_length. lia. }
    destruct (read_addr p) as [ab payload| |] eqn:RA.
    + specialize (Hp ab payload eq_refl).
      destruct (decode_addr ab) as [a|].
      * destruct (dial ci a) as [i|s0].
        -- destruct f; intros H Hin; inversion H; subst; clear H; cbn in Hin;
             repeat (destruct Hin as [Hin|Hin]; [try discriminate; inversion Hin; subst|]); try contradiction;
             (split; [reflexivity|]; split; [apply Z0|]; split; [split; [apply Z0|lia]|]; split;
              [intros ? ? ? E; inversion E; subst; rewrite DS; cbn [fst]; exact Hp | intros ? ? E; discriminate]).
        -- intros H Hin; inversion H; subst; clear H; cbn in Hin.
           repeat (destruct Hin as [Hin|Hin]; [try discriminate; inversion Hin; subst|]); try contradiction.
           split; [reflexivity|]. split; [lia|]. split; [split; [lia|apply Z0]|]. split; [intros ? ? ? E; inversion E; subst; rewrite DS; cbn [fst]; apply Z0 | intros ? ? E; discriminate].
      * intros H Hin; inversion H; subst; clear H; cbn in Hin.
        repeat (destruct Hin as [Hin|Hin]; [try discriminate; inversion Hin; subst|]); try contradiction.
        split; [reflexivity|]. split; [lia|]. split; [split; [lia|apply Z0]|]. split; [intros ? ? ? E; inversion E; subst; rewrite DS; cbn [fst]; apply Z0 | intros ? ? E; discriminate].
    + intros H Hin; inversion H; subst; clear H; cbn in Hin.
      repeat (destruct Hin as [Hin|Hin]; [try discriminate; inversion Hin; subst|]); try contradiction.
      split; [reflexivity|]. split; [lia|]. split; [split; [lia|apply Z0]|]. split; [intros ? ? ? E; inversion E; subst; rewrite DS; cbn [fst]; apply Z0 | intros ? ? E; discriminate].
    + intros H Hin; inversion H; subst; clear H; cbn in Hin.
      repeat (destruct Hin as [Hin|Hin]; [try discriminate; inversion Hin; subst|]); try contradiction.
      split; [reflexivity|]. split; [lia|]. split; [split; [lia|apply Z0]|]. split; [intros ? ? ? E; inversion E; subst; rewrite DS; cbn [fst]; apply Z0 | intros ? ? E; discriminate].
  - intros H Hin; inversion H; subst; clear H; cbn in Hin.
    assert (Z0 : forall {A} (l : list A), (0 <= zlen l)%Z) by (intros; unfold zlen; lia).
    repeat (destruct Hin as [Hin|Hin]; [try discriminate; inversion Hin; subst|]); try contradiction.
    split; [reflexivity|]. split; [lia|]. split; [split; [lia|apply Z0]|]. split; [intros ? ? ? E; discriminate | intros ? ? E; split; reflexivity].
Qed.
