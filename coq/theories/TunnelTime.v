(* TunnelTime.v — model of prometheus/metrics.go tunnelTimeMetrics
   (activeClients map, startConnection / stopConnection / Collect / reportTunnelTime)
   and of the callers tcpConnMetrics / udpConnMetrics (C17). Time is integer ns. *)
From OSS Require Import theories.Base theories.AList.
Open Scope Z_scope.

Definition ipkey := (N * N)%type.          (* (client IP id, access-key id) *)
Definition ipkey_eqb (a b : ipkey) : bool := N.eqb (fst a) (fst b) && N.eqb (snd a) (snd b).

Record client := { cnt : Z; start : Z }.
(* [log] is the list of increments added to the Prometheus counters; the counter
   for a label is the sum of the matching increments. *)
Record tt := { act : list (ipkey * client); log : list (ipkey * Z) }.
Definition tt_init : tt := {| act := []; log := [] |}.

Definition tt_start (s : tt) (k : ipkey) (now : Z) : tt :=
  match alookup ipkey_eqb k (act s) with
  | None => {| act := act s ++ [(k, {| cnt := 1; start := now |})]; log := log s |}
  | Some c => {| act := aupdate ipkey_eqb k {| cnt := cnt c + 1; start := start c |} (act s); log := log s |}
  end.
Definition tt_stop (s : tt) (k : ipkey) (now : Z) : tt :=
  match alookup ipkey_eqb k (act s) with
  | None => s                                             (* "Failed to find active client." *)
  | Some c =>
      if cnt c - 1 <=? 0
      then {| act := aremove ipkey_eqb k (act s); log := log s ++ [(k, now - start c)] |}
      else {| act := aupdate ipkey_eqb k {| cnt := cnt c - 1; start := start c |} (act s); log := log s |}
  end.
Definition tt_collect (s : tt) (now : Z) : tt :=
  {| act := map (fun kc => (fst kc, {| cnt := cnt (snd kc); start := now |})) (act s);
     log := log s ++ map (fun kc => (fst kc, now - start (snd kc))) (act s) |}.

Fixpoint sum_where (p : ipkey -> bool) (l : list (ipkey * Z)) : Z :=
  match l with
  | [] => 0
  | (k, z) :: r => (if p k then z else 0) + sum_where p r
  end.
Definition reported_pair (s : tt) (p : ipkey) : Z := sum_where (ipkey_eqb p) (log s).
Definition reported_key (s : tt) (key : N) : Z := sum_where (fun k => N.eqb (snd k) key) (log s).
(* location label of a client is a function of its IP (GetIPInfoFromIP at first start) *)
Definition reported_loc (locf : N -> N) (s : tt) (loc : N) : Z :=
  sum_where (fun k => N.eqb (locf (fst k)) loc) (log s).

(* --- histories ---------------------------------------------------------------- *)
Inductive ev := Start (k : ipkey) | Stop (k : ipkey) | Tick (dt : Z) | Collect.
Definition step (st : tt * Z) (e : ev) : tt * Z :=
  let '(s, now) := st in
  match e with
  | Start k => (tt_start s k now, now)
  | Stop k => (tt_stop s k now, now)
  | Tick dt => (s, now + dt)
  | Collect => (tt_collect s now, now)
  end.
Definition run (h : list ev) : tt * Z := fold_left step h (tt_init, 0).

(* --- specification: for one (ip,key) pair, the time with at least one tunnel open *)
Definition spec_step (p : ipkey) (st : Z * Z) (e : ev) : Z * Z :=
  let '(o, t) := st in
  match e with
  | Start k => if ipkey_eqb k p then (o + 1, t) else st
  | Stop k => if ipkey_eqb k p then (o - 1, t) else st
  | Tick dt => (o, if 0 <? o then t + dt else t)
  | Collect => st
  end.
Definition spec (p : ipkey) (h : list ev) : Z * Z := fold_left (spec_step p) h (0, 0).
Definition open_count p h := fst (spec p h).
Definition truth p h := snd (spec p h).

(* a history is well-formed when time does not run backwards and every close of a
   tunnel of [p] follows its open *)
Fixpoint wf_from (p : ipkey) (o : Z) (h : list ev) : Prop :=
  match h with
  | [] => True
  | Start k :: r => wf_from p (if ipkey_eqb k p then o + 1 else o) r
  | Stop k :: r => (if ipkey_eqb k p then 0 < o else True) /\ wf_from p (if ipkey_eqb k p then o - 1 else o) r
  | Tick dt :: r => 0 <= dt /\ wf_from p o r
  | Collect :: r => wf_from p o r
  end.
Definition wf (p : ipkey) (h : list ev) : Prop := wf_from p 0 h.

(* --- the callers: connection-level events (tcpConnMetrics / udpConnMetrics) -------- *)
(* ids of connections / associations are harness-level; the collector sees only
   (client ip, key).  [authenticated] is the flag added by the fix of the empty-ID defect. *)
Inductive cev :=
| TcpOpen (c : N) (ip : N)            (* AddOpenTCPConnection: no tunnel-time effect *)
| TcpAuth (c : N) (key : N)           (* AddAuthenticated *)
| TcpClose (c : N)                    (* AddClosed *)
| UdpAdd (a : N) (ip : N) (key : N)   (* AddUDPNatEntry *)
| UdpRemove (a : N)                   (* RemoveNatEntry *)
| CTick (dt : Z)
| Scrape.
Record conn := { c_ip : N; c_key : option N }.
Record cstate := { tcp : list (N * conn); udp : list (N * ipkey) }.
Definition cinit : cstate := {| tcp := []; udp := [] |}.
(* translation of one connection-level event into collector events *)
Definition lower (s : cstate) (e : cev) : cstate * list ev :=
  match e with
  | TcpOpen c ip => ({| tcp := aset N.eqb c {| c_ip := ip; c_key := None |} (tcp s); udp := udp s |}, [])
  | TcpAuth c key =>
      match alookup N.eqb c (tcp s) with
      | Some cn => ({| tcp := aset N.eqb c {| c_ip := c_ip cn; c_key := Some key |} (tcp s); udp := udp s |},
                    [Start (c_ip cn, key)])
      | None => (s, [])
      end
  | TcpClose c =>
      match alookup N.eqb c (tcp s) with
      | Some cn => ({| tcp := aremove N.eqb c (tcp s); udp := udp s |},
                    match c_key cn with Some key => [Stop (c_ip cn, key)] | None => [] end)
      | None => (s, [])
      end
  | UdpAdd a ip key => ({| tcp := tcp s; udp := aset N.eqb a (ip, key) (udp s) |}, [Start (ip, key)])
  | UdpRemove a =>
      match alookup N.eqb a (udp s) with
      | Some k => ({| tcp := tcp s; udp := aremove N.eqb a (udp s) |}, [Stop k])
      | None => (s, [])
      end
  | CTick dt => (s, [Tick dt])
  | Scrape => (s, [Collect])
  end.
Fixpoint lower_all (s : cstate) (h : list cev) : list ev :=
  match h with
  | [] => []
  | e :: r => let '(s', es) := lower s e in es ++ lower_all s' r
  end.

(* non-vacuity / sanity examples *)
Example overlap_not_double_counted :
  let h := [Start (1,7)%N; Tick 3; Start (1,7)%N; Tick 5; Stop (1,7)%N; Tick 2; Stop (1,7)%N; Tick 100; Collect] in
  reported_pair (fst (run h)) (1,7)%N = 10 /\ truth (1,7)%N h = 10 /\ wf (1,7)%N h.
Proof. cbn. repeat split; lia. Qed.
Example scrape_midway :
  let h := [Start (1,7)%N; Tick 3; Collect; Tick 5; Collect; Stop (1,7)%N; Tick 9; Collect] in
  reported_pair (fst (run h)) (1,7)%N = 8 /\ truth (1,7)%N h = 8.
Proof. cbn. split; reflexivity. Qed.
