(* IpInfo.v — model of ipinfo/ipinfo.go GetIPInfoFromAddr / GetIPInfoFromIP (C20).
   The database is an oracle; the model returns the label and whether the oracle
   was consulted. Country codes come from Gen.Consts. *)
From OSS Require Import theories.Base theories.IPClass.
From OSS Require Gen.Consts.

(* what net.SplitHostPort + net.ParseIP make of addr.String() *)
Inductive addr :=
| ANil                 (* nil net.Addr *)
| AUnsplittable        (* SplitHostPort fails *)
| AHostNotIP           (* host is not an IP literal (hostname, zoned literal, empty) *)
| AIP (i : ip).        (* parsed IP; ParseIP yields 16-byte values *)

(* an error may come with a partially filled answer (the MMDB map queries the country and ASN
   databases independently and joins their errors); the partial country is never a label *)
Inductive db_answer := DbErr (partial : bytes) | DbOk (country : bytes).

Definition cc_XA := Gen.Consts.cc_err_parse_addr.
Definition cc_XL := Gen.Consts.cc_local.
Definition cc_XD := Gen.Consts.cc_db_error.
Definition cc_ZZ := Gen.Consts.cc_unknown.

(* GetIPInfoFromIP; [enabled = false] is ip2info == nil *)
Definition info_from_ip (enabled : bool) (db : ip -> db_answer) (i : ip) : bytes * bool :=
  if negb enabled then ([], false)
  else match i with
       | BadIP => (cc_XA, false)                         (* ip == nil *)
       | _ =>
         if negb (is_global_unicast i) then (cc_XL, false)
         else match db i with
              | DbErr _ => (cc_XD, true)
              | DbOk c => (match c with [] => cc_ZZ | _ => c end, true)
              end
       end.

Definition info_from_addr (enabled : bool) (db : ip -> db_answer) (a : addr) : bytes * bool :=
  match a with
  | ANil | AUnsplittable | AHostNotIP => (cc_XA, false)
  | AIP i => info_from_ip enabled db i
  end.

Definition parsable (a : addr) : bool :=
  match a with AIP BadIP => false | AIP _ => true | _ => false end.
Definition addr_ip (a : addr) : ip := match a with AIP i => i | _ => BadIP end.

Example xl_example : info_from_addr true (fun _ => DbOk [85;83]%N) (AIP (V16 (65535 * 2^32 + 127 * 2^24 + 1)%N)) = (cc_XL, false).
Proof. reflexivity. Qed.
Example db_example : info_from_addr true (fun _ => DbOk [85;83]%N) (AIP (V4 (8 * 2^24 + 8)%N)) = ([85;83]%N, true).
Proof. reflexivity. Qed.
