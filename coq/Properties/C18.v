(* C18 — no network input can crash the server or leak its resources. *)
From OSS Require Import theories.Base theories.AList theories.IPClass theories.Socks theories.SocksProofs theories.Crypto.
From OSS Require Import theories.CipherList theories.Replay theories.TcpAuth theories.TcpAuthProofs theories.SsStream.
From OSS Require Import theories.TcpConn theories.TcpConnProofs theories.Udp theories.UdpProofs theories.NatTimer theories.NatTimerProofs.

(* TCP: whatever a client sends — raw bytes or, after authentication, any plaintext (bad address
   types, zero-length and 255-byte domains, truncated headers, size fields with high bits) —
   authentication and connection handling never panic *)
Theorem no_panic_tcp_auth e st ip input : snd (authenticate e st ip input) <> Panic.
Proof. exact (authenticate_no_panic e st ip input). Qed.
Print Assumptions no_panic_tcp_auth.
Theorem no_panic_tcp e st ci : snd (handle e st ci) <> Panic.
Proof. exact (handle_no_panic_lemma e st ci). Qed.
Print Assumptions no_panic_tcp.

(* UDP upstream: the address header split never exceeds the datagram *)
Theorem no_panic_udp_upstream b a rest : split_addr b = Some (a, rest) -> (length a <= length b)%nat.
Proof. exact (split_addr_in_bounds b a rest). Qed.
Print Assumptions no_panic_udp_upstream.

(* UDP downstream: for EVERY sender address (IPv4, IPv6, mapped; zones dropped; anything else is
   refused) and every body that fits the read buffer, the in-place layout stays in bounds *)
Theorem no_panic_udp_downstream e st sock src port body salt sid :
  (Udp.zlen body <= buf_size - 51)%Z -> snd (udp_reply e st sock src port body salt sid) <> Panic.
Proof. exact (udp_reply_no_panic_lemma e st sock src port body salt sid). Qed.
Print Assumptions no_panic_udp_downstream.

(* resources: after the packet listener is shut down no association is left and every socket
   created for one has been closed *)
Theorem quiescent_clean_udp ops :
  fst (lrun (ops ++ [LShutdown])) = [] /\
  forall s, lcount (is_add s) (snd (lrun (ops ++ [LShutdown]))) = lcount (is_close s) (snd (lrun (ops ++ [LShutdown]))).
Proof. exact (shutdown_expires_all_lemma ops). Qed.
Print Assumptions quiescent_clean_udp.

(* serving stops only after all running handlers have returned: for EVERY interleaving of
   accepts, handler returns, handler panics and the closing of the listener (model of
   StreamServe: theories/Serve.v) *)
From OSS Require Import theories.Serve theories.ServeProofs.
Theorem serve_returns_after_handlers tr s :
  srun serve0 tr = Some s -> ph s = Returned ->
  running s = 0%nat /\ finished s = accepted s /\ lopen s = false /\ cancelled s = true.
Proof. exact (serve_returns_after_handlers_lemma tr s). Qed.
Print Assumptions serve_returns_after_handlers.

(* a panic in one handler is, for everybody else, an ordinary return of that handler *)
Theorem handler_panic_isolated s s1 s2 :
  sstep s SHandlerPanic = Some s1 -> sstep s SHandlerDone = Some s2 ->
  ph s1 = ph s2 /\ lopen s1 = lopen s2 /\ running s1 = running s2 /\ accepted s1 = accepted s2 /\
  finished s1 = finished s2 /\ cancelled s1 = cancelled s2 /\ ph s1 = ph s.
Proof. exact (handler_panic_isolated_lemma s s1 s2). Qed.
Print Assumptions handler_panic_isolated.

(* every accepted connection is running or finished, at every point; once draining, the handlers'
   returns are all that StreamServe waits for *)
Theorem serve_accounting tr s :
  srun serve0 tr = Some s -> accepted s = (finished s + running s)%nat /\ (panicked s <= finished s)%nat.
Proof. exact (serve_accounting_lemma tr s). Qed.
Print Assumptions serve_accounting.
Theorem serve_drains s :
  ph s = Draining ->
  exists s', srun s (repeat SHandlerDone (running s) ++ [SReturn]) = Some s' /\ ph s' = Returned.
Proof. exact (serve_drains_lemma s). Qed.
Print Assumptions serve_drains.

(* the source has the shape the model assumes (regenerated from service/tcp.go on every run):
   running.Wait() is the FIRST deferred call (so it runs last, after the cancel); the loop is
   left only on ErrClosed; every handler goroutine is counted before it starts and its
   deferred calls un-count it, close the connection and recover a panic *)
From OSS Require Gen.Consts.
From Coq Require String.
Import String.StringSyntax.
Delimit Scope string_scope with string.
Theorem serve_source_shape :
  (* the goroutines behind the shared listeners give up only when the socket is closed or the last
     handle has gone: a transient accept / read error never stops them *)
  Gen.Consts.shared_listener_loop_exits =
    ["multiPacketListener: return if select <-m.doneCh"; "multiStreamListener: return if errors.Is(err, net.ErrClosed)";
     "multiStreamListener: return if select <-doneCh"]%string /\
  Gen.Consts.serve_defers = ["running.Wait()"; "contextCancel()"]%string /\
  Gen.Consts.serve_loop_exits = ["break if err != nil && errors.Is(err, net.ErrClosed)"]%string /\
  Gen.Consts.serve_handler_defers = ["running.Done()"; "clientConn.Close()"; "recover"]%string /\
  Gen.Consts.serve_add_before_go = true.
Proof. repeat split; reflexivity. Qed.
Print Assumptions serve_source_shape.
