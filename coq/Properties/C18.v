(* C18 — no network input can crash the server or leak its resources. *)
From OSS Require Import theories.Base theories.AList theories.IPClass theories.Socks theories.SocksProofs theories.Crypto.
From OSS Require Import theories.CipherList theories.Replay theories.TcpAuth theories.TcpAuthProofs theories.SsStream.
From OSS Require Import theories.TcpConn theories.TcpConnProofs theories.Udp theories.UdpProofs theories.NatTimer theories.NatTimerProofs.

(* TCP: whatever a client sends — raw bytes or, after authentication, any plaintext (bad address
   types, zero-length and 255-byte domains, truncated headers, size fields with high bits) —
   authentication and connection handling never panic *)
Theorem no_panic_tcp_auth e st ip input : snd (authenticate e st ip input) <> Panic.
Proof. exact (authenticate_no_panic e st ip input). Qed.
Print Assumptions no_panic_tcp_auth.
Theorem no_panic_tcp e st ci : snd (handle e st ci) <> Panic.
Proof. exact (handle_no_panic_lemma e st ci). Qed.
Print Assumptions no_panic_tcp.

(* UDP upstream: the address header split never exceeds the datagram *)
Theorem no_panic_udp_upstream b a rest : split_addr b = Some (a, rest) -> (length a <= length b)%nat.
Proof. exact (split_addr_in_bounds b a rest). Qed.
Print Assumptions no_panic_udp_upstream.

(* UDP downstream: for EVERY sender address (IPv4, IPv6, mapped; zones dropped; anything else is
   refused) and every body that fits the read buffer, the in-place layout stays in bounds *)
Theorem no_panic_udp_downstream e st sock src port body salt sid :
  (Udp.zlen body <= buf_size - 51)%Z -> snd (udp_reply e st sock src port body salt sid) <> Panic.
Proof. exact (udp_reply_no_panic_lemma e st sock src port body salt sid). Qed.
Print Assumptions no_panic_udp_downstream.

(* resources: after the packet listener is shut down no association is left and every socket
   created for one has been closed *)
Theorem quiescent_clean_udp ops :
  fst (lrun (ops ++ [LShutdown])) = [] /\
  forall s, lcount (is_add s) (snd (lrun (ops ++ [LShutdown]))) = lcount (is_close s) (snd (lrun (ops ++ [LShutdown]))).
Proof. exact (shutdown_expires_all_lemma ops). Qed.
Print Assumptions quiescent_clean_udp.
