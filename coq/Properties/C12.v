(* C12 — shared listeners deliver each connection exactly once (stream side; the packet side is
   checked by the harness monitors only). Model after the repairs eacc1d7 and f63a94d. *)
From OSS Require Import theories.Base theories.Listeners theories.ListenersProofs.
From Coq Require Import Permutation.

(* for EVERY interleaving of acquire / close / accept calls, arriving connections, the accept
   goroutine's steps and the rendezvous on the channel: every connection that reached the socket is
   in exactly one place (kernel queue, held by the accept goroutine, delivered, closed by the
   server), and none is delivered twice *)
Theorem deliver_exactly_once tr s :
  run sl0 tr = Some s ->
  Permutation (kq s ++ held s ++ map snd (delivered s) ++ srv_closed s) (arrived s) /\
  NoDup (kq s ++ held s ++ map snd (delivered s) ++ srv_closed s) /\
  NoDup (map snd (delivered s)).
Proof. exact (exactly_one_place_lemma tr s). Qed.
Print Assumptions deliver_exactly_once.

(* the socket is open exactly while some handle is open: nothing is refused or lost while a
   handle keeps accepting *)
Theorem no_loss_while_open tr s :
  run sl0 tr = Some s -> (0 < open_handles s <-> sock s = Open) /\ count s = open_handles s.
Proof. exact (open_while_handle_open_lemma tr s). Qed.
Print Assumptions no_loss_while_open.

(* never lost while some handle keeps accepting, as progress: whenever the socket is open and a
   handle h has an accept pending, a connection the accept goroutine holds is h's after one
   Deliver, and the head of the kernel queue is h's after GAccept and Deliver: no step of any
   other handle is needed, so closing or ignoring the other handles cannot strand it *)
Theorem no_loss_progress tr s h :
  run sl0 tr = Some s -> sock s = Open -> has_handle s h = true -> h_pending (hstate s h) = true ->
  (forall c, g s = GHolding c ->
     exists s', step s (Deliver h) = Some s' /\ In (h, c) (delivered s') /\ g s' = GAccepting) /\
  (forall c r, kq s = c :: r -> (forall c', g s <> GHolding c') ->
     exists s1 s2, step s GAccept = Some s1 /\ step s1 (Deliver h) = Some s2 /\ In (h, c) (delivered s2) /\ kq s2 = r).
Proof. exact (no_loss_progress_lemma tr s h). Qed.
Print Assumptions no_loss_progress.

(* a closed handle with no call in progress: along ANY continuation nothing is ever delivered to
   it and no accept on it blocks (it fails at once with the closed-network error) *)
Theorem closed_handle_fails tr s s' h :
  dead s h -> run s tr = Some s' -> dead s' h /\ ~ In (Deliver h) tr /\ ~ In (AcceptCall h) tr.
Proof. exact (closed_handle_fails_lemma tr s s' h). Qed.
Print Assumptions closed_handle_fails.

(* closing a handle does not disturb the others; closing the last one releases the socket *)
Theorem close_isolated s h s' :
  step s (CloseH h) = Some s' ->
  h_closed (hstate s' h) = true /\
  (forall x, x <> h -> hstate s' x = hstate s x) /\ delivered s' = delivered s /\ arrived s' = arrived s /\ handles s' = handles s /\
  (1 < count s -> sock s' = sock s /\ kq s' = kq s /\ g s' = g s /\ srv_closed s' = srv_closed s) /\
  (count s = 1 -> sock s' = Closed /\ done s' = true /\ kq s' = [] /\ srv_closed s' = srv_closed s ++ kq s).
Proof. exact (close_isolated_lemma s h s'). Qed.
Print Assumptions close_isolated.

(* after the last close, once the accept goroutine has nothing left to do: socket released,
   goroutine gone, every connection delivered or closed — none left hanging *)
Theorem last_close_releases tr s :
  run sl0 tr = Some s -> count s = 0 -> handles s <> [] -> g_enabled s = false ->
  sock s = Closed /\ g s = GExited /\ kq s = [] /\ held s = [] /\
  Permutation (map snd (delivered s) ++ srv_closed s) (arrived s).
Proof. exact (last_close_releases_lemma tr s). Qed.
Print Assumptions last_close_releases.

(* ... and the accept goroutine reaches that state by itself in at most one step *)
Theorem orphan_conn_closed tr s :
  run sl0 tr = Some s -> count s = 0 -> handles s <> [] ->
  exists gs s', run s gs = Some s' /\ length gs <= 1 /\ g s' = GExited /\
               Forall (fun l => l = GSeesClosed \/ l = GOrphan) gs.
Proof. exact (g_finishes_lemma tr s). Qed.
Print Assumptions orphan_conn_closed.
