(* C09 — a key works exactly on the listeners its configuration binds it to. Model of
   Config.Validate / runConfig / newCipherListFromConfig: theories/Config.v. *)
From OSS Require Import theories.Base theories.AList theories.Config theories.ConfigProofs.

(* for EVERY configuration that starts (any number of services, listeners of both types, keys with
   any cipher, duplicated keys, legacy per-port keys, both formats mixed) and EVERY (listener, key)
   pair: on a listener of service s a client authenticates iff its cipher and secret are among the
   keys of s, and it gets the FIRST configured ID with that cipher and secret; on the two
   listeners of a legacy port, the same with the keys of that port *)
Theorem config_auth_iff b c got t :
  start b c = (got, Some t, None) ->
  (forall s l, In s (services c) -> In l (s_listeners s) -> forall cipher secret,
     auth_on t (l_type l, l_addr l) cipher secret
     = option_map kc_id (find (fun k => N.eqb (kc_cipher k) cipher && N.eqb (kc_secret k) secret) (s_keys s))) /\
  (forall p, In p (ports_of (legacy c)) -> forall ty, ty = LTcp \/ ty = LUdp -> forall cipher secret,
     auth_on t (ty, legacy_addr p) cipher secret
     = option_map kc_id (find (fun k => N.eqb (kc_cipher k) cipher && N.eqb (kc_secret k) secret)
                              (map fst (filter (fun kp => N.eqb (snd kp) p) (legacy c))))).
Proof. exact (config_auth_iff_lemma b c got t). Qed.
Print Assumptions config_auth_iff.

(* keys of one service never authenticate on another service's listeners: whoever authenticates
   on a listener used a key of the key list attached to that listener ... *)
Theorem auth_in_owner (t : table) l cipher secret id :
  auth_on t l cipher secret = Some id ->
  exists ks k, alookup lkey_eqb l t = Some ks /\ In k ks /\ kc_cipher k = cipher /\ kc_secret k = secret /\ kc_id k = id.
Proof. exact (auth_in_owner_lemma t l cipher secret id). Qed.
Print Assumptions auth_in_owner.

(* ... and a (cipher, secret) that no key of the owner has is refused *)
Theorem no_cross_service (t : table) l ks cipher secret :
  alookup lkey_eqb l t = Some ks ->
  (forall k, In k ks -> N.eqb (kc_cipher k) cipher && N.eqb (kc_secret k) secret = false) ->
  auth_on t l cipher secret = None.
Proof. exact (no_cross_service_lemma t l ks cipher secret). Qed.
Print Assumptions no_cross_service.

(* each configured listener is held exactly once and owned by exactly one key list *)
Theorem start_listeners b c got t :
  start b c = (got, Some t, None) -> NoDup got /\ map fst t = got.
Proof. exact (start_listeners_lemma b c got t). Qed.
Print Assumptions start_listeners.

(* de-duplication keeps the first ID of every (cipher, secret) *)
Theorem dedupe_keeps_first s ks cipher secret :
  dedupe [] (s_keys s) = Some ks ->
  option_map kc_id (find (fun k => N.eqb (kc_cipher k) cipher && N.eqb (kc_secret k) secret) ks)
  = option_map kc_id (find (fun k => N.eqb (kc_cipher k) cipher && N.eqb (kc_secret k) secret) (s_keys s)).
Proof. exact (service_auth_iff s ks cipher secret). Qed.
Print Assumptions dedupe_keeps_first.

(* the source has the shape the model assumes (regenerated from /repo on every run): keys are
   de-duplicated on exactly (cipher, secret); every service gets the cipher list built for it;
   Validate and the listener set identify a listener by type + "/" + address string *)
From OSS Require Gen.Consts.
From Coq Require String.
Import String.StringSyntax.
Delimit Scope string_scope with string.
Theorem config_source_shape :
  Gen.Consts.dedupe_key_fields = ["keyConfig.Cipher"; "keyConfig.Secret"]%string /\
  Gen.Consts.with_ciphers_args = ["ciphers"; "ciphers"]%string /\
  Gen.Consts.new_service_calls = 2 /\
  Gen.Consts.validate_listener_key = "string(lnConfig.Type) + ""/"" + lnConfig.Address"%string /\
  Gen.Consts.listener_set_keys = ["""stream/"" + addr"; """packet/"" + addr"]%string /\
  List.length Gen.Consts.validate_errors = 4.
Proof. repeat split; reflexivity. Qed.
Print Assumptions config_source_shape.
