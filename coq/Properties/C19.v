(* C19 — shared server state is free of data races under concurrent use.
   Generic theorem (any number of threads, any schedule) + the instance obligation over the
   access-site table regenerated from the source with go/types on every run. *)
From OSS Require Import theories.Base theories.Lockset theories.LocksetProofs.
From OSS Require Gen.Sites.

(* From any disciplined initial state — every read of a location holds its guard, every write
   holds it exclusively — no reachable state has two threads poised at conflicting accesses. *)
Theorem lockset_discipline_drf guard st st' : inv guard st -> exec st st' -> ~ race st'.
Proof. exact (lockset_discipline_drf_lemma guard st st'). Qed.
Print Assumptions lockset_discipline_drf.

Theorem discipline_holds_initially guard (progs : nat -> list instr) :
  (forall i, ok guard [] (progs i)) -> inv guard (fun i => ([], progs i)).
Proof. exact (initial_inv guard progs). Qed.
Print Assumptions discipline_holds_initially.

(* critical sections under the exclusive lock are atomic w.r.t. every access to the data they
   guard: method bodies that run entirely inside one critical section take effect in some
   sequential order (the order of lock acquisition) *)
Theorem mutex_critical_sections_atomic guard st i j x w :
  inv guard st -> i <> j -> holds_w (st i) (guard x) -> next_access (st j) = Some (x, w) -> False.
Proof. exact (critical_section_exclusive guard st i j x w). Qed.
Print Assumptions mutex_critical_sections_atomic.

Theorem checker_sound guard h p : okb guard h p = true -> ok guard h p.
Proof. exact (okb_ok guard h p). Qed.
Print Assumptions checker_sound.

Theorem guarded_site_is_disciplined_access classes (s : site) l x :
  lookup_discipline (s_field s) discipline_table = Some (Guarded l) ->
  in_strs (s_func s) constructors = false ->     (* not an initialisation of a still-private object *)
  site_okb s = true ->
  okb (fun _ => lock_id l classes) (site_held classes s) [if s_write s then Write x else Read x] = true.
Proof. exact (guarded_site_is_ok classes s l x). Qed.
Print Assumptions guarded_site_is_disciplined_access.

(* Instance, recomputed against the current source: every access site of every watched shared
   field (key list, replay history, NAT table, shared listeners, tunnel-time collector, listener
   set) respects the field's discipline, and no watched field has disappeared. *)
Theorem sites_respect_discipline :
  forallb site_okb Gen.Sites.sites = true /\ fields_covered Gen.Sites.sites = true.
Proof. exact (conj eq_refl eq_refl). Qed.
Print Assumptions sites_respect_discipline.

(* results equal to some sequential order of the calls: the critical sections are atomic
   (mutex_critical_sections_atomic), and every function touches the fields guarded by a lock
   inside ONE Lock...Unlock section — no check-then-act split over two sections (recomputed
   against the current source) *)
Theorem critical_sections_whole : Gen.Sites.split_critical_sections = [].
Proof. reflexivity. Qed.
Print Assumptions critical_sections_whole.

(* no lock is ever copied: every value that contains a mutex is used through the one instance the
   discipline table speaks about (a by-value copy would carry a lock of its own, and accesses
   "guarded" by the copy would not exclude accesses guarded by the original). Regenerated on every
   run from `go vet -copylocks` over the non-test sources (G11). *)
Theorem no_lock_is_copied : Gen.Sites.copied_locks = [].
Proof. exact eq_refl. Qed.
Print Assumptions no_lock_is_copied.
