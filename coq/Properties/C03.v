(* C03 — every forwarded UDP datagram is authenticated, attributed and intact. *)
From OSS Require Import theories.Base theories.AList theories.IPClass theories.Socks theories.Crypto theories.CipherList.
From OSS Require Import theories.Udp theories.UdpProofs.
Open Scope N_scope.

(* a datagram leaves the proxy only if the client's datagram opened — under a configured key for
   a new client address, under the association's key for a known one — to an address header
   followed by exactly that payload, and the destination passed the policy *)
Theorem udp_forward_sound e ue st ca cip pkt st' evs s dst port payload :
  udp_client_step e ue st ca cip pkt = (st', evs) -> In (USend s dst port payload) evs ->
  exists k pt, unpack e k pkt = Some pt /\ validate_packet ue pt = inl (payload, dst, port) /\
    match alookup N.eqb ca (u_nat st) with
    | Some a => k = as_key a /\ s = as_sock a
    | None => exists ent, In ent (items (u_cl st)) /\ k = e_key ent
    end.
Proof. exact (udp_forward_sound_lemma e ue st ca cip pkt st' evs s dst port payload). Qed.
Print Assumptions udp_forward_sound.

(* whatever the list order, MRU state or cipher mix: a datagram valid under a configured key with
   an allowed destination creates the association and is forwarded once, payload intact *)
Theorem udp_forward_complete e ue st ca cip pkt ent pt payload dst port :
  alookup N.eqb ca (u_nat st) = None ->
  In ent (items (u_cl st)) -> unpack e (e_key ent) pkt = Some pt ->
  (forall k' pt', unpack e k' pkt = Some pt' -> pt' = pt) ->
  validate_packet ue pt = inl (payload, dst, port) ->
  ue_sendable ue dst port = true ->                       (* the kernel accepts the send (oracle; port 0 is refused) *)
  exists st' id, udp_client_step e ue st ca cip pkt =
    (st', [UNew ca (u_next st) id; USend (u_next st) dst port payload; UReport (u_next st) us_ok (zlen pkt) (zlen payload)])
    /\ alookup N.eqb ca (u_nat st') <> None.
Proof. exact (udp_forward_complete_lemma e ue st ca cip pkt ent pt payload dst port). Qed.
Print Assumptions udp_forward_complete.

(* datagrams that authenticate under no key: no outbound traffic, no association, no change *)
Theorem udp_invalid_no_effect e ue st ca cip pkt :
  alookup N.eqb ca (u_nat st) = None ->
  (forall ent, In ent (items (u_cl st)) -> unpack e (e_key ent) pkt = None) ->
  udp_client_step e ue st ca cip pkt = (st, []).
Proof. exact (udp_invalid_no_effect_lemma e ue st ca cip pkt). Qed.
Print Assumptions udp_invalid_no_effect.

(* the reply sent to the client is encrypted under the association's key with the given fresh
   salt, opens to the true sender address (IPv4 7-byte or IPv6 19-byte form) followed by the
   unmodified body, and goes to the owner of the socket *)
Theorem udp_reply_roundtrip e st sock src port body salt sid e' ca dgram stc tb cb :
  lookupN sid (seals e) = None ->
  udp_reply e st sock src port body salt sid = (e', Ok (ReplySent ca dgram stc tb cb)) ->
  exists a ab, In (ca, a) (u_nat st) /\ as_sock a = sock /\ reply_addr src port = Some ab /\
    dgram = salt ++ seal_wire sid (length (ab ++ body)) (tag_size (k_cipher (as_key a))) /\
    (length salt = salt_size (k_cipher (as_key a)) -> unpack e' (as_key a) dgram = Some (ab ++ body)) /\
    split_addr (ab ++ body) = Some (ab, body) /\ tb = zlen body /\ cb = zlen dgram.
Proof. exact (udp_reply_roundtrip_lemma e st sock src port body salt sid e' ca dgram stc tb cb). Qed.
Print Assumptions udp_reply_roundtrip.

Theorem pack_layout_in_bounds c addr_len body_len :
  (0 <= addr_len)%Z -> (0 <= body_len)%Z ->
  (body_len <= buf_size - (Z.of_nat (salt_size c) + max_addr_len))%Z ->
  layout (Z.of_nat (salt_size c)) addr_len body_len <> Panic.
Proof. exact (layout_no_panic_lemma c addr_len body_len). Qed.
Print Assumptions pack_layout_in_bounds.
