(* C10 — configuration reload is all-or-nothing. Model of loadConfig / runConfig with shared,
   reference-counted listeners: theories/Config.v (after the repair 10b729c). *)
From OSS Require Import theories.Base theories.AList theories.Config theories.ConfigProofs.

(* a reload that fails at ANY stage — unreadable or malformed file, validation error, bad cipher
   in any service or legacy key, an address that cannot be bound, a listener listed twice —
   leaves the serving table untouched and every listener's handle count what it was: the
   previous configuration keeps serving and nothing of the failed one is left running *)
Theorem failed_reload_noop os s f s' e inter :
  load os s f = (s', Some e, inter) ->
  serving s' = serving s /\ forall x, ref_of (refs s') x = ref_of (refs s) x.
Proof. exact (failed_reload_noop_lemma os s f s' e inter). Qed.
Print Assumptions failed_reload_noop.

(* a successful reload serves exactly the table of the new configuration and adjusts every
   listener's handle count by (held by the new one) - (held by the old one) *)
Theorem successful_reload_replaces os s c s' inter :
  load os s (FConfig c) = (s', None, inter) ->
  exists got t, serving s' = Some (got, t) /\ start (can_bind os (refs s)) c = (got, Some t, None) /\
    forall x, count_in x (match serving s with Some (ls, _) => ls | None => [] end) <= ref_of (refs s) x ->
              ref_of (refs s') x = ref_of (refs s) x + count_in x got - count_in x (match serving s with Some (ls, _) => ls | None => [] end).
Proof. exact (successful_reload_replaces_lemma os s c s' inter). Qed.
Print Assumptions successful_reload_replaces.

(* after ANY sequence of reload attempts the server serves the most recent configuration that
   loaded successfully ... *)
Theorem reload_atomic os fs s : serving (reloads os s fs) = last_ok os s fs.
Proof. exact (reload_atomic_lemma os fs s). Qed.
Print Assumptions reload_atomic.

(* ... the serving table never is anything but the whole table of a configuration that started *)
Theorem serving_is_whole_config os s f s' e inter :
  load os s f = (s', e, inter) ->
  serving s' = serving s \/ exists c got t, f = FConfig c /\ validate c = true /\ e = None /\
                                     start (can_bind os (refs s)) c = (got, Some t, None) /\ serving s' = Some (got, t).
Proof. exact (serving_is_whole_config_lemma os s f s' e inter). Qed.
Print Assumptions serving_is_whole_config.

(* ... and an address is listening iff that configuration has it: from boot, for every history *)
Theorem listening_iff_last_ok os fs x :
  listening (reloads os server0 fs) x = true <->
  exists ls t, last_ok os server0 fs = Some (ls, t) /\ In x ls.
Proof. exact (listening_iff_last_ok_lemma os fs x). Qed.
Print Assumptions listening_iff_last_ok.

(* the source has the shape the model assumes (regenerated from /repo on every run): the stages
   of loadConfig in this order, each returning on error ("!") before the old configuration is
   stopped; a start error makes the runConfig goroutine return (running the deferred
   lnSet.Close) instead of waiting for a stop, and runConfig waits for that release *)
From OSS Require Gen.Consts.
From Coq Require String.
Import String.StringSyntax.
Delimit Scope string_scope with string.
Theorem reload_source_shape :
  Gen.Consts.load_config_stages = ["os.ReadFile!"; "readConfig!"; "config.Validate!"; "s.runConfig!"; "s.Stop"]%string /\
  Gen.Consts.start_error_returns_before_stop_wait = true /\
  Gen.Consts.run_config_defers_listener_close = true /\
  Gen.Consts.run_config_waits_for_release_on_error = true /\
  (* what validation accepts is what start-up can run: listeners are keyed by their type string as
     written (no normalisation start-up would not share), and the four refusals are in place *)
  Gen.Consts.validate_listener_key = "string(lnConfig.Type) + ""/"" + lnConfig.Address"%string /\
  List.length Gen.Consts.validate_errors = 4 /\
  (* nothing of a configuration serves before all of it has been set up: no accept or packet loop
     is started from inside the loops that set ports, services and listeners up; the serve
     functions collected there are started by the one loop that follows (repair b38c1dd) *)
  Gen.Consts.run_config_go_in_setup_loops = [] /\
  Gen.Consts.run_config_go_in_final_loop = ["serve"]%string.
Proof. repeat split; reflexivity. Qed.
Print Assumptions reload_source_shape.
