(* C07 — a client handshake is accepted at most once within the replay history.
   Only statements; every proof is [exact] of a lemma in theories/. *)
From OSS Require Import theories.Base theories.Replay theories.ReplayProofs.

(* A handshake presented again while at most W other handshakes were checked in
   between (accepted or refused), every capacity in effect being >= W >= 1
   (arbitrary resizes up/down in between), is refused. *)
Theorem replay_refused_within_N W c h mid :
  1 <= W -> caps_ge W c (Add h :: mid) -> adds mid <= W ->
  snd (step (fst (run (fst (step c (Add h))) mid)) (Add h)) = false.
Proof. exact (replay_refused_within_N_lemma W c h mid). Qed.
Print Assumptions replay_refused_within_N.

(* Copies of one never-seen handshake presented in any interleaving with other
   traffic (Add is atomic under the mutex, so an interleaving is a sequence):
   exactly the first is accepted, all others refused. *)
Theorem concurrent_one_winner W c h ops :
  1 <= W -> caps_ge W c ops -> adds ops <= S W -> ~ remembered c h ->
  winner_shape (outs_of h ops (snd (run c ops))).
Proof. exact (one_winner W c h ops). Qed.
Print Assumptions concurrent_one_winner.

(* A presentation is refused only if its 32-bit checksum equals that of an
   earlier presentation of the same run (whatever the resizes). *)
Theorem refused_only_if_collision capacity pre id salt :
  snd (step (fst (run (empty_cache capacity) (map lower pre))) (lower (HAdd id salt))) = false ->
  exists id' salt', In (HAdd id' salt') pre /\ pre_hash id' salt' = pre_hash id salt.
Proof. exact (refused_only_if_collision_lemma capacity pre id salt). Qed.
Print Assumptions refused_only_if_collision.

(* History size 0: nothing is refused, nothing is recorded. *)
Theorem disabled_accepts_all c ops :
  cap c = 0%Z -> Forall (fun o => is_add o = true) ops ->
  fst (run c ops) = c /\ Forall (fun b => b = true) (snd (run c ops)).
Proof. exact (disabled_accepts_all_lemma c ops). Qed.
Print Assumptions disabled_accepts_all.

(* One process: every service of every configuration generation checks against the cache slot
   it was given. With ONE shared slot the placement of presentations over listeners, services
   and reload generations is irrelevant: outcomes are those of the single cache on the sequence *)
Theorem shared_cache_placement_irrelevant ref r0 pl st :
  (forall sv, ref sv = r0) ->
  snd (prun ref st pl) = snd (run (st r0) (map snd pl)) /\
  fst (prun ref st pl) r0 = fst (run (st r0) (map snd pl)).
Proof. exact (shared_cache_placement_irrelevant_lemma ref r0 pl st). Qed.
Print Assumptions shared_cache_placement_irrelevant.

(* ... so a handshake first presented to service a is refused when replayed to ANY service b *)
Theorem cross_service_replay_refused W ref r0 st h a b mid :
  (forall sv, ref sv = r0) ->
  1 <= W -> caps_ge W (st r0) (Add h :: map snd mid) -> adds (map snd mid) <= W ->
  last (snd (prun ref st ((a, Add h) :: mid ++ [(b, Add h)]))) true = false.
Proof. exact (cross_service_replay_refused_lemma W ref r0 st h a b mid). Qed.
Print Assumptions cross_service_replay_refused.

(* the source gives every service the same slot (regenerated from main.go on every run): each
   NewShadowsocksService call gets WithReplayCache(&s.replayCache), and the cache is constructed
   only in RunOutlineServer — once per process, not per reload *)
From OSS Require Gen.Consts.
From Coq Require String.
Import String.StringSyntax.
Delimit Scope string_scope with string.
Theorem one_cache_for_all_services :
  Gen.Consts.replay_cache_args = ["&s.replayCache"; "&s.replayCache"]%string /\
  List.length Gen.Consts.replay_cache_args = Gen.Consts.new_service_calls /\
  Gen.Consts.replay_cache_constructed_in = ["RunOutlineServer"]%string /\
  (* ... with the configured history size itself *)
  Gen.Consts.replay_cache_size_args = ["replayHistory"]%string.
Proof. repeat split; reflexivity. Qed.
Print Assumptions one_cache_for_all_services.
