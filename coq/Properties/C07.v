(* C07 — a client handshake is accepted at most once within the replay history.
   Only statements; every proof is [exact] of a lemma in theories/. *)
From OSS Require Import theories.Base theories.Replay theories.ReplayProofs.

(* A handshake presented again while at most W other handshakes were checked in
   between (accepted or refused), every capacity in effect being >= W >= 1
   (arbitrary resizes up/down in between), is refused. *)
Theorem replay_refused_within_N W c h mid :
  1 <= W -> caps_ge W c (Add h :: mid) -> adds mid <= W ->
  snd (step (fst (run (fst (step c (Add h))) mid)) (Add h)) = false.
Proof. exact (replay_refused_within_N_lemma W c h mid). Qed.
Print Assumptions replay_refused_within_N.

(* Copies of one never-seen handshake presented in any interleaving with other
   traffic (Add is atomic under the mutex, so an interleaving is a sequence):
   exactly the first is accepted, all others refused. *)
Theorem concurrent_one_winner W c h ops :
  1 <= W -> caps_ge W c ops -> adds ops <= S W -> ~ remembered c h ->
  winner_shape (outs_of h ops (snd (run c ops))).
Proof. exact (one_winner W c h ops). Qed.
Print Assumptions concurrent_one_winner.

(* A presentation is refused only if its 32-bit checksum equals that of an
   earlier presentation of the same run (whatever the resizes). *)
Theorem refused_only_if_collision capacity pre id salt :
  snd (step (fst (run (empty_cache capacity) (map lower pre))) (lower (HAdd id salt))) = false ->
  exists id' salt', In (HAdd id' salt') pre /\ pre_hash id' salt' = pre_hash id salt.
Proof. exact (refused_only_if_collision_lemma capacity pre id salt). Qed.
Print Assumptions refused_only_if_collision.

(* History size 0: nothing is refused, nothing is recorded. *)
Theorem disabled_accepts_all c ops :
  cap c = 0%Z -> Forall (fun o => is_add o = true) ops ->
  fst (run c ops) = c /\ Forall (fun b => b = true) (snd (run c ops)).
Proof. exact (disabled_accepts_all_lemma c ops). Qed.
Print Assumptions disabled_accepts_all.
