(* C01 — TCP access-key authentication is sound and complete for every key list.
   Only statements; proofs are [exact] of lemmas in theories/. Cryptography is ideal
   (theories/Crypto.v): only honestly sealed messages open, under exactly their key. *)
From OSS Require Import theories.Base theories.Crypto theories.CipherList theories.CipherListProofs.
From OSS Require Import theories.Replay theories.TcpAuth theories.TcpAuthProofs.
From Coq Require Import Permutation.

(* the snapshot taken for any client IP contains every entry of the list exactly once *)
Theorem snapshot_permutation ip cl : Permutation (map snd (snapshot ip cl)) (items cl).
Proof. exact (snapshot_permutation_lemma ip cl). Qed.
Print Assumptions snapshot_permutation.

(* SOUND: an authenticated connection is attributed to a configured entry whose key opens the
   client's opening bytes ... *)
Theorem auth_sound e st ip input st' id el salt :
  authenticate e st ip input = (st', Ok (AuthOk id el salt)) ->
  In (snd el) (items (a_cl st)) /\ id = e_id (snd el) /\
  exists pt, unpack e (e_key (snd el)) (firstn (need (e_key (snd el))) (firstn bytes_for_key_finding input)) = Some pt.
Proof. exact (auth_sound_lemma e st ip input st' id el salt). Qed.
Print Assumptions auth_sound.

(* ... and only the client's own key (same cipher, same secret) opens an honest handshake *)
Theorem only_own_key_opens e sid k salt len2 rest k' pt :
  honest_env e sid k salt len2 -> length salt = salt_size (k_cipher k) ->
  Forall (fun w => wt w = TRaw) salt ->
  unpack e k' (firstn (need k') (honest_first sid k salt rest)) = Some pt -> k' = k.
Proof. exact (unpack_honest_only_own_key e sid k salt len2 rest k' pt). Qed.
Print Assumptions only_own_key_opens.

(* COMPLETE: for every key list containing the client's key (any position, any cipher mix, any
   MRU / last-IP state, any client IP), an honest handshake is never answered ERR_CIPHER: it is
   attributed to an entry configured with exactly that cipher and secret, or refused as a replay
   of that entry *)
Theorem auth_complete e st ip sid k salt len2 rest :
  honest_env e sid k salt len2 -> length salt = salt_size (k_cipher k) ->
  Forall (fun w => wt w = TRaw) salt ->
  bytes_for_key_finding <= length (honest_first sid k salt rest) ->
  (exists ent, In ent (items (a_cl st)) /\ e_key ent = k) ->
  exists st' r, authenticate e st ip (honest_first sid k salt rest) = (st', Ok r) /\
    match r with
    | AuthOk id el _ => e_key (snd el) = k /\ In (snd el) (items (a_cl st)) /\ id = e_id (snd el)
    | AuthErr ErrCipher _ => False
    | AuthErr _ id => exists ent, In ent (items (a_cl st)) /\ e_key ent = k /\ id = e_id ent
    end.
Proof. exact (auth_complete_lemma e st ip sid k salt len2 rest). Qed.
Print Assumptions auth_complete.

(* opening bytes valid under no configured key: ERR_CIPHER, key list and replay history untouched *)
Theorem auth_invalid e st ip input :
  (forall ent, In ent (items (a_cl st)) ->
      unpack e (e_key ent) (firstn (need (e_key ent)) (firstn bytes_for_key_finding input)) = None) ->
  authenticate e st ip input = (st, Ok (AuthErr ErrCipher [])).
Proof. exact (auth_invalid_lemma e st ip input). Qed.
Print Assumptions auth_invalid.

Theorem auth_never_panics e st ip input : snd (authenticate e st ip input) <> Panic.
Proof. exact (authenticate_no_panic e st ip input). Qed.
Print Assumptions auth_never_panics.

(* every cipher of the pinned SDK fits the key-finding window of the current source *)
Theorem key_window :
  forallb (fun c => (salt_size c + 2 + tag_size c <=? bytes_for_key_finding) &&
                    (bytes_for_key_finding <=? salt_size c + 2 + 2 * tag_size c)) all_ciphers = true.
Proof. exact key_window_lemma. Qed.
Print Assumptions key_window.

(* any interleaving of snapshots, usage marks (with current or stale elements, any IP) and
   replacements, from any number of connections: the list always holds exactly the entries of
   the last replacement — nothing lost, duplicated or altered *)
Theorem history_independent ops cl :
  NoDup (map e_uid (items cl)) -> updates_wf ops ->
  let cl' := fold_left cl_step ops cl in
  gen cl' = fst (last_update (gen cl) (items cl) ops) /\
  Permutation (map cfg_of (items cl')) (map cfg_of (snd (last_update (gen cl) (items cl) ops))) /\
  NoDup (map e_uid (items cl')).
Proof. exact (history_independent_lemma ops cl). Qed.
Print Assumptions history_independent.
