(* C08 — server-issued salts are fresh, recognisable, and never accepted back. *)
From OSS Require Import theories.Base theories.Crypto theories.CipherList theories.Replay.
From OSS Require Import theories.TcpAuth theories.TcpAuthProofs.

(* a salt the server issues for a key (cipher with >= 16 bytes of entropy left) is recognised *)
Theorem server_salt_roundtrip e mid k prefix tagvals :
  marked (k_cipher k) = true -> 0 < mark_len ->
  let '(e', salt) := mk_server_salt e mid k prefix tagvals in
  is_server_salt e' k salt = true.
Proof. exact (server_salt_roundtrip_lemma e mid k prefix tagvals). Qed.
Print Assumptions server_salt_roundtrip.

(* distinct RNG outputs give distinct salts: pairwise freshness reduces to the RNG not repeating *)
Theorem server_salt_injective e mid1 mid2 k p1 p2 t1 t2 :
  length p1 = length p2 ->
  snd (mk_server_salt e mid1 k p1 t1) = snd (mk_server_salt e mid2 k p2 t2) -> p1 = p2.
Proof. exact (server_salt_injective_lemma e mid1 mid2 k p1 p2 t1 t2). Qed.
Print Assumptions server_salt_injective.

(* which ciphers get marked salts, recomputed from the SDK table and the source constants:
   32- and 24-byte salts yes, 16-byte salts no *)
Theorem marked_iff_salt_ge_20 :
  map (fun c => (c, marked c)) all_ciphers = [(Chacha, true); (Aes256, true); (Aes192, true); (Aes128, false)]
  /\ forallb (fun c => Bool.eqb (marked c) (20 <=? salt_size c)) all_ciphers = true.
Proof. exact (conj eq_refl eq_refl). Qed.
Print Assumptions marked_iff_salt_ge_20.

(* a handshake whose salt is server-issued for the matched key is refused as ERR_REPLAY_SERVER
   whatever the client replay history: nil, capacity 0 or any contents; the history is untouched *)
Theorem reflected_refused_even_cache_off e st ip input el :
  bytes_for_key_finding <= length input ->
  find_entry e (firstn bytes_for_key_finding input) (snapshot ip (a_cl st)) = Ok (Some el) ->
  is_server_salt e (e_key (snd el)) (firstn (salt_size (k_cipher (e_key (snd el)))) (firstn bytes_for_key_finding input)) = true ->
  exists st', authenticate e st ip input = (st', Ok (AuthErr ErrReplayServer (e_id (snd el)))) /\ a_rc st' = a_rc st.
Proof. exact (reflected_refused_lemma e st ip input el). Qed.
Print Assumptions reflected_refused_even_cache_off.
