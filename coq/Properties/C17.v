(* C17 — tunnel time equals the time each client actually had a tunnel open.
   Only statements; proofs are [exact] of lemmas in theories/TunnelTimeProofs.v. *)
From OSS Require Import theories.Base theories.AList theories.TunnelTime theories.TunnelTimeProofs.
Open Scope Z_scope.

(* At every point of every history of opens / closes / clock advances / scrapes (closes
   following their opens, clock monotone), for every (client IP, key):
   reported so far + length of the running, not yet reported period = time during which
   the client had at least one tunnel open.  Overlapping tunnels share one period. *)
Theorem tunnel_time_invariant p h :
  wf p h ->
  let s := fst (run h) in let now := snd (run h) in
  NoDup (akeys (act s)) /\
  match alookup ipkey_eqb p (act s) with
  | Some c => cnt c = open_count p h /\ 0 < open_count p h /\
              reported_pair s p + (now - start c) = truth p h
  | None => open_count p h = 0 /\ reported_pair s p = truth p h
  end.
Proof. exact (tunnel_time_invariant_lemma p h). Qed.
Print Assumptions tunnel_time_invariant.

(* what a scrape returns is exactly the true value *)
Theorem tunnel_time_exact_after_scrape p h :
  wf p h -> reported_pair (fst (run (h ++ [Collect]))) p = truth p (h ++ [Collect]).
Proof. exact (exact_after_scrape_lemma p h). Qed.
Print Assumptions tunnel_time_exact_after_scrape.

Theorem tunnel_time_exact_when_closed p h :
  wf p h -> open_count p h = 0 -> reported_pair (fst (run h)) p = truth p h.
Proof. exact (exact_when_closed_lemma p h). Qed.
Print Assumptions tunnel_time_exact_when_closed.

(* between two scrapes exactly the elapsed tunnel time is added: nothing lost, nothing twice *)
Theorem no_double_count_across_scrapes p h1 h2 :
  wf p (h1 ++ [Collect] ++ h2) ->
  reported_pair (fst (run (h1 ++ [Collect] ++ h2 ++ [Collect]))) p
  - reported_pair (fst (run (h1 ++ [Collect]))) p
  = truth p (h1 ++ [Collect] ++ h2 ++ [Collect]) - truth p (h1 ++ [Collect]).
Proof. exact (no_double_count_across_scrapes_lemma p h1 h2). Qed.
Print Assumptions no_double_count_across_scrapes.

(* the counter of a label class (an access key, or a location) is the sum over the client
   (ip,key) pairs of that class of the pair values above *)
Theorem class_total (cls : ipkey -> bool) ps l :
  NoDup ps -> (forall k z, In (k, z) l -> In k ps) ->
  sum_where cls l = sum_list (map (fun p => if cls p then sum_where (ipkey_eqb p) l else 0) ps).
Proof. exact (class_total_lemma cls ps l). Qed.
Print Assumptions class_total.

(* per-location totals add up to the same grand total as per-key totals (any labelling) *)
Theorem location_total_eq_key_total (f g : ipkey -> N) cf cg l :
  NoDup cf -> (forall k z, In (k, z) l -> In (f k) cf) ->
  NoDup cg -> (forall k z, In (k, z) l -> In (g k) cg) ->
  sum_list (map (fun c => sum_where (fun k => N.eqb (f k) c) l) cf)
  = sum_list (map (fun c => sum_where (fun k => N.eqb (g k) c) l) cg).
Proof.
  exact (fun H1 H2 H3 H4 => eq_trans (partition_total_lemma f cf l H1 H2)
                                     (eq_sym (partition_total_lemma g cg l H3 H4))).
Qed.
Print Assumptions location_total_eq_key_total.

(* unauthenticated connections generate no tunnel-time event at all *)
Theorem unauthenticated_contribute_nothing s c ip :
  snd (lower s (TcpOpen c ip)) = [] /\
  (forall cn, alookup N.eqb c (tcp s) = Some cn -> c_key cn = None -> snd (lower s (TcpClose c)) = []).
Proof. exact (unauthenticated_no_events_lemma s c ip). Qed.
Print Assumptions unauthenticated_contribute_nothing.
