(* C04 — UDP associations give each client one stable, private outbound socket. *)
From OSS Require Import theories.Base theories.AList theories.IPClass theories.Socks theories.Crypto theories.CipherList.
From OSS Require Import theories.Udp theories.UdpProofs.
Open Scope N_scope.

(* for every history of datagrams (any clients, keys, targets, valid or not) and expirations, in
   any order: client addresses and sockets of the table stay pairwise distinct *)
Theorem nat_injective e ue ops st0 :
  nat_inv st0 -> nat_inv (fold_left (urun_step e ue) ops st0).
Proof. exact (nat_injective_lemma e ue ops st0). Qed.
Print Assumptions nat_injective.

Theorem distinct_clients_never_share_a_socket st c1 c2 a1 a2 :
  nat_inv st -> alookup N.eqb c1 (u_nat st) = Some a1 -> alookup N.eqb c2 (u_nat st) = Some a2 ->
  c1 <> c2 -> as_sock a1 <> as_sock a2.
Proof. exact (distinct_clients_distinct_sockets st c1 c2 a1 a2). Qed.
Print Assumptions distinct_clients_never_share_a_socket.

(* while the association is alive all datagrams of the client leave from its one socket, and the
   association is left unchanged *)
Theorem nat_stable_source e ue st ca cip pkt a :
  alookup N.eqb ca (u_nat st) = Some a ->
  let '(st', evs) := udp_client_step e ue st ca cip pkt in
  alookup N.eqb ca (u_nat st') = Some a /\ forall s d p pl, In (USend s d p pl) evs -> s = as_sock a.
Proof. exact (nat_stable_source_lemma e ue st ca cip pkt a). Qed.
Print Assumptions nat_stable_source.

Theorem nat_other_client_untouched e ue st ca cip pkt cb :
  cb <> ca -> alookup N.eqb cb (u_nat (fst (udp_client_step e ue st ca cip pkt))) = alookup N.eqb cb (u_nat st).
Proof. exact (nat_other_client_untouched_lemma e ue st ca cip pkt cb). Qed.
Print Assumptions nat_other_client_untouched.

(* a datagram arriving at a socket from any target is delivered to the socket's owner only
   (udp_reply_roundtrip gives the owner), and the owner is unique by injectivity *)
Theorem nat_reply_routing e st sock src port body salt sid e' ca dgram stc tb cb :
  lookupN sid (seals e) = None ->
  udp_reply e st sock src port body salt sid = (e', Ok (ReplySent ca dgram stc tb cb)) ->
  exists a, In (ca, a) (u_nat st) /\ as_sock a = sock.
Proof.
  exact (fun F H => match udp_reply_roundtrip_lemma e st sock src port body salt sid e' ca dgram stc tb cb F H with
                    | ex_intro _ a (ex_intro _ _ (conj Hin (conj Hs _))) => ex_intro _ a (conj Hin Hs) end).
Qed.
Print Assumptions nat_reply_routing.

(* an association is created only by an authenticated datagram with an allowed destination *)
Theorem nat_create_guard e ue st ca cip pkt st' evs s id :
  udp_client_step e ue st ca cip pkt = (st', evs) -> In (UNew ca s id) evs ->
  alookup N.eqb ca (u_nat st) = None /\
  exists ent pt payload dst port, In ent (items (u_cl st)) /\ unpack e (e_key ent) pkt = Some pt /\
     validate_packet ue pt = inl (payload, dst, port) /\ id = e_id ent /\ s = u_next st.
Proof. exact (nat_create_guard_lemma e ue st ca cip pkt st' evs s id). Qed.
Print Assumptions nat_create_guard.
