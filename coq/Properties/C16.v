(* C16 — UDP metrics match the datagrams actually relayed. *)
From OSS Require Import theories.Base theories.AList theories.IPClass theories.Socks theories.Crypto theories.CipherList.
From OSS Require Import theories.Udp theories.UdpProofs theories.NatTimer theories.NatTimerProofs.
From OSS Require Gen.Status.
From Coq Require String.
Import String.StringSyntax.
Delimit Scope string_scope with string.
Open Scope N_scope.

(* per client datagram: at most one report, one send, one added association; a report exactly when
   the datagram created or arrived on an association, carrying the wire size, on that association's
   collector; status OK exactly when the datagram was sent, and then the payload size reported is
   the size sent; an association is reported added exactly when it is created *)
Theorem udp_report_shape e ue st ca cip pkt :
  let '(st', evs) := udp_client_step e ue st ca cip pkt in
  (ucount is_report evs <= 1)%nat /\ (ucount is_send evs <= 1)%nat /\ (ucount is_new evs <= 1)%nat /\
  (ucount is_report evs = 1%nat <-> alookup N.eqb ca (u_nat st') <> None) /\
  (forall s code cb pb, In (UReport s code cb pb) evs -> cb = zlen pkt /\
      (exists a, alookup N.eqb ca (u_nat st') = Some a /\ s = as_sock a) /\
      (code = us_ok <-> ucount is_send evs = 1%nat) /\
      (forall s' d p pl, In (USend s' d p pl) evs -> pb = zlen pl /\ s' = s)) /\
  (ucount is_new evs = 1%nat <-> alookup N.eqb ca (u_nat st) = None /\ alookup N.eqb ca (u_nat st') <> None).
Proof. exact (udp_report_shape_lemma e ue st ca cip pkt). Qed.
Print Assumptions udp_report_shape.

(* each target datagram relayed: reported with the body size received and the wire size sent *)
Theorem udp_target_report e st sock src port body salt sid e' ca dgram stc tb cb :
  lookupN sid (seals e) = None ->
  udp_reply e st sock src port body salt sid = (e', Ok (ReplySent ca dgram stc tb cb)) ->
  tb = zlen body /\ cb = zlen dgram.
Proof.
  exact (fun F H => match udp_reply_roundtrip_lemma e st sock src port body salt sid e' ca dgram stc tb cb F H with
                    | ex_intro _ _ (ex_intro _ _ (conj _ (conj _ (conj _ (conj _ (conj _ (conj _ R))))))) => R end).
Qed.
Print Assumptions udp_target_report.

(* added once, removed once *)
Theorem udp_add_remove_paired ops s :
  let '(live, log) := lrun ops in
  lcount (is_remove s) log = lcount (is_close s) log /\
  (In s live -> lcount (is_add s) log = S (lcount (is_remove s) log)) /\
  (~ In s live -> lcount (is_add s) log = lcount (is_remove s) log).
Proof. exact (removed_exactly_once_lemma ops s). Qed.
Print Assumptions udp_add_remove_paired.

Definition udp_vocabulary : list String.string :=
  ["OK"; "ERR_CIPHER"; "ERR_READ_ADDRESS"; "ERR_RESOLVE_ADDRESS"; "ERR_ADDRESS_INVALID"; "ERR_ADDRESS_PRIVATE";
   "ERR_CREATE_SOCKET"; "ERR_READ"; "ERR_WRITE"; "ERR_PACK"]%string.
Definition udp_funcs : list String.string := ["Handle"; "validatePacket"; "timedCopy"]%string.
Theorem udp_status_vocabulary :
  forallb (fun fs => negb (existsb (String.eqb (fst fs)) udp_funcs) || existsb (String.eqb (snd fs)) udp_vocabulary)
          Gen.Status.statuses = true.
Proof. exact eq_refl. Qed.
Print Assumptions udp_status_vocabulary.

(* a datagram whose send the kernel refuses still creates its association and is reported on it
   once, as a failure with 0 payload bytes *)
Theorem udp_send_failure_reported e ue st ca cip pkt ent pt payload dst port :
  alookup N.eqb ca (u_nat st) = None ->
  In ent (items (u_cl st)) -> unpack e (e_key ent) pkt = Some pt ->
  (forall k' pt', unpack e k' pkt = Some pt' -> pt' = pt) ->
  validate_packet ue pt = inl (payload, dst, port) ->
  ue_sendable ue dst port = false ->
  exists st' id, udp_client_step e ue st ca cip pkt =
    (st', [UNew ca (u_next st) id; UReport (u_next st) us_write (zlen pkt) 0])
    /\ alookup N.eqb ca (u_nat st') <> None.
Proof. exact (udp_send_failure_lemma e ue st ca cip pkt ent pt payload dst port). Qed.
Print Assumptions udp_send_failure_reported.

(* ---- the Prometheus collectors (prometheus/metrics.go), model theories/Collector.v ------------- *)
From OSS Require Import theories.Collector theories.CollectorProofs.

(* every gathered counter is the sum, over the whole call log, of what each call adds to it *)
Theorem collector_total calls q : value (vals (crun calls)) q = total_from cinit0 calls q.
Proof. exact (collector_total_lemma calls q). Qed.
Print Assumptions collector_total.

(* gathered data_bytes{proto="udp"} per key and direction = the positive byte counts of the reports
   made on the associations that were added with that key (c>p / p>t from AddPacketFromClient,
   p<t / c<p from AddPacketFromTarget); no other call, and no report of another key, contributes *)
Theorem gathered_udp_bytes calls k fromclient first :
  value (vals (crun calls)) (data "udp" (udir fromclient first) k) =
  sum_reports k fromclient first (ureports [] calls).
Proof. exact (gathered_udp_bytes_lemma calls k fromclient first). Qed.
Print Assumptions gathered_udp_bytes.

(* nat_entries_added / nat_entries_removed count the AddUDPNatEntry / RemoveNatEntry calls, so their
   difference is the number of live associations *)
Theorem gathered_nat_entries calls :
  value (vals (crun calls)) ["udp_nat_entries_added"%string] = zcount is_uadd calls /\
  value (vals (crun calls)) ["udp_nat_entries_removed"%string] = zcount is_uremove calls.
Proof. exact (nat_entries_lemma calls). Qed.
Print Assumptions gathered_nat_entries.

(* ---- end to end: the wire, the handler model, its metric calls, the collector model ------------ *)
From OSS Require Import theories.UdpMetrics.

(* For every history of client datagrams, expiries and datagrams arriving at NAT sockets run through
   the handler model from a fresh handler, the gathered data_bytes{proto="udp"} of every key and
   direction equal the wire: c>p the sizes of the client datagrams that created or arrived on an
   association of that key, p>t the payload sizes that left towards targets on it, p<t the payload
   sizes that arrived at its NAT socket, c<p the sizes of the datagrams sent back to its client.
   ([f] writes a key ID as a label value, [sname] a status code as a status label; any will do.) *)
Theorem gathered_udp_equals_wire f sname e ue st ops k fromclient first :
  u_nat st = [] ->
  value (vals (crun (urun f sname e ue st ops))) (data "udp" (udir fromclient first) k) =
  wire f sname fromclient first k e ue st ops.
Proof. exact (gathered_udp_equals_wire_lemma f sname e ue st ops k fromclient first). Qed.
Print Assumptions gathered_udp_equals_wire.

Local Open Scope N_scope.
(* a concrete history (two keys, two clients, a wrong-key datagram on a live association, a reply,
   an expiry and a re-creation): the six sums are the expected non-trivial numbers *)
From OSS Require Corr.UDP.
From Coq Require Ascii.
Definition ex_idstr (id : bytes) : String.string := String.string_of_list_ascii (map Ascii.ascii_of_N id).
Definition ex_st : ustate := {| u_cl := {| gen := 0; items := UDP.mk_entries [(0,0,1);(1,1,2)] |}; u_nat := []; u_next := 0 |}.
Definition ex_pk1 := UDP.dgram_of env0 0 (UDP.DHonest 0 1 11 0 9 40 5 []).
Definition ex_pk2 := UDP.dgram_of (fst ex_pk1) 1 (UDP.DHonest 0 1 12 0 9 100 6 []).
Definition ex_pk3 := UDP.dgram_of (fst ex_pk2) 2 (UDP.DHonest 1 2 13 0 9 7 7 []).
Definition ex_ops : list UdpMetrics.uop :=
  [UDgram 1 1 (snd ex_pk1); UDgram 1 1 (snd ex_pk2); UDgram 2 2 (snd ex_pk3); UDgram 1 1 (snd ex_pk3);
   UReplyOp 0 (V4 (127 * 2^24 + 1)) 9 (gb 33 3) (raws (gb 32 99)) 5000; UExpireOp 1; UDgram 1 1 (snd ex_pk1)].
Definition ex_w fc first k :=
  wire ex_idstr (fun _ => String.EmptyString) fc first k (fst ex_pk3) (UDP.the_uenv false) ex_st ex_ops.
Example gathered_udp_equals_wire_nonvacuous :
  (ex_w true true "A", ex_w true false "A", ex_w false true "A", ex_w false false "A", ex_w true true "B", ex_w true false "B")%string
  = (407, 180, 33, 88, 62, 7)%Z.
Proof. vm_compute. reflexivity. Qed.
