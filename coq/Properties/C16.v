(* C16 — UDP metrics match the datagrams actually relayed. *)
From OSS Require Import theories.Base theories.AList theories.IPClass theories.Socks theories.Crypto theories.CipherList.
From OSS Require Import theories.Udp theories.UdpProofs theories.NatTimer theories.NatTimerProofs.
From OSS Require Gen.Status.
From Coq Require String.
Import String.StringSyntax.
Delimit Scope string_scope with string.
Open Scope N_scope.

(* per client datagram: at most one report, one send, one added association; a report exactly when
   the datagram created or arrived on an association, carrying the wire size, on that association's
   collector; status OK exactly when the datagram was sent, and then the payload size reported is
   the size sent; an association is reported added exactly when it is created *)
Theorem udp_report_shape e ue st ca cip pkt :
  let '(st', evs) := udp_client_step e ue st ca cip pkt in
  (ucount is_report evs <= 1)%nat /\ (ucount is_send evs <= 1)%nat /\ (ucount is_new evs <= 1)%nat /\
  (ucount is_report evs = 1%nat <-> alookup N.eqb ca (u_nat st') <> None) /\
  (forall s code cb pb, In (UReport s code cb pb) evs -> cb = zlen pkt /\
      (exists a, alookup N.eqb ca (u_nat st') = Some a /\ s = as_sock a) /\
      (code = us_ok <-> ucount is_send evs = 1%nat) /\
      (forall s' d p pl, In (USend s' d p pl) evs -> pb = zlen pl /\ s' = s)) /\
  (ucount is_new evs = 1%nat <-> alookup N.eqb ca (u_nat st) = None /\ alookup N.eqb ca (u_nat st') <> None).
Proof. exact (udp_report_shape_lemma e ue st ca cip pkt). Qed.
Print Assumptions udp_report_shape.

(* each target datagram relayed: reported with the body size received and the wire size sent *)
Theorem udp_target_report e st sock src port body salt sid e' ca dgram stc tb cb :
  lookupN sid (seals e) = None ->
  udp_reply e st sock src port body salt sid = (e', Ok (ReplySent ca dgram stc tb cb)) ->
  tb = zlen body /\ cb = zlen dgram.
Proof.
  exact (fun F H => match udp_reply_roundtrip_lemma e st sock src port body salt sid e' ca dgram stc tb cb F H with
                    | ex_intro _ _ (ex_intro _ _ (conj _ (conj _ (conj _ (conj _ (conj _ (conj _ R))))))) => R end).
Qed.
Print Assumptions udp_target_report.

(* added once, removed once *)
Theorem udp_add_remove_paired ops s :
  let '(live, log) := lrun ops in
  lcount (is_remove s) log = lcount (is_close s) log /\
  (In s live -> lcount (is_add s) log = S (lcount (is_remove s) log)) /\
  (~ In s live -> lcount (is_add s) log = lcount (is_remove s) log).
Proof. exact (removed_exactly_once_lemma ops s). Qed.
Print Assumptions udp_add_remove_paired.

Definition udp_vocabulary : list String.string :=
  ["OK"; "ERR_CIPHER"; "ERR_READ_ADDRESS"; "ERR_RESOLVE_ADDRESS"; "ERR_ADDRESS_INVALID"; "ERR_ADDRESS_PRIVATE";
   "ERR_CREATE_SOCKET"; "ERR_READ"; "ERR_WRITE"; "ERR_PACK"]%string.
Definition udp_funcs : list String.string := ["Handle"; "validatePacket"; "timedCopy"]%string.
Theorem udp_status_vocabulary :
  forallb (fun fs => negb (existsb (String.eqb (fst fs)) udp_funcs) || existsb (String.eqb (snd fs)) udp_vocabulary)
          Gen.Status.statuses = true.
Proof. exact eq_refl. Qed.
Print Assumptions udp_status_vocabulary.

(* a datagram whose send the kernel refuses still creates its association and is reported on it
   once, as a failure with 0 payload bytes *)
Theorem udp_send_failure_reported e ue st ca cip pkt ent pt payload dst port :
  alookup N.eqb ca (u_nat st) = None ->
  In ent (items (u_cl st)) -> unpack e (e_key ent) pkt = Some pt ->
  (forall k' pt', unpack e k' pkt = Some pt' -> pt' = pt) ->
  validate_packet ue pt = inl (payload, dst, port) ->
  ue_sendable ue dst port = false ->
  exists st' id, udp_client_step e ue st ca cip pkt =
    (st', [UNew ca (u_next st) id; UReport (u_next st) us_write (zlen pkt) 0])
    /\ alookup N.eqb ca (u_nat st') <> None.
Proof. exact (udp_send_failure_lemma e ue st ca cip pkt ent pt payload dst port). Qed.
Print Assumptions udp_send_failure_reported.

(* ---- the Prometheus collectors (prometheus/metrics.go), model theories/Collector.v ------------- *)
From OSS Require Import theories.Collector theories.CollectorProofs.

(* every gathered counter is the sum, over the whole call log, of what each call adds to it *)
Theorem collector_total calls q : value (vals (crun calls)) q = total_from cinit0 calls q.
Proof. exact (collector_total_lemma calls q). Qed.
Print Assumptions collector_total.

(* gathered data_bytes{proto="udp"} per key and direction = the positive byte counts of the reports
   made on the associations that were added with that key (c>p / p>t from AddPacketFromClient,
   p<t / c<p from AddPacketFromTarget); no other call, and no report of another key, contributes *)
Theorem gathered_udp_bytes calls k fromclient first :
  value (vals (crun calls)) (data "udp" (udir fromclient first) k) =
  sum_reports k fromclient first (ureports [] calls).
Proof. exact (gathered_udp_bytes_lemma calls k fromclient first). Qed.
Print Assumptions gathered_udp_bytes.

(* nat_entries_added / nat_entries_removed count the AddUDPNatEntry / RemoveNatEntry calls, so their
   difference is the number of live associations *)
Theorem gathered_nat_entries calls :
  value (vals (crun calls)) ["udp_nat_entries_added"%string] = zcount is_uadd calls /\
  value (vals (crun calls)) ["udp_nat_entries_removed"%string] = zcount is_uremove calls.
Proof. exact (nat_entries_lemma calls). Qed.
Print Assumptions gathered_nat_entries.
