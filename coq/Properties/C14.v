(* C14 — UDP associations live as long as promised and are always reclaimed. *)
From OSS Require Import theories.Base theories.NatTimer theories.NatTimerProofs.
Open Scope Z_scope.

Theorem deadline_monotone T ops t : rd t <= rd (fold_left (tstep T) ops t).
Proof. exact (deadline_monotone_lemma T ops t). Qed.
Print Assumptions deadline_monotone.

(* after a client datagram at [now]: promised until now + T (non-DNS) / now + 17 s (DNS), and the
   socket's deadline is at least that unless a DNS fast close is in force *)
Theorem deadline_promise T t now d :
  tinv t ->
  let t' := on_write T t now d in
  now + (if d then dns_timeout else T) <= rd t' /\ (fast_closed t' = false -> now + (if d then dns_timeout else T) <= sock_dl t').
Proof. exact (deadline_promise_lemma T t now d). Qed.
Print Assumptions deadline_promise.

Theorem socket_deadline_is_the_promise T ops : tinv (trun T ops).
Proof. exact (tinv_run T ops). Qed.
Print Assumptions socket_deadline_is_the_promise.

(* the latch is armed exactly while nothing was read and the only write, if any, was one DNS query *)
Theorem latch_armed_iff T ops :
  0 <= T -> (forall o, In o ops -> 0 < op_time o) ->
  spent (trun T ops) = false <-> reads_of ops = 0%nat /\ (writes_of ops = [] \/ writes_of ops = [true]).
Proof. exact (spent_iff T ops). Qed.
Print Assumptions latch_armed_iff.

(* ... and a read closes fast (socket deadline := now) exactly when the latch is armed and the
   datagram comes from a DNS server *)
Theorem fast_close_iff t now d :
  fast_closed t = false ->
  (fast_closed (on_read t now d) = true <-> spent t = false /\ d = true) /\
  (fast_closed (on_read t now d) = true -> sock_dl (on_read t now d) = now).
Proof. exact (fast_close_iff_lemma t now d). Qed.
Print Assumptions fast_close_iff.

Theorem removed_exactly_once ops s :
  let '(live, log) := lrun ops in
  lcount (is_remove s) log = lcount (is_close s) log /\
  (In s live -> lcount (is_add s) log = S (lcount (is_remove s) log)) /\
  (~ In s live -> lcount (is_add s) log = lcount (is_remove s) log).
Proof. exact (removed_exactly_once_lemma ops s). Qed.
Print Assumptions removed_exactly_once.

Theorem shutdown_expires_all ops :
  fst (lrun (ops ++ [LShutdown])) = [] /\
  forall s, lcount (is_add s) (snd (lrun (ops ++ [LShutdown]))) = lcount (is_close s) (snd (lrun (ops ++ [LShutdown]))).
Proof. exact (shutdown_expires_all_lemma ops). Qed.
Print Assumptions shutdown_expires_all.

(* the DNS timeout of the current source is the RFC 5452 value the property names *)
Theorem dns_timeout_is_17s : dns_timeout = 17 * 1000000000.
Proof. exact eq_refl. Qed.
Print Assumptions dns_timeout_is_17s.

(* "the configured timeout" is the one given to every service: each NewShadowsocksService call of
   the server gets WithNatTimeout(s.natTimeout) — services and legacy ports alike (regenerated from
   main.go on every run) *)
From OSS Require Gen.Consts.
From Coq Require String.
Import String.StringSyntax.
Delimit Scope string_scope with string.
Theorem configured_timeout_reaches_every_service :
  Gen.Consts.nat_timeout_args = ["s.natTimeout"; "s.natTimeout"]%string /\
  List.length Gen.Consts.nat_timeout_args = Gen.Consts.new_service_calls.
Proof. split; reflexivity. Qed.
Print Assumptions configured_timeout_reaches_every_service.
