(* C06 — unauthenticated TCP input is absorbed silently until the timeout. *)
From OSS Require Import theories.Base theories.Crypto theories.CipherList theories.Replay theories.TcpAuth.
From OSS Require Import theories.TcpAuthProofs theories.SsStream theories.TcpConn theories.TcpConnProofs.

(* whenever authentication fails (any bytes, length, key list, cache setting): nothing written,
   no target contacted, every byte read and reported, close only at client close or at the deadline *)
Theorem probe_silent e st ci st' s id :
  authenticate e st (ci_ip ci) (ci_bytes ci) = (st', Ok (AuthErr s id)) ->
  exists evs, handle e st ci = (st', Ok evs) /\
    count is_write_or_dial evs = 0%nat /\
    evs = [EProbe (status_code s) (if ci_fin ci then DrainEof else DrainTimeout) (zlen (ci_bytes ci));
           EClosed (status_code s) (zlen (ci_bytes ci)) 0 0;
           EClose (if ci_fin ci then AtClientFin else AtDeadline)].
Proof. exact (probe_silent_lemma e st ci st' s id). Qed.
Print Assumptions probe_silent.

(* same close time whatever the content, the length or the reason of the refusal (replays are
   handled exactly like invalid probes) *)
Theorem probe_deadline_uniform e1 st1 ci1 st1' s1 id1 e2 st2 ci2 st2' s2 id2 evs1 evs2 :
  authenticate e1 st1 (ci_ip ci1) (ci_bytes ci1) = (st1', Ok (AuthErr s1 id1)) ->
  authenticate e2 st2 (ci_ip ci2) (ci_bytes ci2) = (st2', Ok (AuthErr s2 id2)) ->
  ci_fin ci1 = ci_fin ci2 ->
  snd (handle e1 st1 ci1) = Ok evs1 -> snd (handle e2 st2 ci2) = Ok evs2 ->
  last evs1 (EClose AtOnce) = last evs2 (EClose AtOnce).
Proof. exact (probe_deadline_uniform_lemma e1 st1 ci1 st1' s1 id1 e2 st2 ci2 st2' s2 id2 evs1 evs2). Qed.
Print Assumptions probe_deadline_uniform.

(* fewer than 50 bytes: the server keeps waiting for the header, then treats it as a probe *)
Theorem short_probe_waits e st ip input :
  (length input < bytes_for_key_finding)%nat -> authenticate e st ip input = (st, Ok (AuthErr ErrCipher [])).
Proof. exact (short_probe_lemma e st ip input). Qed.
Print Assumptions short_probe_waits.

(* after authentication: an unparsable address header or a chunk failing authentication is
   drained; the server closes only after the client has (a client that aborted its connection with
   a reset has closed already) *)
Theorem post_auth_invalid_drains e ci k evs code c w :
  after_auth e ci k = (evs, code, c, w) -> ci_client_reset ci = false ->
  code = st_read_address \/ code = st_relay_client -> w = AtClientFin.
Proof. exact (post_auth_invalid_drains_lemma e ci k evs code c w). Qed.
Print Assumptions post_auth_invalid_drains.

Theorem writes_only_if_authenticated e st ci st' evs :
  handle e st ci = (st', Ok evs) -> (count is_write_or_dial evs > 0)%nat -> count is_auth evs = 1%nat.
Proof. exact (writes_only_if_authenticated_lemma e st ci st' evs). Qed.
Print Assumptions writes_only_if_authenticated.
