(* C13 — listener management never deadlocks.
   Generic theorems (any number of threads, any schedule) + the instance obligation over
   the lock paths regenerated from service/listeners.go and main.go on every run. *)
From OSS Require Import theories.Base theories.LockOrder theories.LockOrderProofs.
From OSS Require Gen.LockProg.

(* Under the rank discipline no reachable state is stuck while a call is unfinished ... *)
Theorem lock_order_deadlock_free rank st :
  inv rank st -> (exists t, In t st /\ ~ finished t) -> exists st', step st st'.
Proof. exact (progress rank st). Qed.
Print Assumptions lock_order_deadlock_free.

(* ... the discipline is preserved by every step of every thread ... *)
Theorem discipline_invariant rank st st' : inv rank st -> exec st st' -> inv rank st'.
Proof. exact (inv_exec rank st st'). Qed.
Print Assumptions discipline_invariant.

(* ... hence every call returns: an execution can only stop when all threads have finished,
   and it stops after at most [remaining st] steps. *)
Theorem all_calls_return rank st st' :
  inv rank st -> exec st st' -> (forall st'', ~ step st' st'') -> Forall finished st'.
Proof. exact (all_calls_return_lemma rank st st'). Qed.
Print Assumptions all_calls_return.

Theorem executions_bounded st st' : exec st st' -> remaining st' <= remaining st.
Proof. exact (exec_bounded st st'). Qed.
Print Assumptions executions_bounded.

(* class-level paths cover every choice of lock instances (one shared listener per address) *)
Theorem discipline_covers_instances (rank rank' : nat -> nat) (f : nat -> nat) h p :
  (forall a b, f a = f b -> a = b) -> (forall x, rank' (f x) = rank x) ->
  ok rank h p -> ok rank' (map f h) (map (map_instr f) p).
Proof. exact (ok_instances rank rank' f h p). Qed.
Print Assumptions discipline_covers_instances.

Theorem checker_sound rank h p : okb rank h p = true -> ok rank h p.
Proof. exact (okb_ok rank h p). Qed.
Print Assumptions checker_sound.

(* Instance, recomputed against the current source: every lock class is ranked, every callee on
   a lock path is known to be lock-free, and every control-flow path of every entry point
   (ListenStream/ListenPacket, both virtual Close/Accept/Read, the background goroutines, the
   listenerSet) respects the rank listenerSet < virtual handle < manager < shared listener —
   PARTIAL: except the one known inversion (manager.mu taken while a shared listener's mu is held
   in the last-Close path; Findings/C13.v refutes the full statement). *)
Theorem listeners_rank_respected_partial :
  classes_known Gen.LockProg.lock_classes = true /\
  callees_known Gen.LockProg.unresolved_calls = true /\
  forallb (fun p => okb_except (rank_in Gen.LockProg.lock_classes)
                               (known_inversion Gen.LockProg.lock_classes) [] (snd p))
          Gen.LockProg.lock_paths = true.
Proof. exact (conj eq_refl (conj eq_refl eq_refl)). Qed.
Print Assumptions listeners_rank_respected_partial.

(* no lock is held across a blocking operation: on every control-flow path of every entry point
   and background goroutine (callees inlined), no channel send or receive, no select without a
   default and no WaitGroup wait happens while a lock of these classes is held (recomputed
   against the current source). This is the premise of the LTS: a thread blocks only on locks. *)
Theorem no_blocking_under_lock : Gen.LockProg.blocking_under_lock = [].
Proof. reflexivity. Qed.
Print Assumptions no_blocking_under_lock.
