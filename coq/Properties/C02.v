(* C02 — TCP relay delivers both byte streams intact, in order, with half-close. *)
From OSS Require Import theories.Base theories.IPClass theories.Socks theories.SocksProofs theories.Crypto.
From OSS Require Import theories.CipherList theories.Replay theories.TcpAuth theories.SsStream theories.SsStreamProofs.
From OSS Require Import theories.Relay theories.RelayProofs theories.TcpConn theories.TcpConnProofs.

(* codec: for every list of chunk payloads (any count, each 0..16383 bytes, so every client
   chunking of every payload) decoding the honest stream returns exactly the plaintext *)
Theorem decode_encode_any_chunking e idb k salt chunks :
  length salt = salt_size (k_cipher k) ->
  Forall (fun c => (N.of_nat (length c) <= size_mask)%N) chunks ->
  (forall id, (idb <= id)%N -> lookupN id (seals e) = None) ->
  let '(e', w) := encode_stream e idb k salt chunks in
  decode_stream e' k w = (concat chunks, DEof).
Proof. exact (decode_encode_lemma e idb k salt chunks). Qed.
Print Assumptions decode_encode_any_chunking.

(* the 50-byte key-finding prefetch hands the decoder the identical byte sequence *)
Theorem prefetch_transparent (n : nat) (ws : list wbyte) : firstn n ws ++ skipn n ws = ws.
Proof. exact (prefetch_transparent_lemma n ws). Qed.
Print Assumptions prefetch_transparent.

(* the first plaintext bytes parse as one address (types 1, 3, 4); everything after, including
   data coalesced into the first chunk, is payload *)
Theorem address_then_payload a payload :
  (match sa_host a with HostDomain d => (length d < 256)%nat | _ => True end) ->
  atyp_v4 <> atyp_dom -> atyp_v6 <> atyp_dom -> atyp_v6 <> atyp_v4 ->
  split_addr (encode_addr a ++ payload) = Some (encode_addr a, payload) /\
  read_addr (encode_addr a ++ payload) = RAddr (encode_addr a) payload.
Proof. exact (split_encode_lemma a payload). Qed.
Print Assumptions address_then_payload.

(* ANY interleaving of client writes, target writes, half-closes and the two copy loops: what a
   destination has received is a prefix of what its source sent; the rest is in flight, in order *)
Theorem relay_prefix_invariant tr r :
  rrun relay0 tr = Some r ->
  d_sent (up r) = d_dst (up r) ++ d_buf (up r) ++ d_src (up r) /\
  d_sent (down r) = d_dst (down r) ++ d_buf (down r) ++ d_src (down r).
Proof. exact (relay_prefix_invariant_lemma tr r). Qed.
Print Assumptions relay_prefix_invariant.

Theorem fin_after_data tr r :
  rrun relay0 tr = Some r ->
  (d_fin_sent (up r) = true -> d_dst (up r) = d_sent (up r) /\ d_src_fin (up r) = true) /\
  (d_fin_sent (down r) = true -> d_dst (down r) = d_sent (down r) /\ d_src_fin (down r) = true).
Proof. exact (fin_after_data_lemma tr r). Qed.
Print Assumptions fin_after_data.

Theorem relay_complete tr r :
  rrun relay0 tr = Some r ->
  (d_eof_seen (up r) = true -> d_dst (up r) = d_sent (up r)) /\
  (d_eof_seen (down r) = true -> d_dst (down r) = d_sent (down r)).
Proof. exact (relay_complete_lemma tr r). Qed.
Print Assumptions relay_complete.

(* a step of one direction (its half-close included) neither disables nor alters the other *)
Theorem half_close_independent r x y :
  match rstep r (Up x), rstep r (Down y) with
  | Some r1, Some r2 => rstep r1 (Down y) = rstep r2 (Up x) /\ rstep r1 (Down y) <> None
  | _, _ => True
  end.
Proof. exact (steps_commute_lemma r x y). Qed.
Print Assumptions half_close_independent.

(* end to end through the handler *)
Theorem handle_honest_relay e st ci st' id el salt a payload i :
  authenticate e st (ci_ip ci) (ci_bytes ci) = (st', Ok (AuthOk id el salt)) ->
  decode_stream e (e_key (snd el)) (ci_bytes ci) = (encode_addr a ++ payload, DEof) ->
  (match sa_host a with HostDomain d => (length d < 256)%nat | _ => True end) ->
  decode_addr (encode_addr a) = Some a ->
  dial ci a = inl i ->
  handle e st ci = (st', Ok [EAuth id; EDial a i; EToTarget payload; ETargetFin; EToClient (ci_target_out ci);
                            EClosed (if ci_client_reset ci then st_relay_client else if ci_target_reset ci then st_relay_target else st_ok)
                                    (zlen (ci_bytes ci)) (zlen payload) (zlen (ci_target_out ci)); EClose AfterRelay]).
Proof. exact (handle_honest_relay_lemma e st ci st' id el salt a payload i). Qed.
Print Assumptions handle_honest_relay.
