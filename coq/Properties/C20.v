(* C20 — metrics never expose client addresses and label locations by class.
   Only statements; proofs are [exact] of lemmas in theories/. *)
From OSS Require Import theories.Base theories.IPClass theories.IpInfo theories.IpInfoProofs.
From OSS Require Import theories.Labels theories.TunnelTime theories.TunnelTimeProofs.
From OSS Require Gen.Labels Gen.Consts.
From Coq Require Import String.

(* the location label is decided by the address class alone; six exhaustive, exclusive cases *)
Theorem location_label_table enabled db a :
  a <> AIP BadIP ->
  let lab := fst (info_from_addr enabled db a) in
  (parsable a = false -> lab = cc_XA) /\
  (parsable a = true -> enabled = false -> lab = []) /\
  (parsable a = true -> enabled = true -> is_global_unicast (addr_ip a) = false -> lab = cc_XL) /\
  (parsable a = true -> enabled = true -> is_global_unicast (addr_ip a) = true ->
     forall p, db (addr_ip a) = DbErr p -> lab = cc_XD) /\
  (parsable a = true -> enabled = true -> is_global_unicast (addr_ip a) = true ->
     db (addr_ip a) = DbOk [] -> lab = cc_ZZ) /\
  (forall c, parsable a = true -> enabled = true -> is_global_unicast (addr_ip a) = true ->
     db (addr_ip a) = DbOk c -> c <> [] -> lab = c).
Proof. exact (location_label_table_lemma enabled db a). Qed.
Print Assumptions location_label_table.

Theorem location_cases_exhaustive enabled db a :
  parsable a = false \/
  (parsable a = true /\ enabled = false) \/
  (parsable a = true /\ enabled = true /\ is_global_unicast (addr_ip a) = false) \/
  (parsable a = true /\ enabled = true /\ is_global_unicast (addr_ip a) = true /\ exists p, db (addr_ip a) = DbErr p) \/
  (parsable a = true /\ enabled = true /\ is_global_unicast (addr_ip a) = true /\ db (addr_ip a) = DbOk []) \/
  (exists c, parsable a = true /\ enabled = true /\ is_global_unicast (addr_ip a) = true /\ db (addr_ip a) = DbOk c /\ c <> []).
Proof. exact (cases_exhaustive_lemma enabled db a). Qed.
Print Assumptions location_cases_exhaustive.

(* the database is consulted exactly for parsable global-unicast addresses with lookup enabled *)
Theorem db_consulted_iff_global enabled db a :
  snd (info_from_addr enabled db a) = true <->
  enabled = true /\ parsable a = true /\ is_global_unicast (addr_ip a) = true.
Proof. exact (db_consulted_iff_global_lemma enabled db a). Qed.
Print Assumptions db_consulted_iff_global.

Theorem country_codes :
  cc_XA = [88;65]%N /\ cc_XL = [88;76]%N /\ cc_XD = [88;68]%N /\ cc_ZZ = [90;90]%N.
Proof. exact country_codes_lemma. Qed.
Print Assumptions country_codes.

(* every metric vector of the current source uses only the allowed label names, and every
   label value expression (and every internal call-site argument that becomes one) is one of:
   key id, country, ASN, AS organisation, status, found flag, drain result, the server's own
   listening address, version, protocol, or a string literal — never anything else *)
Theorem labels_schema_closed :
  forallb schema_ok Gen.Labels.label_schemas = true /\
  forallb values_ok Gen.Labels.label_values = true /\
  forallb (fun f => safe_expr (snd f)) Gen.Labels.label_flows = true.
Proof. exact (conj eq_refl (conj eq_refl eq_refl)). Qed.
Print Assumptions labels_schema_closed.

(* tunnel-time output is invariant under any injective renaming of client IPs that
   preserves their location: the IP influences output only through distinctness and location *)
Theorem metrics_noninterference rho (locf : N -> N) h :
  (forall a b, rho a = rho b -> a = b) ->
  (forall ip, locf (rho ip) = locf ip) ->
  (forall key, reported_key (fst (run (map (rev rho) h))) key = reported_key (fst (run h)) key) /\
  (forall loc, reported_loc locf (fst (run (map (rev rho) h))) loc = reported_loc locf (fst (run h)) loc).
Proof. exact (fun Hinj => noninterference_lemma rho Hinj locf h). Qed.
Print Assumptions metrics_noninterference.

(* the strings the service layer hands to the metrics interface (where they become label values)
   are the fixed vocabulary: the drain result of a probe is one of three words, and every
   metrics call passes a status variable (whose values are the literal statuses of
   Gen.Status.statuses, C15/C16), an access-key ID, counters and durations — never an error text
   or an address (regenerated from service/tcp.go and service/udp.go on every run) *)
From OSS Require Gen.Status.
Theorem service_label_sources :
  Gen.Status.drain_results = ["eof"; "timeout"; "other"]%string /\
  Gen.Status.metric_call_args =
    [("AddAuthenticated", "id"); ("AddCipherSearch", "err == nil | timeToCipher"); ("AddCipherSearch", "err == nil | timeToCipher");
     ("AddCipherSearch", "keyErr == nil | timeToCipher"); ("AddClosed", "status | proxyMetrics | connDuration");
     ("AddPacketFromClient", "status | int64(clientProxyBytes) | int64(proxyTargetBytes)");
     ("AddPacketFromTarget", "status | int64(bodyLen) | int64(proxyClientBytes)");
     ("AddProbe", "status | drainResult | proxyMetrics.ClientProxy"); ("AddUDPNatEntry", "clientAddr | keyID")]%string.
Proof. split; reflexivity. Qed.
Print Assumptions service_label_sources.
