(* C11 — reload never interrupts service on retained listeners. Config.v models the hand-over
   (acquire all new handles, then release the old ones); Listeners.v models one shared socket
   with the handles of both generations. *)
From OSS Require Import theories.Base theories.AList theories.Config theories.ConfigProofs
  theories.Listeners theories.ListenersProofs.
From Coq Require Import Permutation.

(* an address of both the old and the new configuration has a positive handle count at EVERY
   intermediate point of a successful reload, so its socket stays bound the whole time *)
Theorem retained_socket_never_closed os s c s' inter x old tb0 :
  serving s = Some (old, tb0) -> load os s (FConfig c) = (s', None, inter) ->
  0 < ref_of (refs s) x -> count_in x old <= ref_of (refs s) x ->
  (forall got t, serving s' = Some (got, t) -> 0 < count_in x got) ->
  Forall (fun r => 0 < ref_of r x) inter.
Proof. exact (retained_socket_never_closed_lemma os s c s' inter x old tb0). Qed.
Print Assumptions retained_socket_never_closed.

(* a failed reload leaves every handle count as it was (so nothing is interrupted either) *)
Theorem failed_reload_keeps_listeners os s f s' e inter x :
  load os s f = (s', Some e, inter) -> ref_of (refs s') x = ref_of (refs s) x.
Proof. intros H. exact (proj2 (failed_reload_noop_lemma os s f s' e inter H) x). Qed.
Print Assumptions failed_reload_keeps_listeners.

(* while the handles of two generations share the socket, for every interleaving each connection
   that arrived is in exactly one place and is delivered to at most one handle: exactly one
   generation handles it; and the socket is open exactly while some handle is *)
Theorem exactly_one_generation tr s :
  run sl0 tr = Some s ->
  Permutation (kq s ++ held s ++ map snd (delivered s) ++ srv_closed s) (arrived s) /\
  NoDup (kq s ++ held s ++ map snd (delivered s) ++ srv_closed s) /\
  NoDup (map snd (delivered s)).
Proof. exact (exactly_one_place_lemma tr s). Qed.
Print Assumptions exactly_one_generation.

Theorem socket_open_while_any_handle tr s :
  run sl0 tr = Some s -> (0 < open_handles s <-> sock s = Open) /\ count s = open_handles s.
Proof. exact (open_while_handle_open_lemma tr s). Qed.
Print Assumptions socket_open_while_any_handle.

(* a key of both configurations authenticates whichever generation gets the connection: on a
   retained listener both tables attribute it to an ID *)
Theorem retained_key_always_authenticates b1 b2 c1 c2 got1 t1 got2 t2 s1 s2 l cipher secret :
  start b1 c1 = (got1, Some t1, None) -> start b2 c2 = (got2, Some t2, None) ->
  In s1 (services c1) -> In l (s_listeners s1) -> In s2 (services c2) -> In l (s_listeners s2) ->
  (exists k, In k (s_keys s1) /\ kc_cipher k = cipher /\ kc_secret k = secret) ->
  (exists k, In k (s_keys s2) /\ kc_cipher k = cipher /\ kc_secret k = secret) ->
  auth_on t1 (l_type l, l_addr l) cipher secret <> None /\ auth_on t2 (l_type l, l_addr l) cipher secret <> None.
Proof. exact (retained_key_lemma b1 b2 c1 c2 got1 t1 got2 t2 s1 s2 l cipher secret). Qed.
Print Assumptions retained_key_always_authenticates.
