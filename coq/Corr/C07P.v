(* Correspondence checker for C07, process level: handshakes presented to the listeners of several
   services and configuration generations of one real server process (through the package-main
   driver); every service must behave as if checking one shared cache. *)
From OSS Require Export theories.Base theories.Replay.

(* placement (service/generation tag), key id as attributed by the serving service, salt seed *)
Record pcase := PC { p_cap : Z; p_ops : list (N * bytes * N); p_obs : list bool }.

Definition salt_of (seed : N) : bytes := gb 32 seed.
Definition check_case (c : pcase) : bool :=
  list_eqb Bool.eqb
    (snd (prun (fun _ => 0%nat) (fun _ => empty_cache (p_cap c))
               (map (fun o => (N.to_nat (fst (fst o)), lower (HAdd (snd (fst o)) (salt_of (snd o))))) (p_ops c))))
    (p_obs c).
Definition mismatches (cs : list pcase) : list nat :=
  map fst (filter (fun ic => negb (check_case (snd ic))) (combine (seq 0 (length cs)) cs)).
