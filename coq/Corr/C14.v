(* Correspondence checker for C14: socket read deadlines of one association as the real natconn
   sets them on a recording PacketConn, against the timer model, within a tolerance (the
   implementation reads the clock a little after the harness does). *)
From OSS Require Export theories.Base theories.NatTimer.
Open Scope Z_scope.

(* after each op: the deadline currently set on the socket (0 = never set), relative ns *)
(* each observation comes with its own tolerance: 5 ms plus the longest time any call so far took
   between the harness reading the clock before it and after it (the implementation reads the
   clock somewhere in between; on a busy machine that window can be long) *)
Record case := { c_T : Z; c_ops : list top; c_obs : list (Z * Z) }.

Fixpoint run (T : Z) (t : timer) (ops : list top) : list Z :=
  match ops with
  | [] => []
  | o :: r => let t' := tstep T t o in sock_dl t' :: run T t' r
  end.
Definition close (a : Z) (bt : Z * Z) : bool :=
  let '(b, tol) := bt in if (a =? 0) || (b =? 0) then a =? b else Z.abs (a - b) <=? tol.
Fixpoint all_close (ms : list Z) (os : list (Z * Z)) : bool :=
  match ms, os with
  | [], [] => true
  | m :: mr, o :: or => close m o && all_close mr or
  | _, _ => false
  end.
Definition check_case (c : case) : bool := all_close (run (c_T c) timer0 (c_ops c)) (c_obs c).
Definition model_obs (c : case) := run (c_T c) timer0 (c_ops c).

Fixpoint mismatches_from (i : nat) (cs : list case) : list nat :=
  match cs with
  | [] => []
  | c :: r => if check_case c then mismatches_from (S i) r else i :: mismatches_from (S i) r
  end.
Definition mismatches := mismatches_from 0.
