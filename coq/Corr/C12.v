(* Correspondence checker for C12: trace inclusion. The harness logs what it did and saw on the
   real ListenerManager (acquire, dial, accept call, accept result, close); the observed trace
   must be accepted by the LTS with the accept goroutine's internal steps (GAccept, GSeesClosed,
   GOrphan) interleaved anywhere — a subset construction over the reachable states. *)
From OSS Require Export theories.Base theories.Listeners.

Inductive obs :=
| OAcquire (h : N) | OArrive (c : N) | OAcceptCall (h : N)
| ODeliver (h c : N)          (* AcceptStream on h returned connection c *)
| ORetClosed (h : N)          (* a pending AcceptStream on h returned ErrClosed *)
| OFailNow (h : N)            (* AcceptStream on the closed handle h returned ErrClosed at once *)
| OClose (h : N)
| OFailAcquire.               (* an acquisition that failed at bind: the address was held by another socket *)
Record case := { c_trace : list obs; c_final_closed : list N }.   (* connections the server closed without delivering *)

Definition gst_eqb (a b : gst) : bool :=
  match a, b with
  | GNone, GNone | GAccepting, GAccepting | GExited, GExited => true
  | GHolding x, GHolding y => N.eqb x y | _, _ => false end.
Definition sock_eqb (a b : sockst) : bool :=
  match a, b with Unbound, Unbound | Open, Open | Closed, Closed => true | _, _ => false end.
Definition hst_eqb (a b : hst) : bool := Bool.eqb (h_closed a) (h_closed b) && Bool.eqb (h_pending a) (h_pending b).
Definition sl_eqb (a b : sl) : bool :=
  sock_eqb (sock a) (sock b) && list_eqb N.eqb (kq a) (kq b) && gst_eqb (g a) (g b)
  && Bool.eqb (ch_closed a) (ch_closed b) && Bool.eqb (done a) (done b) && Nat.eqb (count a) (count b)
  && list_eqb N.eqb (handles a) (handles b)
  && list_eqb hst_eqb (map (hstate a) (handles a)) (map (hstate b) (handles b))
  && list_eqb (fun x y => N.eqb (fst x) (fst y) && N.eqb (snd x) (snd y)) (delivered a) (delivered b)
  && list_eqb N.eqb (srv_closed a) (srv_closed b).

Definition add_state (s : sl) (l : list sl) : list sl := if existsb (sl_eqb s) l then l else l ++ [s].
(* closure under the accept goroutine's internal steps *)
Fixpoint tau_close (fuel : nat) (l : list sl) : list sl :=
  match fuel with
  | O => l
  | S f =>
      let next := flat_map (fun s => flat_map (fun t => match step s t with Some s' => [s'] | None => [] end)
                                              [GAccept; GSeesClosed; GOrphan]) l in
      let l' := fold_left (fun acc s => add_state s acc) next l in
      if Nat.eqb (length l') (length l) then l else tau_close f l'
  end.

Definition visible (o : obs) (s : sl) : list sl :=
  let st l := match step s l with Some s' => [s'] | None => [] end in
  match o with
  | OAcquire h => st (Acquire h)
  | OArrive c => st (Arrive c)
  | OAcceptCall h => st (AcceptCall h)
  | ODeliver h c => match g s with GHolding c' => if N.eqb c c' then st (Deliver h) else [] | _ => [] end
  | ORetClosed h => st (AcceptRetClosed h)
  | OFailNow h => if existsb (N.eqb h) (handles s) && h_closed (hstate s h) && negb (h_pending (hstate s h)) then [s] else []
  | OFailAcquire => match sock s with Open => [] | _ => [s] end   (* only an unbound address can be taken; nothing changes *)
  | OClose h => if existsb (N.eqb h) (handles s) && h_closed (hstate s h) then [s] else st (CloseH h)   (* Close is idempotent *)
  end.

Fixpoint accept_trace (l : list sl) (tr : list obs) : list sl :=
  match tr with
  | [] => l
  | o :: r =>
      let l1 := flat_map (visible o) l in
      let l2 := fold_left (fun acc s => add_state s acc) l1 [] in
      accept_trace (tau_close 4 l2) r
  end.

(* accepted iff some run explains the trace and ends with exactly the observed server-closed set *)
Definition same_set (a b : list N) : bool :=
  forallb (fun x => existsb (N.eqb x) b) a && forallb (fun x => existsb (N.eqb x) a) b.
Definition check_case (c : case) : bool :=
  existsb (fun s => same_set (srv_closed s ++ kq s ++ held s) (c_final_closed c)) (accept_trace (tau_close 4 [sl0]) (c_trace c)).

Fixpoint mismatches_from (i : nat) (cs : list case) : list nat :=
  match cs with
  | [] => []
  | c :: r => if check_case c then mismatches_from (S i) r else i :: mismatches_from (S i) r
  end.
Definition mismatches := mismatches_from 0.
