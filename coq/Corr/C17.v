(* Correspondence checker for C17: gathered tunnel_time counters after every scrape. *)
From OSS Require Export theories.Base theories.AList theories.TunnelTime.
Open Scope Z_scope.

(* observation at each Scrape: per-key seconds for key ids 0..nkeys-1 and per-location
   seconds for location ids 0..nlocs-1 (absent series = 0) *)
Record case := { c_h : list cev; c_nkeys : N; c_nlocs : N; c_obs : list (list Z * list Z) }.

(* location of a client IP id as installed by the harness' fake IPInfoMap *)
(* clients whose id is 3 mod 7 hit a database error: location "XD", the extra bucket [nlocs] *)
Definition locf (nlocs : N) (ip : N) : N := (if ip mod 7 =? 3 then nlocs else ip mod nlocs)%N.

Fixpoint upto (n : nat) : list N := match n with O => [] | S k => upto k ++ [N.of_nat k] end.

Definition snapshot (nk nl : N) (s : tt) : list Z * list Z :=
  (map (reported_key s) (upto (N.to_nat nk)), map (reported_loc (locf nl) s) (upto (S (N.to_nat nl)))).

Fixpoint observe (nk nl : N) (cs : cstate) (st : tt * Z) (h : list cev) : list (list Z * list Z) :=
  match h with
  | [] => []
  | e :: r =>
      let '(cs', es) := lower cs e in
      let st' := fold_left step es st in
      match e with
      | Scrape => snapshot nk nl (fst st') :: observe nk nl cs' st' r
      | _ => observe nk nl cs' st' r
      end
  end.

Definition pair_eqb (a b : list Z * list Z) : bool :=
  list_eqb Z.eqb (fst a) (fst b) && list_eqb Z.eqb (snd a) (snd b).
Definition check_case (c : case) : bool :=
  list_eqb pair_eqb (observe (c_nkeys c) (c_nlocs c) cinit (tt_init, 0) (c_h c)) (c_obs c).

Fixpoint mismatches_from (i : nat) (cs : list case) : list nat :=
  match cs with
  | [] => []
  | c :: r => if check_case c then mismatches_from (S i) r else i :: mismatches_from (S i) r
  end.
Definition mismatches := mismatches_from 0.
