(* Correspondence checker for the UDP path through the real PacketHandler on loopback sockets
   (C03, C04, C16; C05/C18 scenarios): the model replays the same datagram history and predicts,
   per datagram, whether and from which socket it is forwarded, the metric reports, and what
   each reply looks like at the client. *)
From OSS Require Export theories.Base theories.AList theories.IPClass theories.Socks theories.Crypto theories.CipherList.
From OSS Require Export theories.Udp.
Open Scope N_scope.

Definition cipher_of (n : N) : cipher := match n with 0 => Chacha | 1 => Aes256 | 2 => Aes192 | _ => Aes128 end.
Definition idb (n : N) : bytes := if n =? 100 then [] else [65 + n].
Definition mk_key (c s : N) : skey := {| k_cipher := cipher_of c; k_secret := s |}.
Definition mk_entries (cfg : list (N * N * N)) : list entry :=
  let fix go (i : N) (l : list (N * N * N)) :=
    match l with
    | [] => []
    | (id, c, s) :: r => {| e_uid := i; e_id := idb id; e_key := mk_key c s; e_last := 0 |} :: go (i + 1) r
    end in go 0 cfg.
Definition cksum (bs : bytes) : N := fold_left (fun a b => N.land (a * 31 + b + 1) 4294967295) bs 7.

Inductive dkind :=
| DHonest (c s seed : N) (akind tport : N) (plen pseed : N) (replies : list (N * N))
| DGarbage (len seed : N)
| DTrunc (c s seed n : N).       (* an honest datagram cut to n bytes *)
Inductive uop :=
| ODgram (client cip : N) (k : dkind)
| OStray (client : N) (srckind : N) (sport len seed : N)  (* a datagram to the client's NAT socket from another port of the local address of target kind [srckind] *)
| OExpireAll.                    (* idle for longer than the NAT timeout: every association expires *)

Record robs := { r_status : N; r_from : bytes; r_body : N * N; r_tb : Z; r_cb : Z }.   (* reply seen by the client + its report *)
Record dobs := {
  d_sent : option (N * (N * N));          (* forwarded: (socket index, (payload length, checksum)) *)
  d_new : option bytes;                   (* AddUDPNatEntry with this key ID *)
  d_report : option (N * Z * Z);          (* AddPacketFromClient: status, wire bytes, payload bytes *)
  d_replies : list robs;
  d_removed : N                           (* RemoveNatEntry calls observed during this op *)
}.
Record case := { c_cfg : list (N * N * N); c_validate : bool; c_ops : list uop; c_obs : list dobs }.

(* target kinds, mirrored by the harness table (netsetup.go targetKinds) *)
Definition v4 (a b c d : N) : N := a * 2^24 + b * 2^16 + c * 2^8 + d.
Definition ip_203 := v4 203 0 113 77.
Definition ip_10 := v4 10 99 0 1.
Definition pub6 : N := 8193 * 2^112 + 3512 * 2^96 + 119 * 2^80 + 1.      (* 2001:db8:77::1 *)
Definition ula6 : N := 64768 * 2^112 + 153 * 2^96 + 1.                   (* fd00:99::1 *)
Definition str (s : list N) := s.
Definition target_host (akind : N) : option host :=
  match akind with
  | 0 => Some (HostV4 (v4 127 0 0 1))
  | 1 => Some (HostV6 1)
  | 2 => Some (HostDomain [108;111;99;97;108;104;111;115;116])            (* "localhost" *)
  | 3 => Some (HostDomain [49;50;55;46;48;46;48;46;49])                    (* "127.0.0.1" *)
  | 4 => Some (HostV4 ip_203)
  | 5 => Some (HostV4 ip_10)
  | 6 => Some (HostV4 (v4 100 64 0 9))
  | 7 => Some (HostV4 (v4 192 168 99 1))
  | 8 => Some (HostV4 (v4 172 16 99 1))
  | 10 => Some (HostV4 (v4 169 254 9 9))
  | 11 => Some (HostV6 pub6)
  | 12 => Some (HostV6 ula6)
  | 13 => Some (HostV6 (65535 * 2^32 + ip_10))                               (* ::ffff:10.99.0.1 *)
  | 14 => Some (HostV6 (65535 * 2^32 + ip_203))                              (* ::ffff:203.0.113.77 *)
  | 15 => Some (HostDomain [50;48;51;46;48;46;49;49;51;46;55;55])          (* "203.0.113.77" *)
  | 16 => Some (HostDomain (map (fun i => 97 + N.of_nat i mod 26) (seq 0 255)))  (* 255 bytes: no such host *)
  | _ => None
  end.
Definition target_addr (akind port : N) : bytes :=
  match target_host akind with
  | Some h => encode_addr {| sa_host := h; sa_port := port |}
  | None =>
      match akind with
      | 17 => [1; 127; 0]                 (* truncated IPv4 *)
      | 18 => [3; 200; 97; 98]            (* truncated domain *)
      | 19 => [0; 1; 2; 3; 4; 5; 6]       (* type 0 *)
      | 20 => []                          (* nothing: with an empty payload, an empty plaintext *)
      | _ => [9; 1; 2; 3; 4; 5; 6]
      end
  end.
(* the address a reply from this target comes from (the socket the sink is bound to) *)
Definition target_ip (akind : N) : ip :=
  match akind with
  | 1 => V16 1 | 4 | 14 | 15 => V4 ip_203 | 5 | 13 => V4 ip_10 | 6 => V4 (v4 100 64 0 9) | 7 => V4 (v4 192 168 99 1)
  | 8 => V4 (v4 172 16 99 1) | 10 => V4 (v4 169 254 9 9) | 11 => V16 pub6 | 12 => V16 ula6
  | _ => V4 (v4 127 0 0 1)
  end.
(* net.ResolveUDPAddr on the domain names the harness uses *)
Definition resolve (d : bytes) : option ip :=
  if (length d =? 255)%nat then None else
  if bytes_eqb d [50;48;51;46;48;46;49;49;51;46;55;55] then Some (V4 ip_203) else Some (V4 (v4 127 0 0 1)).

(* OS oracle: the kernel refuses a UDP send to port 0 (EINVAL) *)
Definition the_uenv (validate : bool) : uenv :=
  {| ue_validate := validate; ue_resolve := resolve; ue_sendable := fun _ port => negb (port =? 0) |}.

Definition dgram_of (e : env) (i : N) (k : dkind) : env * list wbyte :=
  match k with
  | DHonest c s seed akind tport plen pseed _ =>
      let key := mk_key c s in
      let salt := raws (gb (N.of_nat (salt_size (k_cipher key))) seed) in
      let '(e', ct) := seal e (i * 1000) key salt 0 (target_addr akind tport ++ gb plen pseed) in
      (e', salt ++ ct)
  | DGarbage len seed => (e, raws (gb len seed))
  | DTrunc c s seed n =>
      let key := mk_key c s in
      let salt := raws (gb (N.of_nat (salt_size (k_cipher key))) seed) in
      let '(e', ct) := seal e (i * 1000) key salt 0 (target_addr 0 9 ++ gb 10 3) in
      (e', firstn (N.to_nat n) (salt ++ ct))
  end.

(* OS oracle: the largest UDP payload the kernel sends (IPv4: 65507, IPv6: 65527); a larger write
   fails with EMSGSIZE and is reported ERR_WRITE (12) with 0 bytes *)
Definition max_udp (v6client : bool) : Z := if v6client then 65527%Z else 65507%Z.

Definition client_is_v6 (client : N) : bool := 5 <=? client.   (* the harness' fifth client socket is on ::1, the sixth on a zoned link-local address *)

(* one datagram arriving at the association's socket [sock] from [src]:[sport] *)
Definition one_reply (e : env) (st : ustate) (v6client : bool) (sock : N) (src : ip) (sport : N) (sid : N) (saltseed : N) (len seed : N)
  : env * option robs :=
  let key := match find (fun kv => N.eqb (as_sock (snd kv)) sock) (u_nat st) with Some (_, a) => as_key a | None => mk_key 0 0 end in
  let room := Z.to_nat (buf_size - (Z.of_nat (salt_size (k_cipher key)) + max_addr_len)) in
  let body := firstn room (gb len seed) in
  let salt := raws (gb (N.of_nat (salt_size (k_cipher key))) saltseed) in
  let '(e1, res) := udp_reply e st sock src sport body salt sid in
  match res with
  | Ok (ReplySent _ dg stc tb cb) =>
      let ab := match reply_addr src sport with Some x => x | None => [] end in
      if (max_udp v6client <? cb)%Z
      then (e1, Some {| r_status := 12; r_from := []; r_body := (0, cksum []); r_tb := tb; r_cb := 0 |})
      else (e1, Some {| r_status := stc; r_from := ab; r_body := (N.of_nat (length body), cksum body); r_tb := tb; r_cb := cb |})
  | Ok (ReplyDropped stc tb) =>
      (e1, Some {| r_status := stc; r_from := []; r_body := (0, cksum []); r_tb := tb; r_cb := 0 |})
  | _ => (e1, None)
  end.

Fixpoint replies_of (e : env) (st : ustate) (v6client : bool) (sock : N) (akind tport : N) (i j : N) (rs : list (N * N)) : env * list robs :=
  match rs with
  | [] => (e, [])
  | (len, seed) :: r =>
      let key := match find (fun kv => N.eqb (as_sock (snd kv)) sock) (u_nat st) with Some (_, a) => as_key a | None => mk_key 0 0 end in
      (* ReadFrom fills at most the space after the reserved header *)
      let room := Z.to_nat (buf_size - (Z.of_nat (salt_size (k_cipher key)) + max_addr_len)) in
      let body := firstn room (gb len seed) in
      (* the salt of a reply is fresh random data: an opaque raw salt of the right length *)
      let salt := raws (gb (N.of_nat (salt_size (k_cipher key))) (i * 77 + j)) in
      let '(e1, res) := udp_reply e st sock (target_ip akind) tport body salt (i * 1000 + 1 + j) in
      let '(e2, more) := replies_of e1 st v6client sock akind tport i (j + 1) r in
      match res with
      | Ok (ReplySent _ dg stc tb cb) =>
          let ab := match reply_addr (target_ip akind) tport with Some x => x | None => [] end in
          if (max_udp v6client <? cb)%Z
          then (e2, {| r_status := 12; r_from := []; r_body := (0, cksum []); r_tb := tb; r_cb := 0 |} :: more)
          else (e2, {| r_status := stc; r_from := ab; r_body := (N.of_nat (length body), cksum body); r_tb := tb; r_cb := cb |} :: more)
      | Ok (ReplyDropped stc tb) =>
          (e2, {| r_status := stc; r_from := []; r_body := (0, cksum []); r_tb := tb; r_cb := 0 |} :: more)
      | _ => (e2, more)
      end
  end.

Definition obs_of_step (evs : list uev) : option (N * (N * N)) * option bytes * option (N * Z * Z) :=
  (fold_left (fun a x => match x with USend s _ _ pl => Some (s, (N.of_nat (length pl), cksum pl)) | _ => a end) evs None,
   fold_left (fun a x => match x with UNew _ _ id => Some id | _ => a end) evs None,
   fold_left (fun a x => match x with UReport _ st cb pb => Some (st, cb, pb) | _ => a end) evs None).

Fixpoint run_ops (e : env) (validate : bool) (st : ustate) (i : N) (ops : list uop) : list dobs :=
  match ops with
  | [] => []
  | ODgram client cip k :: r =>
      let '(e1, pkt) := dgram_of e i k in
      let '(st', evs) := udp_client_step e1 (the_uenv validate) st client cip pkt in
      let '(sent, nw, rep) := obs_of_step evs in
      let '(e2, reps) :=
        match k, sent with
        | DHonest _ _ _ akind tport _ _ rs, Some (sock, _) => replies_of e1 st' (4 <=? cip) sock akind tport i 0 rs
        | _, _ => (e1, [])
        end in
      {| d_sent := sent; d_new := nw; d_report := rep; d_replies := reps; d_removed := 0 |} :: run_ops e2 validate st' (i + 1) r
  | OStray client srckind sport len seed :: r =>
      (* a sender the client never addressed writes to the client's NAT socket: the datagram goes to
         that client (and, in the harness, to nobody else) with the sender's address in front *)
      match alookup N.eqb client (u_nat st) with
      | None => {| d_sent := None; d_new := None; d_report := None; d_replies := []; d_removed := 0 |} :: run_ops e validate st (i + 1) r
      | Some a =>
          let src := target_ip srckind in
          let '(e1, ro) := one_reply e st (client_is_v6 client) (as_sock a) src sport (i * 1000 + 1) (i * 77) len seed in
          {| d_sent := None; d_new := None; d_report := None;
             d_replies := match ro with Some x => [x] | None => [] end; d_removed := 0 |} :: run_ops e1 validate st (i + 1) r
      end
  | OExpireAll :: r =>
      {| d_sent := None; d_new := None; d_report := None; d_replies := []; d_removed := N.of_nat (length (u_nat st)) |}
      :: run_ops e validate {| u_cl := u_cl st; u_nat := []; u_next := u_next st |} (i + 1) r
  end.

Definition opt_eqb {A} (eqb : A -> A -> bool) (a b : option A) : bool :=
  match a, b with Some x, Some y => eqb x y | None, None => true | _, _ => false end.
Definition robs_eqb (a b : robs) : bool :=
  (r_status a =? r_status b) && bytes_eqb (r_from a) (r_from b) && (fst (r_body a) =? fst (r_body b)) && (snd (r_body a) =? snd (r_body b))
  && Z.eqb (r_tb a) (r_tb b) && Z.eqb (r_cb a) (r_cb b).
Definition dobs_eqb (a b : dobs) : bool :=
  opt_eqb (fun x y => (fst x =? fst y) && (fst (snd x) =? fst (snd y)) && (snd (snd x) =? snd (snd y))) (d_sent a) (d_sent b)
  && opt_eqb bytes_eqb (d_new a) (d_new b)
  && opt_eqb (fun x y => (fst (fst x) =? fst (fst y)) && Z.eqb (snd (fst x)) (snd (fst y)) && Z.eqb (snd x) (snd y)) (d_report a) (d_report b)
  && list_eqb robs_eqb (d_replies a) (d_replies b) && (d_removed a =? d_removed b).

Definition model_obs (c : case) : list dobs :=
  run_ops env0 (c_validate c) {| u_cl := {| gen := 0; items := mk_entries (c_cfg c) |}; u_nat := []; u_next := 0 |} 0 (c_ops c).
Definition check_case (c : case) : bool := list_eqb dobs_eqb (model_obs c) (c_obs c).

Fixpoint mismatches_from (i : nat) (cs : list case) : list nat :=
  match cs with
  | [] => []
  | c :: r => if check_case c then mismatches_from (S i) r else i :: mismatches_from (S i) r
  end.
Definition mismatches := mismatches_from 0.
