(* Correspondence checker for C07: model outputs vs observed outputs.
   A case is compact: handshake i of a history is derived from the history seed
   (mirrored by the Go harness, c07.go:handshake). *)
From OSS Require Export theories.Base theories.Replay.

Inductive cop := P (i : N) | R (n : Z).
Record case := { c_cap : Z; c_new_panics : bool; c_seed : N; c_ops : list cop; c_obs : list bool }.

Definition ids : list bytes :=
  [ []; [97]; [107;101;121;45;49]; [107;101;121;45;50];
    [108;111;110;103;101;114;45;107;101;121;45;105;100;101;110;116;105;102;105;101;114;45;48;49;50;51;52;53;54;55;56;57] ]%N.
Definition lens : list N := [0; 1; 3; 4; 5; 16; 24; 32]%N.

Definition handshake (seed i : N) : hop :=
  HAdd (nth (N.to_nat (i mod 5)) ids []) (gb (nth (N.to_nat (i mod 8)) lens 0%N) ((seed + i) mod 4294967296)%N).
Definition decode (seed : N) (o : cop) : hop :=
  match o with P i => handshake seed i | R n => HResize n end.

Definition check_case (c : case) : bool :=
  match new_cache (c_cap c) with
  | NewPanic => c_new_panics c
  | NewOk c0 => negb (c_new_panics c) &&
      list_eqb Bool.eqb (snd (run c0 (map lower (map (decode (c_seed c)) (c_ops c))))) (c_obs c)
  end.

Fixpoint mismatches_from (i : nat) (cs : list case) : list nat :=
  match cs with
  | [] => []
  | c :: r => if check_case c then mismatches_from (S i) r else i :: mismatches_from (S i) r
  end.
Definition mismatches := mismatches_from 0.
