(* Correspondence checker for C01, interleavings: snapshots, marks (with elements of older
   snapshots, possibly of a replaced list) and updates on the real CipherList in arbitrary
   orders — what concurrent connections and a reload do to it — against [cl_step]. *)
From OSS Require Export theories.Base theories.Crypto theories.CipherList Corr.C01.
Open Scope N_scope.

Inductive iop :=
| ISnap (ip : N)                      (* result kept in the next register *)
| IMark (reg idx ip : N)              (* mark element [idx] of the snapshot in register [reg] *)
| IUpdate (cfg : list (N * N * N)).
Record icase := { i_cfg : list (N * N * N); i_ops : list iop; i_obs : list (list (bytes * N)) }.

Definition order_of (cl : clist) : list (bytes * N) := map (fun e => (e_id e, e_last e)) (items cl).

Fixpoint irun (cl : clist) (regs : list (list elem)) (ops : list iop) : list (list (bytes * N)) :=
  match ops with
  | [] => []
  | ISnap ip :: r => order_of cl :: irun cl (regs ++ [snapshot ip cl]) r
  | IMark reg idx ip :: r =>
      let cl' := match nth_error (nth (N.to_nat reg) regs []) (N.to_nat idx) with
                 | Some el => mark_used cl el ip
                 | None => cl
                 end in
      order_of cl' :: irun cl' regs r
  | IUpdate cfg :: r =>
      let cl' := update cl (gen cl + 1) (mk_entries (gen cl + 1) cfg) in
      order_of cl' :: irun cl' regs r
  end.

Definition order_eqb (a b : list (bytes * N)) : bool :=
  list_eqb (fun x y => bytes_eqb (fst x) (fst y) && N.eqb (snd x) (snd y)) a b.
Definition check_case (c : icase) : bool :=
  list_eqb order_eqb (irun {| gen := 0; items := mk_entries 0 (i_cfg c) |} [] (i_ops c)) (i_obs c).
Definition model_obs (c : icase) := irun {| gen := 0; items := mk_entries 0 (i_cfg c) |} [] (i_ops c).
Definition mismatches (cs : list icase) : list nat :=
  map fst (filter (fun ic => negb (check_case (snd ic))) (combine (seq 0 (length cs)) cs)).
