(* Correspondence checker for whole TCP connections through the real StreamHandler on loopback
   sockets (C02, C06, C15; also C05 and C18 scenarios): the model rebuilds the client's wire
   from the abstract description and predicts status, metric reports, what the target and the
   client receive, and how the connection ends. *)
From OSS Require Export theories.Base theories.IPClass theories.Socks theories.Crypto theories.CipherList.
From OSS Require Export theories.Replay theories.TcpAuth theories.SsStream theories.TcpConn.
Open Scope N_scope.

Definition cipher_of (n : N) : cipher := match n with 0 => Chacha | 1 => Aes256 | 2 => Aes192 | _ => Aes128 end.
Definition idb (n : N) : bytes := if n =? 100 then [] else [65 + n].
Definition mk_key (c s : N) : skey := {| k_cipher := cipher_of c; k_secret := s |}.
Definition mk_entries (cfg : list (N * N * N)) : list entry :=
  let fix go (i : N) (l : list (N * N * N)) :=
    match l with
    | [] => []
    | (id, c, s) :: r => {| e_uid := i; e_id := idb id; e_key := mk_key c s; e_last := 0 |} :: go (i + 1) r
    end in go 0 cfg.

(* checksum mirrored by the harness (util.go cksum) *)
Definition cksum (bs : bytes) : N := fold_left (fun a b => N.land (a * 31 + b + 1) 4294967295) bs 7.

Inductive ckind :=
| CHonest (c secret seed : N) (akind port : N) (chunks : list (N * N)) (coalesce : bool)
          (corrupt : N)   (* 0 none; 2j: payload ciphertext of wire chunk j; 2j+1: its sealed length *)
| CGarbage (len seed : N)
| CTrunc (c secret seed n : N).
Record conn := { k_kind : ckind; k_fin : bool; k_validate : bool; k_connect_ok : bool; k_tout : N * N;
                 k_tlate : N * N;     (* a second block the target sends long after the handshake timeout *)
                 k_treset : bool;     (* the target reads the whole upload, sends its output, then resets *)
                 k_creset : bool }.   (* the client, once everything was relayed and it has the target's output, resets *)

(* observation of one connection *)
Record cobs := {
  ob_status : N;
  ob_auth : list bytes;                 (* AddAuthenticated arguments, in order *)
  ob_probe : option (N * N * Z);        (* AddProbe: status, drain (0 eof, 1 timeout), bytes *)
  ob_cp : Z; ob_pt : Z; ob_tp : Z;      (* ClientProxy, ProxyTarget, TargetProxy *)
  ob_target : option (N * N);           (* target contacted: (length, checksum) of what it received *)
  ob_client : N * N;                    (* plaintext the client decrypted: (length, checksum) *)
  ob_close : N                          (* 0 closed after the client's FIN (client closed first), 1 at the deadline,
                                           2 at once, 3 only after the client finally closed *)
}.
Record case := { c_cfg : list (N * N * N); c_cap : Z; c_conns : list conn; c_obs : list cobs }.

(* target addresses. 0-3: the local scripted target on loopback; 4-15: the table shared with the
   UDP scenario (netsetup.go targetKinds): local addresses in public and non-public ranges;
   30-32: names answered by the harness' DNS server (fakedns.go), carrying the seed *)
Definition v4 (a b c d : N) : N := a * 2^24 + b * 2^16 + c * 2^8 + d.
Definition ip_203 := v4 203 0 113 77.
Definition ip_10 := v4 10 99 0 1.
Definition pub6 : N := 8193 * 2^112 + 3512 * 2^96 + 119 * 2^80 + 1.      (* 2001:db8:77::1 *)
Definition ula6 : N := 64768 * 2^112 + 153 * 2^96 + 1.                   (* fd00:99::1 *)
Fixpoint seed_letters (n : nat) (x : N) : bytes :=
  match n with O => [] | S m => (97 + x mod 26) :: seed_letters m (x / 26) end.
Definition dns_name (akind seed : N) : bytes :=
  (match akind with
   | 30 => [109;105;120;101;100]       (* "mixed" *)
   | 31 => [116;119;111]               (* "two" *)
   | _ => [102;108;105;112]            (* "flip" *)
   end) ++ [45] ++ seed_letters 7 seed ++ [46;118;101;114;105;102;46;116;101;115;116].   (* "-" ... ".verif.test" *)
Definition target_host (akind seed : N) : option host :=
  match akind with
  | 0 => Some (HostV4 (v4 127 0 0 1))
  | 1 => Some (HostV6 1)
  | 2 => Some (HostDomain [49;50;55;46;48;46;48;46;49])                    (* "127.0.0.1" *)
  | 3 => Some (HostDomain [108;111;99;97;108;104;111;115;116])            (* "localhost" *)
  | 4 => Some (HostV4 ip_203)
  | 5 => Some (HostV4 ip_10)
  | 6 => Some (HostV4 (v4 100 64 0 9))
  | 7 => Some (HostV4 (v4 192 168 99 1))
  | 8 => Some (HostV4 (v4 172 16 99 1))
  | 10 => Some (HostV4 (v4 169 254 9 9))
  | 11 => Some (HostV6 pub6)
  | 12 => Some (HostV6 ula6)
  | 13 => Some (HostV6 (65535 * 2^32 + ip_10))                               (* ::ffff:10.99.0.1 *)
  | 14 => Some (HostV6 (65535 * 2^32 + ip_203))                              (* ::ffff:203.0.113.77 *)
  | 15 => Some (HostDomain [50;48;51;46;48;46;49;49;51;46;55;55])          (* "203.0.113.77" *)
  | 30 | 31 | 32 => Some (HostDomain (dns_name akind seed))
  | 33 => Some (HostDomain [58;58;49;37;108;111])                           (* "::1%lo": a zoned literal *)
  | _ => None
  end.
Definition target_addr (akind port seed : N) : option saddr :=
  option_map (fun h => {| sa_host := h; sa_port := port |}) (target_host akind seed).
Definition addr_bytes (akind port seed : N) : bytes :=
  match target_addr akind port seed with
  | Some a => encode_addr a
  | None =>
      match akind with
      | 20 => [0; 1; 2; 3; 4; 5; 6]                                   (* type 0 *)
      | 21 => [3; 0] ++ [port / 256; port mod 256]                    (* zero-length domain *)
      | 22 => [3; 255] ++ map (fun i => 97 + N.of_nat i mod 26) (seq 0 255) ++ [port / 256; port mod 256]
      | 23 => [1; 127; 0]                                             (* truncated IPv4 *)
      | 24 => [3; 200; 97; 98]                                        (* truncated domain *)
      | 25 => [4; 0; 1]                                               (* truncated IPv6 *)
      | _ => [9; 1; 2; 3; 4; 5; 6]                                    (* unsupported address type *)
      end
  end.
(* resolver oracle: the 255-byte name does not resolve; the empty name is the local host *)
Definition resolved_of (k : ckind) : list ip :=
  match k with
  | CHonest _ _ _ 22 _ _ _ _ => []
  | CHonest _ _ _ 15 _ _ _ _ => [V4 ip_203]
  | CHonest _ _ _ 30 _ _ _ _ => [V16 1; V4 ip_203]          (* AAAA ::1 and A 203.0.113.77, in either order *)
  | CHonest _ _ _ 31 _ _ _ _ => [V4 ip_10; V4 ip_203]
  | CHonest _ _ _ 32 _ _ _ _ => [V4 ip_203]                 (* what the FIRST look-up answers *)
  | CHonest _ _ _ 33 _ _ _ _ => [V16 1]                      (* the zoned literal is ::1 *)
  | _ => [V4 (127 * 2^24 + 1)]
  end.

(* the SDK Writer turns one Write into chunks of at most payloadSizeMask bytes *)
Fixpoint chop (fuel : nat) (bs : bytes) : list bytes :=
  match fuel with
  | O => [bs]
  | S f => if (length bs <=? N.to_nat size_mask)%nat then [bs]
           else firstn (N.to_nat size_mask) bs :: chop f (skipn (N.to_nat size_mask) bs)
  end.
Definition plain_chunks (akind port seed : N) (chunks : list (N * N)) (coalesce : bool) : list bytes :=
  let ps := map (fun ls => gb (fst ls) (snd ls)) chunks in
  let ab := addr_bytes akind port seed in
  let writes := match ps with
                | p1 :: r => if coalesce then (ab ++ p1) :: r else ab :: p1 :: r
                | [] => [ab]
                end in
  flat_map (chop 8) writes.

(* offset of wire chunk j (1-based): its first payload-ciphertext byte, or (lenblock) the
   first byte of its sealed length *)
Fixpoint chunk_offset (tag : nat) (lenblock : bool) (j : nat) (cs : list bytes) (acc : nat) : nat :=
  match j, cs with
  | S O, _ => if lenblock then acc else acc + 2 + tag
  | S j', c :: r => chunk_offset tag lenblock j' r (acc + 2 + tag + length c + tag)
  | _, _ => acc
  end.
Definition set_nth_w (i : nat) (x : wbyte) (l : list wbyte) : list wbyte :=
  firstn i l ++ match skipn i l with [] => [] | _ :: r => x :: r end.

Definition wire_of (e : env) (i : N) (k : ckind) : env * list wbyte :=
  match k with
  | CHonest c s seed akind port chunks coalesce corrupt =>
      let key := mk_key c s in
      let salt := raws (gb (N.of_nat (salt_size (k_cipher key))) seed) in
      let pcs := plain_chunks akind port seed chunks coalesce in
      let '(e', w) := encode_stream e (i * 100000) key salt pcs in
      if corrupt =? 0 then (e', w)
      else (e', set_nth_w (chunk_offset (tag_size (k_cipher key)) (N.odd corrupt) (N.to_nat (corrupt / 2)) pcs (salt_size (k_cipher key))) (raw 255) w)
  | CGarbage len seed => (e, raws (gb len seed))
  | CTrunc c s seed n =>
      let key := mk_key c s in
      let salt := raws (gb (N.of_nat (salt_size (k_cipher key))) seed) in
      let '(e', w) := encode_stream e (i * 100000) key salt [gb 20 3] in
      (e', firstn (N.to_nat n) w)
  end.

Definition close_class (fin : bool) (w : close_when) : N :=
  if fin then 0 else match w with AtClientFin => 3 | AtDeadline => 1 | AtOnce => 2 | AfterRelay => 3 end.

Definition obs_of (fin : bool) (evs : list ev) : cobs :=
  let status := fold_left (fun a x => match x with EClosed s _ _ _ => s | _ => a end) evs 99 in
  let cnt := fold_left (fun a x => match x with EClosed _ cp pt tp => (cp, pt, tp) | _ => a end) evs (0, 0, 0)%Z in
  {| ob_status := status;
     ob_auth := flat_map (fun x => match x with EAuth id => [id] | _ => [] end) evs;
     ob_probe := fold_left (fun a x => match x with EProbe s d n => Some (s, match d with DrainEof => 0 | DrainTimeout => 1 end, n) | _ => a end) evs None;
     ob_cp := fst (fst cnt); ob_pt := snd (fst cnt); ob_tp := snd cnt;
     ob_target := fold_left (fun a x => match x with EToTarget p => Some (N.of_nat (length p), cksum p) | _ => a end) evs None;
     ob_client := fold_left (fun a x => match x with EToClient p => (N.of_nat (length p), cksum p) | _ => a end) evs (0, cksum []);
     ob_close := fold_left (fun a x => match x with EClose w => close_class fin w | _ => a end) evs 99 |}.

Fixpoint run_conns (e : env) (st : astate) (i : N) (cs : list conn) : list cobs :=
  match cs with
  | [] => []
  | c :: r =>
      let '(e', w) := wire_of e i (k_kind c) in
      let ci := {| ci_ip := 1; ci_bytes := w; ci_fin := k_fin c; ci_validate := k_validate c;
                   ci_connect_ok := k_connect_ok c; ci_resolved := resolved_of (k_kind c); ci_target_out := gb (fst (k_tout c)) (snd (k_tout c)) ++ gb (fst (k_tlate c)) (snd (k_tlate c));
                   ci_target_reset := k_treset c; ci_client_reset := k_creset c |} in
      let '(st', res) := handle e' st ci in
      match res with
      | Ok evs =>
          let o := obs_of (k_fin c) evs in
          (* a client that aborted cannot see how the server closes: class 7 *)
          (if k_creset c then {| ob_status := ob_status o; ob_auth := ob_auth o; ob_probe := ob_probe o; ob_cp := ob_cp o; ob_pt := ob_pt o;
                                 ob_tp := ob_tp o; ob_target := ob_target o; ob_client := ob_client o; ob_close := 7 |} else o)
          :: run_conns e' st' (i + 1) r
      | Panic => {| ob_status := 66; ob_auth := []; ob_probe := None; ob_cp := 0; ob_pt := 0; ob_tp := 0;
                    ob_target := None; ob_client := (0, 0); ob_close := 99 |} :: run_conns e' st' (i + 1) r
      end
  end.

Definition opt_eqb {A} (eqb : A -> A -> bool) (a b : option A) : bool :=
  match a, b with Some x, Some y => eqb x y | None, None => true | _, _ => false end.
Definition cobs_eqb (a b : cobs) : bool :=
  (ob_status a =? ob_status b) && list_eqb bytes_eqb (ob_auth a) (ob_auth b)
  && opt_eqb (fun x y => (fst (fst x) =? fst (fst y)) && (snd (fst x) =? snd (fst y)) && Z.eqb (snd x) (snd y)) (ob_probe a) (ob_probe b)
  && Z.eqb (ob_cp a) (ob_cp b) && Z.eqb (ob_pt a) (ob_pt b) && Z.eqb (ob_tp a) (ob_tp b)
  && opt_eqb (fun x y => (fst x =? fst y) && (snd x =? snd y)) (ob_target a) (ob_target b)
  && (fst (ob_client a) =? fst (ob_client b)) && (snd (ob_client a) =? snd (ob_client b))
  && (ob_close a =? ob_close b).

Definition check_case (c : case) : bool :=
  let st := {| a_cl := {| gen := 0; items := mk_entries (c_cfg c) |}; a_rc := Some (empty_cache (c_cap c)) |} in
  list_eqb cobs_eqb (run_conns env0 st 0 (c_conns c)) (c_obs c).
Definition model_obs (c : case) : list cobs :=
  let st := {| a_cl := {| gen := 0; items := mk_entries (c_cfg c) |}; a_rc := Some (empty_cache (c_cap c)) |} in
  run_conns env0 st 0 (c_conns c).

Fixpoint mismatches_from (i : nat) (cs : list case) : list nat :=
  match cs with
  | [] => []
  | c :: r => if check_case c then mismatches_from (S i) r else i :: mismatches_from (S i) r
  end.
Definition mismatches := mismatches_from 0.
