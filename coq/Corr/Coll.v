(* Correspondence checker for the Prometheus collectors (C15, C16): the log of calls the real
   service made on the real ServiceMetrics, and the counters gathered from its registry afterwards.
   The calls themselves are compared with the wire by Corr/UDP.v and Corr/TCP.v. *)
From OSS Require Export theories.Base theories.Collector.
From Coq Require Import String.
Open Scope Z_scope.

Record case := { c_calls : list mcall; c_gathered : list (series * Z) }.

(* every gathered series has the model's value, and every series the model gives a non-zero value
   was gathered *)
Definition check_case (c : case) : bool :=
  let m := vals (crun (c_calls c)) in
  forallb (fun sv => Z.eqb (value m (fst sv)) (snd sv)) (c_gathered c) &&
  forallb (fun sv => Z.eqb (snd sv) 0 || existsb (fun g => series_eqb (fst g) (fst sv)) (c_gathered c)) m.

Fixpoint mismatches_from (i : nat) (cs : list case) : list nat :=
  match cs with
  | [] => []
  | c :: r => if check_case c then mismatches_from (S i) r else i :: mismatches_from (S i) r
  end.
Definition mismatches := mismatches_from 0.
