(* Correspondence checker for C20: location label and database consultation. *)
From OSS Require Export theories.Base theories.IPClass theories.IpInfo.
Open Scope N_scope.

(* addr kind: 0 nil, 1 unsplittable, 2 host-not-IP, 3 IP (16-byte value as ParseIP yields; 4 = 4-byte for FromIP)
   db mode: 0 disabled, 1 hit (country "US"), 2 miss (empty country), 3 error, 4 error with a partial answer (country "CN"), 5 no country but an ASN *)
Record case := { c_kind : N; c_addr : N; c_db : N; c_label : bytes; c_consulted : bool }.

Definition mk_addr (k a : N) : addr :=
  match k with 0 => ANil | 1 => AUnsplittable | 2 => AHostNotIP | 3 => AIP (V16 a) | _ => AIP (V4 a) end.
Definition mk_db (m : N) : ip -> db_answer :=
  match m with 1 => fun _ => DbOk [85;83] | 2 | 5 => fun _ => DbOk [] | 4 => fun _ => DbErr [67;78] | _ => fun _ => DbErr [] end.

Definition check_case (c : case) : bool :=
  let r := info_from_addr (negb (c_db c =? 0)) (mk_db (c_db c)) (mk_addr (c_kind c) (c_addr c)) in
  bytes_eqb (fst r) (c_label c) && Bool.eqb (snd r) (c_consulted c).

Fixpoint mismatches_from (i : nat) (cs : list case) : list nat :=
  match cs with
  | [] => []
  | c :: r => if check_case c then mismatches_from (S i) r else i :: mismatches_from (S i) r
  end.
Definition mismatches := mismatches_from 0.
