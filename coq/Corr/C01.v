(* Correspondence checker for the stream authenticator (C01, C08, part of C07): abstract
   connection histories; the model rebuilds the symbolic wire and the environment, runs
   [authenticate], and compares status, attributed ID and the key-list order. *)
From OSS Require Export theories.Base theories.Crypto theories.CipherList theories.Replay theories.TcpAuth.
Open Scope N_scope.

Definition cipher_of (n : N) : cipher := match n with 0 => Chacha | 1 => Aes256 | 2 => Aes192 | _ => Aes128 end.
(* access-key IDs: index 100 is the empty ID, otherwise one letter *)
Definition idb (n : N) : bytes := if n =? 100 then [] else [65 + n].

Inductive saltspec :=
| SFresh (seed : N)                                  (* client-chosen random salt *)
| SServer (c : N) (secret : N) (saltvals : bytes).   (* salt issued by the server for key (c, secret) *)
Inductive kind :=
| KHonest (c secret : N) (ss : saltspec) (tail : N)  (* complete first chunk with [tail]-byte payload *)
| KGarbage (len seed : N)
| KTrunc (c secret seed n : N)                        (* honest stream cut to n bytes *)
| KCorrupt (c secret seed off : N).                   (* honest stream, byte at [off] replaced *)
Inductive op :=
| Conn (ip : N) (k : kind)
| Update (cfg : list (N * N * N)).                    (* (id index, cipher, secret) *)

(* observation after each op: status (0 OK, 1 ERR_CIPHER, 2 ERR_REPLAY_SERVER, 3 ERR_REPLAY_CLIENT,
   9 none for Update), attributed id, and the list order as (id index, last ip) *)
Record obs := { o_status : N; o_id : bytes; o_order : list (bytes * N) }.
Record case := { c_cap : Z; c_nilcache : bool; c_cfg : list (N * N * N); c_ops : list op; c_obs : list obs }.

Definition mk_key (c s : N) : skey := {| k_cipher := cipher_of c; k_secret := s |}.
Definition mk_entries (g : N) (cfg : list (N * N * N)) : list entry :=
  let fix go (i : N) (l : list (N * N * N)) :=
    match l with
    | [] => []
    | (id, c, s) :: r => {| e_uid := g * 1000 + i; e_id := idb id; e_key := mk_key c s; e_last := 0 |} :: go (i + 1) r
    end in go 0 cfg.

Definition salt_of (e : env) (mid : N) (k : skey) (ss : saltspec) : env * list wbyte :=
  match ss with
  | SFresh seed => (e, raws (gb (N.of_nat (salt_size (k_cipher k))) seed))
  | SServer c s vs =>
      let sk := mk_key c s in
      let n := salt_size (k_cipher sk) in
      let '(e', salt) := mk_server_salt e mid sk (firstn (n - mark_len) vs) (skipn (n - mark_len) vs) in
      (* presented under key k: cut or pad to k's salt size *)
      (e', firstn (salt_size (k_cipher k)) (salt ++ raws (gb 32 7)))
  end.

Definition honest_input (e : env) (sid : N) (k : skey) (salt : list wbyte) (tail : N) : env * list wbyte :=
  let '(e1, w1) := seal e sid k salt 0 [tail / 256; tail mod 256] in
  let '(e2, w2) := seal e1 (sid + 1000000) k salt 1 (gb tail 3) in
  (e2, salt ++ w1 ++ w2).

Definition set_nth_w (i : nat) (x : wbyte) (l : list wbyte) : list wbyte :=
  firstn i l ++ match skipn i l with [] => [] | _ :: r => x :: r end.

(* the harness flips every bit of the byte (b xor 255): a plain salt byte keeps being a plain
   byte with the flipped value; a ciphertext or tag byte stops being what was sealed *)
Definition flip_w (w : wbyte) : wbyte := match wt w with TRaw => raw (N.lxor (wv w) 255) | _ => raw 255 end.
Definition flip_nth_w (i : nat) (l : list wbyte) : list wbyte :=
  firstn i l ++ match skipn i l with [] => [] | x :: r => flip_w x :: r end.

Definition input_of (e : env) (sid : N) (k : kind) : env * list wbyte :=
  match k with
  | KHonest c s ss tail => let key := mk_key c s in let '(e1, salt) := salt_of e sid key ss in honest_input e1 sid key salt tail
  | KGarbage len seed => (e, raws (gb len seed))
  | KTrunc c s seed n =>
      let key := mk_key c s in
      let '(e1, w) := honest_input e sid key (raws (gb (N.of_nat (salt_size (k_cipher key))) seed)) 20 in
      (e1, firstn (N.to_nat n) w)
  | KCorrupt c s seed off =>
      let key := mk_key c s in
      let '(e1, w) := honest_input e sid key (raws (gb (N.of_nat (salt_size (k_cipher key))) seed)) 20 in
      (e1, flip_nth_w (N.to_nat off) w)
  end.

Definition order_of (cl : clist) : list (bytes * N) := map (fun en => (e_id en, e_last en)) (items cl).

Definition res_obs (cl : clist) (r : outcome auth_res) : obs :=
  match r with
  | Ok (AuthOk id _ _) => {| o_status := 0; o_id := id; o_order := order_of cl |}
  | Ok (AuthErr ErrCipher id) => {| o_status := 1; o_id := id; o_order := order_of cl |}
  | Ok (AuthErr ErrReplayServer id) => {| o_status := 2; o_id := id; o_order := order_of cl |}
  | Ok (AuthErr ErrReplayClient id) => {| o_status := 3; o_id := id; o_order := order_of cl |}
  | Panic => {| o_status := 66; o_id := []; o_order := [] |}
  end.

Fixpoint run_ops (e : env) (st : astate) (g : N) (i : N) (ops : list op) : list obs :=
  match ops with
  | [] => []
  | Conn ip k :: r =>
      let '(e', input) := input_of e i k in
      let '(st', res) := authenticate e' st ip input in
      res_obs (a_cl st') res :: run_ops e' st' g (i + 1) r
  | Update cfg :: r =>
      let st' := {| a_cl := update (a_cl st) (g + 1) (mk_entries (g + 1) cfg); a_rc := a_rc st |} in
      {| o_status := 9; o_id := []; o_order := order_of (a_cl st') |} :: run_ops e st' (g + 1) (i + 1) r
  end.

Definition obs_eqb (a b : obs) : bool :=
  (o_status a =? o_status b) && bytes_eqb (o_id a) (o_id b)
  && list_eqb (fun x y => bytes_eqb (fst x) (fst y) && (snd x =? snd y)) (o_order a) (o_order b).

Definition check_case (c : case) : bool :=
  let rc := if c_nilcache c then None else Some (empty_cache (c_cap c)) in
  let st := {| a_cl := {| gen := 0; items := mk_entries 0 (c_cfg c) |}; a_rc := rc |} in
  list_eqb obs_eqb (run_ops env0 st 0 0 (c_ops c)) (c_obs c).

Fixpoint mismatches_from (i : nat) (cs : list case) : list nat :=
  match cs with
  | [] => []
  | c :: r => if check_case c then mismatches_from (S i) r else i :: mismatches_from (S i) r
  end.
Definition mismatches := mismatches_from 0.
