(* Corr/Cfg.v — correspondence checker for C09, C10, C11: a history of configuration files run
   through the real package main, observed after every step by probing every (listener, key). *)
From OSS Require Export theories.Base theories.AList theories.Config.

Definition K (id : bytes) (c s : N) : keycfg := {| kc_id := id; kc_cipher := c; kc_secret := s |}.
Definition L (t : ltype) (a : N) (ip : bool) : lcfg := {| l_type := t; l_addr := a; l_host_is_ip := ip |}.
Definition Sv (ls : list lcfg) (ks : list keycfg) : svc := {| s_listeners := ls; s_keys := ks |}.
Definition Cf (ss : list svc) (lg : list (keycfg * N)) : config := {| services := ss; legacy := lg |}.

Record cfg_step := St {
  st_file : file; st_prebound : list lkey; st_err : N;
  st_listen : list bool; st_auth : list (list (option bytes));
  st_refused : list (option N) }.       (* per pool listener: dials refused while hammered during the step *)
Record cfg_case := CC { cc_pool : list lkey; cc_keys : list (N * N); cc_steps : list cfg_step }.

Definition err_class (e : option lerr) : N :=
  match e with None => 0 | Some EParse => 1 | Some EValidate => 2 | Some EKey => 3 | Some EListen => 4 end.

Definition opt_bytes_eqb (a b : option bytes) : bool :=
  match a, b with None, None => true | Some x, Some y => list_eqb N.eqb x y | _, _ => false end.

(* what the model says one sees after a step *)
Definition model_obs (c : cfg_case) (s : server) : list bool * list (list (option bytes)) :=
  (map (listening s) (cc_pool c),
   map (fun l => if listening s l
                 then map (fun k => match serving s with Some (_, t) => auth_on t l (fst k) (snd k) | None => None end) (cc_keys c)
                 else map (fun _ => None) (cc_keys c)) (cc_pool c)).

(* retained listeners: open before and after the step; the model keeps them open at every
   intermediate point, so no dial may have been refused *)
Definition retained_ok (c : cfg_case) (s s' : server) (inter : list (list (lkey * nat))) (st : cfg_step) : bool :=
  forallb (fun lr : lkey * option N =>
     match snd lr with
     | Some n => if listening s (fst lr) && listening s' (fst lr)
                 then forallb (fun r => 0 <? ref_of r (fst lr)) inter && N.eqb n 0
                 else true
     | None => true
     end) (combine (cc_pool c) (st_refused st)).

Fixpoint run_steps (c : cfg_case) (s : server) (sts : list cfg_step) (i : nat) : list nat :=
  match sts with
  | [] => []
  | st :: r =>
      let os := fun l => negb (existsb (lkey_eqb l) (st_prebound st)) in
      let '(s', e, inter) := load os s (st_file st) in
      let '(ls, au) := model_obs c s' in
      let ok := N.eqb (err_class e) (st_err st)
                && list_eqb Bool.eqb ls (st_listen st)
                && list_eqb (list_eqb opt_bytes_eqb) au (st_auth st)
                && retained_ok c s s' inter st in
      (if ok then [] else [i]) ++ run_steps c s' r (S i)
  end.

Definition check_case (c : cfg_case) : bool := match run_steps c server0 (cc_steps c) 0 with [] => true | _ => false end.
Definition mismatches (cs : list cfg_case) : list nat :=
  map fst (filter (fun ic => negb (check_case (snd ic))) (combine (seq 0 (length cs)) cs)).

(* for debugging a mismatch: the model's view of every step *)
Fixpoint model_trace (c : cfg_case) (s : server) (sts : list cfg_step) : list (N * list bool * list (list (option bytes))) :=
  match sts with
  | [] => []
  | st :: r =>
      let os := fun l => negb (existsb (lkey_eqb l) (st_prebound st)) in
      let '(s', e, _) := load os s (st_file st) in
      (err_class e, fst (model_obs c s'), snd (model_obs c s')) :: model_trace c s' r
  end.
