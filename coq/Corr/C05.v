(* Correspondence checker for C05: classification of concrete addresses. *)
From OSS Require Export theories.Base theories.IPClass.
Open Scope N_scope.

(* kind: 0 = 4-byte, 1 = 16-byte, 2 = nil / other length.
   flags (bit mask observed from Go): 1 unspecified, 2 loopback, 4 multicast,
   8 link-local unicast, 16 global unicast, 32 IsPrivateAddress.
   verdict: 0 allowed, 1 ERR_ADDRESS_INVALID, 2 ERR_ADDRESS_PRIVATE. *)
Record case := { c_kind : N; c_addr : N; c_flags : N; c_verdict : N }.

Definition mk_ip (k a : N) : ip := match k with 0 => V4 a | 1 => V16 a | _ => BadIP end.
Definition bit (b : bool) (w : N) : N := if b then w else 0.
Definition model_flags (i : ip) : N :=
  bit (is_unspecified i) 1 + bit (is_loopback i) 2 + bit (is_multicast i) 4
  + bit (is_link_local_unicast i) 8 + bit (is_global_unicast i) 16 + bit (is_private i) 32.
Definition model_verdict (i : ip) : N :=
  match require_public i with Allowed => 0 | ErrInvalid => 1 | ErrPrivate => 2 end.

Definition check_case (c : case) : bool :=
  let i := mk_ip (c_kind c) (c_addr c) in
  (model_flags i =? c_flags c) && (model_verdict i =? c_verdict c).

Fixpoint mismatches_from (i : nat) (cs : list case) : list nat :=
  match cs with
  | [] => []
  | c :: r => if check_case c then mismatches_from (S i) r else i :: mismatches_from (S i) r
  end.
Definition mismatches := mismatches_from 0.
