(* Known finding C13 (DESIGN §7.5): the full statement "every path respects the rank" is FALSE
   of the current tree, and the inversion is a real deadlock of the model: ListenStream holds
   listenerManager.mu and wants the shared listener's mu, while the Close of the last handle
   holds the shared listener's mu and wants listenerManager.mu.  This file compiles exactly
   while the defect is present in the source. *)
From OSS Require Import theories.Base theories.LockOrder theories.LockOrderProofs.
From OSS Require Gen.LockProg.
From Coq Require String.
Import String.StringSyntax.
Local Open Scope string_scope.

Definition paths_named (n : String.string) : list (list instr) :=
  map snd (filter (fun p => String.eqb (fst p) n) Gen.LockProg.lock_paths).
Definition longest (ps : list (list instr)) : list instr :=
  fold_right (fun p acc => if length acc <? length p then p else acc) [] ps.

Definition listen_path := longest (paths_named "listenerManager.ListenStream").
Definition close_path := longest (paths_named "virtualStreamListener.Close").
Definition init : state := [([], listen_path); ([], close_path)].
(* ListenStream takes manager.mu; Close takes the handle's mu, then the shared listener's mu *)
Definition schedule : list nat := [0; 1; 1].

Theorem listeners_rank_respected_refuted :
  forallb (fun p => okb (rank_in Gen.LockProg.lock_classes) [] (snd p)) Gen.LockProg.lock_paths = false.
Proof. vm_compute. reflexivity. Qed.

Theorem deadlock_refuted :
  exists st', exec init st' /\ (forall st'', ~ step st' st'') /\ ~ Forall finished st'.
Proof.
  destruct (run_sched init schedule) as [st'|] eqn:R; [|vm_compute in R; discriminate].
  exists st'. apply (deadlock_witness init schedule st' R).
  - vm_compute in R. inversion R; subst. vm_compute. reflexivity.
  - vm_compute in R. inversion R; subst. vm_compute. reflexivity.
Qed.
Print Assumptions deadlock_refuted.
