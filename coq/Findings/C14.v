(* Known finding C14 (DESIGN §7.8b): after a DNS fast close (socket deadline := now) a non-DNS
   datagram does not extend the socket's deadline when the NAT timeout is below the 17 s DNS
   timeout, because the recorded deadline (query time + 17 s) is still later than now + timeout:
   the association expires although the client just used it. The full promise
   "sock_dl >= now + T after every non-DNS write" is therefore false of the faithful model. *)
From OSS Require Import theories.Base theories.NatTimer.
Open Scope Z_scope.

Definition T1s : Z := 1000000000.
Definition history : list top := [TWrite 1000 true; TRead 2000 true; TWrite 3000 false].

Theorem deadline_promise_refuted :
  exists T ops now, let t := trun T (ops ++ [TWrite now false]) in sock_dl t < now + T /\ fast_closed t = true.
Proof. exists T1s, [TWrite 1000 true; TRead 2000 true], 3000. vm_compute. split; reflexivity. Qed.
Print Assumptions deadline_promise_refuted.
