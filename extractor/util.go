package main

import (
	"bytes"
	"go/ast"
	"go/printer"
	"go/token"
)

func exprString(e ast.Expr) string {
	var b bytes.Buffer
	printer.Fprint(&b, fset, e)
	return b.String()
}

func enclosingFunc(f *ast.File, pos token.Pos) string {
	for _, d := range f.Decls {
		if fd, ok := d.(*ast.FuncDecl); ok && fd.Pos() <= pos && pos <= fd.End() {
			return fd.Name.Name
		}
	}
	return "?"
}
