module verifextractor

go 1.23
