package main

import (
	"fmt"
	"go/ast"
	"go/token"
	"go/types"
	"os"
	"os/exec"
	"path/filepath"
	"sort"
	"strings"

	"golang.org/x/tools/go/packages"
)

// G3: access sites of the shared struct fields, with the set of locks syntactically held.
// Uses go/types (via go/packages, offline) so that fields and mutexes are identified exactly.

var watchedFields = map[string]bool{
	"ReplayCache.capacity": true, "ReplayCache.active": true, "ReplayCache.archive": true,
	"cipherList.list": true, "CipherEntry.lastClientIP": true,
	"natmap.keyConn": true, "natconn.readDeadline": true,
	"multiStreamListener.ln": true, "multiStreamListener.count": true, "multiStreamListener.acceptCh": true, "multiStreamListener.onCloseFunc": true,
	"multiPacketListener.pc": true, "multiPacketListener.count": true, "multiPacketListener.readCh": true, "multiPacketListener.doneCh": true, "multiPacketListener.onCloseFunc": true,
	"virtualStreamListener.acceptCh": true, "virtualStreamListener.onCloseFunc": true, "virtualPacketConn.onCloseFunc": true,
	"listenerManager.streamListeners": true, "listenerManager.packetListeners": true,
	"tunnelTimeMetrics.activeClients": true, "activeClient.connCount": true, "activeClient.startTime": true,
	"listenerSet.listenerCloseFuncs": true,
}

type heldLock struct {
	cls  string
	excl bool
	sess token.Pos // the Lock/RLock call that started this hold: one critical section
}

type siteRow struct {
	field, fn string
	write     bool
	held      []heldLock
	pos       string
}

// callRec: a call from function [fn] to a function of the same package, with the locks held there
type callRec struct {
	fn     string
	callee string
	held   []heldLock
	pos    token.Pos
}

var allCalls []callRec

type sitesCtx struct {
	pkg       *packages.Package
	rows      []siteRow
	entryHeld map[*types.Func][]heldLock // intersection over call sites
	callSites map[*types.Func][][]heldLock
	decls     map[*types.Func]*ast.FuncDecl
	pass      int
}

func structFieldName(sel *types.Selection) string {
	t := sel.Recv()
	for {
		if p, ok := t.(*types.Pointer); ok {
			t = p.Elem()
			continue
		}
		break
	}
	// walk the selection path for embedded fields: use the field's parent struct name
	v, ok := sel.Obj().(*types.Var)
	if !ok || !v.IsField() {
		return ""
	}
	// find the named type whose struct contains this field
	if n, ok := t.(*types.Named); ok {
		if st, ok := n.Underlying().(*types.Struct); ok {
			for i := 0; i < st.NumFields(); i++ {
				if st.Field(i) == v {
					return n.Obj().Name() + "." + v.Name()
				}
			}
			// embedded: search one level
			for i := 0; i < st.NumFields(); i++ {
				f := st.Field(i)
				if f.Embedded() {
					et := f.Type()
					if p, ok := et.(*types.Pointer); ok {
						et = p.Elem()
					}
					if en, ok := et.(*types.Named); ok {
						if est, ok := en.Underlying().(*types.Struct); ok {
							for j := 0; j < est.NumFields(); j++ {
								if est.Field(j) == v {
									return en.Obj().Name() + "." + v.Name()
								}
							}
						}
					}
				}
			}
		}
	}
	return ""
}

func isMutexType(t types.Type) (bool, bool) { // (is mutex, is RW)
	if p, ok := t.(*types.Pointer); ok {
		t = p.Elem()
	}
	if n, ok := t.(*types.Named); ok && n.Obj().Pkg() != nil && n.Obj().Pkg().Path() == "sync" {
		switch n.Obj().Name() {
		case "Mutex":
			return true, false
		case "RWMutex":
			return true, true
		}
	}
	return false, false
}

// lockOp recognises X.Lock/Unlock/RLock/RUnlock where X is a mutex field or a value embedding one.
func (c *sitesCtx) lockOp(ce *ast.CallExpr) (cls string, acquire, excl, ok bool) {
	se, isSel := ce.Fun.(*ast.SelectorExpr)
	if !isSel {
		return
	}
	op := se.Sel.Name
	if op != "Lock" && op != "Unlock" && op != "RLock" && op != "RUnlock" {
		return
	}
	info := c.pkg.TypesInfo
	xt := info.TypeOf(se.X)
	if xt == nil {
		return
	}
	if m, _ := isMutexType(xt); m {
		// X is itself the mutex: must be a field selection
		if inner, isSel2 := se.X.(*ast.SelectorExpr); isSel2 {
			if s := info.Selections[inner]; s != nil {
				if n := structFieldName(s); n != "" {
					return n, op == "Lock" || op == "RLock", op == "Lock" || op == "Unlock", true
				}
			}
		}
		return "?" + exprString(se.X), op == "Lock" || op == "RLock", op == "Lock" || op == "Unlock", true
	}
	// embedded mutex: method promoted from sync.Mutex/RWMutex
	if s := info.Selections[se]; s != nil {
		if f, isF := s.Obj().(*types.Func); isF && f.Pkg() != nil && f.Pkg().Path() == "sync" {
			t := xt
			if p, isP := t.(*types.Pointer); isP {
				t = p.Elem()
			}
			if n, isN := t.(*types.Named); isN {
				return n.Obj().Name() + ".(embedded)", op == "Lock" || op == "RLock", op == "Lock" || op == "Unlock", true
			}
		}
	}
	return
}

func cloneHeld(h []heldLock) []heldLock { return append([]heldLock{}, h...) }
func intersectHeld(a, b []heldLock) []heldLock {
	var out []heldLock
	for _, x := range a {
		for _, y := range b {
			if x.cls == y.cls {
				s := x.sess
				if y.sess != x.sess {
					s = token.NoPos // held on entry from several call sites: the caller's section
				}
				out = append(out, heldLock{x.cls, x.excl && y.excl, s})
				break
			}
		}
	}
	return out
}
func removeHeld(h []heldLock, cls string) []heldLock {
	var out []heldLock
	for _, x := range h {
		if x.cls != cls {
			out = append(out, x)
		}
	}
	return out
}

func (c *sitesCtx) posString(p token.Pos) string {
	pp := c.pkg.Fset.Position(p)
	return fmt.Sprintf("%s:%d", filepath.Base(pp.Filename), pp.Line)
}

// record accesses inside an expression (reads), skipping function literals
func (c *sitesCtx) scanExpr(fn string, n ast.Node, held []heldLock, writeTargets map[ast.Expr]bool) {
	if n == nil {
		return
	}
	ast.Inspect(n, func(m ast.Node) bool {
		switch x := m.(type) {
		case *ast.FuncLit:
			return false
		case *ast.SelectorExpr:
			if s := c.pkg.TypesInfo.Selections[x]; s != nil && s.Kind() == types.FieldVal {
				if name := structFieldName(s); watchedFields[name] && c.pass == 1 {
					c.rows = append(c.rows, siteRow{name, fn, writeTargets[x], cloneHeld(held), c.posString(x.Pos())})
				}
			}
		}
		return true
	})
}

func (c *sitesCtx) calleeOf(ce *ast.CallExpr) *types.Func {
	var id *ast.Ident
	switch f := ce.Fun.(type) {
	case *ast.Ident:
		id = f
	case *ast.SelectorExpr:
		id = f.Sel
	}
	if id == nil {
		return nil
	}
	if fobj, ok := c.pkg.TypesInfo.Uses[id].(*types.Func); ok && fobj.Pkg() == c.pkg.Types {
		return fobj
	}
	return nil
}

// writeTargetsOf: expressions written by a statement (assignment lhs, inc/dec, delete(map), map index assign)
func writeTargetsOf(st ast.Stmt) map[ast.Expr]bool {
	w := map[ast.Expr]bool{}
	mark := func(e ast.Expr) {
		for {
			switch x := e.(type) {
			case *ast.IndexExpr: // m.f[k] = v writes the map f
				e = x.X
				continue
			case *ast.ParenExpr:
				e = x.X
				continue
			case *ast.StarExpr:
				e = x.X
				continue
			}
			break
		}
		w[e] = true
	}
	switch s := st.(type) {
	case *ast.AssignStmt:
		for _, l := range s.Lhs {
			mark(l)
		}
	case *ast.IncDecStmt:
		mark(s.X)
	case *ast.ExprStmt:
		if ce, ok := s.X.(*ast.CallExpr); ok {
			if id, ok := ce.Fun.(*ast.Ident); ok && id.Name == "delete" && len(ce.Args) > 0 {
				mark(ce.Args[0])
			}
		}
	}
	return w
}

func (c *sitesCtx) walkBlock(fn string, stmts []ast.Stmt, held []heldLock) []heldLock {
	for _, st := range stmts {
		held = c.walkStmt(fn, st, held)
	}
	return held
}

func (c *sitesCtx) handleCalls(fn string, n ast.Node, held []heldLock) []heldLock {
	// process lock operations and call sites in source order; recurse into synchronously invoked literals
	ast.Inspect(n, func(m ast.Node) bool {
		switch x := m.(type) {
		case *ast.FuncLit:
			return false
		case *ast.CallExpr:
			if cls, acq, excl, ok := c.lockOp(x); ok {
				if acq {
					held = append(removeHeld(held, cls), heldLock{cls, excl, x.Pos()})
				} else {
					held = removeHeld(held, cls)
				}
				return true
			}
			if f := c.calleeOf(x); f != nil {
				c.callSites[f] = append(c.callSites[f], cloneHeld(held))
				// only unexported helpers: an exported method is an operation of its own, and a
				// sequence of operations is not meant to be one critical section
				if fd := c.decls[f]; fd != nil && c.pass == 1 && !ast.IsExported(fd.Name.Name) {
					allCalls = append(allCalls, callRec{fn, funcKey(fd), cloneHeld(held), x.Pos()})
				}
			}
			// synchronously invoked literals: func(){...}() and X.Do(func(){...})
			if fl, ok := x.Fun.(*ast.FuncLit); ok {
				c.walkBlock(fn, fl.Body.List, cloneHeld(held))
			}
			if se, ok := x.Fun.(*ast.SelectorExpr); ok && se.Sel.Name == "Do" && len(x.Args) == 1 {
				if fl, ok := x.Args[0].(*ast.FuncLit); ok {
					c.walkBlock(fn, fl.Body.List, cloneHeld(held))
				}
			}
		}
		return true
	})
	return held
}

// closures that are not invoked synchronously start with nothing held
func (c *sitesCtx) detachedLits(fn string, n ast.Node) {
	idx := 0
	ast.Inspect(n, func(m ast.Node) bool {
		switch x := m.(type) {
		case *ast.GoStmt:
			if fl, ok := x.Call.Fun.(*ast.FuncLit); ok {
				c.walkBlock(fn+"$go", fl.Body.List, nil)
				return false
			}
		case *ast.CallExpr:
			if _, ok := x.Fun.(*ast.FuncLit); ok {
				return true // handled synchronously (its nested detached literals are visited by that walk)
			}
			if se, ok := x.Fun.(*ast.SelectorExpr); ok && se.Sel.Name == "Do" {
				return true
			}
		case *ast.FuncLit:
			idx++
			c.walkBlock(fmt.Sprintf("%s$closure", fn), x.Body.List, nil)
			return false
		}
		return true
	})
}

func (c *sitesCtx) walkStmt(fn string, st ast.Stmt, held []heldLock) []heldLock {
	switch s := st.(type) {
	case *ast.DeferStmt:
		// defer X.Unlock(): lock stays held to the end; other deferred calls: scan
		if _, _, _, ok := c.lockOp(s.Call); ok {
			return held
		}
		if fl, ok := s.Call.Fun.(*ast.FuncLit); ok {
			c.walkBlock(fn, fl.Body.List, cloneHeld(held))
			return held
		}
		c.scanExpr(fn, s.Call, held, nil)
		c.handleCalls(fn, s.Call, cloneHeld(held))
		return held
	case *ast.GoStmt:
		c.detachedLits(fn, s)
		for _, a := range s.Call.Args {
			c.scanExpr(fn, a, held, nil)
		}
		return held
	case *ast.IfStmt:
		if s.Init != nil {
			held = c.walkStmt(fn, s.Init, held)
		}
		c.scanExpr(fn, s.Cond, held, nil)
		held = c.handleCalls(fn, s.Cond, held)
		c.detachedLits(fn, s.Cond)
		h1 := c.walkBlock(fn, s.Body.List, cloneHeld(held))
		h2 := cloneHeld(held)
		if s.Else != nil {
			h2 = c.walkStmt(fn, s.Else, cloneHeld(held))
		}
		// a branch that ends in return does not constrain what follows
		if endsInReturn(s.Body.List) {
			return h2
		}
		if eb, ok := s.Else.(*ast.BlockStmt); ok && endsInReturn(eb.List) {
			return h1
		}
		return intersectHeld(h1, h2)
	case *ast.BlockStmt:
		return c.walkBlock(fn, s.List, held)
	case *ast.ForStmt:
		if s.Init != nil {
			held = c.walkStmt(fn, s.Init, held)
		}
		if s.Cond != nil {
			c.scanExpr(fn, s.Cond, held, nil)
		}
		c.walkBlock(fn, s.Body.List, cloneHeld(held))
		return held
	case *ast.RangeStmt:
		c.scanExpr(fn, s.X, held, nil)
		c.walkBlock(fn, s.Body.List, cloneHeld(held))
		return held
	case *ast.SelectStmt:
		for _, cl := range s.Body.List {
			cc := cl.(*ast.CommClause)
			h := cloneHeld(held)
			if cc.Comm != nil {
				h = c.walkStmt(fn, cc.Comm, h)
			}
			c.walkBlock(fn, cc.Body, h)
		}
		return held
	case *ast.SwitchStmt:
		if s.Init != nil {
			held = c.walkStmt(fn, s.Init, held)
		}
		if s.Tag != nil {
			c.scanExpr(fn, s.Tag, held, nil)
		}
		for _, cl := range s.Body.List {
			cc := cl.(*ast.CaseClause)
			for _, e := range cc.List {
				c.scanExpr(fn, e, held, nil)
			}
			c.walkBlock(fn, cc.Body, cloneHeld(held))
		}
		return held
	case *ast.TypeSwitchStmt:
		for _, cl := range s.Body.List {
			c.walkBlock(fn, cl.(*ast.CaseClause).Body, cloneHeld(held))
		}
		return held
	case *ast.LabeledStmt:
		return c.walkStmt(fn, s.Stmt, held)
	default:
		c.scanExpr(fn, st, held, writeTargetsOf(st))
		held = c.handleCalls(fn, st, held)
		c.detachedLits(fn, st)
		return held
	}
}

func endsInReturn(l []ast.Stmt) bool {
	if len(l) == 0 {
		return false
	}
	_, ok := l[len(l)-1].(*ast.ReturnStmt)
	return ok
}

func funcKey(fd *ast.FuncDecl) string {
	_, rt := recvOf(fd)
	if rt != "" {
		return rt + "." + fd.Name.Name
	}
	return fd.Name.Name
}

func genSites() {
	cfg := &packages.Config{
		Mode: packages.NeedName | packages.NeedFiles | packages.NeedSyntax | packages.NeedTypes | packages.NeedTypesInfo | packages.NeedImports | packages.NeedExportFile,
		Dir:  repo,
		Env:  append(os.Environ(), "GOFLAGS=-mod=mod", "GOPROXY=off", "GOSUMDB=off", "GOTOOLCHAIN=local"),
		Fset: token.NewFileSet(),
	}
	pkgs, err := packages.Load(cfg, "./service", "./prometheus", "./cmd/outline-ss-server")
	if err != nil {
		missing("sites: packages.Load: " + err.Error())
	}
	var all []siteRow
	for _, p := range pkgs {
		if len(p.Errors) > 0 {
			missing(fmt.Sprintf("sites: package %s has errors: %v", p.PkgPath, p.Errors[0]))
			continue
		}
		c := &sitesCtx{pkg: p, entryHeld: map[*types.Func][]heldLock{}, decls: map[*types.Func]*ast.FuncDecl{}}
		for _, f := range p.Syntax {
			if strings.HasSuffix(p.Fset.Position(f.Pos()).Filename, "_test.go") {
				continue
			}
			for _, d := range f.Decls {
				if fd, ok := d.(*ast.FuncDecl); ok && fd.Body != nil {
					if obj, ok := p.TypesInfo.Defs[fd.Name].(*types.Func); ok {
						c.decls[obj] = fd
					}
				}
			}
		}
		// pass 0: collect call-site held sets, iterate entry-held to a fixpoint; pass 1: record sites
		for iter := 0; iter < 4; iter++ {
			c.pass = 0
			if iter == 3 {
				c.pass = 1
			}
			c.callSites = map[*types.Func][][]heldLock{}
			for obj, fd := range c.decls {
				c.walkBlock(funcKey(fd), fd.Body.List, cloneHeld(c.entryHeld[obj]))
			}
			if c.pass == 1 {
				break
			}
			for obj, fd := range c.decls {
				// only unexported helpers that never lock themselves inherit their callers' locks
				if ast.IsExported(fd.Name.Name) || len(c.callSites[obj]) == 0 {
					c.entryHeld[obj] = nil
					continue
				}
				var inter []heldLock
				for i, h := range c.callSites[obj] {
					if i == 0 {
						inter = cloneHeld(h)
					} else {
						inter = intersectHeld(inter, h)
					}
				}
				c.entryHeld[obj] = inter
			}
		}
		all = append(all, c.rows...)
	}
	sort.Slice(all, func(i, j int) bool {
		a, b := all[i], all[j]
		if a.field != b.field {
			return a.field < b.field
		}
		if a.pos != b.pos {
			return a.pos < b.pos
		}
		return !a.write && b.write
	})
	var b strings.Builder
	b.WriteString("(* GENERATED by /verif/extractor (go/types): every access site of the watched shared fields. *)\n")
	b.WriteString("From Coq Require Import List String.\nFrom OSS Require Import theories.Lockset.\nImport ListNotations.\nLocal Open Scope string_scope.\n\n")
	var rows []string
	seen := map[string]bool{}
	fieldsSeen := map[string]bool{}
	for _, r := range all {
		var hs []string
		sort.Slice(r.held, func(i, j int) bool { return r.held[i].cls < r.held[j].cls })
		for _, h := range r.held {
			hs = append(hs, fmt.Sprintf("(\"%s\", %v)", h.cls, h.excl))
		}
		row := fmt.Sprintf("{| s_field := \"%s\"; s_func := \"%s\"; s_write := %v; s_held := [%s]; s_pos := \"%s\" |}", r.field, r.fn, r.write, strings.Join(hs, "; "), r.pos)
		if !seen[row] {
			seen[row] = true
			rows = append(rows, row)
		}
		fieldsSeen[r.field] = true
	}
	for f := range watchedFields {
		if !fieldsSeen[f] {
			missing("sites: watched field never accessed (renamed?): " + f)
		}
	}
	b.WriteString("Definition sites : list site :=\n  [" + strings.Join(rows, ";\n   ") + "].\n")
	// split critical sections: a function that touches the fields guarded by one lock in two or
	// more separate Lock...Unlock sections (check-then-act is then not atomic: results need not
	// equal any sequential order of the calls)
	type fk struct{ fn, cls string }
	sessions := map[fk]map[token.Pos]bool{}
	for _, r := range all {
		for _, h := range r.held {
			if h.sess == token.NoPos {
				continue
			}
			k := fk{r.fn, h.cls}
			if sessions[k] == nil {
				sessions[k] = map[token.Pos]bool{}
			}
			sessions[k][h.sess] = true
		}
	}
	// a call to an unexported helper that has a critical section of its own on lock L, made while L
	// is not held, is a separate critical section on L of the caller too (transitively)
	for round := 0; round < 4; round++ {
		for _, cr := range allCalls {
			for k, s := range sessions {
				if k.fn != cr.callee || len(s) == 0 {
					continue
				}
				heldHere := false
				for _, h := range cr.held {
					if h.cls == k.cls {
						heldHere = true
					}
				}
				if heldHere {
					continue
				}
				ck := fk{cr.fn, k.cls}
				if sessions[ck] == nil {
					sessions[ck] = map[token.Pos]bool{}
				}
				sessions[ck][cr.pos] = true
			}
		}
	}
	var splits []string
	for k, s := range sessions {
		if len(s) > 1 {
			splits = append(splits, fmt.Sprintf("(\"%s\", \"%s\", %d)", k.fn, k.cls, len(s)))
		}
	}
	sort.Strings(splits)
	b.WriteString("\n(* (function, lock class, number of separate critical sections in which the function touches\n   fields guarded by that lock), for every function with more than one *)\n")
	b.WriteString("Definition split_critical_sections : list (string * string * nat) :=\n  [" + strings.Join(splits, "; ") + "].\n")
	// locks copied by value (go vet's copylocks pass over the non-test sources): a copy of a struct
	// that holds a mutex has its own lock, so two "guarded" accesses no longer exclude each other
	copies := copiedLocks()
	b.WriteString("\n(* by-value copies of lock-bearing values reported by `go vet -copylocks` (G11) *)\n")
	b.WriteString("Definition copied_locks : list string := [" + strings.Join(copies, "; ") + "].\n")
	rep.Facts["sites.copied_locks"] = strings.Join(copies, " ")
	writeIfChanged("Sites.v", b.String())
}

func copiedLocks() []string {
	cmd := exec.Command("go", "vet", "-copylocks", "./service/...", "./prometheus/...", "./cmd/...", "./net/...", "./ipinfo/...")
	cmd.Dir = repo
	cmd.Env = append(os.Environ(), "GOFLAGS=-mod=mod", "GOPROXY=off", "GOSUMDB=off", "GOTOOLCHAIN=local")
	out, err := cmd.CombinedOutput()
	var res []string
	for _, ln := range strings.Split(string(out), "\n") {
		ln = strings.TrimSpace(ln)
		if ln == "" || strings.HasPrefix(ln, "#") || strings.Contains(ln, "_test.go:") {
			continue
		}
		if i := strings.Index(ln, ": "); i > 0 && strings.Contains(ln[:i], ".go:") {
			// file.go:line:col: message  ->  file.go: message (line numbers would make the fact brittle)
			file := ln[:strings.Index(ln, ".go:")+3]
			res = append(res, coqString(filepath.Base(file)+": "+ln[i+2:]))
		} else if err != nil {
			res = append(res, coqString("go vet: "+ln))
		}
	}
	if err != nil && len(res) == 0 {
		missing("sites: go vet -copylocks did not run: " + err.Error())
	}
	sort.Strings(res)
	return res
}
