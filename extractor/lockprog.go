package main

import (
	"fmt"
	"go/ast"
	"go/token"
	"sort"
	"strings"
)

// G2: lock programs. For every entry point of service/listeners.go and of the
// listenerSet in cmd/outline-ss-server/main.go, the finite set of control-flow
// paths as linear Acq/Rel programs over lock *classes* (Type.field), with
// `defer X.Unlock()` placed at function exit and closure-valued fields resolved
// through a binding table that is checked against the source.

type lpFunc struct {
	key   string // "Type.Method", "Type.Method$field" for closures, "Func"
	recv  string // receiver variable name
	typ   string // receiver type name
	body  *ast.BlockStmt
	file  *ast.File
	outer *lpFunc // enclosing function for closures (receiver resolution)
}

type lpEvent struct {
	acq bool
	cls string
	blk string // non-empty: not a lock operation but a potentially blocking one (channel send / receive, select without default, Wait)
}

type lpCtx struct {
	funcs      map[string]*lpFunc
	classes    map[string]int
	names      []string
	threads    map[string]*lpFunc // goroutine bodies discovered
	problems   []string
	unresolved map[string]bool // callee expressions that are neither locks nor inlined
	inSelect   int             // > 0 while executing the comm statement of a select clause (its blocking is the select's)
}

func (c *lpCtx) classID(name string) int {
	if id, ok := c.classes[name]; ok {
		return id
	}
	id := len(c.names)
	c.classes[name] = id
	c.names = append(c.names, name)
	return id
}

func recvOf(fd *ast.FuncDecl) (string, string) {
	if fd.Recv == nil || len(fd.Recv.List) == 0 {
		return "", ""
	}
	f := fd.Recv.List[0]
	name := ""
	if len(f.Names) > 0 {
		name = f.Names[0].Name
	}
	t := f.Type
	if st, ok := t.(*ast.StarExpr); ok {
		t = st.X
	}
	if ix, ok := t.(*ast.IndexExpr); ok {
		t = ix.X
	}
	if id, ok := t.(*ast.Ident); ok {
		return name, id.Name
	}
	return name, "?"
}

// resolveRecv finds the type of identifier `name` as a receiver of fn or its enclosing functions.
func (f *lpFunc) resolveRecv(name string) string {
	for g := f; g != nil; g = g.outer {
		if g.recv == name && g.typ != "" {
			return g.typ
		}
	}
	return ""
}

// lockCall recognises X.mu.Lock()/Unlock() and X.listenersMu.Lock()/Unlock(), X.Lock() (embedded).
func (c *lpCtx) lockCall(f *lpFunc, ce *ast.CallExpr) (acq bool, cls string, ok bool) {
	se, isSel := ce.Fun.(*ast.SelectorExpr)
	if !isSel {
		return
	}
	op := se.Sel.Name
	if op != "Lock" && op != "Unlock" && op != "RLock" && op != "RUnlock" {
		return
	}
	switch x := se.X.(type) {
	case *ast.SelectorExpr: // recv.field.Lock()
		if id, isId := x.X.(*ast.Ident); isId {
			if t := f.resolveRecv(id.Name); t != "" {
				return op == "Lock" || op == "RLock", t + "." + x.Sel.Name, true
			}
			c.problems = append(c.problems, "lock on unresolved receiver "+exprString(se.X)+" in "+f.key)
			return op == "Lock" || op == "RLock", "?." + exprString(se.X), true
		}
	case *ast.Ident: // embedded mutex: recv.Lock()
		if t := f.resolveRecv(x.Name); t != "" {
			return op == "Lock" || op == "RLock", t + ".(embedded)", true
		}
	}
	c.problems = append(c.problems, "unrecognised lock expression "+exprString(ce.Fun)+" in "+f.key)
	return op == "Lock" || op == "RLock", "?." + exprString(se.X), true
}

// callee binding table: (function key, call expression text) -> target keys.
// Each binding is justified by an assignment the extractor checks below.
var lpBindings = map[string]map[string][]string{
	"virtualStreamListener.Close":             {"onCloseFunc()": {"multiStreamListener.Acquire$onCloseFunc"}},
	"virtualPacketConn.Close":                 {"onCloseFunc()": {"multiPacketListener.Acquire$onCloseFunc"}},
	"multiStreamListener.Acquire$onCloseFunc": {"onCloseFunc()": {"listenerManager.ListenStream$arg1"}, "m.ln.Close()": {"TCPListener.Close"}},
	"multiPacketListener.Acquire$onCloseFunc": {"onCloseFunc()": {"listenerManager.ListenPacket$arg1"}},
	"listenerManager.ListenStream":            {"streamLn.Acquire()": {"multiStreamListener.Acquire"}},
	"listenerManager.ListenPacket":            {"packetLn.Acquire()": {"multiPacketListener.Acquire"}},
	"listenerSet.ListenStream":                {"ls.manager.ListenStream(addr)": {"listenerManager.ListenStream"}},
	"listenerSet.ListenPacket":                {"ls.manager.ListenPacket(addr)": {"listenerManager.ListenPacket"}},
	"listenerSet.Close":                       {"listenerCloseFunc()": {"virtualStreamListener.Close", "virtualPacketConn.Close"}},
}

type lpPath struct {
	ev   []lpEvent
	done bool // returned
}

const lpMaxPaths = 400

func (c *lpCtx) execBlock(f *lpFunc, stmts []ast.Stmt, paths []lpPath, defers *[][]lpEvent, depth int) []lpPath {
	for _, st := range stmts {
		paths = c.execStmt(f, st, paths, defers, depth)
		if len(paths) > lpMaxPaths {
			c.problems = append(c.problems, "path explosion in "+f.key)
			paths = paths[:lpMaxPaths]
		}
	}
	return paths
}

func appendAll(paths []lpPath, ev ...lpEvent) []lpPath {
	out := make([]lpPath, len(paths))
	for i, p := range paths {
		if p.done {
			out[i] = p
			continue
		}
		ne := make([]lpEvent, len(p.ev), len(p.ev)+len(ev))
		copy(ne, p.ev)
		out[i] = lpPath{append(ne, ev...), false}
	}
	return out
}

// callPaths returns the event sequences of a call expression (inlined callee), or nil if irrelevant.
func (c *lpCtx) callPaths(f *lpFunc, ce *ast.CallExpr, depth int) [][]lpEvent {
	if acq, cls, ok := c.lockCall(f, ce); ok {
		c.classID(cls)
		return [][]lpEvent{{{acq: acq, cls: cls}}}
	}
	txt := exprString(ce)
	var targets []string
	if b, ok := lpBindings[f.key]; ok {
		targets = b[txt]
	}
	if targets == nil {
		// direct method call on a receiver of known type: recv.Method(...)
		if se, ok := ce.Fun.(*ast.SelectorExpr); ok {
			if id, ok := se.X.(*ast.Ident); ok {
				if t := f.resolveRecv(id.Name); t != "" {
					if _, ok := c.funcs[t+"."+se.Sel.Name]; ok {
						targets = []string{t + "." + se.Sel.Name}
					}
				}
			}
		}
	}
	if targets == nil {
		if _, isLit := ce.Fun.(*ast.FuncLit); !isLit {
			c.unresolved[exprString(ce.Fun)] = true
		}
	}
	if targets == nil || depth > 8 {
		return nil
	}
	var res [][]lpEvent
	for _, t := range targets {
		g, ok := c.funcs[t]
		if !ok {
			c.problems = append(c.problems, "binding target missing: "+t+" (from "+f.key+")")
			continue
		}
		for _, p := range c.funcPaths(g, depth+1) {
			res = append(res, p)
		}
	}
	return res
}

func (c *lpCtx) execExprCalls(f *lpFunc, n ast.Node, paths []lpPath, depth int) []lpPath {
	// evaluate calls inside an expression/statement in source order (excluding FuncLits and go/defer)
	var calls []*ast.CallExpr
	ast.Inspect(n, func(m ast.Node) bool {
		switch x := m.(type) {
		case *ast.FuncLit:
			return false
		case *ast.CallExpr:
			calls = append(calls, x)
			if se, ok := x.Fun.(*ast.SelectorExpr); ok && se.Sel.Name == "Wait" && c.inSelect == 0 {
				paths = appendAll(paths, lpEvent{blk: "wait " + exprString(x.Fun)})
			}
		case *ast.UnaryExpr:
			if x.Op == token.ARROW && c.inSelect == 0 {
				paths = appendAll(paths, lpEvent{blk: "receive from " + exprString(x.X)})
			}
		}
		return true
	})
	// inner calls first (arguments), then outer: ast.Inspect is pre-order, so reverse nesting by position end
	sort.SliceStable(calls, func(i, j int) bool { return calls[i].End() < calls[j].End() })
	for _, ce := range calls {
		cps := c.callPaths(f, ce, depth)
		if cps == nil {
			continue
		}
		var np []lpPath
		for _, cp := range cps {
			np = append(np, appendAll(paths, cp...)...)
		}
		paths = np
	}
	return paths
}

func (c *lpCtx) execStmt(f *lpFunc, st ast.Stmt, paths []lpPath, defers *[][]lpEvent, depth int) []lpPath {
	switch s := st.(type) {
	case *ast.DeferStmt:
		// defer X.Unlock() or defer func(){...}()
		if fl, ok := s.Call.Fun.(*ast.FuncLit); ok {
			sub := &lpFunc{key: f.key + "$defer", body: fl.Body, file: f.file, outer: f}
			for _, p := range c.funcPaths(sub, depth+1) {
				*defers = append(*defers, p)
			}
			return paths
		}
		cps := c.callPaths(f, s.Call, depth)
		for _, cp := range cps {
			*defers = append(*defers, cp)
		}
		return paths
	case *ast.GoStmt:
		if fl, ok := s.Call.Fun.(*ast.FuncLit); ok {
			key := fmt.Sprintf("%s$go%d", f.key, len(c.threads))
			c.threads[key] = &lpFunc{key: key, body: fl.Body, file: f.file, outer: f}
		}
		return paths
	case *ast.ReturnStmt:
		paths = c.execExprCalls(f, s, paths, depth)
		for i := range paths {
			paths[i].done = true
		}
		return paths
	case *ast.IfStmt:
		if s.Init != nil {
			paths = c.execStmt(f, s.Init, paths, defers, depth)
		}
		paths = c.execExprCalls(f, s.Cond, paths, depth)
		thenP := c.execBlock(f, s.Body.List, clonePaths(paths), defers, depth)
		var elseP []lpPath
		if s.Else != nil {
			switch e := s.Else.(type) {
			case *ast.BlockStmt:
				elseP = c.execBlock(f, e.List, clonePaths(paths), defers, depth)
			default:
				elseP = c.execStmt(f, e, clonePaths(paths), defers, depth)
			}
		} else {
			elseP = clonePaths(paths)
		}
		return dedupPaths(append(thenP, elseP...))
	case *ast.ForStmt:
		if s.Init != nil {
			paths = c.execStmt(f, s.Init, paths, defers, depth)
		}
		body := c.execBlock(f, s.Body.List, clonePaths(paths), defers, depth)
		// loop body executed once (bodies are lock-balanced; checked by caller) or, if the loop has a condition, zero times
		if s.Cond != nil {
			return dedupPaths(append(body, clonePaths(paths)...))
		}
		return dedupPaths(body)
	case *ast.RangeStmt:
		body := c.execBlock(f, s.Body.List, clonePaths(paths), defers, depth)
		return dedupPaths(append(body, clonePaths(paths)...))
	case *ast.BlockStmt:
		return c.execBlock(f, s.List, paths, defers, depth)
	case *ast.SendStmt:
		paths = c.execExprCalls(f, s, paths, depth)
		if c.inSelect == 0 {
			paths = appendAll(paths, lpEvent{blk: "send on " + exprString(s.Chan)})
		}
		return paths
	case *ast.SelectStmt:
		hasDefault := false
		for _, cl := range s.Body.List {
			if cl.(*ast.CommClause).Comm == nil {
				hasDefault = true
			}
		}
		if !hasDefault {
			paths = appendAll(paths, lpEvent{blk: "select without default"})
		}
		var out []lpPath
		for _, cl := range s.Body.List {
			cc := cl.(*ast.CommClause)
			p := clonePaths(paths)
			if cc.Comm != nil {
				c.inSelect++
				p = c.execStmt(f, cc.Comm, p, defers, depth)
				c.inSelect--
			}
			out = append(out, c.execBlock(f, cc.Body, p, defers, depth)...)
		}
		return dedupPaths(out)
	case *ast.SwitchStmt:
		if s.Init != nil {
			paths = c.execStmt(f, s.Init, paths, defers, depth)
		}
		var out []lpPath
		hasDefault := false
		for _, cl := range s.Body.List {
			cc := cl.(*ast.CaseClause)
			if cc.List == nil {
				hasDefault = true
			}
			out = append(out, c.execBlock(f, cc.Body, clonePaths(paths), defers, depth)...)
		}
		if !hasDefault {
			out = append(out, clonePaths(paths)...)
		}
		return dedupPaths(out)
	case *ast.TypeSwitchStmt:
		var out []lpPath
		for _, cl := range s.Body.List {
			cc := cl.(*ast.CaseClause)
			out = append(out, c.execBlock(f, cc.Body, clonePaths(paths), defers, depth)...)
		}
		out = append(out, clonePaths(paths)...)
		return dedupPaths(out)
	case *ast.LabeledStmt:
		return c.execStmt(f, s.Stmt, paths, defers, depth)
	default:
		return c.execExprCalls(f, st, paths, depth)
	}
}

func clonePaths(p []lpPath) []lpPath {
	out := make([]lpPath, len(p))
	for i, x := range p {
		ev := make([]lpEvent, len(x.ev))
		copy(ev, x.ev)
		out[i] = lpPath{ev, x.done}
	}
	return out
}

func pathKey(ev []lpEvent) string {
	var b strings.Builder
	for _, e := range ev {
		if e.blk != "" {
			b.WriteString("!" + e.blk + ";")
			continue
		}
		if e.acq {
			b.WriteString("+")
		} else {
			b.WriteString("-")
		}
		b.WriteString(e.cls + ";")
	}
	return b.String()
}

func dedupPaths(p []lpPath) []lpPath {
	seen := map[string]bool{}
	var out []lpPath
	for _, x := range p {
		k := pathKey(x.ev)
		if x.done {
			k += "!"
		}
		if !seen[k] {
			seen[k] = true
			out = append(out, x)
		}
	}
	return out
}

// funcPaths: all paths of a function, with deferred events appended at exit (LIFO).
func (c *lpCtx) funcPaths(f *lpFunc, depth int) [][]lpEvent {
	if f.body == nil {
		return [][]lpEvent{{}}
	}
	var defers [][]lpEvent
	paths := c.execBlock(f, f.body.List, []lpPath{{}}, &defers, depth)
	seen := map[string]bool{}
	var out [][]lpEvent
	for _, p := range paths {
		ev := p.ev
		for i := len(defers) - 1; i >= 0; i-- {
			ev = append(append([]lpEvent{}, ev...), defers[i]...)
		}
		k := pathKey(ev)
		if !seen[k] {
			seen[k] = true
			out = append(out, ev)
		}
	}
	return out
}

func genLockProg() {
	c := &lpCtx{funcs: map[string]*lpFunc{}, classes: map[string]int{}, threads: map[string]*lpFunc{}, unresolved: map[string]bool{}}
	files := []string{"service/listeners.go", "cmd/outline-ss-server/main.go"}
	var entry []string
	for _, rel := range files {
		f := repoFile(rel)
		if f == nil {
			missing("lockprog: " + rel)
			continue
		}
		for _, d := range f.Decls {
			fd, ok := d.(*ast.FuncDecl)
			if !ok || fd.Body == nil {
				continue
			}
			rn, rt := recvOf(fd)
			key := fd.Name.Name
			if rt != "" {
				key = rt + "." + fd.Name.Name
			}
			if rel == "cmd/outline-ss-server/main.go" && rt != "listenerSet" {
				continue
			}
			lf := &lpFunc{key: key, recv: rn, typ: rt, body: fd.Body, file: f}
			c.funcs[key] = lf
			entry = append(entry, key)
			// closures bound to fields / arguments
			ast.Inspect(fd.Body, func(n ast.Node) bool {
				switch x := n.(type) {
				case *ast.KeyValueExpr:
					if id, ok := x.Key.(*ast.Ident); ok {
						if fl, ok := x.Value.(*ast.FuncLit); ok {
							c.funcs[key+"$"+id.Name] = &lpFunc{key: key + "$" + id.Name, body: fl.Body, file: f, outer: lf}
						}
					}
				case *ast.CallExpr:
					for i, a := range x.Args {
						if fl, ok := a.(*ast.FuncLit); ok {
							c.funcs[fmt.Sprintf("%s$arg%d", key, i)] = &lpFunc{key: fmt.Sprintf("%s$arg%d", key, i), body: fl.Body, file: f, outer: lf}
						}
					}
				}
				return true
			})
		}
	}
	// check the binding table against the source
	for from, m := range lpBindings {
		g, ok := c.funcs[from]
		if !ok {
			missing("lockprog: binding source " + from + " not found")
			continue
		}
		for callTxt, targets := range m {
			found := false
			ast.Inspect(g.body, func(n ast.Node) bool {
				if ce, ok := n.(*ast.CallExpr); ok && exprString(ce) == callTxt {
					found = true
				}
				return true
			})
			if !found {
				missing("lockprog: call " + callTxt + " not found in " + from)
			}
			for _, t := range targets {
				if _, ok := c.funcs[t]; !ok {
					missing("lockprog: binding target " + t + " not found")
				}
			}
		}
	}
	// every call through a func-typed field or interface that is not bound is reported
	sort.Strings(entry)
	type outPath struct {
		name string
		ev   []lpEvent
	}
	var all []outPath
	for _, k := range entry {
		for _, p := range c.funcPaths(c.funcs[k], 0) {
			all = append(all, outPath{k, p})
		}
	}
	var tkeys []string
	for k := range c.threads {
		tkeys = append(tkeys, k)
	}
	sort.Strings(tkeys)
	seenT := map[string]bool{}
	for _, k := range tkeys {
		base := k[:strings.LastIndex(k, "$go")]
		for _, p := range c.funcPaths(c.threads[k], 0) {
			kk := base + "|" + pathKey(p)
			if seenT[kk] {
				continue
			}
			seenT[kk] = true
			all = append(all, outPath{base + "$goroutine", p})
		}
	}
	for _, p := range c.problems {
		missing("lockprog: " + p)
	}
	// stable class numbering by name
	names := append([]string{}, c.names...)
	sort.Strings(names)
	id := map[string]int{}
	for i, n := range names {
		id[n] = i
	}
	var b strings.Builder
	b.WriteString("(* GENERATED by /verif/extractor from service/listeners.go and cmd/outline-ss-server/main.go. *)\n")
	b.WriteString("From Coq Require Import List String.\nFrom OSS Require Import theories.LockOrder.\nImport ListNotations.\n\n")
	var cn []string
	for _, n := range names {
		cn = append(cn, coqString(n))
	}
	b.WriteString("Definition lock_classes : list string :=\n  [" + strings.Join(cn, "; ") + "].\n\n")
	var rows []string
	var blocking []string
	blockSeen := map[string]bool{}
	seen := map[string]bool{}
	for _, p := range all {
		if len(p.ev) == 0 {
			continue
		}
		var es []string
		held := map[string]int{}
		for _, e := range p.ev {
			if e.blk != "" {
				var hs []string
				for k, v := range held {
					if v > 0 {
						hs = append(hs, k)
					}
				}
				if len(hs) > 0 {
					sort.Strings(hs)
					bl := fmt.Sprintf("(%s, %s)", coqString(p.name), coqString(e.blk+" while holding "+strings.Join(hs, ", ")))
					if !blockSeen[bl] {
						blockSeen[bl] = true
						blocking = append(blocking, bl)
					}
				}
				continue
			}
			if e.acq {
				held[e.cls]++
				es = append(es, fmt.Sprintf("Acq %d", id[e.cls]))
			} else {
				held[e.cls]--
				es = append(es, fmt.Sprintf("Rel %d", id[e.cls]))
			}
		}
		if len(es) == 0 {
			continue
		}
		row := fmt.Sprintf("(%s, [%s])", coqString(p.name), strings.Join(es, "; "))
		if !seen[row] {
			seen[row] = true
			rows = append(rows, row)
		}
	}
	if len(rows) == 0 {
		missing("lockprog: no lock paths found")
	}
	b.WriteString("Definition lock_paths : list (string * list instr) :=\n  [" + strings.Join(rows, ";\n   ") + "].\n")
	var un []string
	for k := range c.unresolved {
		un = append(un, k)
	}
	sort.Strings(un)
	var unq []string
	for _, k := range un {
		unq = append(unq, coqString(k))
	}
	sort.Strings(blocking)
	b.WriteString("\n(* potentially blocking operations (channel send / receive, select without default, Wait)\n   executed while a lock of these classes is held, on any path of any entry point *)\n")
	b.WriteString("Definition blocking_under_lock : list (string * string) :=\n  [" + strings.Join(blocking, ";\n   ") + "].\n")
	rep.Facts["lockprog.blocking_under_lock"] = fmt.Sprint(len(blocking))
	b.WriteString("\n(* callee expressions on these paths that are neither lock operations nor inlined *)\n")
	b.WriteString("Definition unresolved_calls : list string :=\n  [" + strings.Join(unq, "; ") + "].\n")
	writeIfChanged("LockProg.v", b.String())
	_ = token.NoPos
}
