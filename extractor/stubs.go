package main

func genLockProg() {}
func genSites()    {}
func genStatus()   {}
