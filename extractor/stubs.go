package main

func genStatus()   {}
