package main

func genSites()    {}
func genStatus()   {}
