package main

func genLockProg() {}
func genSites()    {}
func genLabels()   {}
func genStatus()   {}
