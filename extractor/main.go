// extractor regenerates coq/Gen/*.v from the current working tree of the
// repository: the facts the proofs depend on that are syntactic in the source.
// Stdlib only. A missing pattern never yields a silent default: it is reported
// in extract_report.json and emitted as a value that makes the dependent
// obligation fail.
package main

import (
	"encoding/json"
	"flag"
	"fmt"
	"go/ast"
	"go/parser"
	"go/token"
	"os"
	"path/filepath"
	"regexp"
	"sort"
	"strings"
)

type report struct {
	Missing []string          `json:"missing"`
	Facts   map[string]string `json:"facts"`
	Files   []string          `json:"files_written"`
}

var rep = report{Facts: map[string]string{}}
var repo, outDir, modCache string
var fset = token.NewFileSet()
var parsed = map[string]*ast.File{}

func missing(what string) {
	rep.Missing = append(rep.Missing, what)
}

func parseFile(path string) *ast.File {
	if f, ok := parsed[path]; ok {
		return f
	}
	f, err := parser.ParseFile(fset, path, nil, parser.ParseComments)
	if err != nil {
		missing("parse:" + path + ":" + err.Error())
		parsed[path] = nil
		return nil
	}
	parsed[path] = f
	return f
}

func repoFile(rel string) *ast.File { return parseFile(filepath.Join(repo, rel)) }

// writeIfChanged keeps mtimes stable so that make rebuilds only what changed.
func writeIfChanged(name, content string) {
	p := filepath.Join(outDir, name)
	old, err := os.ReadFile(p)
	if err == nil && string(old) == content {
		return
	}
	if err := os.WriteFile(p, []byte(content), 0o644); err != nil {
		fmt.Fprintln(os.Stderr, "write", p, err)
		os.Exit(2)
	}
	rep.Files = append(rep.Files, name)
}

// moduleDir resolves the directory of a dependency from go.mod + module cache.
func moduleDir(mod string) string {
	data, err := os.ReadFile(filepath.Join(repo, "go.mod"))
	if err != nil {
		return ""
	}
	re := regexp.MustCompile(`(?m)^\s*` + regexp.QuoteMeta(mod) + `\s+(v\S+)`)
	m := re.FindStringSubmatch(string(data))
	if m == nil {
		return ""
	}
	esc := ""
	for _, r := range mod {
		if r >= 'A' && r <= 'Z' {
			esc += "!" + strings.ToLower(string(r))
		} else {
			esc += string(r)
		}
	}
	return filepath.Join(modCache, esc+"@"+m[1])
}

func main() {
	flag.StringVar(&repo, "repo", "/repo", "repository root")
	flag.StringVar(&outDir, "out", "", "output directory (coq/Gen)")
	flag.StringVar(&modCache, "modcache", "/root/go/pkg/mod", "GOMODCACHE")
	flag.Parse()
	if outDir == "" {
		fmt.Fprintln(os.Stderr, "need -out")
		os.Exit(2)
	}
	os.MkdirAll(outDir, 0o755)
	genConsts()
	genLockProg()
	genSites()
	genLabels()
	genStatus()
	sort.Strings(rep.Missing)
	b, _ := json.MarshalIndent(rep, "", " ")
	os.WriteFile(filepath.Join(outDir, "extract_report.json"), append(b, '\n'), 0o644)
}
