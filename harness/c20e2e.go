package main

// C20, part 3: the real service (stream handler, packet handler) wired to the real Prometheus
// collectors, driven over loopback by clients with distinctive source addresses, through the
// failure classes whose error values carry addresses (resets, refused targets); then the whole
// exposition is scanned for the clients' address material.

import (
	"container/list"
	"context"
	"fmt"
	"io"
	"net"
	"strings"
	"time"

	"github.com/Jigsaw-Code/outline-sdk/transport/shadowsocks"
	oprom "github.com/Jigsaw-Code/outline-ss-server/prometheus"
	"github.com/Jigsaw-Code/outline-ss-server/service"
	"github.com/prometheus/client_golang/prometheus"
)

func c20e2e(ctx *Ctx) {
	sm, err := oprom.NewServiceMetrics(nil)
	if err != nil {
		ctx.Monitor("C20/harness-error", err.Error(), nil)
		return
	}
	reg := prometheus.NewRegistry()
	reg.MustRegister(sm)
	l := list.New()
	k1, _ := shadowsocks.NewEncryptionKey(cipherNames[0], secretStr(1))
	e1 := service.MakeCipherEntry("key-one", k1, secretStr(1))
	l.PushBack(&e1)
	cl := service.NewCipherList()
	cl.Update(l)
	cache := service.NewReplayCache(10)
	svc, err := service.NewShadowsocksService(service.WithCiphers(cl), service.WithMetrics(sm), service.WithNatTimeout(time.Second), service.WithReplayCache(&cache))
	if err != nil {
		ctx.Monitor("C20/harness-error", err.Error(), nil)
		return
	}
	ln, err := net.Listen("tcp", "127.0.0.1:0")
	if err != nil {
		return
	}
	defer ln.Close()
	go func() {
		for {
			c, err := ln.Accept()
			if err != nil {
				return
			}
			go func() { svc.HandleStream(context.Background(), c.(*net.TCPConn)); c.Close() }()
		}
	}()
	pc, _ := net.ListenPacket("udp", "127.0.0.1:0")
	defer pc.Close()
	go svc.HandlePacket(pc)
	// an echo target on the local public-range address (the service applies the default policy)
	havePublic := ensureLocalAddrs()["203.0.113.77"]
	echoAddr := []byte{1, 127, 0, 0, 1, 0, 9}
	if havePublic {
		el, err := net.Listen("tcp", "203.0.113.77:0")
		if err == nil {
			defer el.Close()
			go func() {
				for {
					c, err := el.Accept()
					if err != nil {
						return
					}
					go func() { io.Copy(c, c); c.Close() }()
				}
			}()
			p := el.Addr().(*net.TCPAddr).Port
			echoAddr = []byte{1, 203, 0, 113, 77, byte(p >> 8), byte(p)}
		}
	}
	// clients with distinctive source addresses
	var needles []string
	dial := func(i int) *net.TCPConn {
		for try := 0; try < 20; try++ {
			port := 41000 + i*37 + try
			d := net.Dialer{LocalAddr: &net.TCPAddr{IP: net.IPv4(127, 0, 0, 77), Port: port}, Timeout: 2 * time.Second}
			c, err := d.Dial("tcp", ln.Addr().String())
			if err == nil {
				needles = append(needles, fmt.Sprint(port))
				return c.(*net.TCPConn)
			}
		}
		return nil
	}
	needles = append(needles, "127.0.0.77", "7f00004d")
	steps := []string{"relay", "probe-fin", "probe-rst", "probe-rst-late", "replay", "bad-address", "refused-target", "private-target"}
	for i, st := range steps {
		c := dial(i)
		if c == nil {
			continue
		}
		ctx.Count("e2e:" + st)
		salt := genBytes(32, uint32(1000+i))
		switch st {
		case "relay":
			c.Write(ssStream(k1, salt, append(append([]byte{}, echoAddr...), []byte("hello")...)))
			c.SetReadDeadline(time.Now().Add(time.Second))
			io.ReadAll(io.LimitReader(c, 64))
			c.Close()
		case "probe-fin":
			c.Write(genBytes(200, 7))
			c.CloseWrite()
			c.SetReadDeadline(time.Now().Add(time.Second))
			io.Copy(io.Discard, c)
			c.Close()
		case "probe-rst", "probe-rst-late":
			c.Write(genBytes(300, 8))
			if st == "probe-rst-late" {
				time.Sleep(100 * time.Millisecond)
			} else {
				time.Sleep(10 * time.Millisecond)
			}
			c.SetLinger(0)
			c.Close() // RST: the drain ends with "connection reset by peer", an error that names both endpoints
		case "replay":
			w := ssStream(k1, genBytes(32, 1000), append(append([]byte{}, echoAddr...), []byte("again")...))
			c.Write(w)
			time.Sleep(30 * time.Millisecond)
			c.SetLinger(0)
			c.Close()
		case "bad-address":
			c.Write(ssStream(k1, salt, []byte{9, 1, 2, 3, 4, 5, 6}))
			time.Sleep(30 * time.Millisecond)
			c.SetLinger(0)
			c.Close()
		case "refused-target":
			c.Write(ssStream(k1, salt, []byte{1, 203, 0, 113, 77, 0, 1}))
			c.SetReadDeadline(time.Now().Add(time.Second))
			io.Copy(io.Discard, c)
			c.Close()
		case "private-target":
			c.Write(ssStream(k1, salt, []byte{1, 10, 99, 0, 1, 0, 80}))
			c.SetReadDeadline(time.Now().Add(time.Second))
			io.Copy(io.Discard, c)
			c.Close()
		}
	}
	// UDP
	for i, st := range []string{"udp-valid", "udp-garbage", "udp-private"} {
		port := 42000 + i*41
		uc, err := net.DialUDP("udp", &net.UDPAddr{IP: net.IPv4(127, 0, 0, 77), Port: port}, pc.LocalAddr().(*net.UDPAddr))
		if err != nil {
			continue
		}
		needles = append(needles, fmt.Sprint(port))
		ctx.Count("e2e:" + st)
		switch st {
		case "udp-valid":
			uc.Write(sealDgram(k1, genBytes(32, 2000), append([]byte{1, 203, 0, 113, 77, 0, 9}, 'x')))
		case "udp-garbage":
			uc.Write(genBytes(100, 9))
		case "udp-private":
			uc.Write(sealDgram(k1, genBytes(32, 2001), append([]byte{1, 10, 99, 0, 1, 0, 9}, 'x')))
		}
		time.Sleep(20 * time.Millisecond)
		uc.Close()
	}
	time.Sleep(300 * time.Millisecond)
	mfs, err := reg.Gather()
	if err != nil {
		ctx.Monitor("C20/harness-error", err.Error(), nil)
		return
	}
	series := 0
	for _, mf := range mfs {
		for _, mt := range mf.GetMetric() {
			series++
			for _, lb := range mt.GetLabel() {
				for _, n := range needles {
					if strings.Contains(lb.GetValue(), n) {
						ctx.Monitor("C20/label-exposes-client-address:"+mf.GetName()+"/"+lb.GetName(),
							fmt.Sprintf("after real traffic, label %s of %s has the value %q, which contains the client address material %q", lb.GetName(), mf.GetName(), lb.GetValue(), n),
							map[string]interface{}{"family": mf.GetName(), "label": lb.GetName(), "value": lb.GetValue()})
					}
				}
			}
		}
	}
	ctx.CountN("e2e:series-scanned", series)
}
