package main

import (
	"fmt"
	"sync"
	"sync/atomic"

	"github.com/Jigsaw-Code/outline-ss-server/service"
)

func init() { scenarios["C07"] = c07 }

type c07op struct {
	Add  bool   `json:"add"`
	ID   string `json:"id,omitempty"`
	Salt []byte `json:"salt,omitempty"`
	Idx  int    `json:"idx"`
	Cap  int    `json:"cap,omitempty"`
}

// c07 drives the real ReplayCache with histories of Add/Resize and records every output.
// Monitor (independent oracle for the property itself): a presentation repeated within
// the window of min-capacity-in-effect is refused.
func c07(ctx *Ctx) {
	r := ctx.Rng
	nHist := 220
	maxOps := 400
	if ctx.Thorough() {
		nHist, maxOps = 1500, 3000
	}
	ctx.Stats.Rule = "history = NewReplayCache(cap) followed by Add(id,salt)/Resize(n) ops on the real cache; non-trivial = history containing at least one refused Add and at least one rotation-sized run (adds > capacity); distinct by (cap, ops) content hash"
	var terms []string
	shard := 0
	flush := func() {
		if len(terms) > 0 {
			ctx.WriteCases(shard, "Corr.C07", "case", terms)
			shard++
			terms = nil
		}
	}
	caps := []int{0, 1, 2, 3, 4, 5, 7, 8, 16, 31, 64, 100, 250}
	for hi := 0; hi < nHist; hi++ {
		capacity := caps[r.Intn(len(caps))]
		if r.Chance(5) {
			capacity = r.Range(0, 2000)
		}
		if r.Chance(2) {
			capacity = 20000 + r.Intn(3) // 20000 ok, above panics
		}
		panicked := false
		hseed := uint32(r.U64())
		var cache service.ReplayCache
		func() {
			defer func() {
				if recover() != nil {
					panicked = true
				}
			}()
			cache = service.NewReplayCache(capacity)
		}()
		var ops []c07op
		var obs []bool
		if !panicked {
			n := r.Range(1, maxOps)
			// handshake i of this history is derived from the history seed (mirrors Corr/C07.v)
			ids := []string{"", "a", "key-1", "key-2", "longer-key-identifier-0123456789"}
			lens := []int{0, 1, 3, 4, 5, 16, 24, 32}
			type hs struct {
				id   string
				salt []byte
				idx  int
			}
			mk := func(i int) hs {
				return hs{ids[i%5], genBytes(lens[i%8], hseed+uint32(i)), i}
			}
			poolSize := r.Range(1, 3*capacity+4)
			if poolSize > 4000 {
				poolSize = 4000
			}
			fresh := poolSize
			curCap := capacity
			minCapSince := map[string]int{} // per handshake: min capacity in effect since last presentation
			addsSince := map[string]int{}
			refused, rot := 0, 0
			cksSeen := map[[4]byte]bool{}
			for i := 0; i < n; i++ {
				if r.Chance(4) {
					nc := caps[r.Intn(len(caps))]
					if r.Chance(10) {
						nc = 20000 + r.Intn(2)
					}
					err := cache.Resize(nc)
					ops = append(ops, c07op{Cap: nc})
					obs = append(obs, err == nil)
					ctx.Count("op:resize")
					if err == nil {
						curCap = nc
						for k, v := range minCapSince {
							if nc < v {
								minCapSince[k] = nc
							}
						}
					}
					continue
				}
				var h hs
				if r.Chance(70) {
					h = mk(r.Intn(poolSize))
				} else {
					h = mk(fresh)
					fresh++
				}
				ok := cache.Add(h.id, h.salt)
				ops = append(ops, c07op{Add: true, ID: h.id, Salt: h.salt, Idx: h.idx})
				obs = append(obs, ok)
				ctx.Count("op:add")
				key := h.id + "\x00" + string(h.salt)
				// the documented 32-bit checksum: key ID and salt folded by XOR into four bytes
				var ck [4]byte
				for j := 0; j < len(h.id); j++ {
					ck[j&3] ^= h.id[j]
				}
				for j, v := range h.salt {
					ck[j&3] ^= v
				}
				if !ok {
					refused++
					ctx.Count("out:refused")
					// monitor: a handshake is refused only if it, or one with the same checksum, was added before
					if !cksSeen[ck] {
						ctx.Monitor("C07/never-seen-handshake-refused",
							fmt.Sprintf("Add(%q, %d-byte salt) was refused although no handshake with its checksum was ever added to this cache", h.id, len(h.salt)),
							map[string]interface{}{"cap": capacity, "ops": ops})
					}
				}
				cksSeen[ck] = true
				// monitor: replay within window must be refused
				if mc, seen := minCapSince[key]; seen && mc >= 1 && addsSince[key] <= mc && ok {
					ctx.Monitor("C07/replay-accepted-within-window",
						fmt.Sprintf("handshake presented again after %d other adds with min capacity %d was accepted", addsSince[key], mc),
						map[string]interface{}{"cap": capacity, "ops": ops})
				}
				for k := range addsSince {
					addsSince[k]++
				}
				minCapSince[key] = curCap
				addsSince[key] = 0
				if curCap > 0 && i > curCap {
					rot++
				}
			}
			if refused > 0 && rot > 0 {
				ctx.NonTrivial(fmt.Sprintf("%d/%v", capacity, ops))
			}
		} else {
			ctx.Count("new:panic")
		}
		var ot []string
		for _, o := range ops {
			if o.Add {
				ot = append(ot, fmt.Sprintf("P %d", o.Idx))
			} else {
				ot = append(ot, fmt.Sprintf("R %s", cZ(int64(o.Cap))))
			}
		}
		terms = append(terms, fmt.Sprintf("{| c_cap := %s; c_new_panics := %s; c_seed := %d; c_ops := %s; c_obs := %s |}",
			cZ(int64(capacity)), cBool(panicked), hseed, cListT("cop", ot), cBools(obs)))
		ctx.Stats.Cases++
		if hi < 2 {
			ctx.Sample(map[string]interface{}{"cap": capacity, "ops": ops[:min(len(ops), 12)], "obs": obs[:min(len(obs), 12)]})
		}
		if len(terms) >= 14 {
			flush()
		}
	}
	flush()

	replayConcurrentWinners(ctx, "C07/concurrent-winners")
	c07process(ctx)
}

// replayConcurrentWinners: copies of one never-seen handshake presented at the same instant
// (spin barrier) to the real ReplayCache: exactly one is accepted. Used by C07 (at most once)
// and C19 (results equal to some sequential order of the calls).
func replayConcurrentWinners(ctx *Ctx, sig string) {
	r := ctx.Rng.Fork()
	// concurrent presentations of one fresh handshake: exactly one winner (monitor only;
	// the theorem is concurrent_one_winner).
	batches := 1500
	if ctx.Thorough() {
		batches = 20000
	}
	for b := 0; b < batches; b++ {
		capacity := []int{1, 2, 8, 64}[r.Intn(4)]
		cache := service.NewReplayCache(capacity)
		salt := r.Bytes(32)
		G := 2 + r.Intn(7)
		var wg sync.WaitGroup
		res := make([]bool, G)
		// a spin barrier: the copies are presented at the same instant, not one wake-up after another
		var ready int32
		for g := 0; g < G; g++ {
			wg.Add(1)
			go func(g int) {
				defer wg.Done()
				atomic.AddInt32(&ready, 1)
				for atomic.LoadInt32(&ready) < int32(G) {
				}
				res[g] = cache.Add("k", salt)
			}(g)
		}
		wg.Wait()
		wins := 0
		for _, x := range res {
			if x {
				wins++
			}
		}
		ctx.Count("concurrent:batches")
		if wins != 1 {
			ctx.Monitor(sig, fmt.Sprintf("%d of %d concurrent presentations accepted", wins, G), map[string]interface{}{"cap": capacity})
		}
	}
}
