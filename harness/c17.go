package main

import (
	"errors"
	"fmt"
	"math"
	"net"
	"strings"
	"time"

	"github.com/Jigsaw-Code/outline-ss-server/ipinfo"
	oprom "github.com/Jigsaw-Code/outline-ss-server/prometheus"
	"github.com/Jigsaw-Code/outline-ss-server/service"
	"github.com/Jigsaw-Code/outline-ss-server/service/metrics"
	"github.com/prometheus/client_golang/prometheus"
	dto "github.com/prometheus/client_model/go"
)

func init() { scenarios["C17"] = c17 }

// fakeIPInfo labels client IP id i (encoded in the address) with country "L<i mod nlocs>".
type fakeIPInfo struct{ nlocs int }

func ipOfID(id int) net.IP { return net.IPv4(byte(20+id/250), 1, byte(id/250), byte(1+id%250)) }
func idOfIP(ip net.IP) int {
	ip4 := ip.To4()
	return int(ip4[2])*250 + int(ip4[3]) - 1
}
func (f *fakeIPInfo) GetIPInfo(ip net.IP) (ipinfo.IPInfo, error) {
	if ip.To4() == nil {
		return ipinfo.IPInfo{}, errors.New("no v6 in this harness")
	}
	if idOfIP(ip)%7 == 3 {
		// a database error for some clients: they are located "XD" and their tunnel time counts all the same
		// (with a partially filled answer, as when only the ASN database fails)
		return ipinfo.IPInfo{CountryCode: ipinfo.CountryCode(fmt.Sprintf("L%d", idOfIP(ip)%f.nlocs))}, errors.New("lookup failed")
	}
	return ipinfo.IPInfo{CountryCode: ipinfo.CountryCode(fmt.Sprintf("L%d", idOfIP(ip)%f.nlocs))}, nil
}

type fakeConn struct {
	net.Conn
	remote, local net.Addr
}

func (c *fakeConn) RemoteAddr() net.Addr { return c.remote }
func (c *fakeConn) LocalAddr() net.Addr  { return c.local }

type cev struct {
	Kind string `json:"k"` // tcpopen tcpauth tcpclose udpadd udpremove tick scrape
	ID   int    `json:"id,omitempty"`
	IP   int    `json:"ip,omitempty"`
	Key  int    `json:"key,omitempty"`
	Dt   int    `json:"dt,omitempty"`
}

func keyName(k int) string {
	if k == 0 {
		return "" // a key configured without an id
	}
	return fmt.Sprintf("key-%d", k)
}

func gatherTunnel(reg *prometheus.Registry, nkeys, nlocs int) ([]int64, []int64, error) {
	mfs, err := reg.Gather()
	if err != nil {
		return nil, nil, err
	}
	perKey := make([]int64, nkeys)
	perLoc := make([]int64, nlocs+1) // the last bucket is location "XD" (database error)
	for _, mf := range mfs {
		for _, m := range mf.GetMetric() {
			lab := map[string]string{}
			for _, l := range m.GetLabel() {
				lab[l.GetName()] = l.GetValue()
			}
			v := counterValue(m)
			// the clock of the harness moves in milliseconds; the counters are float seconds
			iv := int64(math.Round(v * 1000))
			if math.Abs(v*1000-float64(iv)) > 1e-3 {
				return nil, nil, fmt.Errorf("tunnel time %v s is not a whole number of milliseconds", v)
			}
			switch mf.GetName() {
			case "tunnel_time_seconds":
				for k := 0; k < nkeys; k++ {
					if keyName(k) == lab["access_key"] {
						perKey[k] += iv
					}
				}
			case "tunnel_time_seconds_per_location":
				for l := 0; l < nlocs; l++ {
					if fmt.Sprintf("L%d", l) == lab["location"] {
						perLoc[l] += iv
					}
				}
				if lab["location"] == "XD" {
					perLoc[nlocs] += iv
				}
			}
		}
	}
	return perKey, perLoc, nil
}

func counterValue(m *dto.Metric) float64 {
	if m.Counter != nil {
		return m.Counter.GetValue()
	}
	if m.Gauge != nil {
		return m.Gauge.GetValue()
	}
	return 0
}

// runC17History executes one connection-level history against the real collectors.
func runC17History(h []cev, nkeys, nlocs int) (obs [][2][]int64, err error) {
	clock := time.Unix(1_700_000_000, 0)
	oprom.VerifSetNow(func() time.Time { return clock })
	sm, err := oprom.NewServiceMetrics(&fakeIPInfo{nlocs})
	if err != nil {
		return nil, err
	}
	reg := prometheus.NewRegistry()
	if err := reg.Register(sm); err != nil {
		return nil, err
	}
	tcp := map[int]service.TCPConnMetrics{}
	udp := map[int]service.UDPConnMetrics{}
	for _, e := range h {
		switch e.Kind {
		case "tcpopen":
			c := &fakeConn{remote: &net.TCPAddr{IP: ipOfID(e.IP), Port: 1000 + e.ID}, local: &net.TCPAddr{IP: net.IPv4(127, 0, 0, 1), Port: 9000}}
			tcp[e.ID] = sm.AddOpenTCPConnection(c)
		case "tcpauth":
			if m, ok := tcp[e.ID]; ok {
				m.AddAuthenticated(keyName(e.Key))
			}
		case "tcpclose":
			if m, ok := tcp[e.ID]; ok {
				m.AddClosed("OK", metrics.ProxyMetrics{}, time.Second)
				delete(tcp, e.ID)
			}
		case "udpadd":
			udp[e.ID] = sm.AddUDPNatEntry(&net.UDPAddr{IP: ipOfID(e.IP), Port: 2000 + e.ID}, keyName(e.Key))
		case "udpremove":
			if m, ok := udp[e.ID]; ok {
				m.RemoveNatEntry()
				delete(udp, e.ID)
			}
		case "tick":
			clock = clock.Add(time.Duration(e.Dt) * time.Millisecond)
		case "scrape":
			k, l, err := gatherTunnel(reg, nkeys, nlocs)
			if err != nil {
				return nil, err
			}
			obs = append(obs, [2][]int64{k, l})
		}
	}
	return obs, nil
}

func c17term(h []cev, nkeys, nlocs int, obs [][2][]int64) string {
	var es []string
	for _, e := range h {
		switch e.Kind {
		case "tcpopen":
			es = append(es, fmt.Sprintf("TcpOpen %d %d", e.ID, e.IP))
		case "tcpauth":
			es = append(es, fmt.Sprintf("TcpAuth %d %d", e.ID, e.Key))
		case "tcpclose":
			es = append(es, fmt.Sprintf("TcpClose %d", e.ID))
		case "udpadd":
			es = append(es, fmt.Sprintf("UdpAdd %d %d %d", e.ID, e.IP, e.Key))
		case "udpremove":
			es = append(es, fmt.Sprintf("UdpRemove %d", e.ID))
		case "tick":
			es = append(es, fmt.Sprintf("CTick %d", e.Dt))
		case "scrape":
			es = append(es, "Scrape")
		}
	}
	zl := func(v []int64) string {
		s := make([]string, len(v))
		for i, x := range v {
			s[i] = fmt.Sprintf("%d", x)
		}
		return "(" + cListT("Z", s) + ")%Z"
	}
	var os []string
	for _, o := range obs {
		os = append(os, "("+zl(o[0])+", "+zl(o[1])+")")
	}
	return fmt.Sprintf("{| c_h := (%s)%%N; c_nkeys := %d%%N; c_nlocs := %d%%N; c_obs := %s |}", cListT("cev", es), nkeys, nlocs, cListT("(list Z * list Z)", os))
}

// c17truth is the monitor: an independent computation of the property's right-hand side.
func c17truth(h []cev, nkeys int) [][]int64 {
	type pair struct{ ip, key int }
	open := map[pair]int{}
	truth := map[pair]int64{}
	tcpIP := map[int]int{}
	tcpKey := map[int]int{}
	udpP := map[int]pair{}
	var out [][]int64
	for _, e := range h {
		switch e.Kind {
		case "tcpopen":
			tcpIP[e.ID] = e.IP
			tcpKey[e.ID] = -1
		case "tcpauth":
			if _, ok := tcpIP[e.ID]; ok {
				tcpKey[e.ID] = e.Key
				open[pair{tcpIP[e.ID], e.Key}]++
			}
		case "tcpclose":
			if ip, ok := tcpIP[e.ID]; ok {
				if k := tcpKey[e.ID]; k >= 0 {
					open[pair{ip, k}]--
				}
				delete(tcpIP, e.ID)
			}
		case "udpadd":
			udpP[e.ID] = pair{e.IP, e.Key}
			open[pair{e.IP, e.Key}]++
		case "udpremove":
			if p, ok := udpP[e.ID]; ok {
				open[p]--
				delete(udpP, e.ID)
			}
		case "tick":
			for p, n := range open {
				if n > 0 {
					truth[p] += int64(e.Dt)
				}
			}
		case "scrape":
			row := make([]int64, nkeys)
			for p, t := range truth {
				row[p.key] += t
			}
			out = append(out, row)
		}
	}
	return out
}

func genC17History(r *Rng, n, nkeys, nips int) []cev {
	var h []cev
	nextID := 1
	var openTCP, authTCP, openUDP []int
	for len(h) < n {
		switch c := r.Intn(100); {
		case c < 18:
			h = append(h, cev{Kind: "tcpopen", ID: nextID, IP: r.Intn(nips)})
			openTCP = append(openTCP, nextID)
			nextID++
		case c < 34 && len(openTCP) > 0:
			i := r.Intn(len(openTCP))
			id := openTCP[i]
			openTCP = append(openTCP[:i], openTCP[i+1:]...)
			h = append(h, cev{Kind: "tcpauth", ID: id, Key: r.Intn(nkeys)})
			authTCP = append(authTCP, id)
		case c < 46 && len(authTCP) > 0:
			i := r.Intn(len(authTCP))
			h = append(h, cev{Kind: "tcpclose", ID: authTCP[i]})
			authTCP = append(authTCP[:i], authTCP[i+1:]...)
		case c < 52 && len(openTCP) > 0: // unauthenticated close (probe)
			i := r.Intn(len(openTCP))
			h = append(h, cev{Kind: "tcpclose", ID: openTCP[i]})
			openTCP = append(openTCP[:i], openTCP[i+1:]...)
		case c < 64:
			h = append(h, cev{Kind: "udpadd", ID: nextID, IP: r.Intn(nips), Key: r.Intn(nkeys)})
			openUDP = append(openUDP, nextID)
			nextID++
		case c < 74 && len(openUDP) > 0:
			i := r.Intn(len(openUDP))
			h = append(h, cev{Kind: "udpremove", ID: openUDP[i]})
			openUDP = append(openUDP[:i], openUDP[i+1:]...)
		case c < 90:
			h = append(h, cev{Kind: "tick", Dt: []int{0, 250, 400, 700, 1000, 1000, 2000, 5000, 60000, 3600000}[r.Intn(10)]}) // milliseconds
		default:
			h = append(h, cev{Kind: "scrape"})
		}
	}
	h = append(h, cev{Kind: "tick", Dt: 7000}, cev{Kind: "scrape"})
	return h
}

func c17(ctx *Ctx) {
	r := ctx.Rng
	ctx.Stats.Rule = "history = random interleaving of TCP open/auth/close (incl. unauthenticated closes), UDP add/remove, clock ticks of 0.25 s to an hour (milliseconds in model and harness) and scrapes over several client IPs and keys (key 0 has the empty ID) against the real prometheus collectors with a stubbed clock; non-trivial = history with overlapping tunnels of one (ip,key), at least 2 scrapes and a non-zero total; distinct by content"
	n := 200
	if ctx.Thorough() {
		n = 3000
	}
	var terms []string
	shard := 0
	// corpus first: the empty-ID witness (fixed defect, must stay fixed)
	corpus := [][]cev{{{Kind: "tcpopen", ID: 1, IP: 3}, {Kind: "tcpauth", ID: 1, Key: 0}, {Kind: "tick", Dt: 5000}, {Kind: "tcpclose", ID: 1}, {Kind: "tick", Dt: 100000}, {Kind: "scrape"}}}
	for i := 0; i < n+len(corpus); i++ {
		nkeys, nips, nlocs := r.Range(1, 4), r.Range(1, 5), r.Range(1, 3)
		var h []cev
		if i < len(corpus) {
			h = corpus[i]
			nkeys, nips, nlocs = 2, 5, 2
			ctx.Count("corpus")
		} else {
			h = genC17History(r, r.Range(3, 70), nkeys, nips)
		}
		_ = nips
		obs, err := runC17History(h, nkeys, nlocs)
		if err != nil {
			ctx.Monitor("C17/harness-error", err.Error(), h)
			continue
		}
		truth := c17truth(h, nkeys)
		total := int64(0)
		for si := range obs {
			for k := 0; k < nkeys; k++ {
				total += obs[si][0][k]
				if obs[si][0][k] != truth[si][k] {
					cls := "nonempty-id"
					if k == 0 {
						cls = "empty-id"
					}
					ctx.Monitor("C17/key-total-mismatch/"+cls, fmt.Sprintf("scrape %d: key %q reports %d s, clients had tunnels open for %d s", si, keyName(k), obs[si][0][k], truth[si][k]), h)
				}
			}
			var sk, sl int64
			for _, v := range obs[si][0] {
				sk += v
			}
			for _, v := range obs[si][1] {
				sl += v
			}
			if sk != sl {
				ctx.Monitor("C17/location-total-ne-key-total", fmt.Sprintf("scrape %d: keys %d s, locations %d s", si, sk, sl), h)
			}
		}
		for _, e := range h {
			ctx.Count("ev:" + e.Kind)
		}
		if len(obs) >= 2 && total > 0 {
			ctx.NonTrivial(fmt.Sprintf("%v", h))
		}
		terms = append(terms, c17term(h, nkeys, nlocs, obs))
		ctx.Stats.Cases++
		if i < 2 {
			ctx.Sample(map[string]interface{}{"history": h, "scrapes": obs})
		}
		if len(terms) >= 25 {
			ctx.WriteCases(shard, "Corr.C17", "case", terms)
			shard++
			terms = nil
		}
	}
	if len(terms) > 0 {
		ctx.WriteCases(shard, "Corr.C17", "case", terms)
	}
	// corpus: scrape racing with a tunnel start (child process: the defect was a process panic)
	c17ServiceE2E(ctx)
	out, code := runSelfChild(20*time.Second, "c17scrape")
	ctx.Count("corpus:scrape-vs-start")
	out2, code2 := runSelfChild(20*time.Second, "c17close")
	ctx.Count("corpus:scrape-vs-last-close")
	if code2 != 0 || !strings.Contains(out2, "close survived") {
		ctx.Monitor("C17/scrape-vs-last-close", "a scrape overlapping the close of a client's last tunnel crashes or keeps counting: "+tailStr(out2, 400), map[string]interface{}{"child": "c17close", "exit": code2})
	}
	if code != 0 || !strings.Contains(out, "scrape survived") {
		ctx.Monitor("C17/scrape-vs-start-panic", "a scrape overlapping the start of a tunnel crashes or miscounts: "+tailStr(out, 400), map[string]interface{}{"child": "c17scrape", "exit": code})
	}
}
