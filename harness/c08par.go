package main

// C08 under concurrency: many connections of ONE key at the same time through the real stream
// handler (every connection of a key uses the key's one salt generator, at authentication and at
// the first response write). Every response stream must start with a salt that is new and that a
// salt generator for that secret recognises; every recording of real server output presented back
// as a client handshake must be refused as a reflected replay.

import (
	"context"
	"fmt"
	"io"
	"net"
	"sync"
	"time"

	"github.com/Jigsaw-Code/outline-sdk/transport"
	"github.com/Jigsaw-Code/outline-sdk/transport/shadowsocks"
	"github.com/Jigsaw-Code/outline-ss-server/service"
)

func c08Parallel(ctx *Ctx) {
	G, per := 16, 30
	if ctx.Thorough() {
		per = 200
	}
	for _, ci := range []int{0, 2} { // 32-byte and 24-byte salts
		cfg := []cfgKey{{ID: 0, C: ci, S: 7}}
		cl := service.NewCipherList()
		cl.Update(makeList(cfg))
		auth := service.NewShadowsocksStreamAuthenticator(cl, nil, nil, nil) // replay history disabled
		handler := service.NewStreamHandler(auth, 2*time.Second)
		handler.SetTargetDialer(&transport.TCPDialer{})
		echo, err := net.Listen("tcp", "127.0.0.1:0")
		if err != nil {
			return
		}
		go func() {
			for {
				c, err := echo.Accept()
				if err != nil {
					return
				}
				go func() { io.Copy(c, c); c.Close() }()
			}
		}()
		sl, err := net.Listen("tcp", "127.0.0.1:0")
		if err != nil {
			echo.Close()
			return
		}
		var smu sync.Mutex
		statuses := map[string]string{} // client address -> close status
		go func() {
			for {
				c, err := sl.Accept()
				if err != nil {
					return
				}
				go func() {
					defer func() { recover() }()
					rec := &recTCPMetrics{}
					handler.Handle(context.Background(), c.(*net.TCPConn), rec)
					c.Close()
					rec.mu.Lock()
					for _, e := range rec.evs {
						if e.Kind == "closed" {
							smu.Lock()
							statuses[c.RemoteAddr().String()] = e.Status
							smu.Unlock()
						}
					}
					rec.mu.Unlock()
				}()
			}
		}()
		key := mkKey(ci, 7)
		ep := echo.Addr().(*net.TCPAddr).Port
		taddr := []byte{1, 127, 0, 0, 1, byte(ep >> 8), byte(ep)}
		var rmu sync.Mutex
		var recordings [][]byte
		var wg sync.WaitGroup
		for g := 0; g < G; g++ {
			wg.Add(1)
			go func(g int) {
				defer wg.Done()
				for i := 0; i < per; i++ {
					c, err := net.Dial("tcp", sl.Addr().String())
					if err != nil {
						continue
					}
					w := shadowsocks.NewWriter(c, key)
					msg := []byte(fmt.Sprintf("hello-%d-%d", g, i))
					w.Write(append(append([]byte{}, taddr...), msg...))
					c.SetReadDeadline(time.Now().Add(2 * time.Second))
					raw := make([]byte, key.SaltSize()+2+16+len(msg)+16)
					if _, err := io.ReadFull(c, raw); err == nil {
						rmu.Lock()
						recordings = append(recordings, raw)
						rmu.Unlock()
					}
					c.Close()
				}
			}(g)
		}
		wg.Wait()
		ctx.CountN("parallel:recordings", len(recordings))
		// every response salt is recognised by a generator for this secret, and is new
		gen := service.NewServerSaltGenerator(secretStr(7))
		seen := map[string]bool{}
		bad, dup := 0, 0
		for _, r := range recordings {
			salt := r[:key.SaltSize()]
			if !gen.IsServerSalt(salt) {
				bad++
			}
			if seen[string(salt)] {
				dup++
			}
			seen[string(salt)] = true
		}
		spec := map[string]interface{}{"cipher": cipherNames[ci], "goroutines": G, "connections_each": per}
		if bad > 0 {
			ctx.Monitor("C08/concurrent-server-salt-not-recognised", fmt.Sprintf("%d of %d response streams of concurrent connections of one key start with a salt that is not server-issued for that key", bad, len(recordings)), spec)
		}
		if dup > 0 {
			ctx.Monitor("C08/concurrent-server-salt-repeated", fmt.Sprintf("%d response salts were used twice", dup), spec)
		}
		// reflect every recording, again concurrently
		var accepted int64
		var amu sync.Mutex
		sem := make(chan struct{}, G)
		for _, r := range recordings {
			wg.Add(1)
			sem <- struct{}{}
			go func(r []byte) {
				defer wg.Done()
				defer func() { <-sem }()
				c, err := net.Dial("tcp", sl.Addr().String())
				if err != nil {
					return
				}
				local := c.LocalAddr().String()
				c.Write(r)
				c.(*net.TCPConn).CloseWrite()
				c.SetReadDeadline(time.Now().Add(3 * time.Second))
				io.Copy(io.Discard, c)
				c.Close()
				var st string
				for try := 0; try < 300; try++ {
					smu.Lock()
					st = statuses[local]
					smu.Unlock()
					if st != "" {
						break
					}
					time.Sleep(5 * time.Millisecond)
				}
				if st != "ERR_REPLAY_SERVER" {
					amu.Lock()
					accepted++
					amu.Unlock()
				}
			}(r)
		}
		wg.Wait()
		ctx.CountN("parallel:reflections", len(recordings))
		if accepted > 0 {
			ctx.Monitor("C08/concurrent-reflection-not-refused", fmt.Sprintf("%d of %d recordings of real server output, presented back concurrently as client handshakes, were not refused as reflected replays", accepted, len(recordings)), spec)
		}
		sl.Close()
		echo.Close()
	}
}
