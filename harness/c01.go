package main

import (
	"bytes"
	"container/list"
	"fmt"
	"io"
	"net"
	"strings"
	"sync"
	"time"

	"github.com/Jigsaw-Code/outline-sdk/transport/shadowsocks"
	"github.com/Jigsaw-Code/outline-ss-server/service"
)

func init() {
	scenarios["C01"] = func(ctx *Ctx) { cAuth(ctx, "C01") }
	scenarios["C08"] = func(ctx *Ctx) { cAuth(ctx, "C08"); c08Parallel(ctx) }
}

var cipherNames = []string{shadowsocks.CHACHA20IETFPOLY1305, shadowsocks.AES256GCM, shadowsocks.AES192GCM, shadowsocks.AES128GCM}
var saltSizes = []int{32, 32, 24, 16}

func secretStr(s int) string { return fmt.Sprintf("secret-%d", s) }
func idStr(n int) string {
	if n == 100 {
		return ""
	}
	return string(rune('A' + n))
}
func mkKey(c, s int) *shadowsocks.EncryptionKey {
	k, err := shadowsocks.NewEncryptionKey(cipherNames[c], secretStr(s))
	if err != nil {
		panic(err)
	}
	return k
}

type fixedSalt []byte

func (f fixedSalt) GetSalt(salt []byte) error { copy(salt, f); return nil }

// ssStream returns the bytes an honest client sends: salt, then one chunk per payload.
func ssStream(key *shadowsocks.EncryptionKey, salt []byte, payloads ...[]byte) []byte {
	var buf bytes.Buffer
	w := shadowsocks.NewWriter(&buf, key)
	w.SetSaltGenerator(fixedSalt(salt))
	for _, p := range payloads {
		if _, err := w.Write(p); err != nil {
			panic(err)
		}
	}
	return buf.Bytes()
}

// ssStreamEmptyChunk: salt, then one chunk whose length record says 0 (sealed length, sealed empty
// payload; the nonce is a little-endian counter)
func ssStreamEmptyChunk(key *shadowsocks.EncryptionKey, salt []byte) []byte {
	aead, err := key.NewAEAD(salt)
	if err != nil {
		panic(err)
	}
	nonce := make([]byte, aead.NonceSize())
	out := append([]byte{}, salt...)
	out = aead.Seal(out, nonce, []byte{0, 0}, nil)
	nonce[0] = 1
	return aead.Seal(out, nonce, nil, nil)
}

type byteConn struct {
	r      io.Reader
	remote net.Addr
	wrote  bytes.Buffer
	mu     sync.Mutex
}

func (c *byteConn) Read(b []byte) (int, error) { return c.r.Read(b) }
func (c *byteConn) Write(b []byte) (int, error) {
	c.mu.Lock()
	defer c.mu.Unlock()
	return c.wrote.Write(b)
}
func (c *byteConn) Close() error                       { return nil }
func (c *byteConn) CloseRead() error                   { return nil }
func (c *byteConn) CloseWrite() error                  { return nil }
func (c *byteConn) LocalAddr() net.Addr                { return &net.TCPAddr{IP: net.IPv4(127, 0, 0, 1), Port: 9} }
func (c *byteConn) RemoteAddr() net.Addr               { return c.remote }
func (c *byteConn) SetDeadline(t time.Time) error      { return nil }
func (c *byteConn) SetReadDeadline(t time.Time) error  { return nil }
func (c *byteConn) SetWriteDeadline(t time.Time) error { return nil }

func ipOfN(n int) net.Addr {
	if n == 0 {
		return nil
	}
	return &net.TCPAddr{IP: net.IPv4(10, 0, byte(n>>8), byte(n)), Port: 1000 + n%100}
}
func nOfIPString(s string) int {
	if s == "" {
		return 0
	}
	ip := net.ParseIP(s).To4()
	return int(ip[2])<<8 | int(ip[3])
}

type cfgKey struct{ ID, C, S int }

type authOp struct {
	Update []cfgKey `json:"update,omitempty"`
	IP     int      `json:"ip"`
	Kind   string   `json:"kind,omitempty"` // honest garbage trunc corrupt
	C, S   int
	Seed   uint32 `json:"seed,omitempty"`
	Tail   int    `json:"tail,omitempty"`
	N      int    `json:"n,omitempty"`    // trunc length / corrupt offset / garbage length
	SrvC   int    `json:"srvc,omitempty"` // server-issued salt for key (SrvC, SrvS); -1 = none
	SrvS   int    `json:"srvs,omitempty"`
	Salt   []byte `json:"salt,omitempty"`
}

func makeList(cfg []cfgKey) *list.List {
	l := list.New()
	for _, k := range cfg {
		e := service.MakeCipherEntry(idStr(k.ID), mkKey(k.C, k.S), secretStr(k.S))
		l.PushBack(&e)
	}
	return l
}

func cfgTerm(cfg []cfgKey) string {
	var es []string
	for _, k := range cfg {
		es = append(es, fmt.Sprintf("(%d, %d, %d)", k.ID, k.C, k.S))
	}
	return cListT("(N * N * N)", es)
}

func statusCode(s string) int {
	switch s {
	case "":
		return 0
	case "ERR_CIPHER":
		return 1
	case "ERR_REPLAY_SERVER":
		return 2
	case "ERR_REPLAY_CLIENT":
		return 3
	}
	return 8
}

func genCfg(r *Rng, n, nsecrets int) []cfgKey {
	var cfg []cfgKey
	for i := 0; i < n; i++ {
		id := i % 26
		if r.Chance(4) {
			id = 100
		}
		k := cfgKey{id, r.Intn(4), r.Intn(nsecrets)}
		if len(cfg) > 0 && r.Chance(8) { // duplicate (cipher, secret) under another ID
			d := cfg[r.Intn(len(cfg))]
			k.C, k.S = d.C, d.S
		}
		cfg = append(cfg, k)
	}
	return cfg
}

// cAuth drives the real stream authenticator with abstract connection histories.
func cAuth(ctx *Ctx, prop string) {
	r := ctx.Rng
	ctx.Stats.Rule = "history = key list (1..60 keys, 4 ciphers mixed, duplicate secrets, empty ID) + ops {honest handshake (fresh / repeated / server-issued salt, own or foreign key), garbage, truncated, corrupted, key-list replacement} from client IPs incl. the zero address, through the real NewShadowsocksStreamAuthenticator with a shared ReplayCache; observed per op: status, attributed ID, key-list order with last client IPs; non-trivial = history with at least one OK, one ERR_CIPHER and one reordering; distinct by content"
	nHist := 160
	if ctx.Thorough() {
		nHist = 1500
	}
	if prop == "C08" {
		nHist = nHist / 2
	}
	var terms []string
	shard := 0
	for h := 0; h < nHist; h++ {
		nkeys := []int{1, 2, 3, 5, 8, 12, 25, 60}[r.Intn(8)]
		nsecrets := nkeys + 2
		cfg := genCfg(r, nkeys, nsecrets)
		capacity := []int{0, 1, 4, 50}[r.Intn(4)]
		nilCache := r.Chance(10)
		cl := service.NewCipherList()
		cl.Update(makeList(cfg))
		cache := service.NewReplayCache(capacity)
		var rc *service.ReplayCache
		if !nilCache {
			rc = &cache
		}
		auth := service.NewShadowsocksStreamAuthenticator(cl, rc, nil, nil)
		cur := cfg
		nops := r.Range(4, 30)
		var ops []authOp
		var obsT, opT []string
		var usedSeeds []authOp
		var usedSrv []authOp
		nOK, nCipher, reorder := 0, 0, 0
		prevOrder := ""
		for i := 0; i < nops; i++ {
			var op authOp
			op.SrvC = -1
			if r.Chance(6) {
				op.Update = genCfg(r, []int{1, 2, 4, 9}[r.Intn(4)], nsecrets)
				cl.Update(makeList(op.Update))
				cur = op.Update
				ops = append(ops, op)
				opT = append(opT, "Update "+cfgTerm(op.Update))
				ord := orderTerm(cl)
				obsT = append(obsT, fmt.Sprintf("{| o_status := 9; o_id := (@nil N); o_order := %s |}", ord))
				ctx.Count("op:update")
				continue
			}
			op.IP = []int{0, 1, 1, 2, 3, 300}[r.Intn(6)]
			pick := cur[r.Intn(len(cur))]
			op.C, op.S = pick.C, pick.S
			if r.Chance(12) { // a key that is not configured
				op.C, op.S = r.Intn(4), nsecrets+1+r.Intn(3)
			}
			if r.Chance(6) { // right secret, wrong cipher
				op.C = (op.C + 1 + r.Intn(3)) % 4
			}
			op.Seed = uint32(r.U64())
			op.Tail = []int{0, 1, 2, 16, 17, 100, 1000}[r.Intn(7)] // 0: an empty first chunk is a legal record
			key := mkKey(op.C, op.S)
			var input []byte
			var kindT string
			want := -1 // monitor expectation, -1 = no independent expectation
			inCfg := false
			for _, k := range cur {
				if k.C == op.C && k.S == op.S {
					inCfg = true
				}
			}
			srvProb := 8
			if prop == "C08" {
				srvProb = 45
			}
			switch c := r.Intn(100); {
			case c < 55:
				op.Kind = "honest"
				salt := genBytes(saltSizes[op.C], op.Seed)
				ss := fmt.Sprintf("(SFresh %d)", op.Seed)
				if len(usedSeeds) > 0 && r.Chance(25) { // replay an earlier handshake byte for byte
					u := usedSeeds[r.Intn(len(usedSeeds))]
					op.C, op.S, op.Seed, op.Tail = u.C, u.S, u.Seed, u.Tail
					key = mkKey(op.C, op.S)
					salt = genBytes(saltSizes[op.C], op.Seed)
					ss = fmt.Sprintf("(SFresh %d)", op.Seed)
					inCfg = false
					for _, k := range cur {
						if k.C == op.C && k.S == op.S {
							inCfg = true
						}
					}
					ctx.Count("salt:repeated")
				} else if r.Chance(srvProb) { // server-issued salt
					op.SrvC, op.SrvS = op.C, op.S
					if r.Chance(30) {
						op.SrvC = r.Intn(4)
					}
					if r.Chance(15) {
						op.SrvS = r.Intn(nsecrets)
					}
					ent := service.MakeCipherEntry("x", mkKey(op.SrvC, op.SrvS), secretStr(op.SrvS))
					srv := make([]byte, saltSizes[op.SrvC])
					ent.SaltGenerator.GetSalt(srv)
					if len(usedSrv) > 0 && r.Chance(35) { // the same recording of server output, presented again
						u := usedSrv[r.Intn(len(usedSrv))]
						op.C, op.S, op.SrvC, op.SrvS, op.Tail = u.C, u.S, u.SrvC, u.SrvS, u.Tail
						key = mkKey(op.C, op.S)
						srv = append([]byte{}, u.Salt...)
						inCfg = false
						for _, k := range cur {
							if k.C == op.C && k.S == op.S {
								inCfg = true
							}
						}
						ctx.Count("salt:server-issued-again")
					}
					op.Salt = srv
					usedSrv = append(usedSrv, op)
					salt = append(append([]byte{}, srv...), genBytes(32, 7)...)[:saltSizes[op.C]]
					ss = fmt.Sprintf("(SServer %d %d %s)", op.SrvC, op.SrvS, cBytes(srv))
					ctx.Count("salt:server-issued")
					if inCfg && op.SrvC == op.C && op.SrvS == op.S && saltSizes[op.C] >= 20 {
						want = 2 // C08: reflected server salt for the matched key
					}
				} else {
					usedSeeds = append(usedSeeds, op)
					ctx.Count("salt:fresh")
				}
				input = ssStream(key, salt, genBytes(op.Tail, 3))
				if op.Tail == 0 { // the SDK writer never emits an empty chunk: seal one by hand
					input = ssStreamEmptyChunk(key, salt)
				}
				kindT = fmt.Sprintf("KHonest %d %d %s %d", op.C, op.S, ss, op.Tail)
				if !inCfg {
					want = 1
				}
			case c < 70:
				op.Kind = "garbage"
				op.N = []int{0, 1, 49, 50, 51, 100, 300}[r.Intn(7)]
				input = genBytes(op.N, op.Seed)
				kindT = fmt.Sprintf("KGarbage %d %d", op.N, op.Seed)
				want = 1
			case c < 85:
				op.Kind = "trunc"
				op.N = r.Intn(50)
				input = ssStream(key, genBytes(saltSizes[op.C], op.Seed), genBytes(20, 3))[:op.N]
				kindT = fmt.Sprintf("KTrunc %d %d %d %d", op.C, op.S, op.Seed, op.N)
				want = 1
			default:
				op.Kind = "corrupt"
				full := ssStream(key, genBytes(saltSizes[op.C], op.Seed), genBytes(20, 3))
				op.N = r.Intn(len(full))
				full[op.N] ^= 0xff
				input = full
				kindT = fmt.Sprintf("KCorrupt %d %d %d %d", op.C, op.S, op.Seed, op.N)
				if op.N < saltSizes[op.C]+18 {
					want = 1
				}
			}
			conn := &byteConn{r: bytes.NewReader(input), remote: ipOfN(op.IP)}
			id, st, panicked := callAuth(auth, conn)
			code := statusCode(st)
			if panicked != "" {
				code = 66
				ctx.Monitor("C01/authenticator-panic", "the authenticator panicked: "+panicked, map[string]interface{}{"cfg": cur, "ops": ops, "op": op})
			}
			ctx.Count("status:" + map[int]string{0: "OK", 1: "ERR_CIPHER", 2: "ERR_REPLAY_SERVER", 3: "ERR_REPLAY_CLIENT", 8: "other"}[code])
			ctx.Count("kind:" + op.Kind)
			if code == 0 {
				nOK++
				// monitor (C01 soundness): the attributed ID is configured with exactly this cipher and secret
				okID := false
				for _, k := range cur {
					if idStr(k.ID) == id && k.C == op.C && k.S == op.S {
						okID = true
					}
				}
				if !okID || !inCfg {
					ctx.Monitor("C01/attributed-to-wrong-key", fmt.Sprintf("client of key (%s,%s) authenticated as %q which is not configured with that cipher and secret", cipherNames[op.C], secretStr(op.S), id), map[string]interface{}{"cfg": cur, "ops": ops, "op": op})
				}
			}
			if code == 1 {
				nCipher++
				if conn.wrote.Len() > 0 {
					ctx.Monitor("C01/wrote-to-unauthenticated", "bytes written to a client that did not authenticate", op)
				}
			}
			if want >= 0 && want != code {
				sig := "C01/unexpected-status"
				if want == 2 {
					sig = "C08/reflected-salt-accepted"
				}
				if want == 1 && code == 0 {
					sig = "C01/invalid-input-authenticated"
				}
				ctx.Monitor(sig+":"+op.Kind, fmt.Sprintf("op %d (%s): status code %d, expected %d", i, op.Kind, code, want), map[string]interface{}{"cfg": cur, "ops": ops, "op": op})
			}
			if op.Kind == "honest" && inCfg && code == 1 {
				ctx.Monitor("C01/valid-client-rejected", fmt.Sprintf("honest client of configured key (%s,%s) got ERR_CIPHER", cipherNames[op.C], secretStr(op.S)), map[string]interface{}{"cfg": cur, "ops": ops, "op": op})
			}
			ord := orderTerm(cl)
			if prevOrder != "" && ord != prevOrder {
				reorder++
			}
			prevOrder = ord
			ops = append(ops, op)
			opT = append(opT, fmt.Sprintf("Conn %d (%s)", op.IP, kindT))
			obsT = append(obsT, fmt.Sprintf("{| o_status := %d; o_id := %s; o_order := %s |}", code, cBytes([]byte(id)), ord))
		}
		if nOK > 0 && nCipher > 0 && reorder > 0 {
			ctx.NonTrivial(strings.Join(opT, ";") + cfgTerm(cfg))
		}
		terms = append(terms, fmt.Sprintf("{| c_cap := %s; c_nilcache := %s; c_cfg := %s; c_ops := %s; c_obs := %s |}",
			cZ(int64(capacity)), cBool(nilCache), cfgTerm(cfg), cListT("op", opT), cListT("obs", obsT)))
		ctx.Stats.Cases++
		if h < 2 {
			ctx.Sample(map[string]interface{}{"cfg": cfg, "cap": capacity, "ops": ops})
		}
		if len(terms) >= 10 {
			ctx.WriteCases(shard, "Corr.C01", "case", terms)
			shard++
			terms = nil
		}
	}
	if len(terms) > 0 {
		ctx.WriteCases(shard, "Corr.C01", "case", terms)
	}
	if prop == "C08" {
		c08fresh(ctx)
	}
	if prop == "C01" {
		c01Interleave(ctx, shard+100)
		snapshotsUnderMarks(ctx, "C01/concurrent-snapshot-misses-a-key")
	}
}

// callAuth runs the real authenticator; a panic of the implementation is an observation.
func callAuth(auth service.StreamAuthenticateFunc, conn *byteConn) (id, status, panicked string) {
	defer func() {
		if r := recover(); r != nil {
			panicked = fmt.Sprint(r)
		}
	}()
	i, _, cerr := auth(conn)
	if cerr != nil {
		return i, cerr.Status, ""
	}
	return i, "", ""
}

func orderTerm(cl service.CipherList) string {
	var es []string
	defer func() { recover() }()
	for _, e := range service.VerifCipherListOrder(cl) {
		es = append(es, fmt.Sprintf("(%s, %d)", cBytes([]byte(e.ID)), nOfIPString(e.LastClientIP)))
	}
	return cListT("(bytes * N)", es)
}

// c08fresh: pairwise freshness and recognisability of the salts real response streams start with.
func c08fresh(ctx *Ctx) {
	n := 200
	if ctx.Thorough() {
		n = 2000
	}
	for c := 0; c < 4; c++ {
		ent := service.MakeCipherEntry("k", mkKey(c, 1), secretStr(1))
		seen := map[string]bool{}
		for i := 0; i < n; i++ {
			var buf bytes.Buffer
			w := shadowsocks.NewWriter(&buf, ent.CryptoKey)
			w.SetSaltGenerator(ent.SaltGenerator)
			w.Write([]byte("x"))
			salt := buf.Bytes()[:saltSizes[c]]
			if seen[string(salt)] {
				ctx.Monitor("C08/salt-repeated", "two response streams start with the same salt for cipher "+cipherNames[c], nil)
			}
			seen[string(salt)] = true
			rec := ent.SaltGenerator.IsServerSalt(salt)
			if rec != (saltSizes[c] >= 20) {
				ctx.Monitor("C08/salt-recognition:"+cipherNames[c], fmt.Sprintf("response salt recognised=%v for a %d-byte salt", rec, saltSizes[c]), nil)
			}
			ctx.Count("response-salts:" + cipherNames[c])
		}
	}
}
