package main

import (
	"fmt"
	"io"
	"net"
	"os"
	"os/exec"
	"strings"
	"sync"
	"sync/atomic"
)

// Local addresses in public and private ranges, added to the loopback interface so that the
// default target policy can be exercised end to end without a network: a "public" target the
// policy allows and that is reachable locally, and private / CGNAT / link-local / ULA targets
// with a sink listening on them (anything they receive is a violation).
var localAddrs = []string{"203.0.113.77", "10.99.0.1", "172.16.99.1", "192.168.99.1", "100.64.0.9", "169.254.9.9", "2001:db8:77::1", "fd00:99::1"}

var netSetupOnce sync.Once
var netSetupOK = map[string]bool{}

func ensureLocalAddrs() map[string]bool {
	netSetupOnce.Do(func() {
		for _, a := range localAddrs {
			ip := net.ParseIP(a)
			pfx, fam := "/32", "-4"
			if ip.To4() == nil {
				pfx, fam = "/128", "-6"
			}
			exec.Command("ip", fam, "addr", "add", a+pfx, "dev", "lo").Run() // fails harmlessly if present
			// usable iff we can bind it
			network, addr := "udp4", a+":0"
			if ip.To4() == nil {
				network, addr = "udp6", "["+a+"]:0"
			}
			for i := 0; i < 20; i++ { // IPv6 addresses need a moment (DAD) before they can be bound
				if pc, err := net.ListenPacket(network, addr); err == nil {
					pc.Close()
					netSetupOK[a] = true
					break
				}
				exec.Command("sleep", "0.1").Run()
			}
		}
	})
	return netSetupOK
}

// target kinds shared by the TCP and UDP scenarios (mirrored in Corr/UDP.v and Corr/TCP.v)
type targetKind struct {
	name   string
	ip     string // the address a listener/sink for this kind binds; "" = none
	atyp   int    // 1 v4, 4 v6, 3 domain, 9 bad
	host   string // domain text or the literal placed in the SOCKS address (for atyp 4 mapped forms)
	public bool   // allowed by the default policy
}

var targetKinds = []targetKind{
	0:  {"loopback4", "127.0.0.1", 1, "127.0.0.1", false},
	1:  {"loopback6", "::1", 4, "::1", false},
	2:  {"domain-localhost", "127.0.0.1", 3, "localhost", false},
	3:  {"domain-literal-loopback", "127.0.0.1", 3, "127.0.0.1", false},
	4:  {"public4", "203.0.113.77", 1, "203.0.113.77", true},
	5:  {"rfc1918-10", "10.99.0.1", 1, "10.99.0.1", false},
	6:  {"cgnat", "100.64.0.9", 1, "100.64.0.9", false},
	7:  {"rfc1918-192", "192.168.99.1", 1, "192.168.99.1", false},
	8:  {"rfc1918-172", "172.16.99.1", 1, "172.16.99.1", false},
	9:  {"bad-type", "", 9, "", false},
	10: {"linklocal4", "169.254.9.9", 1, "169.254.9.9", false},
	11: {"public6", "2001:db8:77::1", 4, "2001:db8:77::1", true},
	12: {"ula6", "fd00:99::1", 4, "fd00:99::1", false},
	13: {"mapped-private", "10.99.0.1", 4, "::ffff:10.99.0.1", false},
	14: {"mapped-public", "203.0.113.77", 4, "::ffff:203.0.113.77", true},
	15: {"domain-literal-public", "203.0.113.77", 3, "203.0.113.77", true},
	// malformed and boundary forms (C18); never forwarded
	16: {"domain-255-unresolvable", "", 3, strings.Repeat("abcdefghijklmnopqrstuvwxyz", 10)[:255], false},
	17: {"truncated-v4", "", 91, "", false},
	18: {"truncated-domain", "", 92, "", false},
	19: {"type-0", "", 93, "", false},
	20: {"no-address-at-all", "", 94, "", false}, // with an empty payload: an authenticated datagram whose plaintext is empty
}

// malformedKind: the address never denotes a destination (bad type, truncated, unresolvable)
func malformedKind(k int) bool { return k == 9 || k >= 16 }

// socksAddrBytes encodes the SOCKS address of a target kind with the given port.
func socksAddrBytes(kind, port int) []byte {
	k := targetKinds[kind]
	p := []byte{byte(port >> 8), byte(port)}
	switch k.atyp {
	case 1:
		return append(append([]byte{1}, net.ParseIP(k.host).To4()...), p...)
	case 4:
		return append(append([]byte{4}, net.ParseIP(k.host).To16()...), p...)
	case 3:
		return append(append([]byte{3, byte(len(k.host))}, []byte(k.host)...), p...)
	}
	switch k.atyp {
	case 91:
		return []byte{1, 127, 0}
	case 92:
		return []byte{3, 200, 97, 98}
	case 93:
		return []byte{0, 1, 2, 3, 4, 5, 6}
	case 94:
		return []byte{}
	}
	return []byte{9, 1, 2, 3, 4, 5, 6}
}

var lowPortTurn int64

// freeLowPorts returns the first of n consecutive ports on 127.0.0.1 that are free (TCP and UDP) right
// now, taken from below the kernel's ephemeral range (ip_local_port_range starts at 32768): a
// listening address chosen there cannot be taken, while the scenario has it unbound for a moment,
// by the source port of some unrelated outgoing connection of this machine.
func freeLowPorts(n int) int {
	for try := 0; try < 2000; try++ {
		base := 29300 + int((int64(os.Getpid())*131+atomic.AddInt64(&lowPortTurn, int64(n)))%int64(3400-n))
		ok := true
		var hold []io.Closer
		for i := 0; i < n && ok; i++ {
			l, err := net.Listen("tcp", fmt.Sprintf("127.0.0.1:%d", base+i))
			if err != nil {
				ok = false
				break
			}
			hold = append(hold, l)
			u, err := net.ListenPacket("udp", fmt.Sprintf("127.0.0.1:%d", base+i))
			if err != nil {
				ok = false
				break
			}
			hold = append(hold, u)
		}
		for _, h := range hold {
			h.Close()
		}
		if ok {
			return base
		}
	}
	return 0
}
