module verifharness

go 1.23

require github.com/Jigsaw-Code/outline-ss-server v0.0.0

require (
	github.com/Jigsaw-Code/outline-sdk v0.0.14 // indirect
	github.com/shadowsocks/go-shadowsocks2 v0.1.5 // indirect
	golang.org/x/crypto v0.17.0 // indirect
	golang.org/x/sys v0.16.0 // indirect
)

replace github.com/Jigsaw-Code/outline-ss-server => /repo
