module verifharness

go 1.23

require (
	github.com/Jigsaw-Code/outline-sdk v0.0.14
	github.com/Jigsaw-Code/outline-ss-server v0.0.0
	github.com/prometheus/client_golang v1.15.0
	github.com/prometheus/client_model v0.3.0
	github.com/shadowsocks/go-shadowsocks2 v0.1.5
)

require (
	github.com/beorn7/perks v1.0.1 // indirect
	github.com/cespare/xxhash/v2 v2.2.0 // indirect
	github.com/golang/protobuf v1.5.3 // indirect
	github.com/matttproud/golang_protobuf_extensions v1.0.4 // indirect
	github.com/oschwald/geoip2-golang v1.8.0 // indirect
	github.com/oschwald/maxminddb-golang v1.10.0 // indirect
	github.com/prometheus/common v0.42.0 // indirect
	github.com/prometheus/procfs v0.9.0 // indirect
	golang.org/x/crypto v0.17.0 // indirect
	golang.org/x/sys v0.16.0 // indirect
	google.golang.org/protobuf v1.30.0 // indirect
)

replace github.com/Jigsaw-Code/outline-ss-server => /repo
