package main

import (
	"bytes"
	"encoding/json"
	"fmt"
	"net"
	"os"
	"strings"
	"sync"
	"sync/atomic"
	"time"
)

// the model evaluates a late-reader download in several seconds and gigabytes: a few per run
var lateReaderBudget int32 = 4
var lateReaderUsed int32

func genTCPConn(r *Rng, cfg []cfgKey, focus string) tcpConnSpec {
	sp := tcpConnSpec{Kind: "honest", ConnectOK: true, Fin: r.Chance(55), Seed: uint32(r.U64()), Seg: r.Intn(3), TFirst: r.Bool()}
	pick := cfg[r.Intn(len(cfg))]
	sp.C, sp.S = pick.C, pick.S
	sp.Key = fmt.Sprintf("%d/%d", sp.C, sp.S)
	sp.AKind = []int{0, 0, 1, 2, 3}[r.Intn(5)]
	sizes := []int{0, 1, 2, 15, 16, 17, 100, 100, 1000, 1000, 4000}
	if r.Chance(12) {
		sizes = []int{16383, 16383, 9000}
	}
	nch := []int{0, 1, 1, 2, 3, 5}[r.Intn(6)]
	for i := 0; i < nch; i++ {
		n := sizes[r.Intn(len(sizes))]
		if n == 0 && i == 0 {
			n = 1
		}
		if n == 0 {
			n = 3
		}
		sp.Chunks = append(sp.Chunks, [2]int{n, int(r.U64() % 1000000)})
	}
	// destinations on local public-range and private-range addresses, and names resolved by the
	// fake DNS: the default policy end to end
	avail := ensureLocalAddrs()
	pickLocal := func(cands []int) (int, bool) {
		var ok []int
		for _, k := range cands {
			ip := tcpTargetIP(k)
			need := []string{ip}
			if k == 31 {
				need = append(need, "10.99.0.1")
			}
			good := true
			for _, x := range need {
				if !net.ParseIP(x).IsLoopback() && !avail[x] {
					good = false
				}
			}
			if good {
				ok = append(ok, k)
			}
		}
		if len(ok) == 0 {
			return 0, false
		}
		return ok[r.Intn(len(ok))], true
	}
	localKind := false
	if (focus == "C05" && r.Chance(80)) || r.Chance(10) {
		if k, ok := pickLocal([]int{4, 5, 6, 7, 8, 10, 11, 12, 13, 14, 15, 30, 31, 32, 21, 33}); ok {
			// 21: the empty domain name (the local host); 33: a zoned IPv6 literal as a domain name
			sp.AKind, localKind = k, true
			sp.Validate = k >= 30 || r.Chance(75)
		}
	}
	sp.Coalesce = nch > 0 && r.Bool()
	if nch >= 2 && r.Chance(30) {
		sp.TFinFirst, sp.Fin = true, true
	}
	sp.TOut = [2]int{[]int{0, 1, 100, 100, 1000, 5000}[r.Intn(6)], int(r.U64() % 1000000)}
	if r.Chance(12) {
		sp.TOut[0] = []int{16383, 16384, 40000}[r.Intn(3)]
	}
	probeW, postW, dialW := 25, 10, 10
	switch focus {
	case "C06":
		probeW, postW, dialW = 60, 20, 3
	case "C02":
		probeW, postW, dialW = 5, 3, 2
	case "C18":
		probeW, postW, dialW = 25, 45, 8
	}
	sel := r.Intn(100)
	if sel < probeW+postW+dialW {
		sp.TFinFirst = false // only a relayed connection can wait for the target's half-close
	}
	// a target that speaks again long after the handshake timeout, to a client that is silent and
	// keeps the connection open: nothing of the handshake phase (deadlines) may linger
	if !sp.Fin && !sp.TFinFirst && r.Chance(18) {
		sp.TLate = [2]int{[]int{1, 500, 22000}[r.Intn(3)], int(r.U64() % 1000000)}
	}
	if localKind {
		sel = 100 // an honest connection; what is tested is where it may go
		if sp.Validate && !tcpKindPublic(sp.AKind) {
			sp.Chunks, sp.Coalesce, sp.TFinFirst = nil, false, false // refused at dial time
		}
	}
	switch c := sel; {
	case c < probeW: // unauthenticated input
		switch r.Intn(4) {
		case 0:
			sp.Kind = "garbage"
			sp.N = []int{0, 1, 10, 49, 50, 51, 73, 91, 300, 2000, 20000, 70000}[r.Intn(12)]
			if sp.N >= 51 && sp.N <= 2000 && !sp.Fin && r.Chance(50) {
				sp.LateByte = true
			}
		case 1:
			sp.Kind = "trunc"
			sp.N = r.Intn(50)
		case 2: // wrong key
			sp.S = 90 + r.Intn(5)
		case 3: // right secret, other cipher
			sp.C = (sp.C + 1 + r.Intn(3)) % 4
			ok := false
			for _, k := range cfg {
				if k.C == sp.C && k.S == sp.S {
					ok = true
				}
			}
			_ = ok
		}
		sp.Chunks, sp.Coalesce = nil, false
		if sp.Kind == "honest" {
			sp.Chunks = [][2]int{{20, 5}}
		}
	case c < probeW+postW: // authenticated, then invalid
		if focus == "C18" && r.Chance(75) {
			sp.AKind = []int{9, 20, 21, 22, 23, 24, 25}[r.Intn(7)]
			sp.Chunks, sp.Coalesce = nil, false
			if sp.AKind == 22 {
				sp.ConnectOK = false // the name does not resolve: nothing to connect to
			}
		} else if r.Bool() {
			sp.AKind = 9
			if r.Chance(50) {
				sp.Chunks, sp.Coalesce = nil, false
			} else if len(sp.Chunks) == 0 {
				// data after the address that cannot be read: it is drained (and counted once)
				sp.Chunks = [][2]int{{[]int{1, 1000}[r.Intn(2)], 7}}
			}
		} else {
			if len(sp.Chunks) == 0 {
				sp.Chunks = [][2]int{{100, 9}, {50, 8}}
			}
			nw := len(sp.Chunks)
			if !sp.Coalesce {
				nw++
			}
			for nw < 3 { // data must follow the corrupted chunk: that is when a drain matters
				sp.Chunks = append(sp.Chunks, [2]int{30 + nw, 4})
				nw++
			}
			sp.Corrupt = 2 + r.Intn(nw-1) // never the chunk that carries the address
			if r.Chance(70) && sp.Corrupt == nw {
				sp.Corrupt = nw - 1
			}
			sp.CorruptLen = r.Bool()
		}
	case c < probeW+postW+dialW:
		if r.Bool() {
			sp.Validate = true // default policy: the loopback target is refused
		} else {
			sp.ConnectOK = false
		}
		sp.Chunks, sp.Coalesce = nil, false
	}
	if sp.Kind == "honest" && sp.Corrupt == 0 && sp.ConnectOK && sp.Fin && !sp.TFinFirst && sp.AKind <= 3 && !sp.Validate && sel >= probeW+postW+dialW && (focus == "C02" && (r.Chance(6) || atomic.LoadInt32(&lateReaderUsed) == 0) || r.Chance(1)) && atomic.AddInt32(&lateReaderBudget, -1) >= 0 {
		atomic.AddInt32(&lateReaderUsed, 1)
		// a download far larger than the client's receive window to a client that starts reading
		// late: the relay is over and the server has closed while most of it is still in its send buffer
		sp.TOut = [2]int{400000 + r.Intn(3)*100000, int(r.U64() % 1000000)}
		sp.SlowStartMs = 300
	}
	if sp.Kind == "honest" && sp.Corrupt == 0 && sp.ConnectOK && sp.Fin && !sp.TFinFirst && sp.SlowStartMs == 0 && sp.AKind <= 3 && !sp.Validate && sel >= probeW+postW+dialW && (focus == "C15" && r.Chance(12) || r.Chance(4)) {
		// the target reads the whole upload, replies, then resets: only the download direction fails
		sp.TReset, sp.TFirst = true, false
		if sp.TOut[0] > 20000 {
			sp.TOut[0] = 20000
		}
	}
	if sp.Kind == "honest" && sp.Corrupt == 0 && sp.ConnectOK && !sp.TFinFirst && !sp.TReset && sp.SlowStartMs == 0 && sp.AKind <= 3 && !sp.Validate && sel >= probeW+postW+dialW && (focus == "C15" && r.Chance(10) || r.Chance(3)) {
		// the client aborts (RST) once everything has been relayed: the upload direction ends with an error
		sp.CReset, sp.Fin, sp.TFirst = true, false, false
		if sp.TOut[0] > 20000 {
			sp.TOut[0] = 20000
		}
	}
	if sp.Kind != "honest" || sp.Corrupt != 0 || !sp.ConnectOK || sp.TFinFirst || sp.Fin || sp.CReset || sp.AKind == 9 || (sp.AKind >= 20 && sp.AKind < 30 && sp.AKind != 21) || (sp.Validate && !tcpKindPublic(sp.AKind)) || sp.C < 0 {
		sp.TLate = [2]int{}
	}
	sp.Key = fmt.Sprintf("%d/%d", sp.C, sp.S) // the key actually used (a wrong-key / other-cipher probe changed it): a spec reloaded from JSON runs the same connection
	return sp
}

// cTCP: whole connections through the real StreamHandler on loopback sockets.
func cTCP(ctx *Ctx, prop string) {
	if ctx.Thorough() {
		atomic.StoreInt32(&lateReaderBudget, 16)
	}
	cTCPInto(ctx, prop, 0, 0)
	if prop == "C15" {
		tcpFailingTarget(ctx)
		tcpResettingTarget(ctx)
	}
}

// tcpResettingTarget: the client uploads and half-closes, the target reads all of it, replies and
// then resets its connection: only the target-to-client direction fails, and the one status of the
// Closed report must say so (monitor-only: a reset is not an input of the model).
func tcpResettingTarget(ctx *Ctx) {
	r := ctx.Rng.Fork()
	n := 10
	if ctx.Thorough() {
		n = 100
	}
	for i := 0; i < n; i++ {
		cfg := genCfg(r, 2, 4)
		pick := cfg[r.Intn(len(cfg))]
		sp := tcpConnSpec{Kind: "honest", ConnectOK: true, Fin: true, Seed: uint32(r.U64()), C: pick.C, S: pick.S,
			Chunks:   [][2]int{{[]int{1, 100, 5000}[r.Intn(3)], int(r.U64() % 1000000)}},
			Coalesce: r.Bool(), TOut: [2]int{[]int{0, 10, 1000, 20000}[r.Intn(4)], int(r.U64() % 1000000)}, TReset: true}
		sp.Key = fmt.Sprintf("%d/%d", sp.C, sp.S)
		cs := tcpCaseSpec{Cfg: cfg, Cap: 0, Conns: []tcpConnSpec{sp}}
		obs := runTCPCase(&cs)
		ctx.Count("resetting-target:runs")
		if len(obs) != 1 {
			continue
		}
		ob := &obs[0]
		ctx.Count("resetting-target:status:" + ob.Status)
		if ob.Status != "ERR_RELAY_TARGET" {
			ctx.Monitor("C15/status-hides-target-error", fmt.Sprintf("the target reset its connection after replying (the upload had completed); the connection was reported closed with %s", ob.Status), map[string]interface{}{"case": cs, "obs": ob})
		}
	}
}

// tcpFailingTarget: uploads towards a target connection that accepts K bytes and then fails every
// write (monitor-only: the moment of failure makes status and close class schedule-dependent, the
// counters are not): the proxy-to-target counter must be exactly what the connection accepted.
func tcpFailingTarget(ctx *Ctx) {
	r := ctx.Rng.Fork()
	n := 16
	if ctx.Thorough() {
		n = 150
	}
	for i := 0; i < n; i++ {
		cfg := genCfg(r, 2, 4)
		pick := cfg[r.Intn(len(cfg))]
		sp := tcpConnSpec{Kind: "honest", ConnectOK: true, Fin: true, Seed: uint32(r.U64()), C: pick.C, S: pick.S,
			Chunks:   [][2]int{{[]int{1, 100, 5000, 16383}[r.Intn(4)], int(r.U64() % 1000000)}, {16383, int(r.U64() % 1000000)}, {9000, int(r.U64() % 1000000)}},
			Coalesce: r.Bool(), TOut: [2]int{[]int{0, 10, 3000}[r.Intn(3)], int(r.U64() % 1000000)}, TFirst: r.Bool(),
			TFailAfter: []int{1, 99, 100, 4096, 16383, 16384, 20000, 30000}[r.Intn(8)]}
		sp.Key = fmt.Sprintf("%d/%d", sp.C, sp.S)
		cs := tcpCaseSpec{Cfg: cfg, Cap: 0, Conns: []tcpConnSpec{sp}}
		obs := runTCPCase(&cs)
		ctx.Count("failing-target:runs")
		if len(obs) != 1 {
			continue
		}
		ob := &obs[0]
		rep := map[string]interface{}{"case": cs, "obs": ob}
		if ob.Counters.ProxyTarget != ob.TargetAccepted {
			ctx.Monitor("C15/proxy-target-bytes-on-failed-write", fmt.Sprintf("the target connection accepted %d bytes before its writes failed, the Closed report says %d were sent to the target", ob.TargetAccepted, ob.Counters.ProxyTarget), rep)
		}
		if ob.Counters.ClientProxy > int64(ob.RawSent) || ob.Counters.ProxyClient != int64(ob.RawRecv) {
			ctx.Monitor("C15/counters-exceed-wire", fmt.Sprintf("counters %+v, client sent %d and received %d", ob.Counters, ob.RawSent, ob.RawRecv), rep)
		}
		if ob.Status == "OK" && ob.TargetAccepted < int64(sp.Chunks[0][0]+sp.Chunks[1][0]+sp.Chunks[2][0]) {
			ctx.Monitor("C15/status-vs-outcome", "the upload was cut by a failing target connection but the connection is reported OK", rep)
		}
	}
}

type tcpJob struct {
	spec tcpCaseSpec
	obs  []tcpObs
}

// tcpJobReport: counts, monitors and the Coq case term of one executed case.
func tcpJobReport(ctx *Ctx, prop string, j *tcpJob, classes map[string]bool) string {
	var ct, ot []string
	seenSalt := map[string]bool{}
	for i := range j.spec.Conns {
		sp := &j.spec.Conns[i]
		ob := &j.obs[i]
		ct = append(ct, tcpConnTerm(sp, ob.Port))
		ot = append(ot, tcpObsTerm(ob))
		ctx.Count("status:" + ob.Status)
		ctx.Count(fmt.Sprintf("close:%d", ob.Close))
		ctx.Count("kind:" + sp.Kind)
		ctx.Count(fmt.Sprintf("akind:%d", sp.AKind))
		if sp.SlowStartMs > 0 {
			ctx.Count("late-reader-large-download")
		}
		if sp.LateByte {
			ctx.Count("probe-with-late-last-byte")
		}
		classes[ob.Status] = true
		ctx.NonTrivial(fmt.Sprintf("%+v", *sp))
		tcpMonitors(ctx, prop, &j.spec, i, sp, ob, seenSalt)
	}
	ctx.Stats.Cases++
	return fmt.Sprintf("{| c_cfg := %s; c_cap := %s; c_conns := %s; c_obs := %s |}",
		cfgTerm(j.spec.Cfg), cZ(int64(j.spec.Cap)), cListT("conn", ct), cListT("cobs", ot))
}

// stallWatch: a goroutine that sleeps 20 ms at a time and notes when it woke up more than 150 ms
// late: the process (or the whole machine) was not running meanwhile. Independent of any outcome.
var stallMu sync.Mutex
var stallTimes []time.Time
var stallOnce sync.Once

func startStallWatch() {
	stallOnce.Do(func() {
		go func() {
			last := time.Now()
			for {
				time.Sleep(20 * time.Millisecond)
				now := time.Now()
				if now.Sub(last) > 170*time.Millisecond {
					stallMu.Lock()
					stallTimes = append(stallTimes, now)
					stallMu.Unlock()
				}
				last = now
			}
		}()
	})
}

func stalledSince(t0 time.Time) bool {
	time.Sleep(25 * time.Millisecond) // let the watch goroutine note a stall that has just ended
	stallMu.Lock()
	defer stallMu.Unlock()
	for _, t := range stallTimes {
		if t.After(t0) {
			return true
		}
	}
	return false
}

// tcpWarmUp runs one plain connection whose outcome is not recorded, before the cases start in
// parallel: the code paths of the handler, the SDK and the harness have then been executed (and
// paged in) once, so that the first batch of timed connections does not pay for that.
func tcpWarmUp() {
	cs := tcpCaseSpec{Cfg: []cfgKey{{0, 0, 0}}, Conns: []tcpConnSpec{{Kind: "honest", ConnectOK: true, Fin: true, Seed: 12345,
		Key: "0/0", Chunks: [][2]int{{100, 1}}, TOut: [2]int{100, 2}}}}
	runTCPCase(&cs)
}

// cTCPConfirm re-runs, one at a time on an otherwise idle harness, the cases listed in the file
// (specs exactly as the first run printed them into stats.json "case_index"). Case k of the list is
// written to cases_<k>.v; monitor findings carry the job number of the spec. ./check uses it to tell
// a deviation that belongs to the connection (it recurs) from one that belonged to the moment.
func cTCPConfirm(ctx *Ctx, prop string, file string) {
	ctx.Stats.Rule = "confirmation run: the listed cases of the first run, re-run one at a time"
	data, err := os.ReadFile(file)
	if err != nil {
		panic(err)
	}
	var specs []tcpCaseSpec
	if err := json.Unmarshal(data, &specs); err != nil {
		panic(err)
	}
	tcpWarmUp()
	startStallWatch()
	classes := map[string]bool{}
	for k := range specs {
		j := &tcpJob{spec: specs[k]}
		for i := range j.spec.Conns {
			c := &j.spec.Conns[i]
			fmt.Sscanf(c.Key, "%d/%d", &c.C, &c.S)
		}
		for try := 0; ; try++ {
			t0 := time.Now()
			j.obs = runTCPCase(&j.spec)
			if try >= 3 || !stalledSince(t0) {
				break
			}
			ctx.Count("case-rerun-after-measured-stall")
		}
		ctx.WriteCases(k, "Corr.TCP", "case", []string{tcpJobReport(ctx, prop, j, classes)})
	}
}

// cTCPInto runs n TCP cases (0 = the tier's default) and numbers its case files from shard0.
func cTCPInto(ctx *Ctx, prop string, nCases int, shard0 int) {
	r := ctx.Rng
	ctx.Stats.Rule = "case = fresh key list + replay cache + 1..3 sequential connections through the real StreamHandler over loopback TCP with a scripted target: honest streams (4 ciphers, address types 1/3/4, payload chunkings 0..16383, coalesced or not, 3 socket segmentations, client FIN or keep-open, target speaks first or last), garbage / truncated / wrong-key / wrong-cipher probes, replays, bad address type, corrupted chunk mid-stream, refused and unreachable targets; observed: status, metric calls, byte counters, bytes at target and client, how and when the connection ends; non-trivial = distinct connection specs, all outcome classes must occur"
	n := 110
	if ctx.Thorough() {
		n = 1200
	}
	if nCases > 0 {
		n = nCases
	}
	jobs := make([]*tcpJob, n)
	for i := range jobs {
		nkeys := []int{1, 2, 5, 10}[r.Intn(4)]
		cfg := genCfg(r, nkeys, nkeys+2)
		cs := tcpCaseSpec{Cfg: cfg, Cap: []int{0, 10}[r.Intn(2)]}
		nconn := []int{1, 1, 2, 3}[r.Intn(4)]
		for j := 0; j < nconn; j++ {
			sp := genTCPConn(r, cfg, prop)
			if j > 0 && r.Chance(35) && cs.Conns[0].Kind == "honest" && cs.Conns[0].Corrupt == 0 { // replay of the first connection
				sp = cs.Conns[0]
				sp.Fin = r.Bool()
				sp.TFinFirst = false
				sp.CReset, sp.TReset, sp.SlowStartMs = false, false, 0 // endings scripted for a relayed connection do not apply to a refused one
			}
			cs.Conns = append(cs.Conns, sp)
		}
		jobs[i] = &tcpJob{spec: cs}
	}
	for i, j := range jobs {
		j.spec.Job = i
		b, _ := json.Marshal(j.spec)
		ctx.Stats.CaseIndex = append(ctx.Stats.CaseIndex, b)
	}
	ctx.Stats.Extra["tcp_shard0"] = shard0
	tcpWarmUp()
	startStallWatch()
	var wg sync.WaitGroup
	sem := make(chan struct{}, 24)
	for _, j := range jobs {
		wg.Add(1)
		sem <- struct{}{}
		go func(j *tcpJob) {
			defer wg.Done()
			defer func() { <-sem }()
			// a case during which this process was not scheduled for a while (measured, see
			// stallWatch) has timing classes that describe the machine: it is run again
			for try := 0; ; try++ {
				t0 := time.Now()
				j.obs = runTCPCase(&j.spec)
				if try >= 3 || !stalledSince(t0) {
					break
				}
				ctx.Count("case-rerun-after-measured-stall")
			}
		}(j)
	}
	wg.Wait()
	var terms []string
	shard := shard0
	classes := map[string]bool{}
	for ji, j := range jobs {
		terms = append(terms, tcpJobReport(ctx, prop, j, classes))
		if ji < 2 {
			ctx.Sample(map[string]interface{}{"spec": j.spec, "obs": j.obs})
		}
		if len(terms) >= 5 {
			ctx.WriteCases(shard, "Corr.TCP", "case", terms)
			shard++
			terms = nil
		}
	}
	if len(terms) > 0 {
		ctx.WriteCases(shard, "Corr.TCP", "case", terms)
	}
	if prop == "C15" { // the same runs through the real Prometheus collectors
		var cts []string
		for _, j := range jobs {
			if j.spec.coll != "" {
				cts = append(cts, j.spec.coll)
				ctx.CountN("collector:calls", j.spec.collN)
				ctx.Count("collector:cases")
				for _, d := range j.spec.collDiffs {
					ctx.Monitor("C15/gathered-counter-differs:"+strings.SplitN(d, ":", 2)[0], "Prometheus "+d, j.spec)
				}
			}
		}
		writeCollCases(ctx, shard0+5000, cts)
	}
	for _, s := range []string{"OK", "ERR_CIPHER"} {
		if !classes[s] {
			ctx.Stats.NonTrivial = 0
		}
	}
}

// tcpMonitors: the properties themselves, evaluated on the implementation's observables.
func tcpMonitors(ctx *Ctx, prop string, cs *tcpCaseSpec, i int, sp *tcpConnSpec, ob *tcpObs, seenSalt map[string]bool) {
	rep := map[string]interface{}{"case": cs, "conn": i, "obs": ob, "job": cs.Job}
	if ob.Panic != "" {
		ctx.Monitor(prop+"/handler-panic-or-harness-failure", ob.Panic, rep)
		return
	}
	authenticated := len(ob.Auth) > 0
	nClosed, nAuth, nProbe := 0, 0, 0
	for _, e := range ob.Events {
		switch e.Kind {
		case "closed":
			nClosed++
		case "auth":
			nAuth++
		case "probe":
			nProbe++
		}
	}
	// C15
	if nClosed != 1 {
		ctx.Monitor("C15/closed-reports", fmt.Sprintf("%d Closed reports for one connection", nClosed), rep)
	}
	if nAuth > 1 {
		ctx.Monitor("C15/auth-reports", fmt.Sprintf("%d Authenticated reports", nAuth), rep)
	}
	if (nProbe == 1) != !authenticated || nProbe > 1 {
		ctx.Monitor("C15/probe-iff-auth-failed", fmt.Sprintf("authenticated=%v but %d probe reports", authenticated, nProbe), rep)
	}
	if len(ob.Events) > 0 && ob.Events[len(ob.Events)-1].Kind != "closed" {
		ctx.Monitor("C15/closed-not-last", "the Closed report is not the last metric event", rep)
	}
	if ob.Probe != nil && ob.Probe.N != int64(ob.RawSent) {
		ctx.Monitor("C15/probe-bytes", fmt.Sprintf("probe reports %d bytes, client sent %d", ob.Probe.N, ob.RawSent), rep)
	}
	if ob.Counters.ProxyClient != int64(ob.RawRecv) {
		ctx.Monitor("C15/proxy-client-bytes", fmt.Sprintf("ProxyClient=%d, client socket received %d", ob.Counters.ProxyClient, ob.RawRecv), rep)
	}
	if ob.Counters.ClientProxy > int64(ob.RawSent) || ob.Counters.ProxyTarget > int64(ob.TargetLen) && ob.TargetHit {
		ctx.Monitor("C15/counters-exceed-wire", fmt.Sprintf("counters %+v exceed wire (sent %d, target got %d)", ob.Counters, ob.RawSent, ob.TargetLen), rep)
	}
	if ob.Status == "OK" {
		if ob.Counters.ClientProxy != int64(ob.RawSent) || ob.Counters.ProxyTarget != int64(ob.TargetLen) || ob.Counters.TargetProxy != int64(sp.TOut[0]+sp.TLate[0]) {
			ctx.Monitor("C15/counters-ne-wire", fmt.Sprintf("completed connection: counters %+v, wire: sent %d, target got %d, target sent %d", ob.Counters, ob.RawSent, ob.TargetLen, sp.TOut[0]+sp.TLate[0]), rep)
		}
	}
	// C06
	if !authenticated {
		if ob.RawRecv > 0 {
			ctx.Monitor("C06/wrote-to-probe", fmt.Sprintf("%d bytes written to an unauthenticated client", ob.RawRecv), rep)
		}
		if ob.TargetHit {
			ctx.Monitor("C06/probe-reached-target", "a target was contacted for an unauthenticated client", rep)
		}
		if ob.Reset {
			ctx.Monitor("C06/probe-reset", "connection reset instead of a normal close", rep)
		}
		if !sp.Fin && ob.Close != 1 {
			ctx.Monitor("C06/probe-close-time", fmt.Sprintf("unauthenticated connection kept open by the client was closed in class %d after %d ms (handshake timeout %d ms)", ob.Close, ob.CloseMs, tcpT.Milliseconds()), rep)
		}
	} else if (ob.Status == "ERR_READ_ADDRESS" || ob.Status == "ERR_RELAY_CLIENT") && !sp.Fin && !sp.CReset && ob.Close != 3 { // (a client that aborted is gone: nothing to keep open)
		ctx.Monitor("C06/post-auth-active-close", fmt.Sprintf("stream turned invalid after authentication (%s) and the server closed (class %d, %d ms) while the client kept the connection open", ob.Status, ob.Close, ob.CloseMs), rep)
	}
	// C05: the default policy, end to end
	if sp.Validate && sp.Kind == "honest" {
		name := fmt.Sprint("kind-", sp.AKind)
		if sp.AKind >= 4 && sp.AKind <= 15 {
			name = targetKinds[sp.AKind].name
		} else if b, ok := dnsKindBase[sp.AKind]; ok {
			name = "name-" + b
		}
		if !tcpKindPublic(sp.AKind) && ob.TargetHit {
			ctx.Monitor("C05/tcp-connection-to-non-public-destination:"+name, fmt.Sprintf("with the default policy the server connected to %s (status %s)", tcpTargetIP(sp.AKind), ob.Status), rep)
		}
		if ob.SinkHit != "" {
			ctx.Monitor("C05/tcp-connection-to-non-public-address-of-a-name:"+name, fmt.Sprintf("the %s name also resolves to %s and the server connected there", dnsKindBase[sp.AKind], ob.SinkHit), rep)
		}
		if tcpKindPublic(sp.AKind) && authenticated && sp.Corrupt == 0 && sp.ConnectOK && ob.Status != "OK" && !seenSalt[fmt.Sprintf("%d/%d/%d", sp.C, sp.S, sp.Seed)] {
			ctx.Monitor("C05/public-destination-refused:"+name, "an allowed destination was not reached: "+ob.Status, rep)
		}
	}
	// C02
	if ob.Status == "OK" {
		_, payload, _ := clientWire(sp, 0)
		tout := append(genBytes(sp.TOut[0], uint32(sp.TOut[1])), genBytes(sp.TLate[0], uint32(sp.TLate[1]))...)
		if ob.Reset {
			ctx.Monitor("C02/downstream-ends-with-reset", fmt.Sprintf("the relay completed (status OK) but the client's stream ended with a connection reset instead of end-of-stream after %d of %d bytes", ob.ClientLen, len(tout)), rep)
		}
		if !bytes.Equal(ob.TargetGot, payload) {
			ctx.Monitor("C02/upstream-not-intact", fmt.Sprintf("target received %d bytes (cksum %d), client sent %d (cksum %d)", len(ob.TargetGot), cksum(ob.TargetGot), len(payload), cksum(payload)), rep)
		}
		// end-of-stream propagates independently: the target has sent its output and half-closed, the
		// client (which has not finished sending) must see that end-of-stream; a timing verdict,
		// confirmed on two more runs of the same connection
		if sp.TFinFirst && ob.EOFHeld {
			again := 0
			for k := 0; k < 2; k++ {
				one := tcpCaseSpec{Cfg: cs.Cfg, Cap: cs.Cap, Conns: []tcpConnSpec{*sp}}
				if o2 := runTCPCase(&one); len(o2) == 1 && o2[0].EOFHeld {
					again++
				}
			}
			if again == 2 {
				ctx.Monitor("C02/target-eof-held-back", "the target sent its output and half-closed while the client was still to upload; the client had not seen end-of-stream 1.5 s later (it arrived only after the client finished); confirmed on two more runs", rep)
			} else {
				ctx.Count("target-eof-delay-not-confirmed")
			}
		}
		// the two directions are independent: what the target says reaches the client without
		// waiting for the client to send or close (the harness' client half-closes only after 1.1 s)
		stalled := func(o *tcpObs) bool { return o.FirstDownMs < 0 || o.FirstDownMs > 900 }
		if !sp.Fin && len(tout) > 0 && sp.Corrupt == 0 && stalled(ob) {
			// a timing verdict: confirm it twice on the same connection run alone (a single stall
			// can be the machine, three in a row are the server)
			again := 0
			for k := 0; k < 2; k++ {
				one := tcpCaseSpec{Cfg: cs.Cfg, Cap: cs.Cap, Conns: []tcpConnSpec{*sp}}
				if o2 := runTCPCase(&one); len(o2) == 1 && o2[0].Status == "OK" && stalled(&o2[0]) {
					again++
				}
			}
			ctx.Count("downstream-stall-suspected")
			if again < 2 {
				ctx.Count("downstream-stall-not-confirmed")
			}
			if again == 2 {
				ctx.Monitor("C02/downstream-waits-for-client", fmt.Sprintf("the target spoke at once but its first byte reached the silent client after %d ms (the client half-closed at 1100 ms); confirmed on two more runs of the same connection", ob.FirstDownMs), rep)
			}
		}
		if !bytes.Equal(ob.ClientPlain, tout) {
			ctx.Monitor("C02/downstream-not-intact", fmt.Sprintf("client decrypted %d bytes (cksum %d), target sent %d (cksum %d)", len(ob.ClientPlain), cksum(ob.ClientPlain), len(tout), cksum(tout)), rep)
		}
	}
	validKind := sp.AKind <= 3 || (sp.AKind >= 4 && sp.AKind <= 15 && sp.AKind != 9) || sp.AKind == 21 || (sp.AKind >= 30 && sp.AKind <= 33)
	if sp.CReset && authenticated && ob.Status != "ERR_RELAY_CLIENT" {
		ctx.Monitor("C15/status-hides-client-reset", fmt.Sprintf("the client aborted its connection with a reset once everything had been relayed; the connection was reported closed with %s", ob.Status), rep)
	}
	if sp.TReset && authenticated && ob.Status != "ERR_RELAY_TARGET" {
		ctx.Monitor("C15/status-hides-target-error", fmt.Sprintf("the target reset its connection after replying (the upload had completed); the connection was reported closed with %s", ob.Status), rep)
	}
	if sp.Kind == "honest" && sp.Corrupt == 0 && validKind && (!sp.Validate || tcpKindPublic(sp.AKind)) && sp.ConnectOK {
		inCfg := false
		for _, k := range cs.Cfg {
			if k.C == sp.C && k.S == sp.S {
				inCfg = true
			}
		}
		key := fmt.Sprintf("%d/%d/%d", sp.C, sp.S, sp.Seed)
		// (a connection whose scripted ending is a reset ends with a relay error by design)
		if inCfg && !seenSalt[key] && ob.Status != "OK" && !sp.TReset && !sp.CReset {
			ctx.Monitor("C02/valid-connection-failed", "honest connection with a configured key and a reachable target ended with "+ob.Status, rep)
		}
		seenSalt[key] = true // a later connection with the same handshake is a replay
	}
}
