package main

// One packet handler serving several listeners at once (main.go starts one Handle loop per udp
// listener of a service). All clients of all listeners send valid datagrams concurrently; C03 on
// the observables: the target receives only payloads some client sent, each once, each from the
// NAT socket of its own client; every reply opens under its client's key to an echo of that
// client's payload; no valid datagram is rejected; associations carry their client's key.

import (
	"bytes"
	"fmt"
	"net"
	"sync"
	"time"

	"github.com/Jigsaw-Code/outline-sdk/transport/shadowsocks"
	"github.com/Jigsaw-Code/outline-ss-server/service"
	"github.com/shadowsocks/go-shadowsocks2/socks"
)

type umSpec struct {
	Keys       int    `json:"keys"`
	Listeners  int    `json:"listeners"`
	ClientsPer int    `json:"clients_per_listener"`
	Rounds     int    `json:"rounds"`
	Seed       uint64 `json:"seed"`
}

func umPayload(l, c, r int, seed uint64) []byte {
	tag := fmt.Sprintf("L%dC%dR%d|", l, c, r)
	n := 16 + int((seed+uint64(l*7919+c*104729+r*1299709))%1300)
	out := make([]byte, n)
	copy(out, tag)
	for i := len(tag); i < n; i++ {
		out[i] = byte(i*31 + l*17 + c*13 + r*7)
	}
	return out
}

func udpMultiListener(ctx *Ctx, prop string) {
	rounds := 6
	if ctx.Thorough() {
		rounds = 40
	}
	for i := 0; i < rounds; i++ {
		sp := umSpec{Keys: 2 + ctx.Rng.Intn(4), Listeners: 2 + ctx.Rng.Intn(2), ClientsPer: 2 + ctx.Rng.Intn(3), Rounds: 40, Seed: ctx.Rng.U64()}
		runUDPMulti(ctx, prop, &sp)
		ctx.Count("multi-listener:runs")
	}
}

func runUDPMulti(ctx *Ctx, prop string, sp *umSpec) {
	var cfg []cfgKey
	for i := 0; i < sp.Keys; i++ {
		cfg = append(cfg, cfgKey{ID: i, C: i % len(cipherNames), S: i})
	}
	cl := service.NewCipherList()
	cl.Update(makeList(cfg))
	rec := &recUDP{}
	h := service.NewPacketHandler(udpNatTimeout, cl, rec, rec)
	h.SetTargetIPValidator(func(net.IP) error { return nil })
	tgt, err := net.ListenPacket("udp", "127.0.0.1:0")
	if err != nil {
		return
	}
	defer tgt.Close()
	type got struct {
		body []byte
		src  int
	}
	var tmu sync.Mutex
	var received []got
	go func() {
		buf := make([]byte, 70000)
		for {
			n, a, err := tgt.ReadFrom(buf)
			if err != nil {
				return
			}
			tmu.Lock()
			received = append(received, got{append([]byte{}, buf[:n]...), a.(*net.UDPAddr).Port})
			tmu.Unlock()
			tgt.WriteTo(buf[:n], a)
		}
	}()
	tport := tgt.LocalAddr().(*net.UDPAddr).Port
	taddr := []byte{1, 127, 0, 0, 1, byte(tport >> 8), byte(tport)}
	var srvs []net.PacketConn
	var hwg sync.WaitGroup
	for l := 0; l < sp.Listeners; l++ {
		s, err := net.ListenPacket("udp", "127.0.0.1:0")
		if err != nil {
			return
		}
		srvs = append(srvs, s)
		hwg.Add(1)
		go func() {
			defer hwg.Done()
			defer func() { recover() }()
			h.Handle(s)
		}()
	}
	type cres struct {
		l, c     int
		local    string
		key      int
		badReply []string
		replies  int
	}
	var cwg sync.WaitGroup
	results := make([]*cres, 0)
	start := make(chan struct{})
	for l := 0; l < sp.Listeners; l++ {
		for c := 0; c < sp.ClientsPer; c++ {
			cr := &cres{l: l, c: c, key: (l*sp.ClientsPer + c) % sp.Keys}
			results = append(results, cr)
			cwg.Add(1)
			go func(cr *cres) {
				defer cwg.Done()
				conn, err := net.Dial("udp", srvs[cr.l].LocalAddr().String())
				if err != nil {
					return
				}
				defer conn.Close()
				cr.local = conn.LocalAddr().String()
				key := mkKey(cfg[cr.key].C, cfg[cr.key].S)
				buf := make([]byte, 70000)
				<-start
				for r := 0; r < sp.Rounds; r++ {
					pl := umPayload(cr.l, cr.c, r, sp.Seed)
					salt := make([]byte, key.SaltSize())
					copy(salt, fmt.Sprintf("%02d%02d%04d%x", cr.l, cr.c, r, sp.Seed))
					conn.Write(sealDgram(key, salt, append(append([]byte{}, taddr...), pl...)))
					conn.SetReadDeadline(time.Now().Add(300 * time.Millisecond))
					n, err := conn.Read(buf)
					if err != nil {
						continue
					}
					cr.replies++
					pt, err := shadowsocks.Unpack(nil, buf[:n], key)
					if err != nil {
						cr.badReply = append(cr.badReply, fmt.Sprintf("round %d: a reply of %d bytes does not open under the client's key", r, n))
						continue
					}
					a := socks.SplitAddr(pt)
					if a == nil || !bytes.Equal(a, taddr) {
						cr.badReply = append(cr.badReply, fmt.Sprintf("round %d: reply does not carry the target's address", r))
						continue
					}
					body := pt[len(a):]
					ok := false
					for q := 0; q <= r; q++ {
						if bytes.Equal(body, umPayload(cr.l, cr.c, q, sp.Seed)) {
							ok = true
						}
					}
					if !ok {
						cr.badReply = append(cr.badReply, fmt.Sprintf("round %d: reply body (%d bytes, starts %q) is not the echo of a payload this client sent", r, len(body), string(body[:min(len(body), 12)])))
					}
				}
			}(cr)
		}
	}
	close(start)
	cwg.Wait()
	time.Sleep(50 * time.Millisecond)
	for _, s := range srvs {
		s.Close()
	}
	hwg.Wait()
	tmu.Lock()
	defer tmu.Unlock()
	// the target's view
	seen := map[string]int{}
	srcOf := map[string]int{} // "l,c" -> NAT socket port
	owner := map[int]string{} // NAT socket port -> "l,c"
	for _, g := range received {
		var l, c, r int
		if n, _ := fmt.Sscanf(string(g.body[:min(len(g.body), 24)]), "L%dC%dR%d|", &l, &c, &r); n != 3 || l >= sp.Listeners || c >= sp.ClientsPer || r >= sp.Rounds || !bytes.Equal(g.body, umPayload(l, c, r, sp.Seed)) {
			ctx.Monitor(prop+"/multi-listener-foreign-payload", fmt.Sprintf("the target received %d bytes (starting %q) that are the payload of no datagram any client sent", len(g.body), string(g.body[:min(len(g.body), 12)])), sp)
			continue
		}
		tag := fmt.Sprintf("%d,%d,%d", l, c, r)
		seen[tag]++
		if seen[tag] == 2 {
			ctx.Monitor(prop+"/multi-listener-duplicate-delivery", "the payload of one client datagram reached the target more than once ("+tag+")", sp)
		}
		who := fmt.Sprintf("%d,%d", l, c)
		if p, ok := srcOf[who]; ok && p != g.src {
			ctx.Monitor(prop+"/multi-listener-misattributed", "payloads of client "+who+" left through two different NAT sockets", sp)
		}
		srcOf[who] = g.src
		if o, ok := owner[g.src]; ok && o != who {
			ctx.Monitor(prop+"/multi-listener-misattributed", "one NAT socket carried payloads of clients "+o+" and "+who, sp)
		}
		owner[g.src] = who
	}
	ctx.CountN("multi-listener:payloads-at-target", len(received))
	keyOf := map[string]int{}
	for _, cr := range results {
		keyOf[cr.local] = cr.key
		ctx.CountN("multi-listener:replies", cr.replies)
		for _, b := range cr.badReply {
			ctx.Monitor(prop+"/multi-listener-bad-reply", fmt.Sprintf("client %d of listener %d, %s", cr.c, cr.l, b), sp)
		}
	}
	for _, e := range rec.snapshot(0) {
		switch e.Kind {
		case "add":
			if k, ok := keyOf[e.Client]; ok && idStr(cfg[k].ID) != e.Key {
				ctx.Monitor(prop+"/multi-listener-wrong-key", fmt.Sprintf("the association of a client using key %s was attributed to key %s", idStr(cfg[k].ID), e.Key), sp)
			}
		case "pktclient":
			if e.Status != "OK" {
				ctx.Monitor(prop+"/multi-listener-valid-datagram-rejected", "a valid datagram under a configured key was reported "+e.Status+" (every datagram of this scenario is valid)", sp)
			}
		}
	}
}
