package main

// C01, interleavings on the real CipherList: what overlapping connections (snapshot ... mark)
// and configuration updates do to the key list, in arbitrary orders.

import (
	"container/list"
	"fmt"
	"net/netip"
	"sort"
	"strings"

	"github.com/Jigsaw-Code/outline-ss-server/service"
)

func c01Interleave(ctx *Ctx, shard int) {
	r := ctx.Rng.Fork()
	n := 120
	if ctx.Thorough() {
		n = 1500
	}
	var terms []string
	for i := 0; i < n; i++ {
		nsecrets := 6
		cfg := genCfg(r, []int{1, 2, 3, 5, 8}[r.Intn(5)], nsecrets)
		cl := service.NewCipherList()
		cl.Update(makeList(cfg))
		cur := cfg
		var regs [][]*list.Element
		var ops, obs []string
		type jop struct {
			Op  string   `json:"op"`
			A   int      `json:"a,omitempty"`
			B   int      `json:"b,omitempty"`
			IP  int      `json:"ip,omitempty"`
			Cfg []cfgKey `json:"cfg,omitempty"`
		}
		var js []jop
		nops := r.Range(3, 14)
		stale := false
		for j := 0; j < nops; j++ {
			ip := r.Intn(4) // 0 = the zero address
			addr := netip.Addr{}
			if ip != 0 {
				addr = netip.AddrFrom4([4]byte{10, 0, 0, byte(ip)})
			}
			switch c := r.Intn(100); {
			case c < 35 || len(regs) == 0:
				regs = append(regs, cl.SnapshotForClientIP(addr))
				ops = append(ops, fmt.Sprintf("ISnap %d", ip))
				js = append(js, jop{Op: "snapshot", IP: ip})
				ctx.Count("interleave:snapshot")
			case c < 80:
				reg := r.Intn(len(regs))
				if len(regs[reg]) == 0 {
					continue
				}
				idx := r.Intn(len(regs[reg]))
				cl.MarkUsedByClientIP(regs[reg][idx], addr)
				ops = append(ops, fmt.Sprintf("IMark %d %d %d", reg, idx, ip))
				js = append(js, jop{Op: "mark", A: reg, B: idx, IP: ip})
				ctx.Count("interleave:mark")
			default:
				cur = genCfg(r, []int{1, 2, 4, 6}[r.Intn(4)], nsecrets)
				cl.Update(makeList(cur))
				ops = append(ops, "IUpdate "+cfgTerm(cur))
				js = append(js, jop{Op: "update", Cfg: cur})
				ctx.Count("interleave:update")
				stale = stale || len(regs) > 0
			}
			obs = append(obs, orderTerm(cl))
			// monitor: whatever the interleaving, the list holds exactly the entries of the last update
			var have, want []string
			for _, e := range service.VerifCipherListOrder(cl) {
				have = append(have, e.ID)
			}
			for _, k := range cur {
				want = append(want, idStr(k.ID))
			}
			sort.Strings(have)
			sort.Strings(want)
			if strings.Join(have, ",") != strings.Join(want, ",") {
				ctx.Monitor("C01/key-list-content-changed", fmt.Sprintf("after op %d the list holds IDs [%s], the last update configured [%s]", j, strings.Join(have, ","), strings.Join(want, ",")), map[string]interface{}{"cfg": cfg, "ops": js})
			}
		}
		if stale {
			ctx.Count("interleave:histories-with-stale-marks")
		}
		ctx.NonTrivial("I" + fmt.Sprint(ops))
		ctx.Stats.Cases++
		terms = append(terms, fmt.Sprintf("{| i_cfg := %s; i_ops := %s; i_obs := %s |}", cfgTerm(cfg), cListT("iop", ops), cListT("(list (bytes * N))", obs)))
		if len(terms) >= 60 {
			ctx.WriteCases(shard, "Corr.C01I", "icase", terms)
			shard++
			terms = nil
		}
	}
	if len(terms) > 0 {
		ctx.WriteCases(shard, "Corr.C01I", "icase", terms)
	}
}
