package main

// C01, interleavings on the real CipherList: what overlapping connections (snapshot ... mark)
// and configuration updates do to the key list, in arbitrary orders.

import (
	"container/list"
	"fmt"
	"net/netip"
	"sort"
	"strings"
	"sync"
	"sync/atomic"

	"github.com/Jigsaw-Code/outline-ss-server/service"
)

func c01Interleave(ctx *Ctx, shard int) {
	r := ctx.Rng.Fork()
	n := 120
	if ctx.Thorough() {
		n = 1500
	}
	var terms []string
	for i := 0; i < n; i++ {
		nsecrets := 6
		cfg := genCfg(r, []int{1, 2, 3, 5, 8}[r.Intn(5)], nsecrets)
		cl := service.NewCipherList()
		cl.Update(makeList(cfg))
		cur := cfg
		var regs [][]*list.Element
		var ops, obs []string
		type jop struct {
			Op  string   `json:"op"`
			A   int      `json:"a,omitempty"`
			B   int      `json:"b,omitempty"`
			IP  int      `json:"ip,omitempty"`
			Cfg []cfgKey `json:"cfg,omitempty"`
		}
		var js []jop
		nops := r.Range(3, 14)
		stale := false
		for j := 0; j < nops; j++ {
			ip := r.Intn(4) // 0 = the zero address
			addr := netip.Addr{}
			if ip != 0 {
				addr = netip.AddrFrom4([4]byte{10, 0, 0, byte(ip)})
			}
			switch c := r.Intn(100); {
			case c < 35 || len(regs) == 0:
				regs = append(regs, cl.SnapshotForClientIP(addr))
				ops = append(ops, fmt.Sprintf("ISnap %d", ip))
				js = append(js, jop{Op: "snapshot", IP: ip})
				ctx.Count("interleave:snapshot")
			case c < 80:
				reg := r.Intn(len(regs))
				if len(regs[reg]) == 0 {
					continue
				}
				idx := r.Intn(len(regs[reg]))
				cl.MarkUsedByClientIP(regs[reg][idx], addr)
				ops = append(ops, fmt.Sprintf("IMark %d %d %d", reg, idx, ip))
				js = append(js, jop{Op: "mark", A: reg, B: idx, IP: ip})
				ctx.Count("interleave:mark")
			default:
				cur = genCfg(r, []int{1, 2, 4, 6}[r.Intn(4)], nsecrets)
				cl.Update(makeList(cur))
				ops = append(ops, "IUpdate "+cfgTerm(cur))
				js = append(js, jop{Op: "update", Cfg: cur})
				ctx.Count("interleave:update")
				stale = stale || len(regs) > 0
			}
			obs = append(obs, orderTerm(cl))
			// monitor: whatever the interleaving, the list holds exactly the entries of the last update
			var have, want []string
			for _, e := range service.VerifCipherListOrder(cl) {
				have = append(have, e.ID)
			}
			for _, k := range cur {
				want = append(want, idStr(k.ID))
			}
			sort.Strings(have)
			sort.Strings(want)
			if strings.Join(have, ",") != strings.Join(want, ",") {
				ctx.Monitor("C01/key-list-content-changed", fmt.Sprintf("after op %d the list holds IDs [%s], the last update configured [%s]", j, strings.Join(have, ","), strings.Join(want, ",")), map[string]interface{}{"cfg": cfg, "ops": js})
			}
		}
		if stale {
			ctx.Count("interleave:histories-with-stale-marks")
		}
		ctx.NonTrivial("I" + fmt.Sprint(ops))
		ctx.Stats.Cases++
		terms = append(terms, fmt.Sprintf("{| i_cfg := %s; i_ops := %s; i_obs := %s |}", cfgTerm(cfg), cListT("iop", ops), cListT("(list (bytes * N))", obs)))
		if len(terms) >= 60 {
			ctx.WriteCases(shard, "Corr.C01I", "icase", terms)
			shard++
			terms = nil
		}
	}
	if len(terms) > 0 {
		ctx.WriteCases(shard, "Corr.C01I", "icase", terms)
	}
}

// snapshotsUnderMarks: on a fixed key list, one goroutine keeps moving the last-client-IP hint of one
// key between two addresses while others take snapshots for one of them: every snapshot is the
// result of some sequential order of the calls, so it contains every key exactly once (a key the
// snapshot misses is a configured key its client cannot authenticate with).
func snapshotsUnderMarks(ctx *Ctx, sig string) {
	const nKeys = 5
	rounds := 200000
	if ctx.Thorough() {
		rounds = 2000000
	}
	l := list.New()
	for i := 0; i < nKeys; i++ {
		e := service.MakeCipherEntry(idStr(i), mkKey(0, i), secretStr(i))
		l.PushBack(&e)
	}
	cl := service.NewCipherList()
	cl.Update(l)
	x := netip.AddrFrom4([4]byte{10, 0, 0, 1})
	y := netip.AddrFrom4([4]byte{10, 0, 0, 2})
	third := cl.SnapshotForClientIP(x)[3]
	var stop int32
	var mwg, swg sync.WaitGroup
	mwg.Add(1)
	go func() {
		defer mwg.Done()
		for i := 0; atomic.LoadInt32(&stop) == 0; i++ {
			if i%2 == 0 {
				cl.MarkUsedByClientIP(third, x)
			} else {
				cl.MarkUsedByClientIP(third, y)
			}
		}
	}()
	var bad int64
	var first atomic.Value
	for g := 0; g < 4; g++ {
		swg.Add(1)
		go func() {
			defer swg.Done()
			for i := 0; i < rounds/4 && atomic.LoadInt64(&bad) == 0; i++ {
				snap := cl.SnapshotForClientIP(x)
				seen := map[*list.Element]bool{}
				for _, e := range snap {
					if e != nil {
						seen[e] = true
					}
				}
				if len(snap) != nKeys || len(seen) != nKeys {
					if atomic.AddInt64(&bad, 1) == 1 {
						first.Store(fmt.Sprintf("a snapshot of a %d-key list has %d entries, %d distinct", nKeys, len(snap), len(seen)))
					}
				}
			}
		}()
	}
	swg.Wait()
	atomic.StoreInt32(&stop, 1)
	mwg.Wait()
	ctx.Count("snapshots-under-marks:runs")
	if atomic.LoadInt64(&bad) > 0 {
		ctx.Monitor(sig, "while one key's last-client hint was being moved between two addresses, "+first.Load().(string)+" (no sequential order of the calls gives that)", map[string]interface{}{"keys": nKeys})
	}
}
