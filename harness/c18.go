package main

// C18: no network input crashes the server or leaks its resources. The real service (stream
// handler behind StreamServe on a shared listener, packet handler on a shared packet listener)
// runs in a CHILD process, so that a crash is an observation. The child throws a seeded barrage
// of malformed, truncated, oversized and hostile inputs at it from clients and from targets,
// keeps canary connections running through it, then shuts everything down and counts what is
// left: goroutines, file descriptors, and whether serving stopped before its handlers.

import (
	"bytes"
	"context"
	"encoding/json"
	"fmt"
	"io"
	"log/slog"
	"net"
	"os"
	"runtime"
	"runtime/debug"
	"runtime/pprof"
	"strings"
	"sync"
	"sync/atomic"
	"syscall"
	"time"

	"github.com/Jigsaw-Code/outline-sdk/transport"
	"github.com/Jigsaw-Code/outline-sdk/transport/shadowsocks"
	"github.com/Jigsaw-Code/outline-ss-server/service"
)

func init() {
	scenarios["C18"] = c18
	children["c18run"] = c18child
}

type c18Report struct {
	Seed            uint64   `json:"seed"`
	Mode            string   `json:"mode"`
	Inputs          int      `json:"inputs"`
	InputKinds      []string `json:"input_kinds"`
	PanicsLogged    []string `json:"panics_logged"`
	CanaryFailures  []string `json:"canary_failures"`
	Gor0            int      `json:"goroutines_before"`
	Gor1            int      `json:"goroutines_after"`
	Fd0             int      `json:"fds_before"`
	Fd1             int      `json:"fds_after"`
	Leftover        []string `json:"leftover_goroutines"`
	ServeEarly      bool     `json:"serve_returned_before_handlers"`
	ServeStuck      bool     `json:"serve_did_not_return"`
	PacketStuck     bool     `json:"packet_handler_did_not_return"`
	ZonedTried      bool     `json:"zoned_sender_tried"`
	NatEntriesAdded int64    `json:"nat_entries_added"`
	NatEntriesGone  int64    `json:"nat_entries_removed"`
	Done            bool     `json:"done"`
	OpenFds         []string `json:"open_descriptors,omitempty"` // what is still open when more descriptors are open at the end than at the start
}

// describeFds lists the open descriptors; sockets with their protocol and local address
func describeFds() []string {
	inode := map[string]string{}
	for _, f := range []string{"tcp", "tcp6", "udp", "udp6"} {
		b, err := os.ReadFile("/proc/self/net/" + f)
		if err != nil {
			continue
		}
		for _, ln := range strings.Split(string(b), "\n")[1:] {
			fs := strings.Fields(ln)
			if len(fs) > 9 {
				inode[fs[9]] = f + " local=" + fs[1] + " remote=" + fs[2] + " st=" + fs[3]
			}
		}
	}
	var out []string
	es, _ := os.ReadDir("/proc/self/fd")
	for _, e := range es {
		l, err := os.Readlink("/proc/self/fd/" + e.Name())
		if err != nil {
			continue
		}
		if strings.HasPrefix(l, "socket:[") {
			if d, ok := inode[strings.TrimSuffix(strings.TrimPrefix(l, "socket:["), "]")]; ok {
				l += " " + d
			}
		}
		out = append(out, e.Name()+" -> "+l)
	}
	return out
}

type logCapture struct {
	mu   sync.Mutex
	recs []string
}

func (l *logCapture) Enabled(context.Context, slog.Level) bool { return true }
func (l *logCapture) Handle(_ context.Context, r slog.Record) error {
	if strings.Contains(strings.ToLower(r.Message), "panic") {
		var b strings.Builder
		b.WriteString(r.Message)
		r.Attrs(func(a slog.Attr) bool { fmt.Fprintf(&b, " %s=%v", a.Key, a.Value); return true })
		l.mu.Lock()
		l.recs = append(l.recs, b.String())
		l.mu.Unlock()
	}
	return nil
}
func (l *logCapture) WithAttrs([]slog.Attr) slog.Handler { return l }
func (l *logCapture) WithGroup(string) slog.Handler      { return l }

type c18UDPMetrics struct{ added, removed int64 }

func (m *c18UDPMetrics) AddUDPNatEntry(net.Addr, string) service.UDPConnMetrics {
	atomic.AddInt64(&m.added, 1)
	return &c18UDPConn{m}
}

type c18UDPConn struct{ m *c18UDPMetrics }

func (c *c18UDPConn) AddPacketFromClient(string, int64, int64) {}
func (c *c18UDPConn) AddPacketFromTarget(string, int64, int64) {}
func (c *c18UDPConn) RemoveNatEntry()                          { atomic.AddInt64(&c.m.removed, 1) }

// countFds counts the open SOCKETS of this process (the Go runtime keeps a pool of pipes for
// splice between TCP connections, released only by the garbage collector: not the server's)
func countFds() int {
	es, err := os.ReadDir("/proc/self/fd")
	if err != nil {
		return -1
	}
	n := 0
	for _, e := range es {
		if l, err := os.Readlink("/proc/self/fd/" + e.Name()); err == nil && strings.HasPrefix(l, "socket:[") {
			n++
		}
	}
	return n
}

// malformed / boundary SOCKS address forms, as authenticated plaintext
func c18Plaintexts(echoPort, closedPort int) map[string][]byte {
	dom := func(n int) []byte {
		b := []byte{3, byte(n)}
		for i := 0; i < n; i++ {
			b = append(b, 'a'+byte(i%26))
		}
		return append(b, 0, 80)
	}
	v4 := func(port int) []byte { return []byte{1, 127, 0, 0, 1, byte(port >> 8), byte(port)} }
	m := map[string][]byte{
		"type0":             {0, 1, 2, 3, 4, 5, 6},
		"type2":             {2, 1, 2, 3, 4, 5, 6},
		"type5":             {5, 1, 2, 3, 4, 5, 6, 7, 8},
		"type255":           {255, 255, 255, 255},
		"type-only-1":       {1},
		"type-only-3":       {3},
		"type-only-4":       {4},
		"v4-truncated":      {1, 127, 0, 0},
		"v4-no-port":        {1, 127, 0, 0, 1},
		"v4-half-port":      {1, 127, 0, 0, 1, 0},
		"v6-truncated":      append([]byte{4}, make([]byte, 15)...),
		"v6-no-port":        append([]byte{4}, make([]byte, 16)...),
		"domain-len0":       {3, 0, 0, 80},
		"domain-len0-trunc": {3, 0},
		"domain-len1":       dom(1),
		"domain-len255":     dom(255),
		"domain-len255-cut": dom(255)[:200],
		"domain-len200-cut": {3, 200, 'a', 'b'},
		"domain-nul":        {3, 3, 0, 0, 0, 0, 80},
		"domain-dots":       {3, 5, '.', '.', '.', '.', '.', 0, 80},
		"v4-port0":          v4(0),
		"v4-closed-port":    v4(closedPort),
		"v4-echo":           append(v4(echoPort), []byte("hello-c18")...),
		"v4-echo-nopayload": v4(echoPort),
		"v6-loopback-closed": append(append([]byte{4}, net.ParseIP("::1").To16()...),
			byte(closedPort>>8), byte(closedPort)),
		"empty": {},
	}
	return m
}

func c18child(args []string) {
	var seed uint64 = 1
	mode := "all"
	if len(args) > 0 {
		fmt.Sscan(args[0], &seed)
	}
	if len(args) > 1 {
		mode = args[1]
	}
	rep := &c18Report{Seed: seed, Mode: mode}
	emit := func() {
		b, _ := json.Marshal(rep)
		fmt.Println("C18REPORT " + string(b))
	}
	rng := NewRng(seed)
	lc := &logCapture{}
	slog.SetDefault(slog.New(lc))
	note := func(kind string) {
		rep.Inputs++
		fmt.Fprintln(os.Stderr, "input", rep.Inputs, kind)
		for _, k := range rep.InputKinds {
			if k == kind {
				return
			}
		}
		rep.InputKinds = append(rep.InputKinds, kind)
	}
	// no garbage collection in this process: a socket the server forgot to close must stay open
	// and be counted, not be closed behind our back by a finalizer
	debug.SetGCPercent(-1)
	time.Sleep(20 * time.Millisecond)
	rep.Gor0 = runtime.NumGoroutine()
	rep.Fd0 = countFds()

	// --- harness-side targets ---
	echoL, _ := net.Listen("tcp", "127.0.0.1:0")
	echoPort := echoL.Addr().(*net.TCPAddr).Port
	var tmode int32 // 0 echo, 1 reset at once, 2 flood then close, 3 accept and hang until client closes
	go func() {
		for {
			c, err := echoL.Accept()
			if err != nil {
				return
			}
			go func(c net.Conn) {
				defer c.Close()
				switch atomic.LoadInt32(&tmode) {
				case 1:
					c.(*net.TCPConn).SetLinger(0)
					return
				case 2:
					c.SetWriteDeadline(time.Now().Add(3 * time.Second))
					c.Write(bytes.Repeat([]byte{0xAB}, 1<<20))
					return
				case 3:
					io.Copy(io.Discard, c)
					return
				}
				c.SetDeadline(time.Now().Add(10 * time.Second))
				io.Copy(c, c)
			}(c)
		}
	}()
	cl0, _ := net.Listen("tcp", "127.0.0.1:0")
	closedPort := cl0.Addr().(*net.TCPAddr).Port
	cl0.Close()
	uecho, _ := net.ListenPacket("udp", "127.0.0.1:0")
	uechoPort := uecho.LocalAddr().(*net.UDPAddr).Port
	uother, _ := net.ListenPacket("udp", "127.0.0.1:0") // replies from an unexpected source
	var umode int32                                     // 0 echo, 1 reply with N bytes (usize), 2 reply from the other socket too, 3 zoned sender
	var usize int32
	var zoned net.PacketConn
	if ifi, err := net.InterfaceByName("eth0"); err == nil {
		if addrs, err := ifi.Addrs(); err == nil {
			for _, a := range addrs {
				if ipn, ok := a.(*net.IPNet); ok && ipn.IP.IsLinkLocalUnicast() && ipn.IP.To4() == nil {
					zoned, _ = net.ListenPacket("udp", "["+ipn.IP.String()+"%eth0]:0")
					break
				}
			}
		}
	}
	go func() {
		buf := make([]byte, 70000)
		for {
			n, src, err := uecho.ReadFrom(buf)
			if err != nil {
				return
			}
			switch atomic.LoadInt32(&umode) {
			case 1:
				uecho.WriteTo(bytes.Repeat([]byte{0xCD}, int(atomic.LoadInt32(&usize))), src)
			case 2:
				uecho.WriteTo(buf[:n], src)
				uother.WriteTo([]byte("from-elsewhere"), src)
			case 3:
				uecho.WriteTo(buf[:n], src)
				if zoned != nil {
					// the NAT socket is dual-stack: reach it at the link-local address, so that the
					// reply's source carries a zone
					za := zoned.LocalAddr().(*net.UDPAddr)
					dst := &net.UDPAddr{IP: za.IP, Zone: za.Zone, Port: src.(*net.UDPAddr).Port}
					zoned.WriteTo([]byte("zoned-sender"), dst)
				}
			default:
				uecho.WriteTo(buf[:n], src)
			}
		}
	}()

	// --- the server ---
	cfg := []cfgKey{{ID: 1, C: 0, S: 1}, {ID: 2, C: 3, S: 2}, {ID: 3, C: 1, S: 3}}
	cl := service.NewCipherList()
	cl.Update(makeList(cfg))
	cache := service.NewReplayCache(100)
	auth := service.NewShadowsocksStreamAuthenticator(cl, &cache, nil, nil)
	sh := service.NewStreamHandler(auth, 1500*time.Millisecond)
	sh.SetTargetDialer(&transport.TCPDialer{})
	um := &c18UDPMetrics{}
	ph := service.NewPacketHandler(time.Second, cl, um, nil)
	ph.SetTargetIPValidator(func(net.IP) error { return nil })
	mgr := service.NewListenerManager()
	l0, _ := net.Listen("tcp", "127.0.0.1:0")
	saddr := l0.Addr().String()
	l0.Close()
	ln, err := mgr.ListenStream(saddr)
	if err != nil {
		fmt.Fprintln(os.Stderr, "harness: listen stream:", err)
		os.Exit(4)
	}
	pc, err := mgr.ListenPacket(saddr)
	if err != nil {
		fmt.Fprintln(os.Stderr, "harness: listen packet:", err)
		os.Exit(4)
	}
	var running int64
	serveDone := make(chan struct{})
	go func() {
		service.StreamServe(ln.AcceptStream, func(ctx context.Context, c transport.StreamConn) {
			atomic.AddInt64(&running, 1)
			defer atomic.AddInt64(&running, -1)
			sh.Handle(ctx, c, nil)
		})
		close(serveDone)
	}()
	packetDone := make(chan struct{})
	go func() { ph.Handle(pc); close(packetDone) }()

	keys := []*shadowsocks.EncryptionKey{}
	for _, k := range cfg {
		ek, _ := shadowsocks.NewEncryptionKey(cipherNames[k.C], secretStr(k.S))
		keys = append(keys, ek)
	}
	dial := func() *net.TCPConn {
		c, err := net.DialTimeout("tcp", saddr, 2*time.Second)
		if err != nil {
			return nil
		}
		return c.(*net.TCPConn)
	}
	// canaries: one relayed TCP connection and one UDP association that must keep working
	var canaryTCP *net.TCPConn
	var canaryR io.Reader
	var canaryW io.Writer
	openCanary := func() {
		canaryTCP = dial()
		if canaryTCP == nil {
			rep.CanaryFailures = append(rep.CanaryFailures, "cannot connect to the listener")
			return
		}
		canaryR = shadowsocks.NewReader(canaryTCP, keys[0])
		canaryW = shadowsocks.NewWriter(canaryTCP, keys[0])
		canaryW.Write(append([]byte{1, 127, 0, 0, 1, byte(echoPort >> 8), byte(echoPort)}, []byte("canary-0")...))
		buf := make([]byte, 8)
		canaryTCP.SetDeadline(time.Now().Add(5 * time.Second))
		if _, err := io.ReadFull(canaryR, buf); err != nil {
			rep.CanaryFailures = append(rep.CanaryFailures, "canary open: "+err.Error())
		}
	}
	canaryUDP, _ := net.Dial("udp", saddr)
	checkCanaries := func(when string) {
		if canaryTCP != nil {
			msg := []byte(fmt.Sprintf("canary-%s-%d", when, rep.Inputs))
			canaryTCP.SetDeadline(time.Now().Add(5 * time.Second))
			canaryW.Write(msg)
			buf := make([]byte, len(msg))
			if _, err := io.ReadFull(canaryR, buf); err != nil || !bytes.Equal(buf, msg) {
				rep.CanaryFailures = append(rep.CanaryFailures, fmt.Sprintf("relayed TCP connection broken %s: %v", when, err))
				canaryTCP = nil
			}
		}
		// a fresh connection is still accepted and served
		if c := dial(); c == nil {
			rep.CanaryFailures = append(rep.CanaryFailures, "listener no longer accepts "+when)
		} else {
			w := shadowsocks.NewWriter(c, keys[1])
			w.Write(append([]byte{1, 127, 0, 0, 1, byte(echoPort >> 8), byte(echoPort)}, []byte("fresh")...))
			c.SetDeadline(time.Now().Add(5 * time.Second))
			buf := make([]byte, 5)
			if _, err := io.ReadFull(shadowsocks.NewReader(c, keys[1]), buf); err != nil {
				rep.CanaryFailures = append(rep.CanaryFailures, fmt.Sprintf("fresh TCP connection not served %s: %v", when, err))
			}
			c.Close()
		}
		// UDP round trip
		salt := rng.Bytes(32)
		pkt := sealDgram(keys[0], salt, append([]byte{1, 127, 0, 0, 1, byte(uechoPort >> 8), byte(uechoPort)}, []byte("ucanary")...))
		ok := false
		for try := 0; try < 3 && !ok; try++ {
			canaryUDP.Write(pkt)
			canaryUDP.SetReadDeadline(time.Now().Add(1500 * time.Millisecond))
			buf := make([]byte, 70000)
			for {
				n, err := canaryUDP.Read(buf)
				if err != nil {
					break
				}
				if pt, err := shadowsocks.Unpack(nil, buf[:n], keys[0]); err == nil && bytes.HasSuffix(pt, []byte("ucanary")) {
					ok = true
					break
				}
			}
		}
		if !ok {
			rep.CanaryFailures = append(rep.CanaryFailures, "UDP association no longer served "+when)
		}
	}
	atomic.StoreInt32(&tmode, 0)
	openCanary()
	checkCanaries("before")

	pts := c18Plaintexts(echoPort, closedPort)
	var names []string
	for k := range pts {
		names = append(names, k)
	}
	sortStrings(names)

	// ---- TCP barrage ----
	if mode == "all" || mode == "tcp" {
		finish := func(c *net.TCPConn, how int) {
			switch how {
			case 0:
				c.CloseWrite()
				c.SetReadDeadline(time.Now().Add(300 * time.Millisecond))
				io.Copy(io.Discard, c)
				c.Close()
			case 1:
				c.SetLinger(0)
				c.Close()
			case 2:
				time.Sleep(time.Duration(rng.Intn(30)) * time.Millisecond)
				c.Close()
			}
		}
		var wg sync.WaitGroup
		sem := make(chan struct{}, 8)
		for _, name := range names {
			for how := 0; how < 3; how++ {
				k := keys[rng.Intn(len(keys))]
				extra := rng.Chance(30)
				note("tcp/plain/" + name)
				wg.Add(1)
				sem <- struct{}{}
				go func(p []byte, k *shadowsocks.EncryptionKey, how int, extra bool) {
					defer wg.Done()
					defer func() { <-sem }()
					c := dial()
					if c == nil {
						return
					}
					w := shadowsocks.NewWriter(c, k)
					if len(p) > 0 {
						w.Write(p)
					}
					if extra {
						w.Write(bytes.Repeat([]byte{7}, 20000)) // several chunks
					}
					finish(c, how)
				}(pts[name], k, how, extra)
			}
		}
		wg.Wait()
		checkCanaries("after malformed plaintexts")
		// raw, unauthenticated
		for _, n := range []int{0, 1, 15, 31, 32, 33, 49, 50, 51, 100, 1000, 70000} {
			note(fmt.Sprintf("tcp/raw/%d", n))
			if c := dial(); c != nil {
				c.SetWriteDeadline(time.Now().Add(2 * time.Second))
				c.Write(rng.Bytes(n))
				finish(c, rng.Intn(3))
			}
		}
		// valid salt + a correctly sealed length block with the high bits set / huge / zero
		for _, ln := range []uint16{0xFFFF, 0x7FFF, 0x4000, 0x3FFF, 0} {
			note(fmt.Sprintf("tcp/sealed-length/%#x", ln))
			k := keys[0]
			salt := rng.Bytes(k.SaltSize())
			aead, _ := k.NewAEAD(salt)
			nonce := make([]byte, aead.NonceSize())
			wire := append([]byte{}, salt...)
			wire = aead.Seal(wire, nonce, []byte{byte(ln >> 8), byte(ln)}, nil)
			wire = append(wire, rng.Bytes(40)...)
			if c := dial(); c != nil {
				c.Write(wire)
				finish(c, rng.Intn(3))
			}
		}
		// hostile targets
		for m := int32(1); m <= 3; m++ {
			atomic.StoreInt32(&tmode, m)
			for i := 0; i < 3; i++ {
				note(fmt.Sprintf("tcp/target-mode/%d", m))
				if c := dial(); c != nil {
					w := shadowsocks.NewWriter(c, keys[2])
					w.Write(append([]byte{1, 127, 0, 0, 1, byte(echoPort >> 8), byte(echoPort)}, []byte("x")...))
					c.SetReadDeadline(time.Now().Add(400 * time.Millisecond))
					io.Copy(io.Discard, c)
					finish(c, rng.Intn(3))
				}
			}
		}
		atomic.StoreInt32(&tmode, 0)
		checkCanaries("after raw input and hostile targets")
		// descriptor exhaustion: connections arrive while the process cannot open another
		// descriptor, so accept itself fails (EMFILE) for a while; afterwards the listener must
		// still be serving
		var lim syscall.Rlimit
		if syscall.Getrlimit(syscall.RLIMIT_NOFILE, &lim) == nil {
			old := lim
			if es, err := os.ReadDir("/proc/self/fd"); err == nil {
				lim.Cur = uint64(len(es) + 5)
				if syscall.Setrlimit(syscall.RLIMIT_NOFILE, &lim) == nil {
					note("tcp/accept-error/descriptor-exhaustion")
					var hold []net.Conn
					for i := 0; i < 16; i++ {
						if c, err := net.DialTimeout("tcp", saddr, 300*time.Millisecond); err == nil {
							hold = append(hold, c)
						}
					}
					time.Sleep(150 * time.Millisecond)
					for _, c := range hold {
						c.Close()
					}
					syscall.Setrlimit(syscall.RLIMIT_NOFILE, &old)
					time.Sleep(100 * time.Millisecond)
					checkCanaries("after descriptor exhaustion")
				}
			}
		}
	}

	// ---- UDP barrage ----
	if mode == "all" || mode == "udp" {
		uc, _ := net.Dial("udp", saddr)
		for _, n := range []int{0, 1, 15, 16, 31, 32, 33, 48, 49, 50, 100, 1500, 65000} {
			note(fmt.Sprintf("udp/raw/%d", n))
			uc.Write(rng.Bytes(n))
		}
		for _, name := range names {
			k := keys[rng.Intn(len(keys))]
			note("udp/plain/" + name)
			uc.Write(sealDgram(k, rng.Bytes(k.SaltSize()), pts[name]))
			// and on a live association (a fresh client socket first makes one)
			c2, _ := net.Dial("udp", saddr)
			c2.Write(sealDgram(k, rng.Bytes(k.SaltSize()), append([]byte{1, 127, 0, 0, 1, byte(uechoPort >> 8), byte(uechoPort)}, 'a')))
			time.Sleep(5 * time.Millisecond)
			c2.Write(sealDgram(k, rng.Bytes(k.SaltSize()), pts[name]))
			c2.Close()
		}
		time.Sleep(50 * time.Millisecond)
		checkCanaries("after malformed datagrams")
		// replies of every size class
		atomic.StoreInt32(&umode, 1)
		for _, sz := range []int{0, 1, 1400, 32000, 65000, 65400, 65469, 65470, 65485, 65507} {
			note(fmt.Sprintf("udp/reply-size/%d", sz))
			atomic.StoreInt32(&usize, int32(sz))
			c2, _ := net.Dial("udp", saddr)
			c2.Write(sealDgram(keys[0], rng.Bytes(32), append([]byte{1, 127, 0, 0, 1, byte(uechoPort >> 8), byte(uechoPort)}, 'r')))
			c2.SetReadDeadline(time.Now().Add(150 * time.Millisecond))
			c2.Read(make([]byte, 70000))
			c2.Close()
		}
		// replies from an unexpected source, and from a zoned link-local sender
		for _, m := range []int32{2, 3} {
			atomic.StoreInt32(&umode, m)
			note(fmt.Sprintf("udp/reply-source-mode/%d", m))
			if m == 3 {
				rep.ZonedTried = zoned != nil
			}
			c2, _ := net.Dial("udp", saddr)
			c2.Write(sealDgram(keys[0], rng.Bytes(32), append([]byte{1, 127, 0, 0, 1, byte(uechoPort >> 8), byte(uechoPort)}, 's')))
			c2.SetReadDeadline(time.Now().Add(200 * time.Millisecond))
			buf := make([]byte, 70000)
			for {
				if _, err := c2.Read(buf); err != nil {
					break
				}
			}
			c2.Close()
		}
		atomic.StoreInt32(&umode, 0)
		// many associations created together, hence expiring together, while other clients keep
		// the table busy with look-ups
		note("udp/joint-expiry")
		for round := 0; round < 3; round++ {
			var socks []net.Conn
			for i := 0; i < 150; i++ {
				c2, err := net.Dial("udp", saddr)
				if err != nil {
					continue
				}
				socks = append(socks, c2)
				c2.Write(sealDgram(keys[i%len(keys)], rng.Bytes(keys[i%len(keys)].SaltSize()), append([]byte{1, 127, 0, 0, 1, byte(uechoPort >> 8), byte(uechoPort)}, 'j')))
			}
			end := time.Now().Add(1300 * time.Millisecond)
			for time.Now().Before(end) {
				if len(socks) > 0 {
					k := keys[0]
					socks[0].Write(sealDgram(k, rng.Bytes(k.SaltSize()), append([]byte{1, 127, 0, 0, 1, byte(uechoPort >> 8), byte(uechoPort)}, 'k')))
				}
				time.Sleep(2 * time.Millisecond)
			}
			for _, c2 := range socks {
				c2.Close()
			}
		}
		time.Sleep(1200 * time.Millisecond)
		uc.Close()
		time.Sleep(50 * time.Millisecond)
		checkCanaries("after hostile replies")
	}

	// ---- shutdown order: serving stops only after its handlers ----
	held := dial()
	if held != nil {
		w := shadowsocks.NewWriter(held, keys[0])
		atomic.StoreInt32(&tmode, 3)
		w.Write(append([]byte{1, 127, 0, 0, 1, byte(echoPort >> 8), byte(echoPort)}, []byte("hold")...))
		time.Sleep(80 * time.Millisecond)
	}
	if canaryTCP != nil {
		canaryTCP.Close()
	}
	canaryUDP.Close()
	ln.Close()
	select {
	case <-serveDone:
		if held != nil && atomic.LoadInt64(&running) > 0 {
			rep.ServeEarly = true
		}
	case <-time.After(400 * time.Millisecond):
	}
	if held != nil {
		held.Close()
	}
	select {
	case <-serveDone:
	case <-time.After(8 * time.Second):
		rep.ServeStuck = true
	}
	pc.Close()
	select {
	case <-packetDone:
	case <-time.After(8 * time.Second):
		rep.PacketStuck = true
	}
	echoL.Close()
	uecho.Close()
	uother.Close()
	if zoned != nil {
		zoned.Close()
	}
	// everything the server created must be gone
	deadline := time.Now().Add(6 * time.Second)
	for {
		rep.Gor1, rep.Fd1 = runtime.NumGoroutine(), countFds()
		if (rep.Gor1 <= rep.Gor0 && rep.Fd1 <= rep.Fd0) || time.Now().After(deadline) {
			break
		}
		time.Sleep(100 * time.Millisecond)
	}
	if rep.Gor1 > rep.Gor0 {
		var b bytes.Buffer
		pprof.Lookup("goroutine").WriteTo(&b, 1)
		for _, blk := range strings.Split(b.String(), "\n\n") {
			if strings.Contains(blk, "outline-ss-server/service") {
				lines := strings.Split(blk, "\n")
				if len(lines) > 6 {
					lines = lines[:6]
				}
				rep.Leftover = append(rep.Leftover, strings.Join(lines, " | "))
			}
		}
	}
	if rep.Fd1 > rep.Fd0 {
		rep.OpenFds = describeFds()
	}
	rep.NatEntriesAdded, rep.NatEntriesGone = atomic.LoadInt64(&um.added), atomic.LoadInt64(&um.removed)
	lc.mu.Lock()
	rep.PanicsLogged = lc.recs
	lc.mu.Unlock()
	rep.Done = true
	emit()
}

func sortStrings(s []string) {
	for i := 1; i < len(s); i++ {
		for j := i; j > 0 && s[j] < s[j-1]; j-- {
			s[j], s[j-1] = s[j-1], s[j]
		}
	}
}

func c18(ctx *Ctx) {
	runs := 3
	if ctx.Thorough() {
		runs = 16
	}
	type res struct {
		out  string
		code int
		seed uint64
		mode string
	}
	results := make([]res, runs)
	var wg sync.WaitGroup
	for i := 0; i < runs; i++ {
		wg.Add(1)
		go func(i int) {
			defer wg.Done()
			seed := uint64(ctx.Seed)*1000 + uint64(i)
			mode := []string{"all", "tcp", "udp"}[i%3]
			out, code := runSelfChild(120*time.Second, "c18run", fmt.Sprint(seed), mode)
			results[i] = res{out, code, seed, mode}
		}(i)
	}
	wg.Wait()
	for _, r := range results {
		ctx.Stats.Cases++
		ctx.Count("runs:" + r.mode)
		var rep c18Report
		got := false
		for _, line := range strings.Split(r.out, "\n") {
			if strings.HasPrefix(line, "C18REPORT ") {
				got = json.Unmarshal([]byte(line[10:]), &rep) == nil
			}
		}
		cs := map[string]interface{}{"child": "c18run", "seed": r.seed, "mode": r.mode}
		if r.code != 0 || !got || !rep.Done {
			first := "exit code " + fmt.Sprint(r.code)
			for _, line := range strings.Split(r.out, "\n") {
				if strings.HasPrefix(line, "panic:") || strings.HasPrefix(line, "fatal error:") {
					first = line
					break
				}
			}
			cs["output_tail"] = tailStr(r.out, 2500)
			sig := "C18/process-crashed"
			if r.code == 4 {
				fmt.Fprintln(os.Stderr, "c18 child could not set up:", tailStr(r.out, 500))
				os.Exit(3)
			}
			if r.code == -2 {
				sig = "C18/process-hung"
			}
			ctx.Monitor(sig, first, cs)
			continue
		}
		cs["report"] = rep
		ctx.CountN("inputs", rep.Inputs)
		for _, k := range rep.InputKinds {
			ctx.NonTrivial(k)
		}
		if rep.ZonedTried {
			ctx.Count("zoned-sender-runs")
		}
		ctx.CountN("nat-entries", int(rep.NatEntriesAdded))
		for _, p := range rep.PanicsLogged {
			ctx.Monitor("C18/recovered-panic", "a handler panicked (recovered and logged): "+p, cs)
		}
		for _, c := range rep.CanaryFailures {
			ctx.Monitor("C18/other-connections-affected", c, cs)
		}
		if rep.ServeEarly {
			ctx.Monitor("C18/serving-stopped-before-handlers", "StreamServe returned while a handler was still running", cs)
		}
		if rep.ServeStuck {
			ctx.Monitor("C18/serve-did-not-return", "StreamServe did not return within 8 s after the listener and all clients were closed", cs)
		}
		if rep.PacketStuck {
			ctx.Monitor("C18/packet-handler-did-not-return", "the packet handler did not return within 8 s after its listener was closed", cs)
		}
		if rep.Gor1 > rep.Gor0 {
			ctx.Monitor("C18/goroutine-leak", fmt.Sprintf("%d goroutines before, %d after everything ended: %v", rep.Gor0, rep.Gor1, rep.Leftover), cs)
		}
		if rep.Fd1 > rep.Fd0 {
			ctx.Monitor("C18/fd-leak", fmt.Sprintf("%d descriptors before, %d after everything ended", rep.Fd0, rep.Fd1), cs)
		}
		if rep.NatEntriesAdded != rep.NatEntriesGone {
			ctx.Monitor("C18/nat-entries-left", fmt.Sprintf("%d NAT entries added, %d removed after shutdown", rep.NatEntriesAdded, rep.NatEntriesGone), cs)
		}
		ctx.Sample(map[string]interface{}{"seed": r.seed, "mode": r.mode, "inputs": rep.Inputs, "goroutines": []int{rep.Gor0, rep.Gor1}, "fds": []int{rep.Fd0, rep.Fd1}})
	}
	// the same malformed forms through the handlers against the Coq model
	rule := ctx.Stats.Rule
	_ = rule
	cTCP(ctx, "C18")
	cUDPInto(ctx, "C18", 40, 500)
	udpDNSSilent(ctx, "C18")
	ctx.Stats.Rule = "part 1: TCP and UDP loopback scenarios weighted towards authenticated-then-malformed inputs, against the model (Corr/TCP, Corr/UDP); part 2: child processes run the real stream handler behind StreamServe and the real packet handler on shared listeners; seeded barrage: every malformed / boundary SOCKS address form as authenticated plaintext over TCP (x3 ways of ending the connection) and UDP (new and live association), raw inputs of boundary sizes, sealed length blocks with high bits, targets that reset / flood / hang, replies of boundary sizes, from an unexpected source and from a zoned link-local sender; canary TCP connection, fresh connections and a UDP association checked between batches; then shutdown with a handler still running, and a census of goroutines, descriptors and NAT entries; a crash of the child is an observation; non-trivial = distinct input kinds"
}
