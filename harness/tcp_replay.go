package main

import (
	"encoding/json"
	"fmt"
	"os"
)

func init() { children["tcpcase"] = tcpCaseChild }

// tcpCaseChild runs one TCP case given as JSON (file path or literal) and prints the observations.
func tcpCaseChild(args []string) {
	data := []byte(args[0])
	if b, err := os.ReadFile(args[0]); err == nil {
		data = b
	}
	var cs tcpCaseSpec
	if err := json.Unmarshal(data, &cs); err != nil {
		// a replay file written by ./check: {"case": {"case": spec, ...}}
		var wrap struct {
			Case struct {
				Case tcpCaseSpec `json:"case"`
			} `json:"case"`
		}
		if err2 := json.Unmarshal(data, &wrap); err2 != nil {
			fmt.Println("cannot parse case:", err)
			os.Exit(2)
		}
		cs = wrap.Case.Case
	}
	for i := range cs.Conns {
		c := &cs.Conns[i]
		fmt.Sscanf(c.Key, "%d/%d", &c.C, &c.S)
	}
	obs := runTCPCase(&cs)
	b, _ := json.MarshalIndent(obs, "", " ")
	fmt.Println(string(b))
}
