package main

// The DNS fast-close path of the UDP handler, end to end (monitor-only: a target on port 53 is a
// per-process resource, so these runs are not part of the generated correspondence cases; the
// deadline arithmetic itself is the NatTimer model and its correspondence). One query to a
// resolver on port 53 and its answer: the answer is relayed AND reported like any other datagram
// from a target, and the association ends right afterwards, long before the NAT timeout. Two
// queries before the answer: no fast close.

import (
	"bytes"
	"fmt"
	"net"
	"os"
	"sync/atomic"
	"time"

	"github.com/Jigsaw-Code/outline-sdk/transport/shadowsocks"
	"github.com/Jigsaw-Code/outline-ss-server/service"
)

var dnsTurn int64

func udpDNSFastClose(ctx *Ctx, prop string) {
	rounds := 4
	if ctx.Thorough() {
		rounds = 30
	}
	for i := 0; i < rounds; i++ {
		runUDPDNS(ctx, prop, i%2 == 1, ctx.Rng.Intn(4))
	}
	udpDNSSilent(ctx, prop)
}

// udpDNSSilent: one query to a resolver that never answers, then the listener is closed while the
// association is still waiting: the handler returns and nothing crashes (a crash of the
// per-association goroutine takes the process down: the supervisor of the worker reports it).
func udpDNSSilent(ctx *Ctx, prop string) {
	n := atomic.AddInt64(&dnsTurn, 1) + int64(os.Getpid())*7
	ip := net.IPv4(127, 53, byte(n>>8), byte(n))
	dns, err := net.ListenUDP("udp", &net.UDPAddr{IP: ip, Port: 53})
	if err != nil {
		ctx.Count("dns:skipped-cannot-bind-port-53")
		return
	}
	defer dns.Close()
	cfg := []cfgKey{{ID: 0, C: 0, S: 3}}
	cl := service.NewCipherList()
	cl.Update(makeList(cfg))
	rec := &recUDP{}
	h := service.NewPacketHandler(3*time.Second, cl, rec, rec)
	h.SetTargetIPValidator(func(net.IP) error { return nil })
	srv, err := net.ListenPacket("udp", "127.0.0.1:0")
	if err != nil {
		return
	}
	done := make(chan struct{})
	go func() { defer close(done); h.Handle(srv) }()
	c, err := net.Dial("udp", srv.LocalAddr().String())
	if err != nil {
		srv.Close()
		return
	}
	defer c.Close()
	key := mkKey(0, 3)
	taddr := append([]byte{1}, append(ip.To4(), 0, 53)...)
	c.Write(sealDgram(key, genBytes(key.SaltSize(), uint32(n)), append(append([]byte{}, taddr...), []byte("query")...)))
	time.Sleep(200 * time.Millisecond)
	srv.Close() // shutdown with the lone, unanswered query's association alive
	select {
	case <-done:
	case <-time.After(3 * time.Second):
		ctx.Monitor(prop+"/handler-did-not-return", "Handle did not return within 3 s of the listener's close (one association with a single unanswered DNS query)", nil)
	}
	time.Sleep(300 * time.Millisecond) // the association's goroutine ends
	removed := 0
	for _, e := range rec.snapshot(0) {
		if e.Kind == "remove" {
			removed++
		}
	}
	ctx.Count("dns:runs:silent-resolver-then-shutdown")
	if removed != 1 {
		ctx.Monitor("C14/dns-association-not-reclaimed-at-shutdown", fmt.Sprintf("an association with one unanswered DNS query was alive at shutdown: %d removals reported", removed), nil)
	}
}

func runUDPDNS(ctx *Ctx, prop string, twoQueries bool, ci int) {
	n := atomic.AddInt64(&dnsTurn, 1) + int64(os.Getpid())*7
	ip := net.IPv4(127, 53, byte(n>>8), byte(n))
	dns, err := net.ListenUDP("udp", &net.UDPAddr{IP: ip, Port: 53})
	if err != nil {
		ctx.Count("dns:skipped-cannot-bind-port-53")
		return
	}
	defer dns.Close()
	reply := genBytes(120, uint32(n))
	var queries int64
	go func() {
		buf := make([]byte, 2048)
		for {
			_, a, err := dns.ReadFrom(buf)
			if err != nil {
				return
			}
			if atomic.AddInt64(&queries, 1) == 1 {
				if twoQueries {
					time.Sleep(150 * time.Millisecond) // the second query arrives before the answer leaves
				}
				dns.WriteTo(reply, a)
			}
		}
	}()
	cfg := []cfgKey{{ID: 0, C: ci, S: 3}}
	cl := service.NewCipherList()
	cl.Update(makeList(cfg))
	rec := &recUDP{}
	h := service.NewPacketHandler(3*time.Second, cl, rec, rec)
	h.SetTargetIPValidator(func(net.IP) error { return nil })
	srv, err := net.ListenPacket("udp", "127.0.0.1:0")
	if err != nil {
		return
	}
	done := make(chan struct{})
	go func() { defer close(done); defer func() { recover() }(); h.Handle(srv) }()
	defer func() {
		srv.Close()
		select {
		case <-done:
		case <-time.After(2 * time.Second):
		}
	}()
	c, err := net.Dial("udp", srv.LocalAddr().String())
	if err != nil {
		return
	}
	defer c.Close()
	key := mkKey(ci, 3)
	taddr := append([]byte{1}, append(ip.To4(), 0, 53)...)
	send := func(seed uint32) {
		c.Write(sealDgram(key, genBytes(key.SaltSize(), seed), append(append([]byte{}, taddr...), []byte("query")...)))
	}
	send(uint32(n)*3 + 1)
	if twoQueries {
		time.Sleep(30 * time.Millisecond)
		send(uint32(n)*3 + 2)
	}
	c.SetReadDeadline(time.Now().Add(2 * time.Second))
	buf := make([]byte, 2048)
	gotReply := false
	wire := 0
	if k, err := c.Read(buf); err == nil {
		if pt, err := shadowsocks.Unpack(nil, buf[:k], key); err == nil && bytes.HasSuffix(pt, reply) {
			gotReply, wire = true, k
		}
	}
	time.Sleep(1200 * time.Millisecond) // far less than the NAT timeout (3 s) and the DNS timeout (17 s)
	var added, removed, fromTarget int
	var tb, cb int64
	for _, e := range rec.snapshot(0) {
		switch e.Kind {
		case "add":
			added++
		case "remove":
			removed++
		case "pkttarget":
			fromTarget++
			tb, cb = e.A, e.B
		}
	}
	spec := map[string]interface{}{"cipher": cipherNames[ci], "queries_before_the_answer": map[bool]int{false: 1, true: 2}[twoQueries], "answer_bytes": len(reply)}
	ctx.Count(fmt.Sprintf("dns:runs:%d-queries", map[bool]int{false: 1, true: 2}[twoQueries]))
	if !gotReply {
		ctx.Monitor(prop+"/dns-answer-not-relayed", "the answer of a resolver on port 53 did not reach the client", spec)
		return
	}
	if fromTarget != 1 || tb != int64(len(reply)) || cb != int64(wire) {
		ctx.Monitor("C16/dns-answer-not-reported", fmt.Sprintf("the client received the resolver's answer (%d bytes, %d on the wire); AddPacketFromTarget was called %d times (sizes %d, %d)", len(reply), wire, fromTarget, tb, cb), spec)
	}
	if !twoQueries && (added != 1 || removed != 1) {
		ctx.Monitor("C14/dns-fast-close-missing", fmt.Sprintf("one query to port 53 and its answer: 1.2 s later the association had been added %d times and removed %d times (it ends right after the first answer)", added, removed), spec)
	}
	if twoQueries && removed != 0 {
		ctx.Monitor("C14/dns-fast-close-after-two-queries", "two queries were sent before the answer: the association must not be closed on the first answer, but it was removed within 1.2 s", spec)
	}
}
