package main

// promTee: every call the service under test makes on its metrics sink is also made on the real
// Prometheus ServiceMetrics (prometheus/metrics.go) of a private registry and logged; after the case
// the registry is gathered. Corr/Coll.v replays the log through the collector model
// (theories/Collector.v) and compares the gathered counters. The calls themselves are compared with
// the wire by the UDP / TCP correspondences, so gathered counters are tied to the wire end to end.

import (
	"fmt"
	"net"
	"sort"
	"strings"
	"sync"
	"time"

	oprom "github.com/Jigsaw-Code/outline-ss-server/prometheus"
	"github.com/Jigsaw-Code/outline-ss-server/service"
	"github.com/Jigsaw-Code/outline-ss-server/service/metrics"
	"github.com/prometheus/client_golang/prometheus"
)

type promTee struct {
	mu    sync.Mutex
	sm    service.ServiceMetrics
	reg   *prometheus.Registry
	calls []string // Coq terms of type mcall
	next  int
	full  bool
	want  map[string]int64 // per-key byte sums and report counts, accumulated from the calls as made
	keys  map[int]string
	diffs []string // gathered counters that differ from want (filled by term)
}

func (t *promTee) expect(v int64, parts ...string) {
	if v > 0 {
		t.want[strings.Join(parts, "\x00")] += v
	}
}

const promTeeMax = 20000

func newPromTee() *promTee {
	sm, err := oprom.NewServiceMetrics(nil)
	if err != nil {
		return nil
	}
	reg := prometheus.NewRegistry()
	reg.MustRegister(sm)
	return &promTee{sm: sm, reg: reg, want: map[string]int64{}, keys: map[int]string{}}
}

// log appends one call (with mu held); false once the log is full, and the call is then not made
func (t *promTee) log(term string) bool {
	if len(t.calls) >= promTeeMax {
		t.full = true
		return false
	}
	t.calls = append(t.calls, term)
	return true
}

type teeUDPConn struct {
	t    *promTee
	id   int
	real service.UDPConnMetrics
}

func (t *promTee) addUDP(clientAddr net.Addr, key string) *teeUDPConn {
	t.mu.Lock()
	defer t.mu.Unlock()
	id := t.next
	t.next++
	if !t.log(fmt.Sprintf("MUAdd %d %s", id, cStr(key))) {
		return &teeUDPConn{t: t, id: id}
	}
	t.keys[id] = key
	t.expect(1, "udp_nat_entries_added")
	return &teeUDPConn{t, id, t.sm.AddUDPNatEntry(clientAddr, key)}
}
func (c *teeUDPConn) fromClient(status string, a, b int64) {
	c.t.mu.Lock()
	defer c.t.mu.Unlock()
	if c.real != nil && c.t.log(fmt.Sprintf("MUPktC %d %s %s %s", c.id, cStr(status), cZ(a), cZ(b))) {
		c.t.expect(a, "data_bytes", "udp", "c>p", c.t.keys[c.id])
		c.t.expect(b, "data_bytes", "udp", "p>t", c.t.keys[c.id])
		c.t.expect(1, "udp_packets_from_client_per_location", status)
		c.real.AddPacketFromClient(status, a, b)
	}
}
func (c *teeUDPConn) fromTarget(status string, a, b int64) {
	c.t.mu.Lock()
	defer c.t.mu.Unlock()
	if c.real != nil && c.t.log(fmt.Sprintf("MUPktT %d %s %s %s", c.id, cStr(status), cZ(a), cZ(b))) {
		c.t.expect(a, "data_bytes", "udp", "p<t", c.t.keys[c.id])
		c.t.expect(b, "data_bytes", "udp", "c<p", c.t.keys[c.id])
		c.real.AddPacketFromTarget(status, a, b)
	}
}
func (c *teeUDPConn) remove() {
	c.t.mu.Lock()
	defer c.t.mu.Unlock()
	if c.real != nil && c.t.log(fmt.Sprintf("MURemove %d", c.id)) {
		c.t.expect(1, "udp_nat_entries_removed")
		c.real.RemoveNatEntry()
	}
}

type teeTCPConn struct {
	t     *promTee
	id    int
	local string
	real  service.TCPConnMetrics
}

func (t *promTee) openTCP(conn net.Conn) *teeTCPConn {
	t.mu.Lock()
	defer t.mu.Unlock()
	id := t.next
	t.next++
	t.log(fmt.Sprintf("MTOpen %d", id))
	t.expect(1, "tcp_connections_opened")
	return &teeTCPConn{t, id, conn.LocalAddr().String(), t.sm.AddOpenTCPConnection(conn)}
}
func (c *teeTCPConn) auth(key string) {
	c.t.mu.Lock()
	defer c.t.mu.Unlock()
	c.t.log(fmt.Sprintf("MTAuth %d %s", c.id, cStr(key)))
	c.t.keys[c.id] = key
	c.real.AddAuthenticated(key)
}
func (c *teeTCPConn) closed(status string, d metrics.ProxyMetrics, dur time.Duration) {
	c.t.mu.Lock()
	defer c.t.mu.Unlock()
	c.t.log(fmt.Sprintf("MTClosed %d %s %s %s %s %s", c.id, cStr(status), cZ(d.ClientProxy), cZ(d.ProxyTarget), cZ(d.TargetProxy), cZ(d.ProxyClient)))
	k := c.t.keys[c.id]
	c.t.expect(d.ClientProxy, "data_bytes", "tcp", "c>p", k)
	c.t.expect(d.ProxyTarget, "data_bytes", "tcp", "p>t", k)
	c.t.expect(d.TargetProxy, "data_bytes", "tcp", "p<t", k)
	c.t.expect(d.ProxyClient, "data_bytes", "tcp", "c<p", k)
	c.t.expect(1, "tcp_connections_closed", status, k)
	c.real.AddClosed(status, d, dur)
}
func (c *teeTCPConn) probe(status, drain string, n int64) {
	c.t.mu.Lock()
	defer c.t.mu.Unlock()
	c.t.log(fmt.Sprintf("MTProbe %d %s %s %s %s", c.id, cStr(c.local), cStr(status), cStr(drain), cZ(n)))
	c.t.expect(1, "tcp_probes_count", c.local, status, drain)
	c.t.expect(n, "tcp_probes_sum", c.local, status, drain)
	c.real.AddProbe(status, drain, n)
}

// term gathers the registry and renders the Coq case: the call log and the gathered counters as
// (series, value), series = name :: the label values the model distinguishes (location labels are
// all empty without a database and are summed over).
func (t *promTee) term() (string, int, error) {
	mfs, err := t.reg.Gather()
	if err != nil {
		return "", 0, err
	}
	t.mu.Lock()
	defer t.mu.Unlock()
	sums := map[string]int64{}
	add := func(v float64, parts ...string) {
		sums[strings.Join(parts, "\x00")] += int64(v)
	}
	for _, mf := range mfs {
		name := mf.GetName()
		for _, m := range mf.GetMetric() {
			lab := map[string]string{}
			for _, lp := range m.GetLabel() {
				lab[lp.GetName()] = lp.GetValue()
			}
			switch name {
			case "data_bytes":
				add(m.GetCounter().GetValue(), name, lab["proto"], lab["dir"], lab["access_key"])
			case "data_bytes_per_location":
				add(m.GetCounter().GetValue(), name, lab["proto"], lab["dir"])
			case "udp_packets_from_client_per_location":
				add(m.GetCounter().GetValue(), name, lab["status"])
			case "udp_nat_entries_added", "udp_nat_entries_removed", "tcp_connections_opened":
				add(m.GetCounter().GetValue(), name)
			case "tcp_connections_closed":
				add(m.GetCounter().GetValue(), name, lab["status"], lab["access_key"])
			case "tcp_connection_duration_ms":
				add(float64(m.GetHistogram().GetSampleCount()), name+"_count", lab["status"])
			case "tcp_probes":
				add(float64(m.GetHistogram().GetSampleCount()), name+"_count", lab["port"], lab["status"], lab["error"])
				add(m.GetHistogram().GetSampleSum(), name+"_sum", lab["port"], lab["status"], lab["error"])
			}
		}
	}
	// the property's own oracle: gathered counters against the sums of the calls as made
	for k, w := range t.want {
		if sums[k] != w {
			t.diffs = append(t.diffs, fmt.Sprintf("%s: gathered %d, calls add up to %d", strings.ReplaceAll(k, "\x00", "|"), sums[k], w))
		}
	}
	for k, g := range sums {
		if _, ok := t.want[k]; !ok && g != 0 && !strings.HasPrefix(k, "data_bytes_per_location") && !strings.HasPrefix(k, "tcp_connection_duration_ms") {
			t.diffs = append(t.diffs, fmt.Sprintf("%s: gathered %d, no call accounts for it", strings.ReplaceAll(k, "\x00", "|"), g))
		}
	}
	sort.Strings(t.diffs)
	keys := make([]string, 0, len(sums))
	for k := range sums {
		keys = append(keys, k)
	}
	sort.Strings(keys)
	var gs []string
	for _, k := range keys {
		var ps []string
		for _, p := range strings.Split(k, "\x00") {
			ps = append(ps, cStr(p))
		}
		gs = append(gs, fmt.Sprintf("([%s], %s)", strings.Join(ps, "; "), cZ(sums[k])))
	}
	return fmt.Sprintf("{| c_calls := [%s]; c_gathered := [%s] |}", strings.Join(t.calls, ";\n "), strings.Join(gs, "; ")), len(t.calls), nil
}

func writeCollCases(ctx *Ctx, shard int, terms []string) {
	for len(terms) > 0 {
		n := 10
		if n > len(terms) {
			n = len(terms)
		}
		ctx.WriteCases(shard, "Corr.Coll", "case", terms[:n])
		ctx.Stats.Cases += n
		shard++
		terms = terms[n:]
	}
}
