package main

// C07 at process level: the replay history is shared by every listener and service of the
// process and survives configuration reloads. Real package main through the scenario driver.

import (
	"fmt"
	"os"
	"path/filepath"
	"time"
)

type c07Pres struct {
	Listener int    `json:"listener"` // index into the pool lkeys (tcp)
	ID       string `json:"id"`       // ID the serving service attributes
	Salt     uint32 `json:"salt_seed"`
	Gen      int    `json:"generation"`
	Served   bool   `json:"served"`
	Status   string `json:"status"`
}

func c07process(ctx *Ctx) {
	r := ctx.Rng.Fork()
	nHist := 3
	if ctx.Thorough() {
		nHist = 20
	}
	var terms []string
	for hi := 0; hi < nHist; hi++ {
		N := []int{2, 3, 5, 8, 5, 8, 9}[r.Intn(7)]
		k1 := cfgKeyC{ID: "k1", Cipher: 0, Secret: 1}
		k1b := cfgKeyC{ID: "k1", Cipher: 0, Secret: 1} // the same access key configured in another service
		kx := cfgKeyC{ID: "other-id", Cipher: 0, Secret: 1}
		k2 := cfgKeyC{ID: "k2", Cipher: 0, Secret: 2}
		fileA := cfgFile{Svcs: []cfgSvc{
			{Ls: []cfgListener{{Type: 0, Addr: 0}, {Type: 0, Addr: 1}}, Keys: []cfgKeyC{k1, k2}},
			{Ls: []cfgListener{{Type: 0, Addr: 2}}, Keys: []cfgKeyC{k1b}},
			{Ls: []cfgListener{{Type: 0, Addr: 3}}, Keys: []cfgKeyC{kx}}},
			Legacy: []cfgLegacy{{k1, 0}}}
		// after the reload the services are re-created (and the listeners partly moved)
		fileB := cfgFile{Svcs: []cfgSvc{
			{Ls: []cfgListener{{Type: 0, Addr: 2}, {Type: 0, Addr: 0}}, Keys: []cfgKeyC{k1, k2}},
			{Ls: []cfgListener{{Type: 0, Addr: 1}}, Keys: []cfgKeyC{k1b}},
			{Ls: []cfgListener{{Type: 0, Addr: 3}}, Keys: []cfgKeyC{kx}}},
			Legacy: []cfgLegacy{{k1, 0}}}
		files := []cfgFile{fileA, fileB, fileA}
		pool := allocPool(4, 1)
		tg, err := newCfgTargets()
		if err != nil {
			fmt.Fprintln(os.Stderr, "c07process:", err)
			os.Exit(3)
		}
		steps := []driverStep{{Op: "wait", Ms: 1}}
		for i := range files {
			op := "reload"
			if i == 0 {
				op = "start"
			}
			steps = append(steps, driverStep{Op: op, Config: pool.yaml(&files[i]), Replay: N})
		}
		steps = append(steps, driverStep{Op: "stop"})
		d, err := startDriver(filepath.Join(ctx.Out, fmt.Sprintf("c07p_%d", hi)), steps)
		if err != nil {
			fmt.Fprintln(os.Stderr, "c07process:", err)
			os.Exit(3)
		}
		d.readObs()
		var pres []c07Pres
		type seen struct{ at, listener, gen int }
		last := map[string]seen{} // id|salt -> index among authenticated presentations
		nextSalt := uint32(r.U64())
		var salts []uint32
		for gen := range files {
			d.goOn()
			ob, err := d.readObs()
			if err != nil || ob.Err != "" {
				fmt.Fprintln(os.Stderr, "c07process: step failed:", err, ob.Err)
				os.Exit(3)
			}
			table := pool.expectedTable(&files[gen])
			n := 6 + r.Intn(2*N+6)
			for j := 0; j < n; j++ {
				// pick a tcp listener and the probe key (cipher 0, secret 1) or k2
				li := []int{0, 1, 2, 3, 4}[r.Intn(5)] // pool lkeys 0..3 service addrs, 4 legacy tcp
				l := pool.lkeys[li]
				pk := probeKey{0, 1}
				if r.Chance(15) {
					pk = probeKey{0, 2}
				}
				id, ok := expectedID(table[l], pk)
				if !ok {
					continue
				}
				var ss uint32
				if len(salts) > 0 && r.Chance(55) {
					back := 1 + r.Intn(min(len(salts), N+3))
					if r.Chance(45) && len(salts) >= N { // at the far edge of the promised history
						back = N - r.Intn(2)
						if back < 1 {
							back = 1
						}
					}
					ss = salts[len(salts)-back]
				} else {
					nextSalt++
					ss = nextSalt
				}
				salt := genBytes(32, ss)
				payload := []byte(fmt.Sprintf("c07p-%d-%d", hi, len(pres)))
				res := probeTCP(pool.dialAddr(l), pk, tcpHandshake(pk, salt, tg.tcpAddr, payload), payload)
				p := c07Pres{Listener: li, ID: id, Salt: ss, Gen: gen}
				// the server's own record of THIS connection (it reports the close a little after
				// the socket closes: poll for it)
				tuple := res.Local + "|" + pool.dialAddr(l)
				conn := -1
				for try := 0; try < 400 && p.Status == ""; try++ {
					for _, e := range d.events() {
						if e.Kind == "tcpopen" && e.Client+"|"+e.Local == tuple {
							conn = e.Conn
						}
						if e.Kind == "tcpclosed" && e.Conn == conn && conn >= 0 {
							p.Status = e.Status
						}
					}
					if p.Status == "" {
						time.Sleep(5 * time.Millisecond)
					}
				}
				p.Served = p.Status == "OK"
				if p.Served != res.Echo {
					ctx.Count("process:echo-differs-from-status")
				}
				key := fmt.Sprintf("%s|%d", id, ss)
				at := len(pres)
				if s, was := last[key]; was && at-s.at <= N && p.Served {
					where := "same-listener"
					switch {
					case s.gen != gen:
						where = "after-reload"
					case s.listener != li && fmt.Sprint(table[pool.lkeys[s.listener]]) != fmt.Sprint(table[l]):
						where = "other-service"
					case s.listener != li:
						where = "other-listener"
					}
					ctx.Monitor("C07/replay-served:"+where, fmt.Sprintf("history size %d: handshake (key %s, salt #%d) first checked as presentation %d (listener %d, generation %d) was served again as presentation %d (listener %d, generation %d)", N, id, ss, s.at, s.listener, s.gen, at, li, gen), pres)
				}
				if !p.Served && p.Status != "ERR_REPLAY_CLIENT" {
					ctx.Monitor("C07/refused-not-as-replay", fmt.Sprintf("presentation %d not served with status %q", at, p.Status), pres)
				}
				last[key] = seen{at, li, gen}
				salts = append(salts, ss)
				pres = append(pres, p)
				ctx.Count("process:presentations")
				if !p.Served {
					ctx.Count("process:refused")
				}
				if gen > 0 {
					ctx.Count("process:after_reload")
				}
			}
		}
		d.goOn()
		d.readObs()
		d.kill()
		tg.close()
		os.RemoveAll(d.dir)
		var ops []string
		var obs []bool
		for _, p := range pres {
			ops = append(ops, fmt.Sprintf("(%d, %s, %d)", p.Listener+10*p.Gen, cBytes([]byte(p.ID)), p.Salt))
			obs = append(obs, p.Served)
		}
		terms = append(terms, fmt.Sprintf("(PC %d %s %s)", N, cList(ops), cBools(obs)))
		ctx.Stats.Cases++
	}
	ctx.WriteCases(1000, "Corr.C07P", "pcase", terms)
}
