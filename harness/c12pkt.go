package main

// C12, packet side: the same op vocabulary and the same LTS as the stream side (a datagram plays
// the role of a connection, ReadFrom of AcceptStream, the shared reader goroutine of the accept
// goroutine): observed traces on the real ListenerManager must be accepted by the LTS.

import (
	"errors"
	"fmt"
	"net"
	"runtime"
	"strconv"
	"sync"
	"time"

	"github.com/Jigsaw-Code/outline-ss-server/service"
)

type pendingRead struct {
	h    int
	done chan struct{}
	n    int
	buf  []byte
	err  error
}

func runC12PacketTrace(ops []c12Op) (trace []string, finalLost []int, findings []MonitorFinding) {
	mgr := service.NewListenerManager()
	addr := fmt.Sprintf("127.0.0.1:%d", freeLowPorts(1))
	g0 := runtime.NumGoroutine()
	var handles []net.PacketConn
	closedH := map[int]bool{}
	open := 0
	var pend []*pendingRead
	sent := []int{}
	delivered := map[int]int{}
	released := map[int]bool{} // undelivered when the last handle closed: dropped with the socket, legitimately
	client, err := net.Dial("udp", addr)
	if err != nil {
		return nil, nil, []MonitorFinding{{"C12/harness", err.Error(), ops}}
	}
	defer client.Close()
	next := 1
	rebind := func() {
		if l, err := net.ListenPacket("udp", addr); err != nil {
			findings = append(findings, MonitorFinding{"C12/packet-socket-not-released", "the address cannot be bound again after the last close: " + err.Error(), ops})
		} else {
			l.Close()
		}
	}
	record := func(p *pendingRead) {
		if p.err == nil {
			c, _ := strconv.Atoi(string(p.buf[:p.n]))
			trace = append(trace, fmt.Sprintf("ODeliver %d %d", p.h, c))
			delivered[c]++
		} else if errors.Is(p.err, net.ErrClosed) {
			trace = append(trace, fmt.Sprintf("ORetClosed %d", p.h))
		} else {
			findings = append(findings, MonitorFinding{"C12/packet-read-error", fmt.Sprint("ReadFrom returned ", p.err), ops})
		}
	}
	poll := func(wait time.Duration) {
		deadline := time.Now().Add(wait)
		for {
			progressed := false
			for i := 0; i < len(pend); i++ {
				p := pend[i]
				select {
				case <-p.done:
					record(p)
					pend = append(pend[:i], pend[i+1:]...)
					i--
					progressed = true
				default:
				}
			}
			if time.Now().After(deadline) {
				return
			}
			if !progressed {
				time.Sleep(4 * time.Millisecond)
			}
		}
	}
	hasPending := func(h int) bool {
		for _, p := range pend {
			if p.h == h {
				return true
			}
		}
		return false
	}
	for _, op := range ops {
		switch op.Kind {
		case "acquire":
			h, err := mgr.ListenPacket(addr)
			if err != nil {
				findings = append(findings, MonitorFinding{"C12/packet-acquire-failed", err.Error(), ops})
				continue
			}
			handles = append(handles, h)
			open++
			trace = append(trace, fmt.Sprintf("OAcquire %d", len(handles)-1))
		case "failacquire":
			if open != 0 {
				continue
			}
			own, err := net.ListenPacket("udp", addr)
			if err != nil {
				continue
			}
			if h, err := mgr.ListenPacket(addr); err == nil {
				h.Close()
				findings = append(findings, MonitorFinding{"C12/harness", "ListenPacket succeeded on an address held by another socket", ops})
			}
			own.Close()
			trace = append(trace, "OFailAcquire")
		case "dial":
			if open == 0 {
				continue // nobody holds the socket
			}
			client.Write([]byte(strconv.Itoa(next)))
			sent = append(sent, next)
			trace = append(trace, fmt.Sprintf("OArrive %d", next))
			next++
		case "accept":
			if op.H >= len(handles) || hasPending(op.H) {
				continue
			}
			p := &pendingRead{h: op.H, done: make(chan struct{}), buf: make([]byte, 64)}
			if closedH[op.H] {
				go func() { p.n, _, p.err = handles[op.H].ReadFrom(p.buf); close(p.done) }()
				select {
				case <-p.done:
					if errors.Is(p.err, net.ErrClosed) {
						trace = append(trace, fmt.Sprintf("OFailNow %d", op.H))
					} else if p.err == nil {
						c, _ := strconv.Atoi(string(p.buf[:p.n]))
						delivered[c]++
						trace = append(trace, fmt.Sprintf("OAcceptCall %d", op.H), fmt.Sprintf("ODeliver %d %d", op.H, c))
						findings = append(findings, MonitorFinding{"C12/packet-closed-handle-received", "ReadFrom on a closed handle returned a datagram", ops})
					}
				case <-time.After(200 * time.Millisecond):
					findings = append(findings, MonitorFinding{"C12/packet-closed-handle-blocks", "ReadFrom on a closed packet handle did not fail", ops})
				}
				continue
			}
			trace = append(trace, fmt.Sprintf("OAcceptCall %d", op.H))
			pend = append(pend, p)
			go func() { p.n, _, p.err = handles[p.h].ReadFrom(p.buf); close(p.done) }()
		case "close":
			if op.H >= len(handles) || closedH[op.H] {
				continue // virtualPacketConn.Close: at most once per handle (documented contract)
			}
			handles[op.H].Close()
			closedH[op.H] = true
			open--
			trace = append(trace, fmt.Sprintf("OClose %d", op.H))
			if open == 0 {
				rebind()
				poll(35 * time.Millisecond)
				for _, c := range sent {
					if delivered[c] == 0 {
						released[c] = true
					}
				}
			}
			// monitor: a pending read on the closed handle is unblocked with the closed-network error
			poll(35 * time.Millisecond)
			if hasPending(op.H) {
				poll(300 * time.Millisecond)
				if hasPending(op.H) {
					findings = append(findings, MonitorFinding{"C12/packet-close-does-not-unblock", fmt.Sprintf("ReadFrom pending on handle %d still blocked 300 ms after its Close", op.H), ops})
				}
			}
		}
		poll(35 * time.Millisecond)
		// monitor: never lost while some handle keeps reading: an open handle with a pending read and
		// an undelivered datagram cannot coexist once things have settled
		undeliv := 0
		for _, c := range sent {
			if delivered[c] == 0 && !released[c] {
				undeliv++
			}
		}
		openPending := false
		for _, p := range pend {
			if !closedH[p.h] {
				openPending = true
			}
		}
		if undeliv > 0 && openPending {
			poll(400 * time.Millisecond)
			undeliv = 0
			for _, c := range sent {
				if delivered[c] == 0 && !released[c] {
					undeliv++
				}
			}
			openPending = false
			for _, p := range pend {
				if !closedH[p.h] {
					openPending = true
				}
			}
			if undeliv > 0 && openPending {
				findings = append(findings, MonitorFinding{"C12/packet-lost-while-handle-reads", fmt.Sprintf("%d datagrams that reached the socket are undelivered although an open handle has a read pending", undeliv), map[string]interface{}{"ops": ops, "trace": trace}})
			}
		}
	}
	for h := range handles {
		if !closedH[h] {
			handles[h].Close()
			closedH[h] = true
			open--
			if open == 0 {
				rebind()
			}
			trace = append(trace, fmt.Sprintf("OClose %d", h))
			poll(10 * time.Millisecond)
		}
	}
	poll(250 * time.Millisecond)
	if len(pend) > 0 {
		findings = append(findings, MonitorFinding{"C12/packet-read-not-unblocked", fmt.Sprintf("%d ReadFrom calls still blocked after every handle was closed", len(pend)), ops})
	}
	for _, c := range sent {
		if delivered[c] == 0 {
			finalLost = append(finalLost, c)
		}
		if delivered[c] > 1 {
			findings = append(findings, MonitorFinding{"C12/packet-duplicated", fmt.Sprintf("datagram %d delivered %d times", c, delivered[c]), ops})
		}
	}
	time.Sleep(30 * time.Millisecond)
	if g1 := runtime.NumGoroutine(); c12Census && g1 > g0+2 {
		time.Sleep(200 * time.Millisecond)
		if g1 = runtime.NumGoroutine(); g1 > g0+2 {
			findings = append(findings, MonitorFinding{"C12/packet-goroutine-leak", fmt.Sprintf("%d goroutines before, %d after everything was closed", g0, g1), ops})
		}
	}
	return
}

// c12PacketConcurrentReads: several goroutines read from ONE handle of a shared packet listener at
// the same time while datagrams arrive back to back. Every ReadFrom result must be one datagram as
// it was sent — length, source address and content belong together — and no datagram is returned
// twice (datagrams may be lost under load: that is UDP).
func c12PacketConcurrentReads(ctx *Ctx) {
	mgr := service.NewListenerManager()
	addr := fmt.Sprintf("127.0.0.1:%d", freeLowPorts(1))
	h, err := mgr.ListenPacket(addr)
	if err != nil {
		ctx.Monitor("C12/harness", "ListenPacket: "+err.Error(), nil)
		return
	}
	perSender := 3000
	if ctx.Thorough() {
		perSender = 30000
	}
	const senders, readers = 2, 8
	size := func(s, q int) int { return 12 + (q*37+s*11)%900 }
	fill := func(s, q, i int) byte { return byte(q*7 + s*3 + i) }
	var conns []*net.UDPConn
	ports := map[int]int{}
	for s := 0; s < senders; s++ {
		c, err := net.Dial("udp", addr)
		if err != nil {
			h.Close()
			return
		}
		conns = append(conns, c.(*net.UDPConn))
		ports[c.LocalAddr().(*net.UDPAddr).Port] = s
	}
	var mu sync.Mutex
	seen := map[[2]int]int{}
	var bad []string
	var rwg sync.WaitGroup
	for r := 0; r < readers; r++ {
		rwg.Add(1)
		go func() {
			defer rwg.Done()
			buf := make([]byte, 2048)
			for {
				n, from, err := h.ReadFrom(buf)
				if err != nil {
					return
				}
				var s, q int
				msg := ""
				if k, _ := fmt.Sscanf(string(buf[:min(n, 24)]), "S%d#%d|", &s, &q); k != 2 || s < 0 || s >= senders || q < 0 || q >= perSender {
					msg = fmt.Sprintf("ReadFrom returned %d bytes that are no datagram of this scenario (start %q)", n, string(buf[:min(n, 12)]))
				} else if n != size(s, q) {
					msg = fmt.Sprintf("ReadFrom returned n=%d for datagram %d of sender %d, which has %d bytes", n, q, s, size(s, q))
				} else if ua, ok := from.(*net.UDPAddr); !ok || ports[ua.Port] != s || ua.Port != conns[s].LocalAddr().(*net.UDPAddr).Port {
					msg = fmt.Sprintf("datagram %d of sender %d was returned with the source address %v", q, s, from)
				} else {
					hdr := len(fmt.Sprintf("S%d#%d|", s, q))
					for i := hdr; i < n; i++ {
						if buf[i] != fill(s, q, i) {
							msg = fmt.Sprintf("datagram %d of sender %d: byte %d of %d differs from what was sent", q, s, i, n)
							break
						}
					}
				}
				mu.Lock()
				if msg != "" {
					if len(bad) < 5 {
						bad = append(bad, msg)
					}
				} else {
					seen[[2]int{s, q}]++
				}
				mu.Unlock()
			}
		}()
	}
	var swg sync.WaitGroup
	for s := 0; s < senders; s++ {
		swg.Add(1)
		go func(s int) {
			defer swg.Done()
			for q := 0; q < perSender; q++ {
				n := size(s, q)
				p := make([]byte, n)
				hdr := fmt.Sprintf("S%d#%d|", s, q)
				copy(p, hdr)
				for i := len(hdr); i < n; i++ {
					p[i] = fill(s, q, i)
				}
				conns[s].Write(p)
				if q%64 == 63 {
					time.Sleep(time.Millisecond) // keep the loss moderate
				}
			}
		}(s)
	}
	swg.Wait()
	time.Sleep(150 * time.Millisecond)
	h.Close()
	done := make(chan struct{})
	go func() { rwg.Wait(); close(done) }()
	select {
	case <-done:
	case <-time.After(3 * time.Second):
		ctx.Monitor("C12/call-never-returned:ReadFrom", "concurrent ReadFrom calls on a handle were still blocked 3 s after its Close", nil)
	}
	for _, c := range conns {
		c.Close()
	}
	mu.Lock()
	defer mu.Unlock()
	dups := 0
	for _, k := range seen {
		if k > 1 {
			dups++
		}
	}
	ctx.CountN("packet-concurrent-reads:delivered", len(seen))
	ctx.CountN("packet-concurrent-reads:sent", senders*perSender)
	spec := map[string]interface{}{"readers_on_one_handle": readers, "senders": senders, "datagrams_each": perSender}
	if len(bad) > 0 {
		ctx.Monitor("C12/packet-concurrent-read-inconsistent", "with several ReadFrom calls outstanding on one handle: "+bad[0], map[string]interface{}{"spec": spec, "more": bad})
	}
	if dups > 0 {
		ctx.Monitor("C12/packet-delivered-twice", fmt.Sprintf("%d datagrams were returned by two ReadFrom calls", dups), spec)
	}
}
