package main

// C12, packet side: the same op vocabulary and the same LTS as the stream side (a datagram plays
// the role of a connection, ReadFrom of AcceptStream, the shared reader goroutine of the accept
// goroutine): observed traces on the real ListenerManager must be accepted by the LTS.

import (
	"errors"
	"fmt"
	"net"
	"runtime"
	"strconv"
	"time"

	"github.com/Jigsaw-Code/outline-ss-server/service"
)

type pendingRead struct {
	h    int
	done chan struct{}
	n    int
	buf  []byte
	err  error
}

func runC12PacketTrace(ops []c12Op) (trace []string, finalLost []int, findings []MonitorFinding) {
	mgr := service.NewListenerManager()
	addr := fmt.Sprintf("127.0.0.1:%d", freeLowPorts(1))
	g0 := runtime.NumGoroutine()
	var handles []net.PacketConn
	closedH := map[int]bool{}
	open := 0
	var pend []*pendingRead
	sent := []int{}
	delivered := map[int]int{}
	released := map[int]bool{} // undelivered when the last handle closed: dropped with the socket, legitimately
	client, err := net.Dial("udp", addr)
	if err != nil {
		return nil, nil, []MonitorFinding{{"C12/harness", err.Error(), ops}}
	}
	defer client.Close()
	next := 1
	rebind := func() {
		if l, err := net.ListenPacket("udp", addr); err != nil {
			findings = append(findings, MonitorFinding{"C12/packet-socket-not-released", "the address cannot be bound again after the last close: " + err.Error(), ops})
		} else {
			l.Close()
		}
	}
	record := func(p *pendingRead) {
		if p.err == nil {
			c, _ := strconv.Atoi(string(p.buf[:p.n]))
			trace = append(trace, fmt.Sprintf("ODeliver %d %d", p.h, c))
			delivered[c]++
		} else if errors.Is(p.err, net.ErrClosed) {
			trace = append(trace, fmt.Sprintf("ORetClosed %d", p.h))
		} else {
			findings = append(findings, MonitorFinding{"C12/packet-read-error", fmt.Sprint("ReadFrom returned ", p.err), ops})
		}
	}
	poll := func(wait time.Duration) {
		deadline := time.Now().Add(wait)
		for {
			progressed := false
			for i := 0; i < len(pend); i++ {
				p := pend[i]
				select {
				case <-p.done:
					record(p)
					pend = append(pend[:i], pend[i+1:]...)
					i--
					progressed = true
				default:
				}
			}
			if time.Now().After(deadline) {
				return
			}
			if !progressed {
				time.Sleep(4 * time.Millisecond)
			}
		}
	}
	hasPending := func(h int) bool {
		for _, p := range pend {
			if p.h == h {
				return true
			}
		}
		return false
	}
	for _, op := range ops {
		switch op.Kind {
		case "acquire":
			h, err := mgr.ListenPacket(addr)
			if err != nil {
				findings = append(findings, MonitorFinding{"C12/packet-acquire-failed", err.Error(), ops})
				continue
			}
			handles = append(handles, h)
			open++
			trace = append(trace, fmt.Sprintf("OAcquire %d", len(handles)-1))
		case "failacquire":
			if open != 0 {
				continue
			}
			own, err := net.ListenPacket("udp", addr)
			if err != nil {
				continue
			}
			if h, err := mgr.ListenPacket(addr); err == nil {
				h.Close()
				findings = append(findings, MonitorFinding{"C12/harness", "ListenPacket succeeded on an address held by another socket", ops})
			}
			own.Close()
			trace = append(trace, "OFailAcquire")
		case "dial":
			if open == 0 {
				continue // nobody holds the socket
			}
			client.Write([]byte(strconv.Itoa(next)))
			sent = append(sent, next)
			trace = append(trace, fmt.Sprintf("OArrive %d", next))
			next++
		case "accept":
			if op.H >= len(handles) || hasPending(op.H) {
				continue
			}
			p := &pendingRead{h: op.H, done: make(chan struct{}), buf: make([]byte, 64)}
			if closedH[op.H] {
				go func() { p.n, _, p.err = handles[op.H].ReadFrom(p.buf); close(p.done) }()
				select {
				case <-p.done:
					if errors.Is(p.err, net.ErrClosed) {
						trace = append(trace, fmt.Sprintf("OFailNow %d", op.H))
					} else if p.err == nil {
						c, _ := strconv.Atoi(string(p.buf[:p.n]))
						delivered[c]++
						trace = append(trace, fmt.Sprintf("OAcceptCall %d", op.H), fmt.Sprintf("ODeliver %d %d", op.H, c))
						findings = append(findings, MonitorFinding{"C12/packet-closed-handle-received", "ReadFrom on a closed handle returned a datagram", ops})
					}
				case <-time.After(200 * time.Millisecond):
					findings = append(findings, MonitorFinding{"C12/packet-closed-handle-blocks", "ReadFrom on a closed packet handle did not fail", ops})
				}
				continue
			}
			trace = append(trace, fmt.Sprintf("OAcceptCall %d", op.H))
			pend = append(pend, p)
			go func() { p.n, _, p.err = handles[p.h].ReadFrom(p.buf); close(p.done) }()
		case "close":
			if op.H >= len(handles) || closedH[op.H] {
				continue // virtualPacketConn.Close: at most once per handle (documented contract)
			}
			handles[op.H].Close()
			closedH[op.H] = true
			open--
			trace = append(trace, fmt.Sprintf("OClose %d", op.H))
			if open == 0 {
				rebind()
				poll(35 * time.Millisecond)
				for _, c := range sent {
					if delivered[c] == 0 {
						released[c] = true
					}
				}
			}
			// monitor: a pending read on the closed handle is unblocked with the closed-network error
			poll(35 * time.Millisecond)
			if hasPending(op.H) {
				poll(300 * time.Millisecond)
				if hasPending(op.H) {
					findings = append(findings, MonitorFinding{"C12/packet-close-does-not-unblock", fmt.Sprintf("ReadFrom pending on handle %d still blocked 300 ms after its Close", op.H), ops})
				}
			}
		}
		poll(35 * time.Millisecond)
		// monitor: never lost while some handle keeps reading: an open handle with a pending read and
		// an undelivered datagram cannot coexist once things have settled
		undeliv := 0
		for _, c := range sent {
			if delivered[c] == 0 && !released[c] {
				undeliv++
			}
		}
		openPending := false
		for _, p := range pend {
			if !closedH[p.h] {
				openPending = true
			}
		}
		if undeliv > 0 && openPending {
			poll(400 * time.Millisecond)
			undeliv = 0
			for _, c := range sent {
				if delivered[c] == 0 && !released[c] {
					undeliv++
				}
			}
			openPending = false
			for _, p := range pend {
				if !closedH[p.h] {
					openPending = true
				}
			}
			if undeliv > 0 && openPending {
				findings = append(findings, MonitorFinding{"C12/packet-lost-while-handle-reads", fmt.Sprintf("%d datagrams that reached the socket are undelivered although an open handle has a read pending", undeliv), map[string]interface{}{"ops": ops, "trace": trace}})
			}
		}
	}
	for h := range handles {
		if !closedH[h] {
			handles[h].Close()
			closedH[h] = true
			open--
			if open == 0 {
				rebind()
			}
			trace = append(trace, fmt.Sprintf("OClose %d", h))
			poll(10 * time.Millisecond)
		}
	}
	poll(250 * time.Millisecond)
	if len(pend) > 0 {
		findings = append(findings, MonitorFinding{"C12/packet-read-not-unblocked", fmt.Sprintf("%d ReadFrom calls still blocked after every handle was closed", len(pend)), ops})
	}
	for _, c := range sent {
		if delivered[c] == 0 {
			finalLost = append(finalLost, c)
		}
		if delivered[c] > 1 {
			findings = append(findings, MonitorFinding{"C12/packet-duplicated", fmt.Sprintf("datagram %d delivered %d times", c, delivered[c]), ops})
		}
	}
	time.Sleep(30 * time.Millisecond)
	if g1 := runtime.NumGoroutine(); c12Census && g1 > g0+2 {
		time.Sleep(200 * time.Millisecond)
		if g1 = runtime.NumGoroutine(); g1 > g0+2 {
			findings = append(findings, MonitorFinding{"C12/packet-goroutine-leak", fmt.Sprintf("%d goroutines before, %d after everything was closed", g0, g1), ops})
		}
	}
	return
}
