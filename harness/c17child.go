package main

import (
	"fmt"
	"net"
	"sync"
	"time"

	oprom "github.com/Jigsaw-Code/outline-ss-server/prometheus"
	"github.com/prometheus/client_golang/prometheus"
)

func init() { children["c17scrape"] = c17scrapeChild }

// c17scrapeChild: deterministic witness of "scrape racing with a tunnel start": the stubbed
// clock, when first read by the scrape, lets another goroutine register a tunnel at a later
// time before returning. With the clock read outside the collector's lock (defect fixed by
// 7d078a0) the scrape computes a negative tunnel time and the process panics.
func c17scrapeChild(args []string) {
	var mu sync.Mutex
	clock := time.Unix(1_700_000_000, 0)
	var sm interface {
		prometheus.Collector
		AddUDPNatEntry(net.Addr, string) interface{ RemoveNatEntry() }
	}
	_ = sm
	inScrape := false
	fired := false
	smReal, err := oprom.NewServiceMetrics(nil)
	if err != nil {
		panic(err)
	}
	oprom.VerifSetNow(func() time.Time {
		mu.Lock()
		doFire := inScrape && !fired
		if doFire {
			fired = true
		}
		t := clock
		mu.Unlock()
		if doFire {
			done := make(chan struct{})
			go func() {
				mu.Lock()
				clock = clock.Add(time.Second)
				mu.Unlock()
				smReal.AddUDPNatEntry(&net.UDPAddr{IP: net.IPv4(203, 0, 113, 9), Port: 4000}, "key-late")
				close(done)
			}()
			select {
			case <-done:
			case <-time.After(100 * time.Millisecond):
			}
		}
		return t
	})
	reg := prometheus.NewRegistry()
	reg.MustRegister(smReal)
	smReal.AddUDPNatEntry(&net.UDPAddr{IP: net.IPv4(203, 0, 113, 8), Port: 4001}, "key-early")
	mu.Lock()
	clock = clock.Add(5 * time.Second)
	inScrape = true
	mu.Unlock()
	if _, err := reg.Gather(); err != nil {
		fmt.Println("gather error:", err)
	}
	time.Sleep(150 * time.Millisecond)
	fmt.Println("scrape survived")
}

func init() { children["c17close"] = c17closeChild }

// c17closeChild: deterministic witness of "scrape racing with the close of the last tunnel of a
// client": the stubbed clock, when read by the close, gives a scrape the chance to run (and, if the
// collector's lock is not held, to complete and restart the client's period at a later time) before
// it returns the time it was asked at. Whatever the order, the outcome must be one that some
// sequential order of close and scrape gives: no panic, between 10 and 20 s reported in all, and
// nothing more at later scrapes.
func c17closeChild(args []string) {
	var mu sync.Mutex
	clock := time.Unix(1_700_000_000, 0)
	armed, fired := false, false
	smReal, err := oprom.NewServiceMetrics(nil)
	if err != nil {
		panic(err)
	}
	reg := prometheus.NewRegistry()
	reg.MustRegister(smReal)
	total := func() float64 {
		mfs, err := reg.Gather()
		if err != nil {
			fmt.Println("gather error:", err)
			return -1
		}
		s := 0.0
		for _, mf := range mfs {
			if mf.GetName() == "tunnel_time_seconds" {
				for _, m := range mf.GetMetric() {
					s += m.GetCounter().GetValue()
				}
			}
		}
		return s
	}
	oprom.VerifSetNow(func() time.Time {
		mu.Lock()
		doFire := armed && !fired
		if doFire {
			fired = true
		}
		t := clock
		mu.Unlock()
		if doFire {
			done := make(chan struct{})
			go func() {
				mu.Lock()
				clock = clock.Add(10 * time.Second)
				mu.Unlock()
				total() // a scrape, 10 s later
				close(done)
			}()
			select {
			case <-done:
			case <-time.After(150 * time.Millisecond): // the close holds the collector's lock: the scrape waits
			}
		}
		return t
	})
	c := smReal.AddUDPNatEntry(&net.UDPAddr{IP: net.IPv4(203, 0, 113, 8), Port: 4001}, "key-close")
	mu.Lock()
	clock = clock.Add(10 * time.Second)
	armed = true
	mu.Unlock()
	func() {
		defer func() {
			if r := recover(); r != nil {
				fmt.Println("close panicked:", r)
			}
		}()
		c.RemoveNatEntry()
	}()
	time.Sleep(250 * time.Millisecond)
	t1 := total()
	mu.Lock()
	clock = clock.Add(10 * time.Second)
	mu.Unlock()
	t2 := total()
	mu.Lock()
	clock = clock.Add(10 * time.Second)
	mu.Unlock()
	t3 := total()
	fmt.Printf("totals %.0f %.0f %.0f\n", t1, t2, t3)
	if t1 >= 10 && t1 <= 20 && t2 == t1 && t3 == t1 {
		fmt.Println("close survived")
	}
}
