package main

import (
	"fmt"
	"net"
	"sync"
	"time"

	oprom "github.com/Jigsaw-Code/outline-ss-server/prometheus"
	"github.com/prometheus/client_golang/prometheus"
)

func init() { children["c17scrape"] = c17scrapeChild }

// c17scrapeChild: deterministic witness of "scrape racing with a tunnel start": the stubbed
// clock, when first read by the scrape, lets another goroutine register a tunnel at a later
// time before returning. With the clock read outside the collector's lock (defect fixed by
// 7d078a0) the scrape computes a negative tunnel time and the process panics.
func c17scrapeChild(args []string) {
	var mu sync.Mutex
	clock := time.Unix(1_700_000_000, 0)
	var sm interface {
		prometheus.Collector
		AddUDPNatEntry(net.Addr, string) interface{ RemoveNatEntry() }
	}
	_ = sm
	inScrape := false
	fired := false
	smReal, err := oprom.NewServiceMetrics(nil)
	if err != nil {
		panic(err)
	}
	oprom.VerifSetNow(func() time.Time {
		mu.Lock()
		doFire := inScrape && !fired
		if doFire {
			fired = true
		}
		t := clock
		mu.Unlock()
		if doFire {
			done := make(chan struct{})
			go func() {
				mu.Lock()
				clock = clock.Add(time.Second)
				mu.Unlock()
				smReal.AddUDPNatEntry(&net.UDPAddr{IP: net.IPv4(203, 0, 113, 9), Port: 4000}, "key-late")
				close(done)
			}()
			select {
			case <-done:
			case <-time.After(100 * time.Millisecond):
			}
		}
		return t
	})
	reg := prometheus.NewRegistry()
	reg.MustRegister(smReal)
	smReal.AddUDPNatEntry(&net.UDPAddr{IP: net.IPv4(203, 0, 113, 8), Port: 4001}, "key-early")
	mu.Lock()
	clock = clock.Add(5 * time.Second)
	inScrape = true
	mu.Unlock()
	if _, err := reg.Gather(); err != nil {
		fmt.Println("gather error:", err)
	}
	time.Sleep(150 * time.Millisecond)
	fmt.Println("scrape survived")
}
