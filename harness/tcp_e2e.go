package main

import (
	"bytes"
	"context"
	"errors"
	"fmt"
	"io"
	"net"
	"strings"
	"sync"
	"sync/atomic"
	"syscall"
	"time"

	"github.com/Jigsaw-Code/outline-sdk/transport"
	"github.com/Jigsaw-Code/outline-sdk/transport/shadowsocks"
	"github.com/Jigsaw-Code/outline-ss-server/service"
	"github.com/Jigsaw-Code/outline-ss-server/service/metrics"
)

func init() {
	scenarios["C02"] = func(ctx *Ctx) { cTCP(ctx, "C02") }
	scenarios["C06"] = func(ctx *Ctx) { cTCP(ctx, "C06") }
	scenarios["C15"] = func(ctx *Ctx) { cTCP(ctx, "C15") }
}

const tcpT = 600 * time.Millisecond // handshake timeout used by the harness

func cksum(bs []byte) uint32 {
	a := uint32(7)
	for _, b := range bs {
		a = a*31 + uint32(b) + 1
	}
	return a
}

type tcpConnSpec struct {
	Kind        string   `json:"kind"` // honest garbage trunc
	C, S        int      `json:"-"`
	Key         string   `json:"key,omitempty"`
	Seed        uint32   `json:"seed"`
	AKind       int      `json:"akind"`
	Chunks      [][2]int `json:"chunks,omitempty"`
	Coalesce    bool     `json:"coalesce,omitempty"`
	Corrupt     int      `json:"corrupt,omitempty"`     // wire chunk (1-based) whose ciphertext is corrupted
	CorruptLen  bool     `json:"corrupt_len,omitempty"` // ... in its sealed length block instead of its payload
	N           int      `json:"n,omitempty"`
	Fin         bool     `json:"fin"`
	Validate    bool     `json:"validate,omitempty"`
	LateByte    bool     `json:"last_byte_sent_just_before_the_deadline,omitempty"` // a prober that sends its last byte shortly before the handshake deadline: the deadline does not move
	CReset      bool     `json:"client_resets_at_the_end,omitempty"`                // once its upload has reached the target and it has the target's output, the client aborts the connection (RST)
	TReset      bool     `json:"target_resets_after_reply,omitempty"`               // the target reads the whole upload, replies, then resets the connection (monitor-only cases)
	TFailAfter  int      `json:"target_write_fails_after,omitempty"`                // the connection to the target accepts this many bytes, then every write fails (monitor-only cases)
	ConnectOK   bool     `json:"connect_ok"`
	TOut        [2]int   `json:"tout"`
	TLate       [2]int   `json:"tlate,omitempty"` // a second block the target sends only after the handshake timeout has long passed (the client is silent and keeps the connection open)
	TFirst      bool     `json:"target_first,omitempty"`
	TFinFirst   bool     `json:"target_fin_first,omitempty"`      // the target sends, half-closes at once; only then the client uploads
	Seg         int      `json:"seg"`                             // 0 one write, 1 bytewise head, 2 random pieces
	SlowStartMs int      `json:"client_reads_after_ms,omitempty"` // the client starts reading only then (a large download sits in the kernel buffers when the server closes)
}
type tcpCaseSpec struct {
	Job       int           `json:"job"` // number of the case in its run
	Cfg       []cfgKey      `json:"cfg"`
	Cap       int           `json:"cap"`
	Conns     []tcpConnSpec `json:"conns"`
	coll      string        // Corr.Coll case term of the run
	collN     int
	collDiffs []string
}

type recEvent struct {
	Kind   string
	Status string
	ID     string
	Drain  string
	N      int64
	Data   metrics.ProxyMetrics
}
type recTCPMetrics struct {
	mu  sync.Mutex
	evs []recEvent
	tee *teeTCPConn
}

func (m *recTCPMetrics) AddAuthenticated(accessKey string) {
	m.mu.Lock()
	defer m.mu.Unlock()
	m.evs = append(m.evs, recEvent{Kind: "auth", ID: accessKey})
	if m.tee != nil {
		m.tee.auth(accessKey)
	}
}
func (m *recTCPMetrics) AddClosed(status string, data metrics.ProxyMetrics, duration time.Duration) {
	m.mu.Lock()
	defer m.mu.Unlock()
	m.evs = append(m.evs, recEvent{Kind: "closed", Status: status, Data: data})
	if m.tee != nil {
		m.tee.closed(status, data, duration)
	}
}
func (m *recTCPMetrics) AddProbe(status, drainResult string, clientProxyBytes int64) {
	m.mu.Lock()
	defer m.mu.Unlock()
	m.evs = append(m.evs, recEvent{Kind: "probe", Status: status, Drain: drainResult, N: clientProxyBytes})
	if m.tee != nil {
		m.tee.probe(status, drainResult, clientProxyBytes)
	}
}

type tcpObs struct {
	Status         string               `json:"status"`
	Events         []recEvent           `json:"-"`
	Auth           []string             `json:"auth"`
	Probe          *recEvent            `json:"probe,omitempty"`
	Counters       metrics.ProxyMetrics `json:"counters"`
	TargetHit      bool                 `json:"target_hit"`
	TargetGot      []byte               `json:"-"`
	TargetLen      int                  `json:"target_len"`
	ClientPlain    []byte               `json:"-"`
	ClientLen      int                  `json:"client_len"`
	RawSent        int                  `json:"raw_sent"`
	RawRecv        int                  `json:"raw_recv"`
	Close          int                  `json:"close"`
	CloseMs        int64                `json:"close_ms"`
	FirstDownMs    int64                `json:"first_downstream_byte_ms"`
	TargetAccepted int64                `json:"target_accepted,omitempty"` // TFailAfter cases: bytes the target connection accepted before failing
	SinkHit        string               `json:"sink_hit,omitempty"`        // a non-public address the name resolves to received a connection
	Reset          bool                 `json:"reset"`
	EOFHeld        bool                 `json:"target_eof_not_seen_before_upload,omitempty"`
	Panic          string               `json:"panic,omitempty"`
	HandlerDone    bool                 `json:"handler_done"`
	Port           int                  `json:"port"`
}

// DNS kinds (fake resolver, fakedns.go): 30 a name with a public A and the loopback AAAA,
// 31 a name with a private and a public A, 32 a name that is public on the first look-up and
// loopback afterwards. The name carries the connection's seed so that counters are per connection.
var dnsKindBase = map[int]string{30: "mixed", 31: "two", 32: "flip"}

var dnsNameNonce uint32

// dnsName: the 7 letters are unique per call (a connection re-using an earlier seed must still get
// a name of its own: the "flip" answers are counted per name); the model only needs the length.
func dnsName(akind int, seed uint32) string {
	s := dnsKindBase[akind] + "-"
	x := atomic.AddUint32(&dnsNameNonce, 1)*7919 + seed%7919
	for i := 0; i < 7; i++ {
		s += string(rune('a' + x%26))
		x /= 26
	}
	return s + ".verif.test"
}

// tcpTargetIP: where the scripted target of this kind listens
func tcpTargetIP(akind int) string {
	switch {
	case akind == 1 || akind == 33:
		return "::1"
	case akind >= 4 && akind <= 15:
		return targetKinds[akind].ip
	case akind >= 30 && akind <= 32:
		return "203.0.113.77"
	}
	return "127.0.0.1"
}

// tcpKindPublic: the default policy allows the destination (for DNS kinds: one of the answers is allowed)
func tcpKindPublic(akind int) bool {
	if akind >= 4 && akind <= 15 {
		return targetKinds[akind].public
	}
	return akind >= 30 && akind <= 32
}

func addrBytesSeed(akind, port int, seed uint32) []byte {
	if akind >= 30 && akind <= 32 {
		n := dnsName(akind, seed)
		return append(append([]byte{3, byte(len(n))}, []byte(n)...), byte(port>>8), byte(port))
	}
	return addrBytes(akind, port)
}

func addrBytes(akind, port int) []byte {
	p := []byte{byte(port >> 8), byte(port)}
	if akind >= 4 && akind <= 15 {
		return socksAddrBytes(akind, port)
	}
	switch akind {
	case 0:
		return append([]byte{1, 127, 0, 0, 1}, p...)
	case 1:
		b := append([]byte{4}, make([]byte, 15)...)
		b = append(b, 1)
		return append(b, p...)
	case 2:
		return append(append([]byte{3, 9}, []byte("127.0.0.1")...), p...)
	case 3:
		return append(append([]byte{3, 9}, []byte("localhost")...), p...)
	case 33: // an IPv6 literal with a zone, written as a domain name: net.ParseIP does not accept it
		return append(append([]byte{3, 6}, []byte("::1%lo")...), p...)
	}
	// malformed and boundary forms (C18), mirrored in Corr/TCP.v addr_bytes
	switch akind {
	case 20:
		return []byte{0, 1, 2, 3, 4, 5, 6}
	case 21: // zero-length domain
		return append([]byte{3, 0}, p...)
	case 22: // 255-byte domain (no such host)
		b := []byte{3, 255}
		for i := 0; i < 255; i++ {
			b = append(b, 'a'+byte(i%26))
		}
		return append(b, p...)
	case 23:
		return []byte{1, 127, 0}
	case 24:
		return []byte{3, 200, 97, 98}
	case 25:
		return []byte{4, 0, 1}
	}
	return []byte{9, 1, 2, 3, 4, 5, 6}
}

// clientWire builds what the client sends and the payload the target must receive.
func clientWire(sp *tcpConnSpec, port int) (wire []byte, payload []byte, key *shadowsocks.EncryptionKey) {
	switch sp.Kind {
	case "garbage":
		return genBytes(sp.N, sp.Seed), nil, nil
	case "trunc":
		key = mkKey(sp.C, sp.S)
		return ssStream(key, genBytes(saltSizes[sp.C], sp.Seed), genBytes(20, 3))[:sp.N], nil, key
	}
	key = mkKey(sp.C, sp.S)
	ab := addrBytesSeed(sp.AKind, port, sp.Seed)
	var ps [][]byte
	for _, c := range sp.Chunks {
		p := genBytes(c[0], uint32(c[1]))
		ps = append(ps, p)
		payload = append(payload, p...)
	}
	var writes [][]byte
	if len(ps) > 0 {
		if sp.Coalesce {
			writes = append(writes, append(append([]byte{}, ab...), ps[0]...))
			writes = append(writes, ps[1:]...)
		} else {
			writes = append(append(writes, ab), ps...)
		}
	} else {
		writes = [][]byte{ab}
	}
	salt := genBytes(saltSizes[sp.C], sp.Seed)
	wire = ssStream(key, salt, writes...)
	if sp.Corrupt > 0 {
		var wc [][]byte // wire chunks: the Writer splits writes at 16383 bytes
		for _, w := range writes {
			for len(w) > 16383 {
				wc = append(wc, w[:16383])
				w = w[16383:]
			}
			wc = append(wc, w)
		}
		off := saltSizes[sp.C]
		for j := 1; j < sp.Corrupt && j <= len(wc); j++ {
			off += 2 + 16 + len(wc[j-1]) + 16
		}
		if !sp.CorruptLen {
			off += 2 + 16
		}
		wire[off] ^= 0xff
	}
	return wire, payload, key
}

func runTCPCase(cs *tcpCaseSpec) []tcpObs {
	cl := service.NewCipherList()
	cl.Update(makeList(cs.Cfg))
	cache := service.NewReplayCache(cs.Cap)
	auth := service.NewShadowsocksStreamAuthenticator(cl, &cache, nil, nil)
	var out []tcpObs
	tee := newPromTee()
	for i := range cs.Conns {
		out = append(out, runTCPConn(auth, &cs.Conns[i], tee))
	}
	if tee != nil {
		if term, n, err := tee.term(); err == nil {
			cs.coll, cs.collN = term, n
			cs.collDiffs = tee.diffs
		}
	}
	return out
}

var tmuSink sync.Mutex

func runTCPConn(auth service.StreamAuthenticateFunc, sp *tcpConnSpec, tee *promTee) (ob tcpObs) {
	// scripted target
	ensureFakeDNS()
	taddr := net.JoinHostPort(tcpTargetIP(sp.AKind), "0")
	tl, err := net.Listen("tcp", taddr)
	if err != nil {
		ob.Panic = "harness: target listen: " + err.Error()
		return
	}
	port := tl.Addr().(*net.TCPAddr).Port
	if sp.AKind >= 30 && sp.AKind <= 32 {
		// sinks on the non-public addresses the name also resolves to, on the same port: whatever
		// reaches them is a violation
		sinkIPs := map[int][]string{30: {"::1"}, 31: {"10.99.0.1"}, 32: {"127.0.0.1"}}[sp.AKind]
		for try := 0; ; try++ {
			ok := true
			var sinks []net.Listener
			for _, ip := range sinkIPs {
				s, err := net.Listen("tcp", net.JoinHostPort(ip, fmt.Sprint(port)))
				if err != nil {
					ok = false
					break
				}
				sinks = append(sinks, s)
			}
			if ok {
				for i, s := range sinks {
					defer s.Close()
					go func(s net.Listener, ip string) {
						c, err := s.Accept()
						if err == nil {
							tmuSink.Lock()
							ob.SinkHit = ip
							tmuSink.Unlock()
							c.Close()
						}
					}(s, sinkIPs[i])
				}
				break
			}
			for _, s := range sinks {
				s.Close()
			}
			tl.Close()
			if try > 20 {
				ob.Panic = "harness: no common free port for target and sinks"
				return
			}
			if tl, err = net.Listen("tcp", taddr); err != nil {
				ob.Panic = "harness: target listen: " + err.Error()
				return
			}
			port = tl.Addr().(*net.TCPAddr).Port
		}
	}
	ob.Port = port
	tout := genBytes(sp.TOut[0], uint32(sp.TOut[1]))
	var clientRaw int64  // bytes the client has received so far
	var targetRead int64 // bytes the target has read so far
	tStart := time.Now()
	var tmu sync.Mutex
	targetDone := make(chan struct{})
	if !sp.ConnectOK {
		// a port that refuses connections and cannot be taken by a parallel case: bound, never listening
		tl.Close()
		fd, p, err := boundNotListening(sp.AKind == 1)
		if err != nil {
			ob.Panic = "harness: reserve port: " + err.Error()
			return
		}
		defer syscall.Close(fd)
		port = p
		ob.Port = p
		close(targetDone)
	} else {
		go func() {
			defer close(targetDone)
			tl.(*net.TCPListener).SetDeadline(time.Now().Add(6 * time.Second))
			c, err := tl.Accept()
			tl.Close()
			if err != nil {
				return
			}
			tmu.Lock()
			ob.TargetHit = true
			tmu.Unlock()
			defer c.Close()
			c.SetDeadline(time.Now().Add(8 * time.Second))
			read := func() {
				var buf bytes.Buffer
				tmp := make([]byte, 32768)
				for {
					n, err := c.Read(tmp)
					buf.Write(tmp[:n])
					atomic.AddInt64(&targetRead, int64(n))
					if err != nil {
						break
					}
				}
				tmu.Lock()
				ob.TargetGot = buf.Bytes()
				tmu.Unlock()
			}
			late := func() {
				if sp.TLate[0] > 0 {
					time.Sleep(tcpT + 250*time.Millisecond - time.Since(tStart))
					c.Write(genBytes(sp.TLate[0], uint32(sp.TLate[1])))
				}
			}
			if sp.TReset {
				read() // the client has finished: the upload direction ends cleanly
				c.Write(tout)
				// reset only once the client has everything (ciphertext is longer than plaintext)
				for w := 0; w < 400 && atomic.LoadInt64(&clientRaw) < int64(len(tout)); w++ {
					time.Sleep(5 * time.Millisecond)
				}
				time.Sleep(30 * time.Millisecond)
				c.(*net.TCPConn).SetLinger(0) // RST: the download direction ends with an error
				c.Close()
			} else if sp.TFinFirst {
				c.Write(tout)
				c.(*net.TCPConn).CloseWrite()
				read()
			} else if sp.TFirst {
				c.Write(tout)
				late()
				read()
				c.(*net.TCPConn).CloseWrite()
			} else {
				rd := make(chan struct{})
				go func() { read(); close(rd) }()
				c.Write(tout)
				late()
				<-rd
				c.(*net.TCPConn).CloseWrite()
			}
		}()
	}
	wire, _, key := clientWire(sp, port)
	firstLen := 0
	if sp.Kind == "honest" {
		first := len(addrBytesSeed(sp.AKind, port, sp.Seed))
		if sp.Coalesce && len(sp.Chunks) > 0 {
			first += sp.Chunks[0][0]
		}
		if first > 16383 {
			first = 16383
		}
		firstLen = saltSizes[sp.C] + 2 + 16 + first + 16
	}
	// server
	sl, err := net.Listen("tcp", "127.0.0.1:0")
	if err != nil {
		ob.Panic = "harness: listen: " + err.Error()
		return
	}
	defer sl.Close()
	handler := service.NewStreamHandler(auth, tcpT)
	if !sp.Validate {
		handler.SetTargetDialer(&transport.TCPDialer{})
	}
	var accepted int64 // bytes the failing target connection accepted
	if sp.TFailAfter > 0 {
		handler.SetTargetDialer(transport.FuncStreamDialer(func(ctx context.Context, addr string) (transport.StreamConn, error) {
			c, err := (&transport.TCPDialer{}).DialStream(ctx, addr)
			if err != nil {
				return nil, err
			}
			return &failingConn{StreamConn: c, left: sp.TFailAfter, accepted: &accepted}, nil
		}))
	}
	rec := &recTCPMetrics{}
	handlerDone := make(chan string, 1)
	go func() {
		c, err := sl.(*net.TCPListener).AcceptTCP()
		if err != nil {
			handlerDone <- "accept: " + err.Error()
			return
		}
		defer func() {
			if r := recover(); r != nil {
				c.Close()
				handlerDone <- fmt.Sprint("panic: ", r)
			}
		}()
		if tee != nil {
			rec.tee = tee.openTCP(c)
		}
		handler.Handle(context.Background(), c, rec)
		c.Close()
		handlerDone <- ""
	}()
	conn, err := net.Dial("tcp", sl.Addr().String())
	if err != nil {
		ob.Panic = "harness: dial: " + err.Error()
		return
	}
	defer conn.Close()
	tc := conn.(*net.TCPConn)
	start := time.Now()
	// reader
	var raw bytes.Buffer
	readDone := make(chan error, 1)
	eofSeen := make(chan struct{})
	var firstDown int64 = -1 // ms until the first byte from the server reached the client
	go func() {
		buf := make([]byte, 32768)
		var err error
		if sp.SlowStartMs > 0 {
			time.Sleep(time.Duration(sp.SlowStartMs) * time.Millisecond)
		}
		for {
			var n int
			n, err = tc.Read(buf)
			if n > 0 {
				if raw.Len() == 0 {
					atomic.StoreInt64(&firstDown, time.Since(start).Milliseconds())
				}
				raw.Write(buf[:n])
				atomic.AddInt64(&clientRaw, int64(n))
			}
			if err != nil {
				if err == io.EOF {
					err = nil
				}
				break
			}
		}
		close(eofSeen)
		readDone <- err
	}()
	// writer with segmentation
	writeAll := func() {
		if sp.TFinFirst && sp.Kind == "honest" && len(sp.Chunks) > 0 && firstLen > 0 && firstLen < len(wire) {
			// address chunk first; upload the rest only after the target's half-close has arrived
			tc.Write(wire[:firstLen])
			select {
			case <-eofSeen:
			case <-time.After(1500 * time.Millisecond):
				ob.EOFHeld = true // the target finished long ago; its end-of-stream has not reached the client
			}
			tc.Write(wire[firstLen:])
			return
		}
		if sp.LateByte && len(wire) > 1 {
			tc.Write(wire[:len(wire)-1])
			time.Sleep(tcpT - 60*time.Millisecond - time.Since(start))
			tc.Write(wire[len(wire)-1:])
			return
		}
		switch sp.Seg {
		case 1:
			n := len(wire)
			if n > 70 {
				n = 70
			}
			for i := 0; i < n; i++ {
				tc.Write(wire[i : i+1])
				if i%16 == 0 {
					time.Sleep(time.Millisecond)
				}
			}
			tc.Write(wire[n:])
		case 2:
			rest := wire
			step := 37
			for len(rest) > 0 {
				k := step
				if k > len(rest) {
					k = len(rest)
				}
				tc.Write(rest[:k])
				rest = rest[k:]
				step = step*3 + 11
				if step > 20000 {
					step = 1000
				}
			}
		default:
			tc.Write(wire)
		}
	}
	writeAll()
	ob.RawSent = len(wire)
	closedAt := time.Duration(-1)
	var rerr error
	if sp.CReset {
		// abort only when nothing is in flight any more: the target has the whole upload and the
		// client has the target's output (then the outcome does not depend on what a reset discards)
		_, payload, _ := clientWire(sp, port)
		for w := 0; w < 600 && (atomic.LoadInt64(&targetRead) < int64(len(payload)) || atomic.LoadInt64(&clientRaw) < int64(len(tout))); w++ {
			time.Sleep(5 * time.Millisecond)
		}
		time.Sleep(30 * time.Millisecond)
		tc.SetLinger(0)
		tc.Close()
		ob.Close = 7
		<-readDone
	} else if sp.Fin {
		tc.CloseWrite()
		select {
		case rerr = <-readDone:
			closedAt = time.Since(start)
			ob.Close = 0
		case <-time.After(4 * time.Second):
			ob.Close = 8
		}
	} else {
		select {
		case rerr = <-readDone:
			closedAt = time.Since(start)
			switch {
			case closedAt < 300*time.Millisecond:
				ob.Close = 2
			case closedAt > tcpT-150*time.Millisecond && closedAt < tcpT+450*time.Millisecond:
				ob.Close = 1
			default:
				ob.Close = 7
			}
		case <-time.After(tcpT + 500*time.Millisecond):
			tc.CloseWrite()
			select {
			case rerr = <-readDone:
				closedAt = time.Since(start)
				ob.Close = 3
			case <-time.After(4 * time.Second):
				ob.Close = 8
			}
		}
	}
	ob.TargetAccepted = atomic.LoadInt64(&accepted)
	ob.CloseMs = closedAt.Milliseconds()
	ob.FirstDownMs = atomic.LoadInt64(&firstDown)
	if rerr != nil && (errors.Is(rerr, syscall.ECONNRESET) || strings.Contains(rerr.Error(), "reset")) {
		ob.Reset = true
	}
	select {
	case msg := <-handlerDone:
		ob.HandlerDone = true
		if msg != "" {
			ob.Panic = msg
		}
	case <-time.After(3 * time.Second):
	}
	conn.Close()
	select {
	case <-targetDone:
	case <-time.After(3 * time.Second):
	}
	ob.RawRecv = raw.Len()
	if key != nil && raw.Len() > 0 {
		r := shadowsocks.NewReader(bytes.NewReader(raw.Bytes()), key)
		pl, _ := io.ReadAll(r)
		ob.ClientPlain = pl
	}
	ob.ClientLen = len(ob.ClientPlain)
	tmu.Lock()
	ob.TargetLen = len(ob.TargetGot)
	tmu.Unlock()
	rec.mu.Lock()
	ob.Events = append([]recEvent{}, rec.evs...)
	rec.mu.Unlock()
	ob.Status = "NONE"
	for i := range ob.Events {
		e := ob.Events[i]
		switch e.Kind {
		case "auth":
			ob.Auth = append(ob.Auth, e.ID)
		case "probe":
			ee := e
			ob.Probe = &ee
		case "closed":
			ob.Status = e.Status
			ob.Counters = e.Data
		}
	}
	return
}

var tcpStatusCodes = map[string]int{"OK": 0, "ERR_CIPHER": 1, "ERR_REPLAY_SERVER": 2, "ERR_REPLAY_CLIENT": 3, "ERR_READ_ADDRESS": 4,
	"ERR_ADDRESS_INVALID": 5, "ERR_ADDRESS_PRIVATE": 6, "ERR_CONNECT": 7, "ERR_RELAY_CLIENT": 8, "ERR_RELAY_TARGET": 9, "NONE": 98}

func tcpObsTerm(o *tcpObs) string {
	code, ok := tcpStatusCodes[o.Status]
	if !ok {
		code = 97
	}
	if o.Panic != "" && strings.HasPrefix(o.Panic, "panic") {
		code = 66
	}
	var auth []string
	for _, a := range o.Auth {
		auth = append(auth, cBytes([]byte(a)))
	}
	probe := "None"
	if o.Probe != nil {
		d := 9
		switch o.Probe.Drain {
		case "eof":
			d = 0
		case "timeout":
			d = 1
		}
		pc, ok := tcpStatusCodes[o.Probe.Status]
		if !ok {
			pc = 97
		}
		probe = fmt.Sprintf("(Some (%d, %d, %s))", pc, d, cZ(o.Probe.N))
	}
	target := "None"
	if o.TargetHit {
		target = fmt.Sprintf("(Some (%d, %d))", len(o.TargetGot), cksum(o.TargetGot))
	}
	return fmt.Sprintf("{| ob_status := %d; ob_auth := %s; ob_probe := %s; ob_cp := %s; ob_pt := %s; ob_tp := %s; ob_target := %s; ob_client := (%d, %d); ob_close := %d |}",
		code, cListT("(list N)", auth), probe, cZ(o.Counters.ClientProxy), cZ(o.Counters.ProxyTarget), cZ(o.Counters.TargetProxy), target,
		len(o.ClientPlain), cksum(o.ClientPlain), o.Close)
}

func tcpConnTerm(sp *tcpConnSpec, port int) string {
	var kind string
	switch sp.Kind {
	case "garbage":
		kind = fmt.Sprintf("CGarbage %d %d", sp.N, sp.Seed)
	case "trunc":
		kind = fmt.Sprintf("CTrunc %d %d %d %d", sp.C, sp.S, sp.Seed, sp.N)
	default:
		var cs []string
		for _, c := range sp.Chunks {
			cs = append(cs, fmt.Sprintf("(%d, %d)", c[0], c[1]))
		}
		corrupt := 2 * sp.Corrupt
		if sp.Corrupt > 0 && sp.CorruptLen {
			corrupt++
		}
		kind = fmt.Sprintf("CHonest %d %d %d %d %d %s %s %d", sp.C, sp.S, sp.Seed, sp.AKind, port, cListT("(N * N)", cs), cBool(sp.Coalesce), corrupt)
	}
	return fmt.Sprintf("{| k_kind := %s; k_fin := %s; k_validate := %s; k_connect_ok := %s; k_tout := (%d, %d); k_tlate := (%d, %d); k_treset := %s; k_creset := %s |}",
		kind, cBool(sp.Fin), cBool(sp.Validate), cBool(sp.ConnectOK), sp.TOut[0], sp.TOut[1], sp.TLate[0], sp.TLate[1], cBool(sp.TReset), cBool(sp.CReset))
}

// boundNotListening reserves a TCP port with a socket that is bound but not listening:
// connections to it are refused, and no other listener can take the port meanwhile.
func boundNotListening(v6 bool) (fd int, port int, err error) {
	if v6 {
		fd, err = syscall.Socket(syscall.AF_INET6, syscall.SOCK_STREAM, 0)
		if err != nil {
			return
		}
		sa := &syscall.SockaddrInet6{}
		sa.Addr[15] = 1
		if err = syscall.Bind(fd, sa); err != nil {
			syscall.Close(fd)
			return
		}
	} else {
		fd, err = syscall.Socket(syscall.AF_INET, syscall.SOCK_STREAM, 0)
		if err != nil {
			return
		}
		if err = syscall.Bind(fd, &syscall.SockaddrInet4{Addr: [4]byte{127, 0, 0, 1}}); err != nil {
			syscall.Close(fd)
			return
		}
	}
	sa, e := syscall.Getsockname(fd)
	if e != nil {
		syscall.Close(fd)
		return 0, 0, e
	}
	switch a := sa.(type) {
	case *syscall.SockaddrInet4:
		port = a.Port
	case *syscall.SockaddrInet6:
		port = a.Port
	}
	return
}

// failingConn: a target connection whose writes start failing after a number of bytes (a
// deterministic stand-in for a target that goes away mid-upload). It deliberately has no
// ReadFrom, so every byte passes through Write.
type failingConn struct {
	transport.StreamConn
	left     int
	accepted *int64
}

func (f *failingConn) Write(b []byte) (int, error) {
	if f.left <= 0 {
		return 0, syscall.EPIPE
	}
	n := len(b)
	if n > f.left {
		n = f.left
	}
	m, err := f.StreamConn.Write(b[:n])
	f.left -= m
	atomic.AddInt64(f.accepted, int64(m))
	if err == nil && m < len(b) {
		err = syscall.EPIPE
	}
	return m, err
}
