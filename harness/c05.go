package main

import (
	"errors"
	"fmt"
	"math/big"
	"net"

	onet "github.com/Jigsaw-Code/outline-ss-server/net"
)

func init() { scenarios["C05"] = c05 }

// listedBlocks is the property's list, written independently of both the model and
// the implementation (monitor): CIDR strings of every special-purpose block.
var listedBlocks = []string{
	"0.0.0.0/32", "127.0.0.0/8", "169.254.0.0/16", "224.0.0.0/4", "255.255.255.255/32",
	"10.0.0.0/8", "172.16.0.0/12", "192.168.0.0/16", "100.64.0.0/10",
	"::/128", "::1/128", "fe80::/10", "ff00::/8", "fc00::/7",
}

func listedIP(ip net.IP) bool {
	if len(ip) != 4 && len(ip) != 16 {
		return true
	}
	for _, c := range listedBlocks {
		_, n, _ := net.ParseCIDR(c)
		if n.Contains(ip) {
			return true
		}
	}
	return false
}

func c05(ctx *Ctx) {
	r := ctx.Rng
	ctx.Stats.Rule = "address = every boundary of every listed block (first-1, first, last, last+1) in 4-byte, 16-byte-mapped and native IPv6 form, plus random addresses, plus nil/odd lengths; classified by the real net.IP predicates, IsPrivateAddress and RequirePublicIP; non-trivial = distinct (kind,address) whose verdict class (allowed/invalid/private) is counted; all three classes must occur"
	type addr struct {
		kind int
		v    *big.Int
		ip   net.IP
	}
	var addrs []addr
	add4 := func(x uint32) {
		ip := net.IP{byte(x >> 24), byte(x >> 16), byte(x >> 8), byte(x)}
		addrs = append(addrs, addr{0, new(big.Int).SetUint64(uint64(x)), ip})
		// the same address in 16-byte mapped form
		m := net.IPv4(ip[0], ip[1], ip[2], ip[3])
		addrs = append(addrs, addr{1, new(big.Int).SetBytes(m), m})
	}
	add16 := func(v *big.Int) {
		b := v.Bytes()
		if len(b) > 16 {
			return
		}
		ip := make(net.IP, 16)
		copy(ip[16-len(b):], b)
		addrs = append(addrs, addr{1, new(big.Int).SetBytes(ip), ip})
	}
	cidrs := append([]string{}, listedBlocks...)
	cidrs = append(cidrs, "::ffff:0:0/96", "8.8.8.0/24", "2001:db8::/32", "64:ff9b::/96", "198.18.0.0/15", "240.0.0.0/4")
	for _, c := range cidrs {
		_, n, err := net.ParseCIDR(c)
		if err != nil {
			panic(err)
		}
		ones, bits := n.Mask.Size()
		first := new(big.Int).SetBytes(n.IP)
		size := new(big.Int).Lsh(big.NewInt(1), uint(bits-ones))
		last := new(big.Int).Sub(new(big.Int).Add(first, size), big.NewInt(1))
		for _, v := range []*big.Int{new(big.Int).Sub(first, big.NewInt(1)), first, new(big.Int).Add(first, big.NewInt(1)), new(big.Int).Sub(last, big.NewInt(1)), last, new(big.Int).Add(last, big.NewInt(1))} {
			if v.Sign() < 0 {
				continue
			}
			if bits == 32 {
				if v.BitLen() <= 32 {
					add4(uint32(v.Uint64()))
				}
			} else {
				add16(v)
			}
		}
	}
	nRand := 500
	if ctx.Thorough() {
		nRand = 20000
	}
	for i := 0; i < nRand; i++ {
		switch r.Intn(4) {
		case 0:
			add4(uint32(r.U64()))
		case 1: // random inside a listed v4 block
			_, n, _ := net.ParseCIDR(listedBlocks[r.Intn(9)])
			ones, _ := n.Mask.Size()
			base := new(big.Int).SetBytes(n.IP).Uint64()
			add4(uint32(base) | (uint32(r.U64()) & uint32((uint64(1)<<(32-ones))-1)))
		case 2:
			add16(new(big.Int).SetBytes(r.Bytes(16)))
		case 3: // v6 with a special first byte
			b := r.Bytes(16)
			b[0] = []byte{0xfe, 0xff, 0xfc, 0xfd, 0x00, 0x20}[r.Intn(6)]
			if b[0] == 0xfe {
				b[1] = []byte{0x80, 0xbf, 0xc0, 0x7f}[r.Intn(4)]
			}
			if b[0] == 0 && r.Bool() {
				for j := 1; j < 10; j++ {
					b[j] = 0
				}
				b[10], b[11] = 0xff, 0xff
			}
			add16(new(big.Int).SetBytes(b))
		}
	}
	// nil and odd lengths
	addrs = append(addrs, addr{2, big.NewInt(0), nil}, addr{2, big.NewInt(0), net.IP{1, 2, 3}}, addr{2, big.NewInt(0), net.IP{}}, addr{2, big.NewInt(0), make(net.IP, 5)})

	var terms []string
	shard := 0
	classes := map[int]int{}
	for i, a := range addrs {
		flags := 0
		if a.ip.IsUnspecified() {
			flags |= 1
		}
		if a.ip.IsLoopback() {
			flags |= 2
		}
		if a.ip.IsMulticast() {
			flags |= 4
		}
		if a.ip.IsLinkLocalUnicast() {
			flags |= 8
		}
		if a.ip.IsGlobalUnicast() {
			flags |= 16
		}
		if onet.IsPrivateAddress(a.ip) {
			flags |= 32
		}
		verdict := 0
		err := onet.RequirePublicIP(a.ip)
		if err != nil {
			var ce *onet.ConnectionError
			if errors.As(err, &ce) {
				switch ce.Status {
				case "ERR_ADDRESS_INVALID":
					verdict = 1
				case "ERR_ADDRESS_PRIVATE":
					verdict = 2
				default:
					verdict = 9
				}
			} else {
				verdict = 9
			}
		}
		classes[verdict]++
		ctx.Count(fmt.Sprintf("kind%d/verdict%d", a.kind, verdict))
		ctx.NonTrivial(fmt.Sprintf("%d/%s", a.kind, a.v.String()))
		// monitor: the property itself, from the independent block list
		if listed := listedIP(a.ip); listed != (verdict != 0) {
			what := "listed special-purpose address is allowed"
			if !listed {
				what = "ordinary public address is rejected"
			}
			ctx.Monitor("C05/classification:"+a.ip.String(), what+": "+a.ip.String(), map[string]interface{}{"ip": a.ip.String(), "len": len(a.ip), "verdict": verdict})
		}
		terms = append(terms, fmt.Sprintf("{| c_kind := %d; c_addr := %s; c_flags := %d; c_verdict := %d |}", a.kind, a.v.String(), flags, verdict))
		ctx.Stats.Cases++
		if i%97 == 0 {
			ctx.Sample(map[string]interface{}{"ip": a.ip.String(), "len": len(a.ip), "flags": flags, "verdict": verdict})
		}
		if len(terms) >= 150 {
			ctx.WriteCases(shard, "Corr.C05", "case", terms)
			shard++
			terms = nil
		}
	}
	if len(terms) > 0 {
		ctx.WriteCases(shard, "Corr.C05", "case", terms)
	}
	if classes[0] == 0 || classes[1] == 0 || classes[2] == 0 {
		ctx.Stats.NonTrivial = 0
	}
	// end to end with the default policy in force: UDP associations that mix public targets
	// (reachable through addresses on the loopback interface) with private, CGNAT, link-local,
	// ULA, mapped and domain-literal ones; every non-public address has a sink listening
	ctx.Stats.Rule += "; plus UDP and TCP end-to-end scenarios with the default policy in force against local sinks on public-range and private-range addresses"
	n := 45
	if ctx.Thorough() {
		n = 600
	}
	cUDPInto(ctx, "C05", n, shard+1)
	// TCP: the validating dialer at dial time, for literal addresses of every class, IPv4-mapped
	// forms, and names that resolve to several addresses or change between two look-ups
	rule := ctx.Stats.Rule
	nt := 70
	if ctx.Thorough() {
		nt = 700
	}
	cTCPInto(ctx, "C05", nt, 5000)
	ctx.Stats.Rule = rule
}
