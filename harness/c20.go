package main

import (
	"errors"
	"fmt"
	"math/big"
	"net"
	"strings"
	"time"

	"github.com/Jigsaw-Code/outline-ss-server/ipinfo"
	oprom "github.com/Jigsaw-Code/outline-ss-server/prometheus"
	"github.com/Jigsaw-Code/outline-ss-server/service/metrics"
	"github.com/prometheus/client_golang/prometheus"
)

func init() { scenarios["C20"] = c20 }

type strAddr string

func (a strAddr) Network() string { return "tcp" }
func (a strAddr) String() string  { return string(a) }

type recDB struct {
	mode  int // 1 hit, 2 miss, 3 error, 4 error together with a partially filled answer, 5 no country but an ASN
	calls int
}

func (d *recDB) GetIPInfo(ip net.IP) (ipinfo.IPInfo, error) {
	d.calls++
	switch d.mode {
	case 1:
		return ipinfo.IPInfo{CountryCode: "US", ASN: ipinfo.ASN{Number: 64500, Organization: "ExampleNet"}}, nil
	case 2:
		return ipinfo.IPInfo{}, nil
	case 5: // only the ASN database knows the address (or only an ASN database is configured)
		return ipinfo.IPInfo{ASN: ipinfo.ASN{Number: 64501, Organization: "AsnOnlyNet"}}, nil
	case 4: // the country database answered, the ASN database failed (errors.Join of the two)
		return ipinfo.IPInfo{CountryCode: "CN"}, errors.New("asn db failure")
	default:
		return ipinfo.IPInfo{}, errors.New("db failure")
	}
}

func c20(ctx *Ctx) {
	r := ctx.Rng
	ctx.Stats.Rule = "part 1: (address string of a known parse class) x (db disabled / hit / miss / error) through GetIPInfoFromAddr and GetIPInfoFromIP with a recording DB; label and consulted flag compared with the model; part 2: scripted TCP/UDP traffic from distinctive client addresses through the real Prometheus collectors, the whole exposition scanned for the address material; non-trivial = distinct (address, db mode) pairs; all six label outcomes must occur"
	type a struct {
		kind int
		s    string
		v    *big.Int
	}
	var addrs []a
	addrs = append(addrs, a{0, "", big.NewInt(0)})
	for _, s := range []string{"garbage", "1.2.3.4", "[::1", "1.2.3.4:5:6", "::1:80", ""} {
		addrs = append(addrs, a{1, s, big.NewInt(0)})
	}
	for _, s := range []string{"host.example:80", "[fe80::1%eth0]:80", ":80", "1.2.3.4.5:80", "256.1.1.1:1", "[2001:db8::zz]:80", "localhost:1"} {
		addrs = append(addrs, a{2, s, big.NewInt(0)})
	}
	ipStr := func(ip net.IP) string { return net.JoinHostPort(ip.String(), fmt.Sprint(1+r.Intn(65000))) }
	v4s := []string{"0.0.0.0", "127.0.0.1", "127.255.255.255", "169.254.1.1", "224.0.0.1", "239.255.255.255", "255.255.255.255",
		"10.0.0.1", "192.168.1.1", "100.64.0.1", "8.8.8.8", "203.0.113.77", "1.1.1.1", "128.0.0.1", "240.0.0.1", "169.253.255.255", "223.255.255.255"}
	for _, s := range v4s {
		ip := net.ParseIP(s)
		addrs = append(addrs, a{3, ipStr(ip), new(big.Int).SetBytes(ip.To16())})
		addrs = append(addrs, a{3, net.JoinHostPort("::ffff:"+s, "443"), new(big.Int).SetBytes(ip.To16())})
		addrs = append(addrs, a{4, s, new(big.Int).SetBytes(ip.To4())})
	}
	for _, s := range []string{"::", "::1", "::2", "fe80::1", "febf::1", "fec0::1", "ff02::1", "fc00::1", "fd12::1", "2001:db8::7777", "2607:f8b0::1", "64:ff9b::1"} {
		ip := net.ParseIP(s)
		addrs = append(addrs, a{3, ipStr(ip), new(big.Int).SetBytes(ip.To16())})
	}
	nRand := 150
	if ctx.Thorough() {
		nRand = 5000
	}
	for i := 0; i < nRand; i++ {
		if r.Bool() {
			ip := net.IP(r.Bytes(4))
			addrs = append(addrs, a{3, ipStr(ip), new(big.Int).SetBytes(ip.To16())})
		} else {
			ip := net.IP(r.Bytes(16))
			addrs = append(addrs, a{3, ipStr(ip), new(big.Int).SetBytes(ip.To16())})
		}
	}
	var terms []string
	shard := 0
	labels := map[string]int{}
	for i, ad := range addrs {
		for mode := 0; mode < 6; mode++ {
			var db *recDB
			var m ipinfo.IPInfoMap
			if mode != 0 {
				db = &recDB{mode: mode}
				m = db
			}
			var info ipinfo.IPInfo
			switch ad.kind {
			case 0:
				info, _ = ipinfo.GetIPInfoFromAddr(m, nil)
			case 4:
				info, _ = ipinfo.GetIPInfoFromIP(m, net.ParseIP(ad.s).To4())
			default:
				info, _ = ipinfo.GetIPInfoFromAddr(m, strAddr(ad.s))
			}
			label := info.CountryCode.String()
			consulted := db != nil && db.calls > 0
			labels[label]++
			ctx.Count("label:" + label)
			ctx.NonTrivial(fmt.Sprintf("%d/%s/%d", ad.kind, ad.s, mode))
			// monitor: the table of the property, written independently
			exp := ""
			expConsult := false
			var ip net.IP
			if ad.kind == 3 {
				h, _, _ := net.SplitHostPort(ad.s)
				ip = net.ParseIP(h)
			} else if ad.kind == 4 {
				ip = net.ParseIP(ad.s)
			}
			switch {
			case ip == nil:
				exp = "XA"
			case mode == 0:
				exp = ""
			case ip.IsUnspecified() || ip.IsLoopback() || ip.IsMulticast() || ip.IsLinkLocalUnicast() || ip.Equal(net.IPv4bcast):
				exp = "XL"
			case mode == 3 || mode == 4:
				exp, expConsult = "XD", true
			case mode == 2 || mode == 5:
				exp, expConsult = "ZZ", true
			default:
				exp, expConsult = "US", true
			}
			if exp != label || expConsult != consulted {
				ctx.Monitor("C20/location-table", fmt.Sprintf("address %q db-mode %d: label %q consulted=%v, expected %q consulted=%v", ad.s, mode, label, consulted, exp, expConsult), map[string]interface{}{"addr": ad.s, "kind": ad.kind, "mode": mode})
			}
			terms = append(terms, fmt.Sprintf("{| c_kind := %d; c_addr := %s; c_db := %d; c_label := %s; c_consulted := %s |}", ad.kind, ad.v.String(), mode, cBytes([]byte(label)), cBool(consulted)))
			ctx.Stats.Cases++
		}
		if i%40 == 0 {
			ctx.Sample(map[string]interface{}{"addr": ad.s, "kind": ad.kind})
		}
		if len(terms) >= 120 {
			ctx.WriteCases(shard, "Corr.C20", "case", terms)
			shard++
			terms = nil
		}
	}
	if len(terms) > 0 {
		ctx.WriteCases(shard, "Corr.C20", "case", terms)
	}
	for _, l := range []string{"XA", "", "XL", "XD", "ZZ", "US"} {
		if labels[l] == 0 {
			ctx.Stats.NonTrivial = 0
		}
	}

	// part 2: exposition scan
	scripts := 12
	if ctx.Thorough() {
		scripts = 200
	}
	for si := 0; si < scripts; si++ {
		c20script(ctx, r.Fork(), si)
	}
	c20e2e(ctx)
}

// c20script drives the real collectors with distinctive client addresses and scans
// every metric name, label name and label value of the gathered families.
func c20script(ctx *Ctx, r *Rng, si int) {
	clock := time.Unix(1_700_000_000, 0)
	oprom.VerifSetNow(func() time.Time { return clock })
	var m ipinfo.IPInfoMap
	if r.Chance(75) {
		m = &recDB{mode: 1 + r.Intn(3)}
	}
	sm, err := oprom.NewServiceMetrics(m)
	if err != nil {
		ctx.Monitor("C20/harness-error", err.Error(), nil)
		return
	}
	reg := prometheus.NewRegistry()
	reg.MustRegister(sm)
	clients := []struct {
		ip   string
		port int
	}{{"203.0.113.77", 54321}, {"2001:db8::7777", 54322}, {"198.51.100.213", 61234}, {"10.11.12.13", 43210}, {"::ffff:192.0.2.99", 39871}}
	var needles []string
	keys := []string{"key-A", "key-B", ""}
	for _, c := range clients {
		needles = append(needles, c.ip, fmt.Sprint(c.port), strings.TrimPrefix(c.ip, "::ffff:"))
	}
	local := &net.TCPAddr{IP: net.IPv4(192, 0, 2, 1), Port: 9000 + si}
	for i := 0; i < 30; i++ {
		c := clients[r.Intn(len(clients))]
		ip := net.ParseIP(c.ip)
		switch r.Intn(4) {
		case 0, 1:
			cm := sm.AddOpenTCPConnection(&fakeConn{remote: &net.TCPAddr{IP: ip, Port: c.port}, local: local})
			if r.Chance(70) {
				cm.AddAuthenticated(keys[r.Intn(len(keys))])
				clock = clock.Add(time.Duration(r.Intn(5)) * time.Second)
				cm.AddClosed([]string{"OK", "ERR_RELAY_CLIENT", "ERR_CONNECT"}[r.Intn(3)], metrics.ProxyMetrics{ClientProxy: 1000003, ProxyTarget: 1000033, TargetProxy: 1000037, ProxyClient: 1000039}, 1500*time.Millisecond)
			} else {
				cm.AddProbe("ERR_CIPHER", "timeout", 1000081)
				cm.AddClosed("ERR_CIPHER", metrics.ProxyMetrics{ClientProxy: 1000081}, 59*time.Second)
			}
		case 2:
			um := sm.AddUDPNatEntry(&net.UDPAddr{IP: ip, Port: c.port}, keys[r.Intn(len(keys))])
			um.AddPacketFromClient("OK", 1000099, 1000117)
			um.AddPacketFromTarget("OK", 1000121, 1000133)
			clock = clock.Add(2 * time.Second)
			if r.Bool() {
				um.RemoveNatEntry()
			}
		case 3:
			sm.AddCipherSearch([]string{"tcp", "udp"}[r.Intn(2)], r.Bool(), 3*time.Millisecond)
		}
	}
	mfs, err := reg.Gather()
	if err != nil {
		ctx.Monitor("C20/harness-error", err.Error(), nil)
		return
	}
	series := 0
	for _, mf := range mfs {
		texts := []string{"name:" + mf.GetName()}
		for _, mt := range mf.GetMetric() {
			series++
			for _, l := range mt.GetLabel() {
				texts = append(texts, "label:"+l.GetName(), "value:"+l.GetValue())
			}
		}
		for _, t := range texts {
			for _, n := range needles {
				if strings.Contains(t, n) {
					ctx.Monitor("C20/address-in-exposition", fmt.Sprintf("metric family %s exposes client address material %q in %q", mf.GetName(), n, t), map[string]interface{}{"family": mf.GetName(), "text": t})
				}
			}
		}
	}
	ctx.CountN("exposition:series-scanned", series)
	ctx.Count("exposition:scripts")
}
