package main

import (
	"bytes"
	"fmt"
	"os"
	"os/exec"
	"strconv"
	"strings"
	"time"
)

// Rng is splitmix64: every random choice derives from one seed.
type Rng struct{ s uint64 }

func NewRng(seed uint64) *Rng { return &Rng{seed*0x9E3779B97F4A7C15 + 0x1234567} }
func (r *Rng) U64() uint64 {
	r.s += 0x9E3779B97F4A7C15
	z := r.s
	z = (z ^ (z >> 30)) * 0xBF58476D1CE4E5B9
	z = (z ^ (z >> 27)) * 0x94D049BB133111EB
	return z ^ (z >> 31)
}
func (r *Rng) Intn(n int) int {
	if n <= 0 {
		return 0
	}
	return int(r.U64() % uint64(n))
}
func (r *Rng) Bool() bool           { return r.U64()&1 == 1 }
func (r *Rng) Chance(p int) bool    { return r.Intn(100) < p }
func (r *Rng) Pick(xs []int) int    { return xs[r.Intn(len(xs))] }
func (r *Rng) Range(lo, hi int) int { return lo + r.Intn(hi-lo+1) }
func (r *Rng) Bytes(n int) []byte {
	b := make([]byte, n)
	for i := range b {
		b[i] = byte(r.U64())
	}
	return b
}
func (r *Rng) Fork() *Rng { return NewRng(r.U64()) }

// Coq term printers.
func cN(x uint64) string { return strconv.FormatUint(x, 10) }
func cZ(x int64) string {
	if x < 0 {
		return "(" + strconv.FormatInt(x, 10) + ")%Z"
	}
	return strconv.FormatInt(x, 10) + "%Z"
}
func cNat(x int) string { return strconv.Itoa(x) + "%nat" }
func cBool(b bool) string {
	if b {
		return "true"
	}
	return "false"
}
func cBytes(b []byte) string {
	if len(b) == 0 {
		return "(@nil N)"
	}
	var sb strings.Builder
	sb.WriteByte('[')
	for i, x := range b {
		if i > 0 {
			sb.WriteByte(';')
		}
		sb.WriteString(strconv.Itoa(int(x)))
	}
	sb.WriteByte(']')
	return sb.String()
}
func cList(elems []string) string {
	if len(elems) == 0 {
		return "[]"
	}
	return "[" + strings.Join(elems, "; ") + "]"
}
func cListT(typ string, elems []string) string {
	if len(elems) == 0 {
		return "(@nil " + typ + ")"
	}
	return "[" + strings.Join(elems, "; ") + "]"
}
func cBools(bs []bool) string {
	e := make([]string, len(bs))
	for i, b := range bs {
		e[i] = cBool(b)
	}
	return cListT("bool", e)
}
func cOpt(s *string) string {
	if s == nil {
		return "None"
	}
	return "(Some " + *s + ")"
}
func cStr(s string) string                      { return "\"" + strings.ReplaceAll(s, "\"", "\"\"") + "\"%string" }
func sprintf(f string, a ...interface{}) string { return fmt.Sprintf(f, a...) }

// genBytes mirrors Base.gen_bytes (LCG, top byte of each state).
func genBytes(n int, seed uint32) []byte {
	b := make([]byte, n)
	x := seed
	for i := range b {
		x = x*1664525 + 1013904223
		b[i] = byte(x >> 24)
	}
	return b
}
func cGB(n int, seed uint32) string { return fmt.Sprintf("(gb %d %d)", n, seed) }

// runSelfChild re-executes this binary with -child; a crash is an observation, never a harness failure.
func runSelfChild(timeout time.Duration, name string, args ...string) (string, int) {
	exe, _ := os.Executable()
	cmd := exec.Command(exe, append([]string{"-child", name}, args...)...)
	var out bytes.Buffer
	cmd.Stdout, cmd.Stderr = &out, &out
	if err := cmd.Start(); err != nil {
		return err.Error(), -1
	}
	done := make(chan error, 1)
	go func() { done <- cmd.Wait() }()
	select {
	case err := <-done:
		if err == nil {
			return out.String(), 0
		}
		if ee, ok := err.(*exec.ExitError); ok {
			return out.String(), ee.ExitCode()
		}
		return out.String() + err.Error(), -1
	case <-time.After(timeout):
		cmd.Process.Kill()
		return out.String() + "[timeout]", -2
	}
}
