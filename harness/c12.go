package main

import (
	"errors"
	"fmt"
	"net"
	"runtime"
	"sync"
	"time"

	"github.com/Jigsaw-Code/outline-sdk/transport"
	"github.com/Jigsaw-Code/outline-ss-server/service"
)

func init() { scenarios["C12"] = c12 }

// the goroutine census is meaningful only when cases run one at a time
var c12Census = false

type c12Op struct {
	Kind string `json:"kind"` // acquire dial accept close
	H    int    `json:"h,omitempty"`
}

type pendingAccept struct {
	h    int
	done chan struct{}
	conn transport.StreamConn
	err  error
}

// runC12Stream executes one op sequence on a fresh ListenerManager and returns the observed trace.
func runC12Stream(ops []c12Op) (trace []string, finalClosed []int, findings []MonitorFinding) {
	mgr := service.NewListenerManager()
	addr := fmt.Sprintf("127.0.0.1:%d", freeLowPorts(1))
	g0 := runtime.NumGoroutine()
	var handles []service.StreamListener
	closedH := map[int]bool{}
	var pend []*pendingAccept
	type cl struct {
		conn   net.Conn
		closed chan struct{}
		epoch  int // number of full releases of the address before this connection arrived
	}
	epoch := 0
	reportedDrop := map[int]bool{}
	clients := map[int]*cl{}
	var order []int
	delivered := map[int]bool{}
	var accepted []transport.StreamConn
	openN := 0
	// right after the close of the last open handle the address must be bindable again (tested at
	// once: later the port may have been taken by an unrelated socket of a parallel case)
	rebind := func() {
		if openN != 0 {
			return
		}
		if l, err := net.Listen("tcp", addr); err != nil {
			findings = append(findings, MonitorFinding{"C12/socket-not-released", "the address cannot be bound again after the last close: " + err.Error(), ops})
		} else {
			l.Close()
		}
	}
	poll := func(wait time.Duration) {
		deadline := time.Now().Add(wait)
		for {
			progressed := false
			for i := 0; i < len(pend); i++ {
				p := pend[i]
				select {
				case <-p.done:
					if p.err == nil && p.conn != nil {
						c := p.conn.RemoteAddr().(*net.TCPAddr).Port
						trace = append(trace, fmt.Sprintf("ODeliver %d %d", p.h, c))
						delivered[c] = true
						accepted = append(accepted, p.conn)
					} else if errors.Is(p.err, net.ErrClosed) {
						trace = append(trace, fmt.Sprintf("ORetClosed %d", p.h))
					} else {
						findings = append(findings, MonitorFinding{"C12/accept-error", fmt.Sprint("AcceptStream returned ", p.err), ops})
					}
					pend = append(pend[:i], pend[i+1:]...)
					i--
					progressed = true
				default:
				}
			}
			if time.Now().After(deadline) {
				return
			}
			if !progressed {
				time.Sleep(4 * time.Millisecond)
			}
		}
	}
	startAccept := func(h int) {
		p := &pendingAccept{h: h, done: make(chan struct{})}
		pend = append(pend, p)
		go func() {
			p.conn, p.err = handles[h].AcceptStream()
			close(p.done)
		}()
	}
	hasPending := func(h int) bool {
		for _, p := range pend {
			if p.h == h {
				return true
			}
		}
		return false
	}
	// a call on the manager or on a handle that does not come back is a violation by itself (and
	// must not hang the check): the case ends there
	hung := false
	watch := func(what string, f func()) bool {
		done := make(chan struct{})
		go func() { f(); close(done) }()
		select {
		case <-done:
			return true
		case <-time.After(3 * time.Second):
			hung = true
			findings = append(findings, MonitorFinding{"C12/call-never-returned:" + what, what + " did not return within 3 s", map[string]interface{}{"ops": ops, "trace": trace}})
			return false
		}
	}
	for _, op := range ops {
		if hung {
			return
		}
		switch op.Kind {
		case "acquire":
			var h service.StreamListener
			var err error
			if !watch("ListenStream", func() { h, err = mgr.ListenStream(addr) }) {
				return
			}
			if err != nil {
				findings = append(findings, MonitorFinding{"C12/acquire-failed", err.Error(), ops})
				continue
			}
			handles = append(handles, h)
			openN++
			trace = append(trace, fmt.Sprintf("OAcquire %d", len(handles)-1))
		case "failacquire":
			// an acquisition that fails at bind (somebody else holds the address); possible only
			// while no handle is open. It must leave nothing behind: no reference, no socket.
			if openN != 0 {
				continue
			}
			own, err := net.Listen("tcp", addr)
			if err != nil {
				continue
			}
			if h, err := mgr.ListenStream(addr); err == nil {
				h.Close()
				findings = append(findings, MonitorFinding{"C12/harness", "ListenStream succeeded on an address held by another socket", ops})
			}
			own.Close()
			trace = append(trace, "OFailAcquire")
		case "dial":
			c, err := net.DialTimeout("tcp", addr, 300*time.Millisecond)
			if err != nil {
				continue // refused: the socket is not bound
			}
			port := c.LocalAddr().(*net.TCPAddr).Port
			k := &cl{c, make(chan struct{}), epoch}
			clients[port] = k
			order = append(order, port)
			go func() {
				buf := make([]byte, 1)
				c.Read(buf) // returns when the server side closes or resets
				close(k.closed)
			}()
			trace = append(trace, fmt.Sprintf("OArrive %d", port))
		case "accept":
			if op.H >= len(handles) || hasPending(op.H) {
				continue
			}
			if closedH[op.H] {
				p := &pendingAccept{h: op.H, done: make(chan struct{})}
				go func() { p.conn, p.err = handles[op.H].AcceptStream(); close(p.done) }()
				select {
				case <-p.done:
					if errors.Is(p.err, net.ErrClosed) {
						trace = append(trace, fmt.Sprintf("OFailNow %d", op.H))
					} else if p.conn != nil {
						c := p.conn.RemoteAddr().(*net.TCPAddr).Port
						delivered[c] = true
						accepted = append(accepted, p.conn)
						trace = append(trace, fmt.Sprintf("OAcceptCall %d", op.H), fmt.Sprintf("ODeliver %d %d", op.H, c))
						findings = append(findings, MonitorFinding{"C12/closed-handle-accepted", "AcceptStream on a closed handle returned a connection", ops})
					}
				case <-time.After(200 * time.Millisecond):
					findings = append(findings, MonitorFinding{"C12/closed-handle-blocks", "AcceptStream on a closed handle did not fail", ops})
				}
				continue
			}
			trace = append(trace, fmt.Sprintf("OAcceptCall %d", op.H))
			startAccept(op.H)
		case "close":
			if op.H >= len(handles) {
				continue
			}
			if !watch("Close", func() { handles[op.H].Close() }) {
				return
			}
			if !closedH[op.H] {
				openN--
				if openN == 0 {
					epoch++
				}
				rebind()
			}
			closedH[op.H] = true
			trace = append(trace, fmt.Sprintf("OClose %d", op.H))
		}
		poll(35 * time.Millisecond)
		// monitor: while some handle has been open ever since a connection arrived, the server must
		// not close that connection: it waits for an accept
		if openN > 0 {
			for _, port := range order {
				k := clients[port]
				if delivered[port] || k.epoch != epoch {
					continue
				}
				select {
				case <-k.closed:
					if !reportedDrop[port] {
						reportedDrop[port] = true
						findings = append(findings, MonitorFinding{"C12/conn-dropped-while-handle-open", "a connection that reached the socket was closed by the server although a handle has been open ever since it arrived (it should wait for an accept)", map[string]interface{}{"ops": ops, "trace": trace}})
					}
				default:
				}
			}
		}
	}
	// end: close everything, let the dust settle
	for h := range handles {
		if !closedH[h] {
			h := h
			if !watch("Close", func() { handles[h].Close() }) {
				return
			}
			closedH[h] = true
			openN--
			rebind()
			trace = append(trace, fmt.Sprintf("OClose %d", h))
			poll(10 * time.Millisecond)
		}
	}
	poll(250 * time.Millisecond)
	if len(pend) > 0 {
		findings = append(findings, MonitorFinding{"C12/accept-not-unblocked", fmt.Sprintf("%d AcceptStream calls still blocked after every handle was closed", len(pend)), ops})
	}
	for _, port := range order {
		if delivered[port] {
			continue
		}
		select {
		case <-clients[port].closed:
			finalClosed = append(finalClosed, port)
		case <-time.After(300 * time.Millisecond):
			findings = append(findings, MonitorFinding{"C12/orphan-conn-hanging", "a connection that reached the socket was neither delivered to a handle nor closed after the last handle was closed", ops})
		}
	}
	for _, c := range accepted {
		c.Close()
	}
	for _, k := range clients {
		k.conn.Close()
	}
	time.Sleep(30 * time.Millisecond)
	if g1 := runtime.NumGoroutine(); c12Census && g1 > g0+2 {
		time.Sleep(200 * time.Millisecond)
		if g1 = runtime.NumGoroutine(); g1 > g0+2 {
			findings = append(findings, MonitorFinding{"C12/goroutine-leak", fmt.Sprintf("%d goroutines before, %d after everything was closed", g0, g1), ops})
		}
	}
	return
}

// runC12Packet: datagrams to a shared packet listener are each received by exactly one open
// handle; a closed handle always fails.
func runC12Packet(r *Rng) (findings []MonitorFinding, stats map[string]int) {
	stats = map[string]int{}
	mgr := service.NewListenerManager()
	addr := fmt.Sprintf("127.0.0.1:%d", freeLowPorts(1))
	n := r.Range(2, 4)
	var hs []net.PacketConn
	for i := 0; i < n; i++ {
		h, err := mgr.ListenPacket(addr)
		if err != nil {
			return []MonitorFinding{{"C12/packet-acquire-failed", err.Error(), nil}}, stats
		}
		hs = append(hs, h)
	}
	closedIdx := r.Intn(n)
	hs[closedIdx].Close()
	var mu sync.Mutex
	got := map[string]int{}
	var wg sync.WaitGroup
	for i, h := range hs {
		if i == closedIdx {
			continue
		}
		wg.Add(1)
		go func(h net.PacketConn) {
			defer wg.Done()
			buf := make([]byte, 100)
			for {
				n, _, err := h.ReadFrom(buf)
				if err != nil {
					return
				}
				mu.Lock()
				got[string(buf[:n])]++
				mu.Unlock()
			}
		}(h)
	}
	c, _ := net.Dial("udp", addr)
	closedGot := 0
	for i := 0; i < 40; i++ {
		c.Write([]byte(fmt.Sprintf("dgram-%d", i)))
		// a read on the closed handle must fail, never take a datagram
		done := make(chan error, 1)
		go func() { _, _, err := hs[closedIdx].ReadFrom(make([]byte, 100)); done <- err }()
		select {
		case err := <-done:
			if err == nil {
				closedGot++
			}
		case <-time.After(100 * time.Millisecond):
			findings = append(findings, MonitorFinding{"C12/packet-closed-handle-blocks", "ReadFrom on a closed packet handle did not fail", nil})
		}
	}
	time.Sleep(60 * time.Millisecond)
	for i, h := range hs {
		if i != closedIdx {
			h.Close()
		}
	}
	c.Close()
	wg.Wait()
	if closedGot > 0 {
		findings = append(findings, MonitorFinding{"C12/packet-closed-handle-received", fmt.Sprintf("a closed packet handle received %d of 40 datagrams", closedGot), nil})
	}
	dups := 0
	for _, k := range got {
		if k > 1 {
			dups++
		}
	}
	if dups > 0 {
		findings = append(findings, MonitorFinding{"C12/packet-duplicated", fmt.Sprintf("%d datagrams delivered to more than one handle", dups), nil})
	}
	stats["packet:datagrams-received"] = len(got)
	if len(got) < 40 {
		findings = append(findings, MonitorFinding{"C12/packet-lost-while-handle-reads", fmt.Sprintf("%d of 40 datagrams were received by the open handles", len(got)), nil})
	}
	if l, err := net.ListenPacket("udp", addr); err != nil {
		findings = append(findings, MonitorFinding{"C12/packet-socket-not-released", err.Error(), nil})
	} else {
		l.Close()
	}
	return
}

func c12(ctx *Ctx) {
	r := ctx.Rng
	ctx.Stats.Rule = "stream: random sequences of acquire / dial / accept / close on 1..5 handles of one address on the real ListenerManager, each op followed by a poll of the blocked accepts; the observed trace (who got which connection, which calls returned ErrClosed, which connections the server closed) must be accepted by the LTS with the accept goroutine's steps interleaved; end of case: all closed, re-bind test, goroutine census; packet: 40 datagrams against 2..4 handles one of which is closed; non-trivial = distinct op sequences with at least one delivery and one close racing a pending accept"
	n := 140
	if ctx.Thorough() {
		n = 2500
	}
	type job struct {
		ops      []c12Op
		trace    []string
		closed   []int
		findings []MonitorFinding
		packet   bool
	}
	jobs := make([]*job, n+n/2)
	for i := range jobs {
		nops := r.Range(3, 14)
		var ops []c12Op
		if r.Chance(25) {
			ops = append(ops, c12Op{Kind: "failacquire"})
		}
		ops = append(ops, c12Op{Kind: "acquire"})
		nh := 1
		for j := 0; j < nops; j++ {
			switch c := r.Intn(100); {
			case c < 6:
				ops = append(ops, c12Op{Kind: "failacquire"})
			case c < 15 && nh < 5:
				ops = append(ops, c12Op{Kind: "acquire"})
				nh++
			case c < 45:
				ops = append(ops, c12Op{Kind: "dial"})
			case c < 80:
				ops = append(ops, c12Op{Kind: "accept", H: r.Intn(nh)})
			default:
				ops = append(ops, c12Op{Kind: "close", H: r.Intn(nh)})
			}
		}
		if r.Chance(35) {
			// hand-over shape: several handles with calls pending, one of them closes, then traffic
			k := r.Range(2, 4)
			ops = nil
			for h := 0; h < k; h++ {
				ops = append(ops, c12Op{Kind: "acquire"})
			}
			for h := 0; h < k; h++ {
				if r.Chance(85) {
					ops = append(ops, c12Op{Kind: "accept", H: h})
				}
			}
			ops = append(ops, c12Op{Kind: "close", H: r.Intn(k)})
			for j := r.Range(1, 4); j > 0; j-- {
				ops = append(ops, c12Op{Kind: "dial"})
				if r.Bool() {
					ops = append(ops, c12Op{Kind: "accept", H: r.Intn(k)})
				}
			}
		}
		jobs[i] = &job{ops: ops, packet: i >= n} // the last third runs on the packet side
	}
	var wg sync.WaitGroup
	sem := make(chan struct{}, 12)
	for _, j := range jobs {
		wg.Add(1)
		sem <- struct{}{}
		go func(j *job) {
			defer wg.Done()
			defer func() { <-sem }()
			if j.packet {
				j.trace, j.closed, j.findings = runC12PacketTrace(j.ops)
			} else {
				j.trace, j.closed, j.findings = runC12Stream(j.ops)
			}
		}(j)
	}
	wg.Wait()
	var terms []string
	shard := 0
	for i, j := range jobs {
		ops, trace, finalClosed := j.ops, j.trace, j.closed
		for _, f := range j.findings {
			ctx.Monitor(f.Signature, f.What, f.Case)
		}
		for _, op := range ops {
			if j.packet {
				ctx.Count("packet-op:" + op.Kind)
			} else {
				ctx.Count("op:" + op.Kind)
			}
		}
		nd := 0
		for _, t := range trace {
			if len(t) > 8 && t[:8] == "ODeliver" {
				nd++
				if j.packet {
					ctx.Count("packet-delivered")
				} else {
					ctx.Count("delivered")
				}
			}
		}
		ctx.CountN("server-closed-undelivered", len(finalClosed))
		if nd > 0 {
			ctx.NonTrivial(fmt.Sprint(j.packet, ops))
		}
		var fc []string
		for _, c := range finalClosed {
			fc = append(fc, fmt.Sprint(c))
		}
		terms = append(terms, fmt.Sprintf("{| c_trace := %s; c_final_closed := %s |}", cListT("obs", trace), cListT("N", fc)))
		ctx.Stats.Cases++
		if i < 2 {
			ctx.Sample(map[string]interface{}{"ops": ops, "trace": trace, "server_closed": finalClosed})
		}
		if len(terms) >= 12 {
			ctx.WriteCases(shard, "Corr.C12", "case", terms)
			shard++
			terms = nil
		}
	}
	if len(terms) > 0 {
		ctx.WriteCases(shard, "Corr.C12", "case", terms)
	}
	// goroutine census: a few cases one at a time
	c12Census = true
	for i := 0; i < 8 && i < len(jobs); i++ {
		_, _, fs := runC12Stream(jobs[i].ops)
		for _, f := range fs {
			if f.Signature == "C12/goroutine-leak" {
				ctx.Monitor(f.Signature, f.What, f.Case)
			}
		}
		ctx.Count("census:runs")
	}
	c12Census = false
	pk := 25
	if ctx.Thorough() {
		pk = 300
	}
	c12PacketConcurrentReads(ctx)
	managerCrossKind(ctx, "C12")
	for i := 0; i < pk; i++ {
		fs, st := runC12Packet(r)
		for _, f := range fs {
			ctx.Monitor(f.Signature, f.What, f.Case)
		}
		for k, v := range st {
			ctx.CountN(k, v)
		}
		ctx.Count("packet:runs")
	}
}

// managerCrossKind: a stream listener and a packet listener on the SAME address string in one
// manager. Releasing the last handle of one kind must not disturb the other kind: its open handles
// keep sharing one socket, a further acquisition succeeds, and afterwards both kinds can be
// acquired again.
func managerCrossKind(ctx *Ctx, prop string) {
	for round := 0; round < 4; round++ {
		mgr := service.NewListenerManager()
		addr := fmt.Sprintf("127.0.0.1:%d", freeLowPorts(1))
		fail := func(what string, err error) {
			ctx.Monitor(prop+"/cross-kind-sharing-broken", fmt.Sprintf("stream and packet listeners on %s in one manager: %s: %v", addr, what, err), map[string]interface{}{"round": round})
		}
		done := make(chan struct{})
		go func() {
			defer close(done)
			s1, err := mgr.ListenStream(addr)
			if err != nil {
				fail("first ListenStream", err)
				return
			}
			p1, err := mgr.ListenPacket(addr)
			if err != nil {
				fail("first ListenPacket", err)
				s1.Close()
				return
			}
			if round%2 == 0 {
				s1.Close() // the last stream handle goes while a packet handle is open
				p2, err := mgr.ListenPacket(addr)
				if err != nil {
					fail("ListenPacket after the last stream handle of the address was closed (a packet handle is still open)", err)
				} else {
					p2.Close()
				}
				p1.Close()
			} else {
				p1.Close() // the last packet handle goes while a stream handle is open
				s2, err := mgr.ListenStream(addr)
				if err != nil {
					fail("ListenStream after the last packet handle of the address was closed (a stream handle is still open)", err)
				} else {
					s2.Close()
				}
				s1.Close()
			}
			// everything is released: both kinds can be had again
			s3, err := mgr.ListenStream(addr)
			if err != nil {
				fail("ListenStream after everything was released", err)
			} else {
				s3.Close()
			}
			p3, err := mgr.ListenPacket(addr)
			if err != nil {
				fail("ListenPacket after everything was released", err)
			} else {
				p3.Close()
			}
		}()
		select {
		case <-done:
		case <-time.After(5 * time.Second):
			ctx.Monitor(prop+"/call-never-returned:cross-kind", "a Listen or Close call on a manager with stream and packet listeners on one address did not return within 5 s", nil)
			return
		}
		ctx.Count("cross-kind:rounds")
	}
}
