package main

// Whole-server scenarios for C09, C10, C11 (and the cross-service / cross-reload part of C07):
// the harness generates a history of configuration files (valid ones, and ones failing at
// every stage of loading), runs /repo's real package main through the build-tagged scenario
// driver (cmd/outline-ss-server/verif_driver_test.go), and after every step probes every
// (listener, key) pair over TCP and UDP and the listening state of every address of the pool.
// The same history goes to the Coq model (theories/Config.v) through Corr/Cfg.v.

import (
	"bufio"
	"bytes"
	"encoding/json"
	"fmt"
	"io"
	"net"
	"os"
	"os/exec"
	"path/filepath"
	"sort"
	"strings"
	"sync"
	"sync/atomic"
	"time"

	"github.com/Jigsaw-Code/outline-sdk/transport/shadowsocks"
)

type cfgKeyC struct {
	ID     string `json:"id"`
	Cipher int    `json:"cipher"` // 0..3 valid, 9 = unknown cipher name
	Secret int    `json:"secret"`
}
type cfgListener struct {
	Type    int  `json:"type"` // 0 tcp 1 udp 2 unsupported
	Addr    int  `json:"addr"` // index in the address pool
	NotIP   bool `json:"not_ip,omitempty"`
	legacyP int  // for pool entries of legacy ports: the port
}
type cfgSvc struct {
	Ls   []cfgListener `json:"listeners"`
	Keys []cfgKeyC     `json:"keys"`
}
type cfgLegacy struct {
	Key  cfgKeyC `json:"key"`
	Port int     `json:"port"` // index in the legacy port pool
}
type cfgFile struct {
	Kind    int         `json:"kind"` // 0 config 1 unreadable 2 malformed
	Svcs    []cfgSvc    `json:"services,omitempty"`
	Legacy  []cfgLegacy `json:"legacy,omitempty"`
	Prebind []int       `json:"prebind,omitempty"` // pool lkey indices the harness holds during the step
	Fault   string      `json:"fault,omitempty"`
}

// an observable listener: protocol + address
type lkey struct {
	Proto  int // 0 tcp 1 udp
	Addr   int // pool index, or -1 for legacy
	Legacy int // legacy pool index when Addr == -1
}

type cfgPool struct {
	addrs  []string // service listener addresses
	lports []int    // legacy ports
	lkeys  []lkey
}

func (p *cfgPool) dialAddr(l lkey) string {
	if l.Addr >= 0 {
		return p.addrs[l.Addr]
	}
	return fmt.Sprintf("127.0.0.1:%d", p.lports[l.Legacy])
}
func (p *cfgPool) coqLkey(l lkey) string {
	t := "LTcp"
	if l.Proto == 1 {
		t = "LUdp"
	}
	if l.Addr >= 0 {
		return fmt.Sprintf("(%s,%d)", t, l.Addr)
	}
	return fmt.Sprintf("(%s,%d)", t, 1000000+p.lports[l.Legacy])
}

var cfgPortBlock int64

// allocPool finds a block of ports (outside the ephemeral range) free for both TCP and UDP.
func allocPool(nAddrs, nLegacy int) *cfgPool {
	for try := 0; try < 400; try++ {
		blk := (int64(os.Getpid())*37 + atomic.AddInt64(&cfgPortBlock, 1)) % 1200
		base := 10000 + int(blk)*16
		ok := true
		var hold []io.Closer
		for i := 0; i < nAddrs+nLegacy && ok; i++ {
			l, err := net.Listen("tcp", fmt.Sprintf(":%d", base+i))
			if err != nil {
				ok = false
				break
			}
			hold = append(hold, l)
			u, err := net.ListenPacket("udp", fmt.Sprintf(":%d", base+i))
			if err != nil {
				ok = false
				break
			}
			hold = append(hold, u)
		}
		for _, h := range hold {
			h.Close()
		}
		if !ok {
			continue
		}
		p := &cfgPool{}
		for i := 0; i < nAddrs; i++ {
			if i == 2 {
				p.addrs = append(p.addrs, fmt.Sprintf("[::1]:%d", base+i))
			} else {
				p.addrs = append(p.addrs, fmt.Sprintf("127.0.0.1:%d", base+i))
			}
		}
		for i := 0; i < nLegacy; i++ {
			p.lports = append(p.lports, base+nAddrs+i)
		}
		for pr := 0; pr < 2; pr++ {
			for i := range p.addrs {
				p.lkeys = append(p.lkeys, lkey{pr, i, 0})
			}
			for i := range p.lports {
				p.lkeys = append(p.lkeys, lkey{pr, -1, i})
			}
		}
		return p
	}
	panic("no free port block")
}

func secretOf(i int) string { return fmt.Sprintf("verif-secret-%d", i) }

func (p *cfgPool) yaml(f *cfgFile) string {
	if f.Kind == 2 {
		return "services:\n  - listeners: [ {type: tcp\n keys: ]]\n"
	}
	var b strings.Builder
	if len(f.Svcs) > 0 {
		b.WriteString("services:\n")
		for _, s := range f.Svcs {
			b.WriteString("  - listeners:\n")
			for _, l := range s.Ls {
				ty := []string{"tcp", "udp", "quic"}[l.Type]
				if l.Type == 2 { // unsupported: an unknown type, or a known one in another letter case
					ty = []string{"quic", "TCP", "Udp", "UDP"}[(l.Addr+len(s.Ls))%4]
				}
				addr := p.addrs[l.Addr]
				if l.NotIP {
					_, port, _ := net.SplitHostPort(addr)
					addr = "localhost:" + port
				}
				fmt.Fprintf(&b, "      - type: %s\n        address: \"%s\"\n", ty, addr)
			}
			if len(s.Ls) == 0 {
				b.WriteString("      []\n")
			}
			b.WriteString("    keys:\n")
			for _, k := range s.Keys {
				fmt.Fprintf(&b, "      - id: %s\n        cipher: %s\n        secret: %s\n", k.ID, cipherName(k.Cipher), secretOf(k.Secret))
			}
			if len(s.Keys) == 0 {
				b.WriteString("      []\n")
			}
		}
	}
	if len(f.Legacy) > 0 {
		b.WriteString("keys:\n")
		for _, lk := range f.Legacy {
			fmt.Fprintf(&b, "  - id: %s\n    port: %d\n    cipher: %s\n    secret: %s\n", lk.Key.ID, p.lports[lk.Port], cipherName(lk.Key.Cipher), secretOf(lk.Key.Secret))
		}
	}
	return b.String()
}
func cipherName(c int) string {
	if c >= 0 && c < 4 {
		return cipherNames[c]
	}
	return "rot13-not-a-cipher"
}

// ---- the independent Go oracle of the properties (what the configuration says) -------------
type probeKey struct{ Cipher, Secret int }

// expected: for a VALID, started configuration, who owns each listener and which id each key gets
func (p *cfgPool) expectedTable(f *cfgFile) map[lkey][]cfgKeyC {
	t := map[lkey][]cfgKeyC{}
	for _, lg := range f.Legacy {
		for pr := 0; pr < 2; pr++ {
			k := lkey{pr, -1, lg.Port}
			t[k] = append(t[k], lg.Key)
		}
	}
	for _, s := range f.Svcs {
		for _, l := range s.Ls {
			t[lkey{l.Type, l.Addr, 0}] = s.Keys
		}
	}
	return t
}
func expectedID(keys []cfgKeyC, pk probeKey) (string, bool) {
	for _, k := range keys {
		if k.Cipher == pk.Cipher && k.Secret == pk.Secret {
			return k.ID, true
		}
	}
	return "", false
}

// static prediction of whether a configuration loads (used only to choose timeouts and by the
// monitors; the Coq model is the correspondence oracle)
func (p *cfgPool) predictErr(f *cfgFile, serving map[lkey]bool, prebound map[lkey]bool) int {
	if f.Kind != 0 {
		return 1
	}
	seen := map[lkey]bool{}
	for _, s := range f.Svcs {
		for _, l := range s.Ls {
			if l.Type == 2 || l.NotIP {
				return 2
			}
			k := lkey{l.Type, l.Addr, 0}
			if seen[k] {
				return 2
			}
			seen[k] = true
		}
	}
	for _, lg := range f.Legacy {
		if lg.Key.Cipher > 3 {
			return 3
		}
	}
	for _, lg := range f.Legacy {
		for pr := 0; pr < 2; pr++ {
			if prebound[lkey{pr, -1, lg.Port}] {
				return 4
			}
		}
	}
	for _, s := range f.Svcs {
		sk := map[probeKey]bool{}
		for _, k := range s.Keys {
			if sk[probeKey{k.Cipher, k.Secret}] {
				continue
			}
			if k.Cipher > 3 {
				return 3
			}
			sk[probeKey{k.Cipher, k.Secret}] = true
		}
		for _, l := range s.Ls {
			if prebound[lkey{l.Type, l.Addr, 0}] {
				return 4
			}
		}
	}
	return 0
}

// ---- the driver process -----------------------------------------------------------------
type driverStep struct {
	Op     string `json:"op"`
	Config string `json:"config,omitempty"`
	Replay int    `json:"replay_history,omitempty"`
	Ms     int    `json:"ms,omitempty"`
}
type driverObs struct {
	Op         string `json:"op"`
	Err        string `json:"err"`
	Goroutines int    `json:"goroutines"`
}
type driverEvent struct {
	Kind   string `json:"kind"`
	Conn   int    `json:"conn"`
	Local  string `json:"local"`
	Client string `json:"client"`
	Key    string `json:"key"`
	Status string `json:"status"`
}
type driver struct {
	cmd  *exec.Cmd
	conn net.Conn
	enc  *json.Encoder
	dec  *json.Decoder
	out  *bytes.Buffer
	dir  string
	dead chan struct{}
}

func startDriver(dir string, steps []driverStep) (*driver, error) {
	exe := os.Getenv("VERIF_DRIVER")
	if exe == "" {
		return nil, fmt.Errorf("VERIF_DRIVER not set")
	}
	if abs, err := filepath.Abs(dir); err == nil {
		dir = abs
	}
	os.MkdirAll(dir, 0o755)
	os.Remove(filepath.Join(dir, "control.addr"))
	b, _ := json.Marshal(steps)
	script := filepath.Join(dir, "script.json")
	if err := os.WriteFile(script, b, 0o644); err != nil {
		return nil, err
	}
	cmd := exec.Command(exe, "-test.run", "^TestVerifDriver$", "-test.timeout", "600s")
	cmd.Dir = dir
	cmd.Env = append(os.Environ(), "VERIF_SCRIPT="+script)
	d := &driver{cmd: cmd, out: &bytes.Buffer{}, dir: dir, dead: make(chan struct{})}
	cmd.Stdout, cmd.Stderr = d.out, d.out
	if err := cmd.Start(); err != nil {
		return nil, err
	}
	go func() { cmd.Wait(); close(d.dead) }()
	for i := 0; i < 600; i++ {
		if a, err := os.ReadFile(filepath.Join(dir, "control.addr")); err == nil && len(a) > 0 {
			c, err := net.Dial("tcp", string(a))
			if err == nil {
				d.conn, d.enc, d.dec = c, json.NewEncoder(c), json.NewDecoder(bufio.NewReader(c))
				return d, nil
			}
		}
		select {
		case <-d.dead:
			return nil, fmt.Errorf("driver exited: %s", tailStr(d.out.String(), 2000))
		case <-time.After(20 * time.Millisecond):
		}
	}
	cmd.Process.Kill()
	return nil, fmt.Errorf("driver did not come up: %s", tailStr(d.out.String(), 2000))
}
func (d *driver) readObs() (driverObs, error) {
	var o driverObs
	d.conn.SetReadDeadline(time.Now().Add(120 * time.Second))
	err := d.dec.Decode(&o)
	return o, err
}
func (d *driver) events() []driverEvent {
	d.enc.Encode(map[string]string{"cmd": "events"})
	var evs []driverEvent
	d.conn.SetReadDeadline(time.Now().Add(60 * time.Second))
	d.dec.Decode(&evs)
	return evs
}
func (d *driver) goroutines() int {
	d.enc.Encode(map[string]string{"cmd": "goroutines"})
	var n int
	d.conn.SetReadDeadline(time.Now().Add(60 * time.Second))
	d.dec.Decode(&n)
	return n
}
func (d *driver) goOn() { d.enc.Encode(map[string]string{"cmd": "go"}) }
func (d *driver) kill() {
	if d.conn != nil {
		d.conn.Close()
	}
	select {
	case <-d.dead:
	case <-time.After(3 * time.Second):
		d.cmd.Process.Kill()
		<-d.dead
	}
}
func (d *driver) crashed() (bool, string) {
	select {
	case <-d.dead:
		out := d.out.String()
		if strings.Contains(out, "driver done") && !strings.Contains(out, "panic:") {
			return false, ""
		}
		return true, tailStr(out, 3000)
	default:
		return false, ""
	}
}

// ---- echo targets on the "public" local address --------------------------------------------
type cfgTargets struct {
	tcp     net.Listener
	udp     net.PacketConn
	tcpAddr []byte // SOCKS address
	udpAddr []byte
	gate    chan struct{} // closed to release held replies
	gateMu  sync.Mutex
	dialed  int64
	got     sync.Map // tag of a 'T' connection -> total bytes the target received on it (int)
}

func socks4(ip net.IP, port int) []byte {
	return append(append([]byte{1}, ip.To4()...), byte(port>>8), byte(port))
}
func newCfgTargets() (*cfgTargets, error) {
	if !ensureLocalAddrs()["203.0.113.77"] {
		return nil, fmt.Errorf("public test address 203.0.113.77 cannot be bound on lo")
	}
	t := &cfgTargets{gate: make(chan struct{})}
	var err error
	if t.tcp, err = net.Listen("tcp", "203.0.113.77:0"); err != nil {
		return nil, err
	}
	if t.udp, err = net.ListenPacket("udp", "203.0.113.77:0"); err != nil {
		return nil, err
	}
	ip := net.ParseIP("203.0.113.77")
	t.tcpAddr = socks4(ip, t.tcp.Addr().(*net.TCPAddr).Port)
	t.udpAddr = socks4(ip, t.udp.LocalAddr().(*net.UDPAddr).Port)
	go func() {
		for {
			c, err := t.tcp.Accept()
			if err != nil {
				return
			}
			atomic.AddInt64(&t.dialed, 1)
			go t.serve(c)
		}
	}()
	go func() {
		buf := make([]byte, 65536)
		for {
			n, a, err := t.udp.ReadFrom(buf)
			if err != nil {
				return
			}
			t.udp.WriteTo(buf[:n], a)
		}
	}()
	return t, nil
}

// echo; a connection whose first byte is 'H' holds everything it has to say until the client
// has half-closed AND the gate is released, then replies with all it received and closes
func (t *cfgTargets) serve(c net.Conn) {
	defer c.Close()
	buf := make([]byte, 32768)
	n, err := c.Read(buf)
	if n == 0 || err != nil {
		return
	}
	if buf[0] == 'T' {
		// the target finishes first: it says its piece, half-closes, and keeps reading whatever the
		// client still uploads; the total is published under the connection's tag when the client ends
		tag := string(buf[:n])
		if i := bytes.IndexByte(buf[:n], '|'); i > 0 {
			tag = string(buf[:i])
		}
		c.Write([]byte("fin-first"))
		c.(*net.TCPConn).CloseWrite()
		total := n
		for {
			m, err := c.Read(buf)
			total += m
			if err != nil {
				break
			}
		}
		t.got.Store(tag, total)
		return
	}
	if buf[0] == 'H' {
		all := append([]byte{}, buf[:n]...)
		rest, _ := io.ReadAll(c)
		all = append(all, rest...)
		t.gateMu.Lock()
		g := t.gate
		t.gateMu.Unlock()
		<-g
		c.Write(all)
		return
	}
	c.Write(buf[:n])
	for {
		n, err := c.Read(buf)
		if n > 0 {
			c.Write(buf[:n])
		}
		if err != nil {
			return
		}
	}
}
func (t *cfgTargets) release() {
	t.gateMu.Lock()
	close(t.gate)
	t.gate = make(chan struct{})
	t.gateMu.Unlock()
}
func (t *cfgTargets) close() { t.tcp.Close(); t.udp.Close() }

// ---- probes --------------------------------------------------------------------------------
var keyCache sync.Map

func encKey(pk probeKey) *shadowsocks.EncryptionKey {
	if v, ok := keyCache.Load(pk); ok {
		return v.(*shadowsocks.EncryptionKey)
	}
	k, err := shadowsocks.NewEncryptionKey(cipherNames[pk.Cipher], secretOf(pk.Secret))
	if err != nil {
		panic(err)
	}
	keyCache.Store(pk, k)
	return k
}

// tcpHandshake builds salt + one sealed chunk holding the target address and the payload
func tcpHandshake(pk probeKey, salt []byte, target []byte, payload []byte) []byte {
	var b bytes.Buffer
	w := shadowsocks.NewWriter(&b, encKey(pk))
	if salt != nil {
		w.SetSaltGenerator(fixedSalt(salt))
	}
	w.Write(append(append([]byte{}, target...), payload...))
	return b.Bytes()
}

type tcpProbeRes struct {
	Refused bool
	Local   string
	Echo    bool // got its payload back, decrypted with the same key
	Err     string
}

// probeTCP: connect, send the handshake + payload, half-close, read to EOF.
func probeTCP(addr string, pk probeKey, wire []byte, payload []byte) (r tcpProbeRes) {
	c, err := net.DialTimeout("tcp", addr, 5*time.Second)
	if err != nil {
		r.Refused = true
		r.Err = err.Error()
		return
	}
	defer c.Close()
	r.Local = c.LocalAddr().String()
	c.SetDeadline(time.Now().Add(20 * time.Second))
	if _, err := c.Write(wire); err != nil {
		r.Err = "write: " + err.Error()
	}
	c.(*net.TCPConn).CloseWrite()
	got, err := io.ReadAll(shadowsocks.NewReader(c, encKey(pk)))
	if err != nil && len(got) == 0 {
		r.Err = "read: " + err.Error()
	}
	r.Echo = bytes.Equal(got, payload)
	if !r.Echo && len(got) > 0 {
		r.Err = fmt.Sprintf("echo differs: %d bytes", len(got))
	}
	return
}

type udpProbeRes struct {
	Local   string
	Replies int
	Err     string
}

// probeUDP: one datagram from a fresh socket; waits [wait] for the reply and then a little
// longer for a duplicate.
func probeUDP(addr string, pk probeKey, target []byte, payload []byte, wait time.Duration) (r udpProbeRes) {
	ra, err := net.ResolveUDPAddr("udp", addr)
	if err != nil {
		r.Err = err.Error()
		return
	}
	c, err := net.DialUDP("udp", nil, ra)
	if err != nil {
		r.Err = err.Error()
		return
	}
	defer c.Close()
	r.Local = c.LocalAddr().String()
	key := encKey(pk)
	salt := make([]byte, key.SaltSize())
	copy(salt, []byte(fmt.Sprintf("%x", time.Now().UnixNano())))
	pkt := sealDgram(key, salt, append(append([]byte{}, target...), payload...))
	if _, err := c.Write(pkt); err != nil {
		r.Err = "write: " + err.Error()
		return
	}
	buf := make([]byte, 65536)
	deadline := time.Now().Add(wait)
	for {
		c.SetReadDeadline(deadline)
		n, err := c.Read(buf)
		if err != nil {
			if ne, ok := err.(net.Error); !ok || !ne.Timeout() {
				r.Err = "read: " + err.Error() // ICMP port unreachable: nobody listens
			}
			return
		}
		pt, err := shadowsocks.Unpack(nil, buf[:n], key)
		if err != nil || !bytes.HasSuffix(pt, payload) {
			r.Err = "bad reply"
			continue
		}
		r.Replies++
		deadline = time.Now().Add(60 * time.Millisecond) // a duplicate would follow at once
	}
}

// isBound: the address cannot be bound by us => somebody (the server) holds it
func isBound(proto int, addr string) bool {
	if proto == 0 {
		l, err := net.Listen("tcp", addr)
		if err != nil {
			return true
		}
		l.Close()
		return false
	}
	pc, err := net.ListenPacket("udp", addr)
	if err != nil {
		return true
	}
	pc.Close()
	return false
}

// ---- one step's observation ----------------------------------------------------------------
type cfgStepObs struct {
	ErrClass int        `json:"err_class"`
	Stage    int        `json:"refusal_expected_at_stage"` // 0: the file is a configuration the server can serve; else the stage at which it must be refused
	Err      string     `json:"err,omitempty"`
	Listen   []bool     `json:"listen"`
	Auth     [][]string `json:"auth"` // per pool lkey, per probe key: "" = refused/none, else the id
	Skipped  []bool     `json:"skipped"`
	Hammered []bool     `json:"hammered"`
	Refused  []int      `json:"refused"`
	Gor      int        `json:"goroutines"`
}

func classifyErr(e string) int {
	switch {
	case e == "":
		return 0
	case strings.Contains(e, "failed to read config file"), strings.Contains(e, "failed to load config"):
		return 1
	case strings.Contains(e, "failed to validate config"):
		return 2
	case strings.Contains(e, "failed to create encyption key"), strings.Contains(e, "failed to create cipher list"):
		return 3
	default:
		return 4
	}
}

type cfgRun struct {
	ctx    *Ctx
	pool   *cfgPool
	tg     *cfgTargets
	d      *driver
	keys   []probeKey
	probeN int64
	finds  []MonitorFinding
	mu     sync.Mutex
}

func (r *cfgRun) find(sig, what string, cs interface{}) {
	r.mu.Lock()
	r.finds = append(r.finds, MonitorFinding{sig, what, cs})
	r.mu.Unlock()
}

// observe probes the whole (listener, key) matrix. expect (may be nil) only picks timeouts.
func (r *cfgRun) observe(skip map[lkey]bool, expect map[lkey][]cfgKeyC) ([]bool, [][]string, []bool, string) {
	p := r.pool
	n := len(p.lkeys)
	listen := make([]bool, n)
	auth := make([][]string, n)
	skipped := make([]bool, n)
	type pr struct {
		li, ki int
		tcp    tcpProbeRes
		udp    udpProbeRes
		echo   bool
	}
	var res []*pr
	var wg sync.WaitGroup
	sem := make(chan struct{}, 48)
	for li, l := range p.lkeys {
		auth[li] = make([]string, len(r.keys))
		if skip[l] {
			skipped[li] = true
			continue
		}
		listen[li] = isBound(l.Proto, p.dialAddr(l))
		if l.Addr < 0 { // legacy ":port" binds every interface: check the wildcard too
			listen[li] = listen[li] || isBound(l.Proto, fmt.Sprintf(":%d", p.lports[l.Legacy]))
		}
		if !listen[li] {
			if l.Proto == 0 { // and nobody accepts there either
				if c, err := net.DialTimeout("tcp", p.dialAddr(l), time.Second); err == nil {
					c.Close()
					listen[li] = true
				}
			}
			if !listen[li] {
				continue
			}
		}
		for ki, k := range r.keys {
			x := &pr{li: li, ki: ki}
			res = append(res, x)
			wg.Add(1)
			go func(l lkey, k probeKey) {
				defer wg.Done()
				sem <- struct{}{}
				defer func() { <-sem }()
				payload := []byte(fmt.Sprintf("probe-%d-%d", os.Getpid(), atomic.AddInt64(&r.probeN, 1)))
				if l.Proto == 0 {
					x.tcp = probeTCP(p.dialAddr(l), k, tcpHandshake(k, nil, r.tg.tcpAddr, payload), payload)
					x.echo = x.tcp.Echo
				} else {
					wait := 300 * time.Millisecond
					if expect != nil {
						if _, ok := expectedID(expect[l], k); ok {
							wait = 4 * time.Second
						}
					}
					// every other datagram is as short as a valid one gets (a 2-byte payload)
					if n := atomic.LoadInt64(&r.probeN); n%2 == 0 {
						payload = []byte{byte('a' + n%26), byte('a' + (n/26)%26)}
					}
					x.udp = probeUDP(p.dialAddr(l), k, r.tg.udpAddr, payload, wait)
					x.echo = x.udp.Replies > 0
					if x.udp.Replies > 1 {
						r.find("C11/datagram-handled-twice", fmt.Sprintf("%d replies to one datagram on %s", x.udp.Replies, p.dialAddr(l)), nil)
					}
				}
			}(l, k)
		}
	}
	wg.Wait()
	time.Sleep(30 * time.Millisecond)
	evs := r.d.events()
	openBy := map[string]int{}  // client addr|server addr -> conn (tcp)
	authKey := map[int]string{} // conn -> key
	udpKey := map[string]string{}
	opens := map[string]int{}
	for _, e := range evs {
		switch e.Kind {
		case "tcpopen":
			openBy[e.Client+"|"+e.Local] = e.Conn
			opens[e.Client+"|"+e.Local]++
		case "tcpauth":
			authKey[e.Conn] = e.Key
		case "udpadd":
			udpKey[e.Client] = e.Key
		}
	}
	var note string
	for _, x := range res {
		l := p.lkeys[x.li]
		id, has := "", false
		if l.Proto == 0 {
			if x.tcp.Refused {
				listen[x.li] = false
				continue
			}
			tuple := x.tcp.Local + "|" + p.dialAddr(l)
			if c, ok := openBy[tuple]; ok {
				id, has = authKey[c]
			}
			if opens[tuple] > 1 {
				r.find("C11/connection-handled-twice", fmt.Sprintf("%d handlers were started for one connection %s", opens[tuple], tuple), nil)
			}
		} else {
			id, has = udpKey[normUDP(x.udp.Local)]
		}
		if has != x.echo {
			note = fmt.Sprintf("listener %s key %v: authenticated=%v id=%q but echo=%v (%s%s)", p.dialAddr(l), r.keys[x.ki], has, id, x.echo, x.tcp.Err, x.udp.Err)
			auth[x.li][x.ki] = "?inconsistent"
			continue
		}
		if has {
			auth[x.li][x.ki] = id
		}
	}
	return listen, auth, skipped, note
}

// the server's UDP socket for "127.0.0.1:p" sees the client as 127.0.0.1:q; for legacy dual-stack
// sockets as [::ffff:127.0.0.1]:q — normalise
func normUDP(a string) string {
	ua, err := net.ResolveUDPAddr("udp", a)
	if err != nil {
		return a
	}
	if v4 := ua.IP.To4(); v4 != nil {
		ua.IP = v4
	}
	return ua.String()
}

// ---- generator -------------------------------------------------------------------------------
type cfgHistory struct {
	Files   []cfgFile  `json:"files"`
	Keys    []probeKey `json:"probe_keys"`
	Replay  int        `json:"replay_history"`
	NAddrs  int        `json:"n_addrs"`
	NLegacy int        `json:"n_legacy"`
}

func genKey(rng *Rng, idc *int) cfgKeyC {
	*idc++
	return cfgKeyC{ID: fmt.Sprintf("k%d", *idc), Cipher: rng.Intn(4), Secret: rng.Intn(5)}
}

func genConfig(rng *Rng, nAddrs, nLegacy int, idc *int) cfgFile {
	f := cfgFile{}
	nsv := rng.Intn(4)
	used := map[[2]int]bool{}
	for i := 0; i < nsv; i++ {
		s := cfgSvc{}
		nl := rng.Intn(4)
		for j := 0; j < nl; j++ {
			l := cfgListener{Type: rng.Intn(2), Addr: rng.Intn(nAddrs)}
			if used[[2]int{l.Type, l.Addr}] {
				continue
			}
			used[[2]int{l.Type, l.Addr}] = true
			s.Ls = append(s.Ls, l)
		}
		nk := 1 + rng.Intn(3)
		for j := 0; j < nk; j++ {
			k := genKey(rng, idc)
			if j > 0 && rng.Chance(30) { // same cipher+secret again under another ID
				k.Cipher, k.Secret = s.Keys[0].Cipher, s.Keys[0].Secret
			} else if j > 0 && rng.Chance(25) { // another key under an ID the service already uses (IDs need not be unique)
				k.ID = s.Keys[0].ID
			}
			s.Keys = append(s.Keys, k)
		}
		f.Svcs = append(f.Svcs, s)
	}
	if rng.Chance(45) {
		nk := 1 + rng.Intn(3)
		for j := 0; j < nk; j++ {
			k := genKey(rng, idc)
			if j > 0 && rng.Chance(30) {
				k.Cipher, k.Secret = f.Legacy[0].Key.Cipher, f.Legacy[0].Key.Secret
			}
			f.Legacy = append(f.Legacy, cfgLegacy{k, rng.Intn(nLegacy)})
		}
	}
	return f
}

var faultTurn int64

// mutate a valid configuration into one failing at a chosen stage
func injectFault(rng *Rng, f *cfgFile, nAddrs int, idc *int, cur map[lkey]bool) {
	ensureSvc := func() *cfgSvc {
		if len(f.Svcs) == 0 {
			f.Svcs = append(f.Svcs, cfgSvc{Keys: []cfgKeyC{genKey(rng, idc)}})
		}
		return &f.Svcs[rng.Intn(len(f.Svcs))]
	}
	// every kind of fault comes up in turn (a run of a dozen histories sees each several times)
	kind := int(atomic.AddInt64(&faultTurn, 1)) % 8
	switch kind {
	case 0:
		*f = cfgFile{Kind: 1, Fault: "unreadable"}
	case 1:
		*f = cfgFile{Kind: 2, Fault: "malformed"}
	case 2:
		s := ensureSvc()
		s.Ls = append(s.Ls, cfgListener{Type: 2, Addr: rng.Intn(nAddrs)})
		f.Fault = "bad-type"
	case 3:
		s := ensureSvc()
		s.Ls = append(s.Ls, cfgListener{Type: rng.Intn(2), Addr: rng.Intn(nAddrs), NotIP: true})
		f.Fault = "not-ip"
	case 4: // duplicate listener, possibly across services
		var all []cfgListener
		for _, s := range f.Svcs {
			all = append(all, s.Ls...)
		}
		s := ensureSvc()
		if len(all) == 0 {
			l := cfgListener{Type: rng.Intn(2), Addr: rng.Intn(nAddrs)}
			s.Ls = append(s.Ls, l, l)
		} else {
			s.Ls = append(s.Ls, all[rng.Intn(len(all))])
		}
		f.Fault = "duplicate-listener"
	case 5: // bad cipher in the i-th service, at the j-th key
		s := ensureSvc()
		k := genKey(rng, idc)
		k.Cipher = 9
		k.Secret = 7
		pos := rng.Intn(len(s.Keys) + 1)
		s.Keys = append(s.Keys[:pos], append([]cfgKeyC{k}, s.Keys[pos:]...)...)
		f.Fault = "bad-cipher-service"
	case 6:
		if len(f.Legacy) == 0 {
			f.Legacy = append(f.Legacy, cfgLegacy{genKey(rng, idc), 0})
		}
		k := genKey(rng, idc)
		k.Cipher = 9
		k.Secret = 7
		f.Legacy = append(f.Legacy, cfgLegacy{k, f.Legacy[0].Port})
		f.Fault = "bad-cipher-legacy"
	case 7: // an address of the configuration that the server does not hold now is taken by someone else
		f.Fault = "prebound"
		f.Prebind = []int{-1} // resolved by the runner against the pool and what is serving then
	}
}

// ---- the scenario runner ------------------------------------------------------------------------
type cfgHistObs struct {
	Hist   *cfgHistory  `json:"history"`
	Steps  []cfgStepObs `json:"steps"`
	Final  cfgStepObs   `json:"after_stop"`
	Fatal  string       `json:"fatal,omitempty"`
	Crash  string       `json:"crash,omitempty"`
	Long   []string     `json:"long_lived,omitempty"`
	GorMax int          `json:"goroutines_after_stop"`
	Gor0   int          `json:"goroutines_before_start"`
}

type longConn struct {
	c       net.Conn
	r       io.Reader
	w       io.Writer
	kind    string // idle mid half
	l       lkey
	sent    []byte
	step    int
	pending []byte
}

func (r *cfgRun) openLong(l lkey, k probeKey, kind string, step int) *longConn {
	c, err := net.DialTimeout("tcp", r.pool.dialAddr(l), 3*time.Second)
	if err != nil {
		return nil
	}
	lc := &longConn{c: c, kind: kind, l: l, step: step}
	lc.r = shadowsocks.NewReader(c, encKey(k))
	w := shadowsocks.NewWriter(c, encKey(k))
	lc.w = w
	c.SetDeadline(time.Now().Add(60 * time.Second))
	first := []byte(fmt.Sprintf("E-long-%d", atomic.AddInt64(&r.probeN, 1)))
	if kind == "half" {
		first[0] = 'H'
	}
	if kind == "tfin" {
		first = []byte(fmt.Sprintf("T-long-%d-%d|", os.Getpid(), atomic.AddInt64(&r.probeN, 1)))
	}
	if _, err := w.Write(append(append([]byte{}, r.tg.tcpAddr...), first...)); err != nil {
		c.Close()
		return nil
	}
	switch kind {
	case "idle", "mid":
		buf := make([]byte, len(first))
		if _, err := io.ReadFull(lc.r, buf); err != nil || !bytes.Equal(buf, first) {
			c.Close()
			return nil
		}
	case "half":
		lc.pending = first
		c.(*net.TCPConn).CloseWrite()
		time.Sleep(20 * time.Millisecond)
	case "tfin":
		// the target half-closes first; the client has read its piece and the EOF, and keeps
		// its own direction open across the reload
		got, err := io.ReadAll(lc.r)
		if err != nil || string(got) != "fin-first" {
			c.Close()
			return nil
		}
		lc.pending = first
	}
	return lc
}

var lateIdleDone int32

// finish: after the reload the connection must still relay, to completion
func (r *cfgRun) finishLong(lc *longConn) string {
	defer lc.c.Close()
	lc.c.SetDeadline(time.Now().Add(20 * time.Second))
	switch lc.kind {
	case "idle", "mid":
		msg := []byte(fmt.Sprintf("after-reload-%d", atomic.AddInt64(&r.probeN, 1)))
		if lc.kind == "mid" {
			msg = bytes.Repeat(msg, 3000)
		}
		errc := make(chan error, 1)
		go func() { _, err := lc.w.Write(msg); errc <- err }()
		buf := make([]byte, len(msg))
		if _, err := io.ReadFull(lc.r, buf); err != nil {
			return fmt.Sprintf("%s connection opened before the reload no longer relays: %v", lc.kind, err)
		}
		if !bytes.Equal(buf, msg) {
			return lc.kind + " connection: relayed bytes differ after the reload"
		}
		<-errc
		lc.c.(*net.TCPConn).CloseWrite()
		if rest, err := io.ReadAll(lc.r); err != nil || len(rest) != 0 {
			return fmt.Sprintf("%s connection: unclean end after the reload: %v (%d stray bytes)", lc.kind, err, len(rest))
		}
	case "half":
		got, err := io.ReadAll(lc.r)
		if err != nil || !bytes.Equal(got, lc.pending) {
			return fmt.Sprintf("half-closed connection did not receive the target's reply after the reload: %v (%d of %d bytes)", err, len(got), len(lc.pending))
		}
	case "tfin":
		// upload after the reload on a connection whose target already finished
		up := bytes.Repeat([]byte{0x5a}, 30000)
		_, werr := lc.w.Write(up)
		lc.c.(*net.TCPConn).CloseWrite()
		tag := strings.TrimSuffix(string(lc.pending), "|")
		want := len(lc.pending) + len(up)
		total := -1
		for try := 0; try < 600; try++ {
			if v, ok := r.tg.got.Load(tag); ok {
				total = v.(int)
				break
			}
			time.Sleep(5 * time.Millisecond)
		}
		if total != want {
			return fmt.Sprintf("the target had half-closed before the reload; of the %d bytes the client uploaded afterwards the target received %d (write error: %v)", want, total, werr)
		}
	}
	return ""
}

type hammerStats struct {
	dials, refused, noauth int64
	udpSent, udpLost       int64
	firstBad               string
	badLocals              []string
	mu                     sync.Mutex
}

// hammer dials the retained listeners with retained keys until stopped
func (r *cfgRun) hammer(targets []hammerTarget, stop chan struct{}, hs []*hammerStats) *sync.WaitGroup {
	var wg sync.WaitGroup
	for i, t := range targets {
		workers := 2
		if t.l.Proto == 0 {
			workers = 5 // connections must keep arriving within the hand-over window
		}
		for w := 0; w < workers; w++ {
			wg.Add(1)
			go func(i int, t hammerTarget) {
				defer wg.Done()
				st := hs[i]
				for {
					select {
					case <-stop:
						return
					default:
					}
					payload := []byte(fmt.Sprintf("hammer-%d", atomic.AddInt64(&r.probeN, 1)))
					if t.l.Proto == 0 {
						res := probeTCP(r.pool.dialAddr(t.l), t.k, tcpHandshake(t.k, nil, r.tg.tcpAddr, payload), payload)
						atomic.AddInt64(&st.dials, 1)
						if res.Refused {
							if atomic.AddInt64(&st.refused, 1) == 1 {
								st.firstBad = res.Err
							}
						} else if !res.Echo {
							// judged after the step from the server's own record of this connection
							st.mu.Lock()
							st.badLocals = append(st.badLocals, res.Local+"|"+r.pool.dialAddr(t.l)+"|"+res.Err)
							st.mu.Unlock()
						}
					} else {
						res := probeUDP(r.pool.dialAddr(t.l), t.k, r.tg.udpAddr, payload, 3*time.Second)
						atomic.AddInt64(&st.udpSent, 1)
						if res.Replies == 0 {
							if atomic.AddInt64(&st.udpLost, 1) == 1 {
								st.firstBad = "datagram unanswered: " + res.Err
							}
						}
						if res.Replies > 1 {
							r.find("C11/datagram-handled-twice", fmt.Sprintf("%d replies to one datagram on %s during a reload", res.Replies, r.pool.dialAddr(t.l)), nil)
						}
					}
				}
			}(i, t)
		}
	}
	return &wg
}

type hammerTarget struct {
	l  lkey
	li int
	k  probeKey
}

func lkIndex(p *cfgPool, l lkey) int {
	for i, x := range p.lkeys {
		if x == l {
			return i
		}
	}
	return -1
}

// runCfgHistory executes one history against a fresh server process.
func runCfgHistory(ctx *Ctx, h *cfgHistory, dir string, withTraffic bool) (*cfgHistObs, *cfgPool, []MonitorFinding) {
	out := &cfgHistObs{Hist: h}
	pool := allocPool(h.NAddrs, h.NLegacy)
	tg, err := newCfgTargets()
	if err != nil {
		out.Fatal = err.Error()
		return out, pool, nil
	}
	defer tg.close()
	steps := []driverStep{{Op: "wait", Ms: 1}}
	for i := range h.Files {
		op := "reload"
		if i == 0 {
			op = "start"
		}
		cfg := pool.yaml(&h.Files[i])
		if h.Files[i].Kind == 1 {
			cfg = "<unreadable>"
		}
		steps = append(steps, driverStep{Op: op, Config: cfg, Replay: h.Replay})
	}
	steps = append(steps, driverStep{Op: "stop"}, driverStep{Op: "wait", Ms: 300})
	d, err := startDriver(dir, steps)
	if err != nil {
		out.Fatal = err.Error()
		return out, pool, nil
	}
	defer d.kill()
	r := &cfgRun{ctx: ctx, pool: pool, tg: tg, d: d, keys: h.Keys}
	ob, err := d.readObs() // the initial wait
	if err != nil {
		out.Fatal = "driver: " + err.Error()
		return out, pool, nil
	}
	out.Gor0 = ob.Goroutines
	serving := map[lkey][]cfgKeyC{} // Go oracle: what the last successful configuration serves
	var servingFile *cfgFile
	for i := range h.Files {
		f := &h.Files[i]
		// resolve and take the pre-bound addresses
		prebound := map[lkey]bool{}
		var held []io.Closer
		if len(f.Prebind) > 0 {
			f.Prebind = nil
			want := pool.expectedTable(f)
			var cands []lkey
			for l := range want {
				if _, cur := serving[l]; !cur {
					cands = append(cands, l)
				}
			}
			sort.Slice(cands, func(a, b int) bool { return lkIndex(pool, cands[a]) < lkIndex(pool, cands[b]) })
			if len(cands) > 0 {
				l := cands[(i*7+len(cands))%len(cands)]
				addr := pool.dialAddr(l)
				if l.Addr < 0 {
					addr = fmt.Sprintf(":%d", pool.lports[l.Legacy])
				}
				var c io.Closer
				var err error
				if l.Proto == 0 {
					c, err = net.Listen("tcp", addr)
				} else {
					c, err = net.ListenPacket("udp", addr)
				}
				if err == nil {
					held = append(held, c)
					prebound[l] = true
					f.Prebind = append(f.Prebind, lkIndex(pool, l))
				}
			}
			if len(f.Prebind) == 0 {
				f.Fault = ""
			}
		}
		servingSet := map[lkey]bool{}
		for l := range serving {
			servingSet[l] = true
		}
		predicted := pool.predictErr(f, servingSet, prebound)
		// long-lived connections and the hammer (C11)
		var longs []*longConn
		var hts []hammerTarget
		var hstats []*hammerStats
		var stopH chan struct{}
		var hwg *sync.WaitGroup
		if withTraffic && i > 0 && servingFile != nil {
			next := serving
			if predicted == 0 {
				next = pool.expectedTable(f)
			}
			kinds := []string{"idle", "mid", "half", "tfin"}
			n := 0
			for li, l := range pool.lkeys {
				keys, ok := serving[l]
				if !ok {
					continue
				}
				// a key valid now
				var kNow *probeKey
				for _, k := range keys {
					if k.Cipher <= 3 {
						kNow = &probeKey{k.Cipher, k.Secret}
						break
					}
				}
				if kNow != nil && l.Proto == 0 {
					if lc := r.openLong(l, *kNow, kinds[(n+i)%4], i); lc != nil {
						longs = append(longs, lc)
					} else {
						r.find("C11/long-lived-open-failed", "could not open a relayed connection on a serving listener "+pool.dialAddr(l), nil)
					}
					n++
				}
				// retained listener + retained key => hammer
				if nk, ok := next[l]; ok {
					for _, k := range keys {
						if _, both := expectedID(nk, probeKey{k.Cipher, k.Secret}); both && k.Cipher <= 3 {
							hts = append(hts, hammerTarget{l, li, probeKey{k.Cipher, k.Secret}})
							hstats = append(hstats, &hammerStats{})
							break
						}
					}
				}
			}
			stopH = make(chan struct{})
			hwg = r.hammer(hts, stopH, hstats)
			time.Sleep(30 * time.Millisecond)
		}
		d.goOn()
		ob, err := d.readObs()
		if err != nil {
			if cr, log := d.crashed(); cr {
				out.Crash = log
			} else {
				time.Sleep(200 * time.Millisecond)
				_, log := d.crashed()
				out.Crash = "driver stopped answering: " + err.Error() + "\n" + log
			}
			for _, c := range held {
				c.Close()
			}
			if stopH != nil {
				close(stopH)
			}
			return out, pool, r.finds
		}
		so := cfgStepObs{ErrClass: classifyErr(ob.Err), Err: ob.Err, Gor: ob.Goroutines, Stage: predicted}
		if stopH != nil {
			time.Sleep(60 * time.Millisecond) // keep hammering a little after the hand-over
			close(stopH)
			hwg.Wait()
		}
		if so.ErrClass == 0 && f.Kind == 0 {
			serving = pool.expectedTable(f)
			servingFile = f
		}
		var hev []driverEvent
		if stopH != nil {
			hev = d.events()
		}
		statusOf := func(tuple string) string {
			conn, s := -1, "no tcpopen event"
			for _, e := range hev {
				if e.Kind == "tcpopen" && e.Client+"|"+e.Local == tuple {
					conn, s = e.Conn, "accepted"
				}
				if conn >= 0 && e.Conn == conn && e.Kind == "tcpauth" {
					s += ", authenticated as " + e.Key
				}
				if conn >= 0 && e.Conn == conn && e.Kind == "tcpclosed" {
					s += ", closed with status " + e.Status
				}
			}
			return s
		}
		so.Hammered = make([]bool, len(pool.lkeys))
		so.Refused = make([]int, len(pool.lkeys))
		for j, t := range hts {
			st := hstats[j]
			so.Hammered[t.li] = true
			so.Refused[t.li] = int(st.refused)
			ctx.CountN("hammer_dials", int(st.dials+st.udpSent))
			if st.refused > 0 {
				r.find("C11/refused-on-retained-listener", fmt.Sprintf("step %d: %d of %d connection attempts to retained %s were refused during the reload (%s)", i, st.refused, st.dials, pool.dialAddr(t.l), st.firstBad), nil)
			}
			for _, bl := range st.badLocals {
				parts := strings.SplitN(bl, "|", 3)
				ss := statusOf(parts[0] + "|" + parts[1])
				if strings.Contains(ss, "authenticated as") && strings.Contains(ss, "ERR_CONNECT") {
					ctx.Count("aborted_mid_dial_by_reload") // StreamServe cancels the handlers' context when its listener closes: a connection still dialling its target is dropped (documented design; it did authenticate)
					continue
				}
				r.find("C11/retained-key-not-served", fmt.Sprintf("step %d: a connection with a key of both configurations on retained %s was not served during the reload (client saw: %q; server side: %s)", i, pool.dialAddr(t.l), parts[2], ss), nil)
			}
			if st.udpLost > 0 {
				r.find("C11/datagram-lost-on-retained-listener", fmt.Sprintf("step %d: %d of %d datagrams with a retained key on retained %s got no reply (%s)", i, st.udpLost, st.udpSent, pool.dialAddr(t.l), st.firstBad), nil)
			}
		}
		// long-lived connections continue to completion
		tg.release()
		for _, lc := range longs {
			ctx.Count("long_lived_" + lc.kind)
			if ctx.Thorough() && ctx.Stats.Property == "C11" && lc.kind == "idle" && atomic.CompareAndSwapInt32(&lateIdleDone, 0, 1) {
				// once per thorough run: the connection stays idle for longer than the server's read
				// timeout (59 s) after the reload and must still relay afterwards
				ctx.Count("long_lived_idle_62s_after_reload")
				time.Sleep(62 * time.Second)
			}
			if msg := r.finishLong(lc); msg != "" {
				out.Long = append(out.Long, msg)
				r.find("C11/relayed-connection-broken-by-reload:"+lc.kind, fmt.Sprintf("step %d on %s: %s", i, pool.dialAddr(lc.l), msg), nil)
			}
		}
		var note string
		so.Listen, so.Auth, so.Skipped, note = r.observe(prebound, serving)
		if note != "" {
			r.find("C09/inconsistent-observation", note, nil)
		}
		for _, c := range held {
			c.Close()
		}
		out.Steps = append(out.Steps, so)
		ctx.Count(fmt.Sprintf("step_err_class_%d", so.ErrClass))
		if f.Fault != "" {
			ctx.Count("fault_" + f.Fault)
		}
	}
	// stop
	d.goOn()
	if _, err := d.readObs(); err == nil {
		d.goOn()
		if ob2, err := d.readObs(); err == nil {
			out.GorMax = ob2.Goroutines
			fin := cfgStepObs{}
			fin.Listen, fin.Auth, fin.Skipped, _ = r.observe(nil, nil)
			out.Final = fin
			d.goOn()
		}
	}
	time.Sleep(50 * time.Millisecond)
	if cr, log := d.crashed(); cr {
		out.Crash = log
	}
	return out, pool, r.finds
}

// ---- monitors: the properties evaluated directly on the observations -------------------------------
func cfgMonitors(ctx *Ctx, o *cfgHistObs, pool *cfgPool) {
	h := o.Hist
	var serving map[lkey][]cfgKeyC
	var prev *cfgStepObs
	for i := range o.Steps {
		so := &o.Steps[i]
		f := &h.Files[i]
		if so.ErrClass == 0 && f.Kind == 0 {
			serving = pool.expectedTable(f)
		}
		// C10: only a configuration that can be served as a whole loads (one with a listener the
		// server cannot run, a bad key, an address it cannot bind ... is refused, at that stage)
		if so.ErrClass == 0 && so.Stage != 0 {
			ctx.Monitor(fmt.Sprintf("C10/unservable-configuration-loaded:%s", f.Fault), fmt.Sprintf("step %d: a file with the fault %q (to be refused at stage %d) was reported loaded", i, f.Fault, so.Stage), o)
		}
		// ... and a configuration that can be served does load (every address it names is free or
		// already held by this server)
		if so.ErrClass != 0 && so.Stage == 0 && f.Kind == 0 {
			ctx.Monitor(fmt.Sprintf("%s/servable-configuration-refused", ctx.Stats.Property), fmt.Sprintf("step %d: a configuration the server can serve was refused: %s", i, so.Err), o)
		}
		// C10: a failed step changes nothing observable
		if so.ErrClass != 0 && prev != nil {
			for li := range pool.lkeys {
				if so.Skipped[li] || prev.Skipped[li] {
					continue
				}
				if so.Listen[li] != prev.Listen[li] {
					ctx.Monitor(fmt.Sprintf("C10/failed-reload-changed-listening:%s", f.Fault), fmt.Sprintf("step %d (%s) failed with %q but %s went from listening=%v to %v", i, f.Fault, so.Err, pool.dialAddr(pool.lkeys[li]), prev.Listen[li], so.Listen[li]), o)
				}
				for ki := range h.Keys {
					if so.Auth[li][ki] != prev.Auth[li][ki] {
						ctx.Monitor(fmt.Sprintf("C10/failed-reload-changed-keys:%s", f.Fault), fmt.Sprintf("step %d (%s) failed but key %v on %s changed from %q to %q", i, f.Fault, h.Keys[ki], pool.dialAddr(pool.lkeys[li]), prev.Auth[li][ki], so.Auth[li][ki]), o)
					}
				}
			}
		}
		if so.ErrClass != 0 && prev == nil {
			for li := range pool.lkeys {
				if !so.Skipped[li] && so.Listen[li] {
					ctx.Monitor("C10/failed-start-left-listener", fmt.Sprintf("start failed with %q but %s is listening", so.Err, pool.dialAddr(pool.lkeys[li])), o)
				}
			}
		}
		// C09 / C10: the observable state is exactly that of the last configuration that loaded
		for li, l := range pool.lkeys {
			if so.Skipped[li] {
				continue
			}
			keys, owned := serving[l]
			if so.Listen[li] != owned {
				p := "C10"
				if so.ErrClass == 0 {
					p = "C09"
				}
				ctx.Monitor(fmt.Sprintf("%s/listening-differs-from-configuration", p), fmt.Sprintf("step %d: %s listening=%v but the serving configuration owns it=%v", i, pool.dialAddr(l), so.Listen[li], owned), o)
				ctx.Monitor("C10/listening-differs-from-last-good", fmt.Sprintf("step %d: %s listening=%v, last good configuration owns it=%v", i, pool.dialAddr(l), so.Listen[li], owned), o)
				continue
			}
			for ki, k := range h.Keys {
				want, _ := expectedID(keys, k)
				if so.Auth[li][ki] != want {
					what := fmt.Sprintf("step %d: key %v on %s: authenticated as %q, configuration says %q", i, k, pool.dialAddr(l), so.Auth[li][ki], want)
					cls := "wrong-id"
					if want == "" {
						cls = "foreign-key-accepted"
					} else if so.Auth[li][ki] == "" {
						cls = "own-key-refused"
					}
					ctx.Monitor("C09/"+cls, what, o)
					ctx.Monitor("C10/keys-differ-from-last-good:"+cls, what, o)
				}
			}
		}
		prev = so
	}
	// after Stop nothing listens
	for li, l := range pool.lkeys {
		if len(o.Final.Listen) > li && o.Final.Listen[li] {
			ctx.Monitor("C10/listening-after-stop", pool.dialAddr(l)+" still bound after Stop", o)
		}
	}
	if o.Crash != "" {
		ctx.Monitor("C10/server-crashed", tailStr(o.Crash, 1500), o)
		ctx.Monitor("C09/server-crashed", tailStr(o.Crash, 1500), o)
		ctx.Monitor("C11/server-crashed", tailStr(o.Crash, 1500), o)
	}
}

// ---- Coq terms ------------------------------------------------------------------------------------------
func coqKeyCfg(k cfgKeyC) string {
	return fmt.Sprintf("(K %s %d %d)", cBytes([]byte(k.ID)), k.Cipher, k.Secret)
}
func (p *cfgPool) coqFile(f *cfgFile) string {
	switch f.Kind {
	case 1:
		return "FUnreadable"
	case 2:
		return "FMalformed"
	}
	var svs []string
	for _, s := range f.Svcs {
		var ls, ks []string
		for _, l := range s.Ls {
			ls = append(ls, fmt.Sprintf("(L %s %d %s)", []string{"LTcp", "LUdp", "LBad"}[l.Type], l.Addr, cBool(!l.NotIP)))
		}
		for _, k := range s.Keys {
			ks = append(ks, coqKeyCfg(k))
		}
		svs = append(svs, fmt.Sprintf("(Sv %s %s)", cList(ls), cList(ks)))
	}
	var lg []string
	for _, l := range f.Legacy {
		lg = append(lg, fmt.Sprintf("(%s, %d)", coqKeyCfg(l.Key), p.lports[l.Port]))
	}
	return fmt.Sprintf("(FConfig (Cf %s %s))", cList(svs), cList(lg))
}
func coqOptId(s string) string {
	if s == "" {
		return "None"
	}
	return "(Some " + cBytes([]byte(s)) + ")"
}
func (p *cfgPool) coqCase(o *cfgHistObs) string {
	var pool, keys, steps []string
	for _, l := range p.lkeys {
		pool = append(pool, p.coqLkey(l))
	}
	for _, k := range o.Hist.Keys {
		keys = append(keys, fmt.Sprintf("(%d,%d)", k.Cipher, k.Secret))
	}
	for i, so := range o.Steps {
		f := &o.Hist.Files[i]
		var pb, au []string
		for _, li := range f.Prebind {
			pb = append(pb, p.coqLkey(p.lkeys[li]))
		}
		for li := range p.lkeys {
			var row []string
			for ki := range o.Hist.Keys {
				row = append(row, coqOptId(so.Auth[li][ki]))
			}
			au = append(au, cList(row))
		}
		var ref []string
		for li := range p.lkeys {
			if so.Hammered[li] {
				ref = append(ref, fmt.Sprintf("Some %d", so.Refused[li]))
			} else {
				ref = append(ref, "None")
			}
		}
		steps = append(steps, fmt.Sprintf("(St %s %s %d %s %s %s)", p.coqFile(f), cList(pb), so.ErrClass, cBools(so.Listen), cList(au), cList(ref)))
	}
	return fmt.Sprintf("(CC %s %s %s)", cList(pool), cList(keys), cList(steps))
}

// ---- scenario entry points ------------------------------------------------------------------------------------
func genHistory(rng *Rng, faultBias int) *cfgHistory {
	h := &cfgHistory{NAddrs: 4, NLegacy: 2, Replay: 0}
	idc := 0
	n := 3 + rng.Intn(4)
	for i := 0; i < n; i++ {
		f := genConfig(rng, h.NAddrs, h.NLegacy, &idc)
		retryP := 12
		if i > 0 {
			switch h.Files[len(h.Files)-1].Fault {
			case "prebound", "bad-cipher-service", "bad-cipher-legacy": // failed while starting
				retryP = 55
			}
		}
		if i > 0 && rng.Chance(retryP) {
			// the operator retries with the very same file (after a failed reload: the obstacle, if it
			// was an occupied address, is gone now; a file that cannot load fails again)
			b, _ := json.Marshal(h.Files[len(h.Files)-1])
			var cp cfgFile
			json.Unmarshal(b, &cp)
			cp.Prebind = nil
			cp.Fault = "retry-same-file"
			h.Files = append(h.Files, cp)
			continue
		}
		if i > 1 && h.Files[len(h.Files)-1].Fault == "retry-same-file" && h.Files[len(h.Files)-2].Fault == "prebound" && rng.Chance(60) {
			// after a start that failed on an occupied address and a successful retry: a configuration
			// that drops about half of the listeners (whatever the failed start left behind on the
			// address that was occupied must go when that address is dropped)
			b, _ := json.Marshal(h.Files[len(h.Files)-1])
			var cp cfgFile
			json.Unmarshal(b, &cp)
			cp.Fault, cp.Prebind = "", nil
			var svcs []cfgSvc
			for _, s := range cp.Svcs {
				var ls []cfgListener
				for _, l := range s.Ls {
					if rng.Bool() {
						ls = append(ls, l)
					}
				}
				if len(ls) > 0 {
					s.Ls = ls
					svcs = append(svcs, s)
				}
			}
			var leg []cfgLegacy
			for _, l := range cp.Legacy {
				if rng.Bool() {
					leg = append(leg, l)
				}
			}
			if len(svcs)+len(leg) > 0 {
				cp.Svcs, cp.Legacy = svcs, leg
				h.Files = append(h.Files, cp)
				continue
			}
		}
		if i > 0 && rng.Chance(faultBias) {
			injectFault(rng, &f, h.NAddrs, &idc, nil)
		} else if i > 0 && rng.Chance(15) && len(h.Files) > 0 && h.Files[len(h.Files)-1].Kind == 0 {
			// a small edit of the previous configuration: retained listeners and keys
			prev := h.Files[len(h.Files)-1]
			b, _ := json.Marshal(prev)
			var cp cfgFile
			json.Unmarshal(b, &cp)
			cp.Fault, cp.Prebind = "", nil
			if len(cp.Svcs) > 0 {
				s := &cp.Svcs[rng.Intn(len(cp.Svcs))]
				s.Keys = append(s.Keys, genKey(rng, &idc))
				if len(s.Keys) > 2 && rng.Bool() {
					s.Keys = s.Keys[1:]
				}
			}
			f = cp
		}
		h.Files = append(h.Files, f)
	}
	h.fillKeys()
	return h
}

// a fixed history: TCP and UDP on one address, then only the UDP listener is kept (the manager
// must not forget the packet listener when the last stream handle of that address string goes),
// then the key changes on the kept listener, then TCP comes back
func corpusHistoryCrossKind() *cfgHistory {
	h := &cfgHistory{NAddrs: 4, NLegacy: 2, Replay: 0}
	k1 := cfgKeyC{ID: "k901", Cipher: 0, Secret: 1}
	k2 := cfgKeyC{ID: "k902", Cipher: 3, Secret: 2}
	both := []cfgListener{{Type: 0, Addr: 1}, {Type: 1, Addr: 1}}
	udp := []cfgListener{{Type: 1, Addr: 1}}
	tcp := []cfgListener{{Type: 0, Addr: 1}}
	h.Files = []cfgFile{
		{Svcs: []cfgSvc{{Ls: both, Keys: []cfgKeyC{k1}}}},
		{Svcs: []cfgSvc{{Ls: udp, Keys: []cfgKeyC{k1}}}},
		{Svcs: []cfgSvc{{Ls: udp, Keys: []cfgKeyC{k2}}}},
		{Svcs: []cfgSvc{{Ls: both, Keys: []cfgKeyC{k2}}}},
		{Svcs: []cfgSvc{{Ls: tcp, Keys: []cfgKeyC{k2}}}},
		{Svcs: []cfgSvc{{Ls: tcp, Keys: []cfgKeyC{k1}}}},
	}
	h.fillKeys()
	return h
}

// a fixed history: a serving configuration, then a series of reloads that each fail at the last
// listener (its address is held by somebody else) after everything before it — new keys on the
// retained addresses — has been set up. Clients of the serving configuration hammer the retained
// addresses throughout: the configuration that fails must never have served one of them.
func corpusHistoryFailingReloads(n int) *cfgHistory {
	h := &cfgHistory{NAddrs: 4, NLegacy: 2, Replay: 0}
	old := cfgKeyC{ID: "k911", Cipher: 0, Secret: 1}
	base := cfgFile{Svcs: []cfgSvc{{Ls: []cfgListener{{Type: 0, Addr: 0}, {Type: 0, Addr: 1}}, Keys: []cfgKeyC{old}}},
		Legacy: []cfgLegacy{{Key: old, Port: 0}}}
	h.Files = append(h.Files, base)
	for i := 0; i < n; i++ {
		nk := cfgKeyC{ID: fmt.Sprintf("k92%d", i), Cipher: 1 + i%3, Secret: 2 + i%3}
		f := cfgFile{Svcs: []cfgSvc{{Ls: []cfgListener{{Type: 0, Addr: 0}, {Type: 0, Addr: 1}, {Type: 1, Addr: 0}, {Type: 1, Addr: 1}, {Type: 0, Addr: 3}}, Keys: []cfgKeyC{nk}}},
			Legacy: []cfgLegacy{{Key: nk, Port: 0}}, Fault: "prebound", Prebind: []int{-1}}
		h.Files = append(h.Files, f)
	}
	h.fillKeys()
	return h
}

func (h *cfgHistory) fillKeys() {
	// probe keys: every valid (cipher, secret) of any file, plus one that never appears
	seen := map[probeKey]bool{}
	add := func(k cfgKeyC) {
		pk := probeKey{k.Cipher, k.Secret}
		if k.Cipher <= 3 && !seen[pk] {
			seen[pk] = true
			h.Keys = append(h.Keys, pk)
		}
	}
	for _, f := range h.Files {
		for _, s := range f.Svcs {
			for _, k := range s.Keys {
				add(k)
			}
		}
		for _, l := range f.Legacy {
			add(l.Key)
		}
	}
	sort.Slice(h.Keys, func(a, b int) bool {
		if h.Keys[a].Cipher != h.Keys[b].Cipher {
			return h.Keys[a].Cipher < h.Keys[b].Cipher
		}
		return h.Keys[a].Secret < h.Keys[b].Secret
	})
	if len(h.Keys) > 9 {
		h.Keys = h.Keys[:9]
	}
	h.Keys = append(h.Keys, probeKey{0, 99})
}

func cfgScenario(prop string, faultBias int, traffic bool, nQuick, nThorough int) scenario {
	return func(ctx *Ctx) {
		n := nQuick
		if ctx.Thorough() {
			n = nThorough
		}
		hs := make([]*cfgHistory, n)
		for i := range hs {
			hs[i] = genHistory(ctx.Rng.Fork(), faultBias)
		}
		if len(hs) > 1 {
			hs[len(hs)-1] = corpusHistoryCrossKind() // corpus
		}
		if len(hs) > 2 && traffic {
			nfail := 14
			if ctx.Thorough() {
				nfail = 30
			}
			hs[len(hs)-2] = corpusHistoryFailingReloads(nfail)
		}
		if ctx.ReplayF != "" {
			if b, err := os.ReadFile(ctx.ReplayF); err == nil {
				var rp struct {
					Case struct {
						History *cfgHistory `json:"history"`
					} `json:"case"`
				}
				if json.Unmarshal(b, &rp) == nil && rp.Case.History != nil {
					hs = []*cfgHistory{rp.Case.History}
				}
			}
		}
		obs := make([]*cfgHistObs, len(hs))
		pools := make([]*cfgPool, len(hs))
		finds := make([][]MonitorFinding, len(hs))
		var wg sync.WaitGroup
		sem := make(chan struct{}, 6)
		for i := range hs {
			wg.Add(1)
			go func(i int) {
				defer wg.Done()
				sem <- struct{}{}
				defer func() { <-sem }()
				dir := filepath.Join(ctx.Out, fmt.Sprintf("hist_%d", i))
				obs[i], pools[i], finds[i] = runCfgHistory(ctx, hs[i], dir, traffic)
				os.RemoveAll(dir)
			}(i)
		}
		wg.Wait()
		var terms []string
		for i, o := range obs {
			if o.Fatal != "" {
				fmt.Fprintln(os.Stderr, "history", i, "could not run:", o.Fatal)
				os.Exit(3)
			}
			ctx.Stats.Cases++
			ctx.CountN("steps", len(o.Steps))
			ctx.CountN("probe_keys", len(o.Hist.Keys))
			for _, so := range o.Steps {
				for li := range so.Listen {
					if so.Listen[li] {
						ctx.Count("listening_observations")
					}
					for _, a := range so.Auth[li] {
						if a != "" {
							ctx.Count("authenticated_probes")
						} else if so.Listen[li] {
							ctx.Count("refused_probes")
						}
					}
				}
			}
			b, _ := json.Marshal(o.Hist)
			ctx.NonTrivial(string(b))
			ctx.Sample(o.Hist)
			cfgMonitors(ctx, o, pools[i])
			for _, f := range finds[i] {
				ctx.Monitor(f.Signature, f.What, o)
			}
			if len(o.Steps) == len(o.Hist.Files) {
				terms = append(terms, pools[i].coqCase(o))
			}
		}
		ctx.Stats.Rule = "per step: error class, listening state of every pool address (TCP and UDP) and the ID each probe key authenticates as on each listener equal the Coq model's; monitors evaluate the property on the observations"
		const shard = 8
		for s := 0; s*shard < len(terms); s++ {
			e := (s + 1) * shard
			if e > len(terms) {
				e = len(terms)
			}
			ctx.WriteCases(s, "Corr.Cfg", "cfg_case", terms[s*shard:e])
		}
		_ = prop
	}
}

func init() {
	scenarios["C09"] = cfgScenario("C09", 10, false, 14, 120)
	scenarios["C10"] = cfgScenario("C10", 60, false, 14, 120)
	scenarios["C11"] = cfgScenario("C11", 25, true, 10, 80)
}
