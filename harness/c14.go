package main

import (
	"encoding/json"
	"fmt"
	"net"
	"strings"
	"sync"
	"time"

	"github.com/Jigsaw-Code/outline-ss-server/service"
)

func init() { scenarios["C14"] = c14 }

// recPC is a PacketConn that records the read deadlines set on it and returns scripted datagrams.
type recPC struct {
	mu       sync.Mutex
	deadline time.Time
	sets     int
	nextFrom net.Addr
	failNext bool // the next WriteTo fails (EINVAL / ENETUNREACH at the socket)
}

func (p *recPC) ReadFrom(b []byte) (int, net.Addr, error) {
	p.mu.Lock()
	defer p.mu.Unlock()
	return 1, p.nextFrom, nil
}
func (p *recPC) WriteTo(b []byte, a net.Addr) (int, error) {
	p.mu.Lock()
	defer p.mu.Unlock()
	if p.failNext {
		p.failNext = false
		return 0, &net.OpError{Op: "write", Net: "udp", Err: fmt.Errorf("invalid argument")}
	}
	return len(b), nil
}
func (p *recPC) Close() error                       { return nil }
func (p *recPC) LocalAddr() net.Addr                { return &net.UDPAddr{IP: net.IPv4(127, 0, 0, 1), Port: 1} }
func (p *recPC) SetDeadline(t time.Time) error      { return p.SetReadDeadline(t) }
func (p *recPC) SetWriteDeadline(t time.Time) error { return nil }
func (p *recPC) SetReadDeadline(t time.Time) error {
	p.mu.Lock()
	defer p.mu.Unlock()
	p.deadline = t
	p.sets++
	return nil
}

func c14(ctx *Ctx) {
	r := ctx.Rng
	n := 250
	if ctx.Thorough() {
		n = 3000
	}
	var terms []string
	shard := 0
	base := time.Now().Add(-time.Second)
	rel := func(t time.Time) int64 {
		if t.IsZero() {
			return 0
		}
		return t.Sub(base).Nanoseconds()
	}
	fast := 0
	for i := 0; i < n; i++ {
		T := []time.Duration{200 * time.Millisecond, time.Second, 5 * time.Second, 20 * time.Second, 5 * time.Minute}[r.Intn(5)]
		pc := &recPC{}
		nc := service.VerifNewNatConn(pc, T)
		nops := r.Range(1, 8)
		var ops, obs []string
		type opj struct {
			W   bool  `json:"write"`
			DNS bool  `json:"dns"`
			At  int64 `json:"at_ns"`
			DL  int64 `json:"deadline_ns"`
		}
		var sample []opj
		dnsFirst := r.Chance(60)
		fastClosed := false
		var maxWindow time.Duration // longest call so far, clock read before to clock read after
		var prevDL time.Time
		for j := 0; j < nops; j++ {
			if r.Chance(30) {
				time.Sleep(time.Duration(r.Intn(3)) * time.Millisecond)
			}
			isWrite := j == 0 || r.Chance(55)
			dns := r.Chance(40)
			if j == 0 {
				dns = dnsFirst
			}
			// what decides is the port alone, whatever the address family and however the address is
			// written (IPv6 literals contain colons, and may contain ":53")
			port := []int{8000 + r.Intn(100), 5353, 153, 530, 5300, 35}[r.Intn(6)]
			if dns {
				port = 53
			}
			addr := &net.UDPAddr{IP: []net.IP{net.IPv4(8, 8, 8, 8), net.ParseIP("2001:4860:4860::8888"), net.ParseIP("2001:db8::53"), net.ParseIP("::ffff:8.8.4.4"), net.ParseIP("fe80::53")}[r.Intn(5)], Port: port}
			if addr.IP.IsLinkLocalUnicast() {
				addr.Zone = "lo"
			}
			now := time.Now()
			if isWrite {
				if dl0 := func() time.Time { pc.mu.Lock(); defer pc.mu.Unlock(); return pc.deadline }(); !dl0.IsZero() && dl0.After(now) {
					fastClosed = false // the socket deadline is in the future again
				}
				if r.Chance(18) { // the send itself fails: the datagram still is client traffic
					pc.mu.Lock()
					pc.failNext = true
					pc.mu.Unlock()
					ctx.Count("op:write-fails")
				}
				nc.WriteTo([]byte("x"), addr)
				ops = append(ops, fmt.Sprintf("TWrite %d %s", rel(now), cBool(dns)))
				ctx.Count("op:write")
			} else {
				pc.mu.Lock()
				pc.nextFrom = addr
				pc.mu.Unlock()
				before := pc.sets
				nc.ReadFrom(make([]byte, 10))
				ops = append(ops, fmt.Sprintf("TRead %d %s", rel(now), cBool(dns)))
				ctx.Count("op:read")
				if pc.sets > before {
					fast++
					fastClosed = true
					ctx.Count("fast-close")
				}
			}
			pc.mu.Lock()
			dl := pc.deadline
			pc.mu.Unlock()
			if w := time.Since(now); w > maxWindow {
				maxWindow = w
			}
			obs = append(obs, fmt.Sprintf("(%d, %d)", rel(dl), (5*time.Millisecond+maxWindow).Nanoseconds()))
			sample = append(sample, opj{isWrite, dns, rel(now), rel(dl)})
			// monitor: a client datagram never moves the deadline earlier (only the DNS fast close, on
			// a read, brings it forward)
			if isWrite && !prevDL.IsZero() && dl.Before(prevDL.Add(-time.Millisecond)) {
				ctx.Monitor("C14/deadline-moved-earlier", fmt.Sprintf("a %s datagram moved the socket deadline %v earlier", map[bool]string{true: "DNS", false: "non-DNS"}[dns], prevDL.Sub(dl)), sample)
			}
			prevDL = dl
			// monitor: the property's promise, independently
			if isWrite {
				want := T
				if dns {
					want = 17 * time.Second
				}
				if dl.Before(now.Add(want - time.Millisecond)) { // now was read BEFORE the call: the deadline can only be later
					sig := "C14/deadline-shorter-than-promised"
					if fastClosed && !dns && T < 17*time.Second {
						sig += "/after-dns-fast-close"
					}
					ctx.Monitor(sig, fmt.Sprintf("after a %s datagram the socket deadline is %v ahead, promised %v", map[bool]string{true: "DNS", false: "non-DNS"}[dns], dl.Sub(now), want), sample)
				}
			}
		}
		ctx.NonTrivial(fmt.Sprint(ops))
		terms = append(terms, fmt.Sprintf("{| c_T := %d; c_ops := %s; c_obs := %s |}", T.Nanoseconds(), cListT("top", ops), "("+cListT("(Z * Z)", obs)+")%Z"))
		ctx.Stats.Cases++
		if i < 2 {
			ctx.Sample(map[string]interface{}{"nat_timeout_ns": T.Nanoseconds(), "ops": sample})
		}
		if len(terms) >= 60 {
			ctx.WriteCases(shard, "Corr.C14", "case", terms)
			shard++
			terms = nil
		}
	}
	if len(terms) > 0 {
		ctx.WriteCases(shard, "Corr.C14", "case", terms)
	}
	if fast == 0 {
		ctx.Stats.NonTrivial = 0
	}
	// real expiry, reclamation and listener shutdown through the PacketHandler
	ctx.Stats.Rule = "part 1: sequences of datagrams written to / read from one association (DNS and non-DNS peers, random spacing) through the real natconn over a PacketConn that records SetReadDeadline; deadlines compared with the timer model (40 ms tolerance); part 2: the UDP loopback scenario with idle periods longer than the NAT timeout and listener shutdown: removals counted; non-trivial = distinct op sequences, at least one fast close must occur"
	cUDPInto(ctx, "C14", 40, shard+1)
	udpDNSFastClose(ctx, "C14")
	// part 3: descriptors. The UDP barrage of the C18 child (a process of its own, no garbage
	// collection, so a finalizer cannot close a forgotten socket): after the listener is shut down
	// every outbound socket of every association must be closed and every entry reported removed
	out, code := runSelfChild(120*time.Second, "c18run", fmt.Sprint(ctx.Seed*1000+7), "udp")
	var rep c18Report
	got := false
	for _, line := range strings.Split(out, "\n") {
		if strings.HasPrefix(line, "C18REPORT ") {
			got = json.Unmarshal([]byte(line[10:]), &rep) == nil
		}
	}
	if code == 0 && got && rep.Done {
		ctx.Count("shutdown-census:runs")
		ctx.CountN("shutdown-census:associations", int(rep.NatEntriesAdded))
		if rep.Fd1 > rep.Fd0 {
			ctx.Monitor("C14/sockets-left-after-shutdown", fmt.Sprintf("%d sockets open before the scenario, %d after every association ended and the listener was shut down: %v", rep.Fd0, rep.Fd1, rep.OpenFds), map[string]interface{}{"child": "c18run", "mode": "udp", "seed": ctx.Seed*1000 + 7})
		}
		if rep.NatEntriesAdded != rep.NatEntriesGone {
			ctx.Monitor("C14/removal-not-reported", fmt.Sprintf("%d associations added, %d removals reported after shutdown", rep.NatEntriesAdded, rep.NatEntriesGone), nil)
		}
		if rep.PacketStuck {
			ctx.Monitor("C14/shutdown-does-not-return", "the packet handler did not return within 8 s after its listener was closed", nil)
		}
	} else {
		ctx.Count("shutdown-census:child-failed")
	}
}
