package main

import (
	"bytes"
	"fmt"
	"net"
	"sync"
	"time"

	"github.com/Jigsaw-Code/outline-sdk/transport/shadowsocks"
	"github.com/Jigsaw-Code/outline-ss-server/service"
	"github.com/shadowsocks/go-shadowsocks2/socks"
)

func init() {
	scenarios["C03"] = func(ctx *Ctx) { cUDP(ctx, "C03") }
	scenarios["C04"] = func(ctx *Ctx) { cUDP(ctx, "C04") }
	scenarios["C16"] = func(ctx *Ctx) { cUDP(ctx, "C16") }
}

const udpNatTimeout = 3 * time.Second

type udpOp struct {
	Kind    string   `json:"kind"` // honest garbage trunc expire
	Client  int      `json:"client"`
	C, S    int      `json:"-"`
	Key     string   `json:"key,omitempty"`
	Seed    uint32   `json:"seed,omitempty"`
	AKind   int      `json:"akind,omitempty"`
	PLen    int      `json:"plen,omitempty"`
	PSeed   int      `json:"pseed,omitempty"`
	Replies [][2]int `json:"replies,omitempty"`
	N       int      `json:"n,omitempty"`
	Port0   bool     `json:"port0,omitempty"` // destination port 0: the kernel refuses the send (EINVAL)
	// Kind "stray": not a client datagram but a datagram sent to the client's NAT socket by a
	// sender the client never addressed (IPv4 or IPv6 loopback socket of the harness)
	StrayV6 bool `json:"stray_v6,omitempty"`   // unused when a host of the client's own traffic is available
	StrayK  int  `json:"stray_kind,omitempty"` // runtime: the target kind whose local address the stray sender uses (another port of a host the client talks to)
	Skipped bool `json:"skipped,omitempty"`    // could not be run (the client had no known NAT socket): left out of the case
	sport   int
}
type udpCaseSpec struct {
	Cfg       []cfgKey `json:"cfg"`
	Validate  bool     `json:"validate"`
	Ops       []udpOp  `json:"ops"`
	coll      string   // Corr.Coll case term of the run (call log on the real collectors + gathered counters)
	collN     int
	collDiffs []string
}

type udpEv struct {
	Kind   string // add pktclient pkttarget remove
	Assoc  int
	Client string
	Key    string
	Status string
	A, B   int64
}
type recUDP struct {
	mu    sync.Mutex
	evs   []udpEv
	next  int
	tee   *promTee
	storm bool // more reports than any case can account for: recording stopped (the server is looping)
}

const recUDPMax = 20000

// full reports whether recording has stopped (call with mu held)
func (r *recUDP) full() bool {
	if len(r.evs) >= recUDPMax {
		r.storm = true
		time.Sleep(time.Millisecond) // do not feed a packet storm at full speed
		return true
	}
	return false
}

type recUDPConn struct {
	r   *recUDP
	id  int
	tee *teeUDPConn
}

func (r *recUDP) AddUDPNatEntry(clientAddr net.Addr, accessKey string) service.UDPConnMetrics {
	r.mu.Lock()
	defer r.mu.Unlock()
	id := r.next
	r.next++
	r.evs = append(r.evs, udpEv{Kind: "add", Assoc: id, Client: clientAddr.String(), Key: accessKey})
	c := &recUDPConn{r: r, id: id}
	if r.tee != nil {
		c.tee = r.tee.addUDP(clientAddr, accessKey)
	}
	return c
}
func (c *recUDPConn) AddPacketFromClient(status string, a, b int64) {
	c.r.mu.Lock()
	defer c.r.mu.Unlock()
	if c.r.full() {
		return
	}
	if c.tee != nil {
		c.tee.fromClient(status, a, b)
	}
	c.r.evs = append(c.r.evs, udpEv{Kind: "pktclient", Assoc: c.id, Status: status, A: a, B: b})
}
func (c *recUDPConn) AddPacketFromTarget(status string, a, b int64) {
	c.r.mu.Lock()
	defer c.r.mu.Unlock()
	if c.r.full() {
		return
	}
	if c.tee != nil {
		c.tee.fromTarget(status, a, b)
	}
	c.r.evs = append(c.r.evs, udpEv{Kind: "pkttarget", Assoc: c.id, Status: status, A: a, B: b})
}
func (c *recUDPConn) RemoveNatEntry() {
	c.r.mu.Lock()
	defer c.r.mu.Unlock()
	if c.tee != nil {
		c.tee.remove()
	}
	c.r.evs = append(c.r.evs, udpEv{Kind: "remove", Assoc: c.id})
}

// AddCipherSearch: the server finished the key search for a datagram of a client without an
// association (used by the harness only to know that the datagram has been processed)
func (r *recUDP) AddCipherSearch(found bool, d time.Duration) {
	r.mu.Lock()
	defer r.mu.Unlock()
	if r.full() {
		return
	}
	r.evs = append(r.evs, udpEv{Kind: "search", Status: fmt.Sprint(found)})
}

func (r *recUDP) snapshot(from int) []udpEv {
	r.mu.Lock()
	defer r.mu.Unlock()
	return append([]udpEv{}, r.evs[from:]...)
}
func (r *recUDP) count() int { r.mu.Lock(); defer r.mu.Unlock(); return len(r.evs) }

type udpReplyObs struct {
	Status   string
	From     []byte
	Body     []byte
	TB, CB   int64
	WrongDst bool
}
type udpOpObs struct {
	Forwarded  bool
	ArrivedAt  string
	SrcPort    int
	SockIdx    int
	Payload    []byte
	NewKey     *string
	Report     *udpEv
	Replies    []udpReplyObs
	Removed    int
	Stray      int // datagrams that arrived at a client that did not send
	recv       [][]byte
	Unreported int // datagrams that reached the client without an OK report
	Stale      int // datagrams at a target that do not belong to this operation
	Err        string
	SaltReused bool // a reply datagram started with a salt already used by an earlier reply of this case
}

type udpTargetMsg struct {
	payload []byte
	src     *net.UDPAddr
	target  string // address of the socket that received it
}

func sealDgram(key *shadowsocks.EncryptionKey, salt, plaintext []byte) []byte {
	aead, err := key.NewAEAD(salt)
	if err != nil {
		panic(err)
	}
	nonce := make([]byte, aead.NonceSize())
	return aead.Seal(append([]byte{}, salt...), nonce, plaintext, nil)
}

func runUDPCase(cs *udpCaseSpec) (obs []udpOpObs, tports []int, fatal string, shutdownRemoved int) {
	cl := service.NewCipherList()
	cl.Update(makeList(cs.Cfg))
	rec := &recUDP{tee: newPromTee()}
	h := service.NewPacketHandler(udpNatTimeout, cl, rec, rec)
	if !cs.Validate {
		h.SetTargetIPValidator(func(net.IP) error { return nil })
	}
	srv, err := net.ListenPacket("udp", ":0") // dual stack: IPv4 and IPv6 clients
	if err != nil {
		return nil, nil, "listen: " + err.Error(), 0
	}
	handleDone := make(chan string, 1)
	go func() {
		defer func() {
			if r := recover(); r != nil {
				handleDone <- fmt.Sprint("panic: ", r)
			}
		}()
		h.Handle(srv)
		handleDone <- ""
	}()
	defer func() {
		srv.Close()
		select {
		case <-handleDone:
		case <-time.After(2 * time.Second):
		}
	}()
	// one scripted target / sink per local address of the target-kind table
	avail := ensureLocalAddrs()
	tch := make(chan udpTargetMsg, 64)
	targets := map[string]*net.UDPConn{}
	for _, k := range targetKinds {
		if k.ip == "" || targets[k.ip] != nil {
			continue
		}
		if net.ParseIP(k.ip).IsLoopback() || avail[k.ip] {
			pc, err := net.ListenPacket("udp", net.JoinHostPort(k.ip, "0"))
			if err != nil {
				return nil, nil, "target listen " + k.ip + ": " + err.Error(), 0
			}
			uc := pc.(*net.UDPConn)
			targets[k.ip] = uc
			defer uc.Close()
			go func(ip string, uc *net.UDPConn) {
				buf := make([]byte, 70000)
				for {
					n, src, err := uc.ReadFromUDP(buf)
					if err != nil {
						return
					}
					tch <- udpTargetMsg{append([]byte{}, buf[:n]...), src, ip}
				}
			}(k.ip, uc)
		}
	}
	for i := range targetKinds {
		port := 9
		if uc := targets[targetKinds[i].ip]; uc != nil {
			port = uc.LocalAddr().(*net.UDPAddr).Port
		}
		tports = append(tports, port)
	}
	// clients: distinct IPs and ports
	clientIPs := []string{"127.0.0.1", "127.0.0.1", "127.0.0.2", "127.0.0.3", "::1"}
	var clients []*net.UDPConn
	for _, ip := range clientIPs {
		pc, err := net.ListenPacket("udp", net.JoinHostPort(ip, "0"))
		if err != nil {
			return nil, nil, "client listen: " + err.Error(), 0
		}
		clients = append(clients, pc.(*net.UDPConn))
		defer pc.Close()
	}
	// a sixth client on the link-local address of eth0: its address carries a zone ("fe80::..%eth0")
	zonedIP := linkLocalEth0()
	if zonedIP != nil {
		if pc, err := net.ListenUDP("udp", &net.UDPAddr{IP: zonedIP, Zone: "eth0"}); err == nil {
			clients = append(clients, pc)
			defer pc.Close()
		} else {
			zonedIP = nil
		}
	}
	other4, _ := net.ListenPacket("udp", "127.0.0.1:0")
	other6, _ := net.ListenPacket("udp", "[::1]:0")
	if other4 != nil {
		defer other4.Close()
	}
	if other6 != nil {
		defer other6.Close()
	}
	natPort := map[int]int{}            // client -> source port of its association, as seen at a target
	natLastKind := map[int]int{}        // client -> target kind of its last forwarded datagram
	others := map[string]*net.UDPConn{} // a second socket on each target address: "another port of the same host"
	defer func() {
		for _, o := range others {
			o.Close()
		}
	}()
	natCS := map[int][2]int{}     // client -> cipher and secret of the key that opened its association
	saltSeen := map[string]bool{} // salts of every reply datagram the clients received
	portIdx := map[int]int{}
	nextIdx := 0                // sockets the kernel has handed out to associations so far
	pendingIdx := map[int]int{} // client -> socket index of an association whose first send failed (its port is not known yet)
	for i := range cs.Ops {
		op := &cs.Ops[i]
		var ob udpOpObs
		mark := rec.count()
		if op.Kind == "expire" {
			time.Sleep(udpNatTimeout + 400*time.Millisecond)
			pendingIdx = map[int]int{} // every association is gone, also those that never sent
			natPort = map[int]int{}
			natLastKind = map[int]int{}
			natCS = map[int][2]int{}
			for _, e := range rec.snapshot(mark) {
				if e.Kind == "remove" {
					ob.Removed++
				}
			}
			obs = append(obs, ob)
			continue
		}
		if op.Client >= len(clients) { // the zoned client, on a machine without a link-local address
			op.Skipped = true
			obs = append(obs, ob)
			continue
		}
		if op.Kind == "stray" {
			np, okp := natPort[op.Client]
			// the sender: another port of the host the client last talked to (same IP, so that
			// anything the server remembers per sender IP is put to the test), else a loopback socket
			var src net.PacketConn
			k, okk := natLastKind[op.Client]
			if okk && targetKinds[k].ip != "" {
				ip := targetKinds[k].ip
				if others[ip] == nil {
					if pc, err := net.ListenPacket("udp", net.JoinHostPort(ip, "0")); err == nil {
						others[ip] = pc.(*net.UDPConn)
					}
				}
				if others[ip] != nil {
					src = others[ip]
					op.StrayK = k
				}
			}
			if src == nil {
				op.StrayK = 0
				src = other4
				if op.StrayV6 {
					src, op.StrayK = other6, 1
				}
			}
			srcIP := net.ParseIP(targetKinds[op.StrayK].ip)
			dst := fmt.Sprintf("127.0.0.1:%d", np)
			if srcIP.To4() == nil {
				dst = fmt.Sprintf("[::1]:%d", np)
			}
			if !okp || src == nil {
				op.Skipped = true
				obs = append(obs, ob)
				continue
			}
			op.sport = src.LocalAddr().(*net.UDPAddr).Port
			da, _ := net.ResolveUDPAddr("udp", dst)
			body := genBytes(op.PLen, uint32(op.PSeed))
			src.WriteTo(body, da)
			c := clients[op.Client]
			buf := make([]byte, 70000)
			tr := time.Now()
			var recv [][]byte
			for time.Since(tr) < 2500*time.Millisecond {
				c.SetReadDeadline(time.Now().Add(40 * time.Millisecond))
				if n, _, err := c.ReadFrom(buf); err == nil {
					recv = append(recv, append([]byte{}, buf[:n]...))
					break
				}
				dropped := false
				for _, e := range rec.snapshot(mark) {
					if e.Kind == "pkttarget" && e.Status != "OK" {
						dropped = true
					}
				}
				if dropped {
					break
				}
			}
			time.Sleep(20 * time.Millisecond)
			op.C, op.S = natCS[op.Client][0], natCS[op.Client][1]
			akey := mkKey(op.C, op.S)
			ri := 0
			for _, e := range rec.snapshot(mark) {
				if e.Kind == "pkttarget" {
					ro := udpReplyObs{Status: e.Status, TB: e.A, CB: e.B}
					if e.Status == "OK" && ri < len(recv) {
						if len(recv[ri]) >= saltSizes[op.C] {
							s := string(recv[ri][:saltSizes[op.C]])
							ob.SaltReused = ob.SaltReused || saltSeen[s]
							saltSeen[s] = true
						}
						if pt, err := shadowsocks.Unpack(nil, recv[ri], akey); err == nil {
							if a := socks.SplitAddr(pt); a != nil {
								ro.From = append([]byte{}, a...)
								ro.Body = append([]byte{}, pt[len(a):]...)
							}
						}
						ri++
					}
					ob.Replies = append(ob.Replies, ro)
				}
				if e.Kind == "remove" {
					ob.Removed++
				}
			}
			ob.Unreported = len(recv) - ri
			// no other client may see it
			for j, oc := range clients {
				if j == op.Client {
					continue
				}
				oc.SetReadDeadline(time.Now().Add(time.Millisecond))
				if _, _, err := oc.ReadFrom(buf); err == nil {
					ob.Stray++
				}
			}
			obs = append(obs, ob)
			continue
		}
		key := mkKey(op.C, op.S)
		var pkt []byte
		tport := tports[op.AKind]
		if op.Port0 {
			tport = 0
		}
		payload := genBytes(op.PLen, uint32(op.PSeed))
		switch op.Kind {
		case "garbage":
			pkt = genBytes(op.N, op.Seed)
		case "trunc":
			full := sealDgram(key, genBytes(saltSizes[op.C], op.Seed), append(socksAddrBytes(0, 9), genBytes(10, 3)...))
			pkt = full[:op.N]
		default:
			pkt = sealDgram(key, genBytes(saltSizes[op.C], op.Seed), append(socksAddrBytes(op.AKind, tport), payload...))
		}
		c := clients[op.Client]
		srvAddr := &net.UDPAddr{IP: net.IPv4(127, 0, 0, 1), Port: srv.LocalAddr().(*net.UDPAddr).Port}
		if op.Client == 4 {
			srvAddr.IP = net.IPv6loopback
		}
		if op.Client == 5 {
			srvAddr.IP, srvAddr.Zone = zonedIP, "eth0"
		}
		if _, err := c.WriteTo(pkt, srvAddr); err != nil {
			ob.Err = "client write: " + err.Error()
		}
		// wait for the datagram to show up at a target (matched by payload: a late datagram of an
		// earlier operation must not be attributed to this one), for a rejection report, or for silence
		// Timing: 150 ms of silence normally means "dropped"; but once the server's own record says
		// the datagram was forwarded (or the server has not even finished looking at it: no
		// key-search and no report event yet, i.e. the machine is slow) the wait extends to 2.5 s,
		// so that a busy machine cannot turn into a missing datagram.
		var got *udpTargetMsg
		t0 := time.Now()
		var searchSeen time.Time
	wait:
		for {
			select {
			case m := <-tch:
				if bytes.Equal(m.payload, payload) && op.Kind == "honest" {
					mm := m
					got = &mm
					break wait
				}
				ob.Stale++
			case <-time.After(5 * time.Millisecond):
				processed, forwarded := false, false
				for _, e := range rec.snapshot(mark) {
					if e.Kind == "pktclient" && e.Status != "OK" {
						break wait
					}
					if e.Kind == "pktclient" && e.Status == "OK" {
						processed, forwarded = true, true
					}
					if e.Kind == "search" {
						if searchSeen.IsZero() {
							searchSeen = time.Now()
						}
						// the key search is done: validation, the NAT entry and the write follow in the
						// same goroutine without blocking; give them 200 ms
						if e.Status == "false" || time.Since(searchSeen) > 200*time.Millisecond {
							processed = true
						}
					}
				}
				el := time.Since(t0)
				if el > 2500*time.Millisecond {
					break wait
				}
				if el > 150*time.Millisecond && processed && !forwarded {
					break wait // looked at and not forwarded: dropped
				}
			}
		}
		if got != nil {
			m := *got
			ob.Forwarded = true
			ob.ArrivedAt = m.target
			ob.Payload = m.payload
			ob.SrcPort = m.src.Port
			if _, ok := portIdx[m.src.Port]; !ok {
				if idx, pend := pendingIdx[op.Client]; pend {
					portIdx[m.src.Port] = idx // the association created by the failed send shows its socket now
					delete(pendingIdx, op.Client)
				} else {
					portIdx[m.src.Port] = nextIdx
					nextIdx++
				}
			}
			ob.SockIdx = portIdx[m.src.Port]
			natPort[op.Client] = m.src.Port
			natLastKind[op.Client] = op.AKind
			var recv [][]byte
			for ri, rp := range op.Replies {
				targets[m.target].WriteToUDP(genBytes(rp[0], uint32(rp[1])), m.src)
				buf := make([]byte, 70000)
				// wait for the reply at the client; stop early once the server reports that it did not
				// send it (oversized: ERR_WRITE / ERR_PACK); a slow machine gets up to 2.5 s
				tr := time.Now()
				for time.Since(tr) < 2500*time.Millisecond {
					c.SetReadDeadline(time.Now().Add(40 * time.Millisecond))
					if n, _, err := c.ReadFrom(buf); err == nil {
						recv = append(recv, append([]byte{}, buf[:n]...))
						break
					}
					nt, dropped := 0, false
					for _, e := range rec.snapshot(mark) {
						if e.Kind == "pkttarget" {
							if nt == ri && e.Status != "OK" {
								dropped = true
							}
							nt++
						}
					}
					if dropped {
						break
					}
				}
			}
			ob.recv = recv
		}
		// let the metric events of this datagram arrive
		want := 0
		if ob.Forwarded {
			want = 1 + len(op.Replies)
		}
		deadline := time.Now().Add(150 * time.Millisecond)
		for time.Now().Before(deadline) {
			n := 0
			for _, e := range rec.snapshot(mark) {
				if e.Kind == "pktclient" || e.Kind == "pkttarget" {
					n++
				}
			}
			if n >= want && (ob.Forwarded || time.Now().After(deadline.Add(-110*time.Millisecond))) {
				break
			}
			time.Sleep(3 * time.Millisecond)
		}
		ri := 0
		for _, e := range rec.snapshot(mark) {
			e := e
			switch e.Kind {
			case "add":
				k := e.Key
				ob.NewKey = &k
				natCS[op.Client] = [2]int{op.C, op.S}
			case "pktclient":
				ob.Report = &e
			case "pkttarget":
				ro := udpReplyObs{Status: e.Status, TB: e.A, CB: e.B}
				if e.Status == "OK" && ri < len(ob.recv) {
					if len(ob.recv[ri]) >= saltSizes[op.C] {
						s := string(ob.recv[ri][:saltSizes[op.C]])
						ob.SaltReused = ob.SaltReused || saltSeen[s]
						saltSeen[s] = true
					}
					if pt, err := shadowsocks.Unpack(nil, ob.recv[ri], key); err == nil {
						if a := socks.SplitAddr(pt); a != nil {
							ro.From = append([]byte{}, a...)
							ro.Body = append([]byte{}, pt[len(a):]...)
						}
					}
					ri++
				}
				ob.Replies = append(ob.Replies, ro)
			case "remove":
				ob.Removed++
			}
		}
		if ob.NewKey != nil && !ob.Forwarded {
			// an association was created but its first datagram never left (the send failed): the
			// kernel handed out a socket all the same; keep its place in the numbering
			pendingIdx[op.Client] = nextIdx
			nextIdx++
		}
		ob.Unreported = len(ob.recv) - ri
		// stray datagrams at other clients
		for j, oc := range clients {
			if j == op.Client {
				continue
			}
			oc.SetReadDeadline(time.Now().Add(time.Millisecond))
			buf := make([]byte, 2000)
			if _, _, err := oc.ReadFrom(buf); err == nil {
				ob.Stray++
			}
		}
		obs = append(obs, ob)
	}
	select {
	case msg := <-handleDone:
		if msg != "" {
			fatal = msg
		} else {
			fatal = "Handle returned while the listener was open"
		}
		return obs, tports, fatal, 0
	default:
	}
	// listener shutdown: every live association must be expired promptly
	mark := rec.count()
	srv.Close()
	select {
	case msg := <-handleDone:
		if msg != "" {
			fatal = msg
		}
		handleDone <- ""
	case <-time.After(2 * time.Second):
		fatal = "Handle did not return after the listener was closed"
	}
	time.Sleep(250 * time.Millisecond)
	for _, e := range rec.snapshot(mark) {
		if e.Kind == "remove" {
			shutdownRemoved++
		}
	}
	rec.mu.Lock()
	if rec.storm && fatal == "" {
		fatal = fmt.Sprintf("report storm: the handler issued more than %d metric reports for %d client operations (datagrams are being relayed that no client or target of the case sent)", recUDPMax, len(cs.Ops))
	}
	rec.mu.Unlock()
	if rec.tee != nil {
		if term, n, err := rec.tee.term(); err == nil {
			cs.coll, cs.collN = term, n
			cs.collDiffs = rec.tee.diffs
		}
	}
	return obs, tports, fatal, shutdownRemoved
}

var udpStatusCodes = map[string]int{"OK": 0, "ERR_CIPHER": 1, "ERR_READ_ADDRESS": 4, "ERR_ADDRESS_INVALID": 5, "ERR_ADDRESS_PRIVATE": 6, "ERR_RESOLVE_ADDRESS": 10, "ERR_PACK": 11, "ERR_WRITE": 12}

func udpOpTerm(op *udpOp, tports []int) string {
	if op.Kind == "expire" {
		return "OExpireAll"
	}
	if op.Kind == "stray" {
		return fmt.Sprintf("OStray %d %d %d %d %d", op.Client+1, op.StrayK, op.sport, op.PLen, op.PSeed)
	}
	var k string
	switch op.Kind {
	case "garbage":
		k = fmt.Sprintf("DGarbage %d %d", op.N, op.Seed)
	case "trunc":
		k = fmt.Sprintf("DTrunc %d %d %d %d", op.C, op.S, op.Seed, op.N)
	default:
		var rs []string
		for _, r := range op.Replies {
			rs = append(rs, fmt.Sprintf("(%d, %d)", r[0], r[1]))
		}
		tp := tports[op.AKind]
		if op.Port0 {
			tp = 0
		}
		k = fmt.Sprintf("DHonest %d %d %d %d %d %d %d %s", op.C, op.S, op.Seed, op.AKind, tp, op.PLen, op.PSeed, cListT("(N * N)", rs))
	}
	cip := []int{1, 1, 2, 3, 4, 5}[op.Client]
	return fmt.Sprintf("ODgram %d %d (%s)", op.Client+1, cip, k)
}

func udpObsTerm(o *udpOpObs) string {
	sent := "None"
	if o.Forwarded {
		sent = fmt.Sprintf("(Some (%d, (%d, %d)))", o.SockIdx, len(o.Payload), cksum(o.Payload))
	}
	nw := "None"
	if o.NewKey != nil {
		nw = "(Some " + cBytes([]byte(*o.NewKey)) + ")"
	}
	rep := "None"
	if o.Report != nil {
		code, ok := udpStatusCodes[o.Report.Status]
		if !ok {
			code = 97
		}
		rep = fmt.Sprintf("(Some (%d, %s, %s))", code, cZ(o.Report.A), cZ(o.Report.B))
	}
	var rs []string
	for _, r := range o.Replies {
		code, ok := udpStatusCodes[r.Status]
		if !ok {
			code = 97
		}
		rs = append(rs, fmt.Sprintf("{| r_status := %d; r_from := %s; r_body := (%d, %d); r_tb := %s; r_cb := %s |}", code, cBytes(r.From), len(r.Body), cksum(r.Body), cZ(r.TB), cZ(r.CB)))
	}
	return fmt.Sprintf("{| d_sent := %s; d_new := %s; d_report := %s; d_replies := %s; d_removed := %d |}", sent, nw, rep, cListT("robs", rs), o.Removed)
}

// linkLocalEth0: the IPv6 link-local address of eth0, or nil
func linkLocalEth0() net.IP {
	ifi, err := net.InterfaceByName("eth0")
	if err != nil {
		return nil
	}
	as, _ := ifi.Addrs()
	for _, a := range as {
		if ipn, ok := a.(*net.IPNet); ok && ipn.IP.To4() == nil && ipn.IP.IsLinkLocalUnicast() {
			return ipn.IP
		}
	}
	return nil
}
