// verifharness drives the implementation built from /repo's current tree on
// generated abstract cases and writes, for each property, a Coq file with the
// same inputs plus the observed (canonicalised) outputs, and a stats JSON.
package main

import (
	"bytes"
	"encoding/json"
	"flag"
	"fmt"
	"io"
	"os"
	"os/exec"
	"path/filepath"
	"regexp"
	"sort"
	"strings"
	"sync"
)

type Stats struct {
	Property     string                 `json:"property"`
	Seed         int64                  `json:"seed"`
	Tier         string                 `json:"tier"`
	Cases        int                    `json:"cases"`
	NonTrivial   int                    `json:"distinct_nontrivial"`
	Rule         string                 `json:"rule"`
	Distribution map[string]int         `json:"distribution"`
	Samples      []interface{}          `json:"samples"`
	Monitor      []MonitorFinding       `json:"monitor"`
	CaseFiles    []string               `json:"case_files"`
	CaseIndex    []json.RawMessage      `json:"case_index,omitempty"`
	Extra        map[string]interface{} `json:"extra,omitempty"`
}

// MonitorFinding is a verdict of the independent executable oracle for the
// property itself, evaluated on the implementation's observables.
type MonitorFinding struct {
	Signature string      `json:"signature"`
	What      string      `json:"what"`
	Case      interface{} `json:"case"`
}

type scenario func(ctx *Ctx)

type Ctx struct {
	Seed    int64
	Tier    string
	Out     string
	Rng     *Rng
	Stats   *Stats
	seen    map[string]bool
	ReplayF string
}

func (c *Ctx) Thorough() bool { return c.Tier == "thorough" }

// the recording methods may be called from scenario goroutines running in parallel
var ctxMu sync.Mutex

func (c *Ctx) Count(k string) {
	ctxMu.Lock()
	c.Stats.Distribution[k]++
	ctxMu.Unlock()
}
func (c *Ctx) CountN(k string, n int) {
	ctxMu.Lock()
	c.Stats.Distribution[k] += n
	ctxMu.Unlock()
}

// NonTrivial records one case with a canonical key; distinct keys are counted.
func (c *Ctx) NonTrivial(key string) {
	ctxMu.Lock()
	defer ctxMu.Unlock()
	if !c.seen[key] {
		c.seen[key] = true
		c.Stats.NonTrivial++
	}
}
func (c *Ctx) Sample(s interface{}) {
	ctxMu.Lock()
	defer ctxMu.Unlock()
	if len(c.Stats.Samples) < 3 {
		c.Stats.Samples = append(c.Stats.Samples, s)
	}
}
func (c *Ctx) Monitor(sig, what string, cs interface{}) {
	// shared scenario runners evaluate several properties; a check reports only its own
	if len(sig) > 4 && sig[0] == 'C' && sig[3] == '/' && sig[:3] != c.Stats.Property {
		return
	}
	ctxMu.Lock()
	c.Stats.Monitor = append(c.Stats.Monitor, MonitorFinding{sig, what, cs})
	ctxMu.Unlock()
}

// WriteCases writes one Coq cases file: the prelude, `Definition cases := [...]`
// and the evaluation of `mismatches`.
func (c *Ctx) WriteCases(shard int, corrModule string, caseType string, terms []string) {
	name := fmt.Sprintf("cases_%d.v", shard)
	var b strings.Builder
	fmt.Fprintf(&b, "From OSS Require Import theories.Base %s.\nFrom Coq Require Import String.\nOpen Scope N_scope.\n", corrModule)
	fmt.Fprintf(&b, "Definition cases : list %s := [\n", caseType)
	b.WriteString(strings.Join(terms, ";\n"))
	b.WriteString("\n].\n")
	b.WriteString("Definition M := Eval vm_compute in mismatches cases.\nPrint M.\n")
	if err := os.WriteFile(filepath.Join(c.Out, name), []byte(b.String()), 0o644); err != nil {
		panic(err)
	}
	c.Stats.CaseFiles = append(c.Stats.CaseFiles, name)
}

var scenarios = map[string]scenario{}

func main() {
	prop := flag.String("prop", "", "property id")
	seed := flag.Int64("seed", 1, "seed")
	tier := flag.String("tier", "quick", "quick|thorough")
	out := flag.String("out", "", "output dir")
	replay := flag.String("replay", "", "replay file")
	child := flag.String("child", "", "internal: child scenario")
	confirm := flag.String("confirm", "", "TCP scenario: re-run the cases listed in this file (specs from stats.json case_index), one at a time")
	flag.Parse()
	if *child != "" {
		runChild(*child, flag.Args())
		return
	}
	sc, ok := scenarios[*prop]
	if !ok {
		var ks []string
		for k := range scenarios {
			ks = append(ks, k)
		}
		sort.Strings(ks)
		fmt.Fprintln(os.Stderr, "unknown property; have", ks)
		os.Exit(2)
	}
	os.MkdirAll(*out, 0o755)
	if os.Getenv("VERIF_WORKER") == "" {
		// The scenarios run in a worker process: code of the repository runs inside it, and a panic
		// on a goroutine of that code takes the whole process down. When that happens the input is
		// known (property, seed, tier) and the crash itself is reported as the failing input.
		superviseWorker(*prop, *seed, *tier, *out)
		return
	}
	ctx := &Ctx{Seed: *seed, Tier: *tier, Out: *out, Rng: NewRng(uint64(*seed)), seen: map[string]bool{}, ReplayF: *replay,
		Stats: &Stats{Property: *prop, Seed: *seed, Tier: *tier, Distribution: map[string]int{}, Extra: map[string]interface{}{}}}
	if *confirm != "" {
		cTCPConfirm(ctx, *prop, *confirm)
	} else {
		sc(ctx)
	}
	b, _ := json.MarshalIndent(ctx.Stats, "", " ")
	if err := os.WriteFile(filepath.Join(*out, "stats.json"), b, 0o644); err != nil {
		panic(err)
	}
}

var children = map[string]func(args []string){}

func runChild(name string, args []string) {
	f, ok := children[name]
	if !ok {
		fmt.Fprintln(os.Stderr, "unknown child", name)
		os.Exit(2)
	}
	f(args)
}

var implFrameRe = regexp.MustCompile(`^github\.com/Jigsaw-Code/outline-ss-server/(service|net|prometheus|ipinfo|cmd/outline-ss-server|internal/[a-z]+)[./(]`)

// superviseWorker re-executes this binary as the worker. If the worker dies of a Go panic or fatal
// error whose innermost non-runtime frame is code of the repository, a stats file with that crash
// as a monitor finding is written (so that the check reports it with the input that caused it);
// any other failure is passed on unchanged.
func superviseWorker(prop string, seed int64, tier, out string) {
	exe, _ := os.Executable()
	cmd := exec.Command(exe, os.Args[1:]...)
	cmd.Env = append(os.Environ(), "VERIF_WORKER=1")
	var errb bytes.Buffer
	cmd.Stdout = os.Stdout
	cmd.Stderr = io.MultiWriter(os.Stderr, &tailWriter{buf: &errb, max: 1 << 20})
	err := cmd.Run()
	if err == nil {
		return
	}
	code := 1
	if ee, ok := err.(*exec.ExitError); ok && ee.ExitCode() > 0 {
		code = ee.ExitCode()
	}
	trace := errb.String()
	i := strings.Index(trace, "panic: ")
	if j := strings.Index(trace, "fatal error: "); j >= 0 && (i < 0 || j < i) {
		i = j
	}
	if i < 0 {
		os.Exit(code)
	}
	trace = trace[i:]
	lines := strings.Split(trace, "\n")
	impl, first := "", lines[0]
	started := false
	for _, ln := range lines {
		if strings.HasPrefix(ln, "goroutine ") {
			if started {
				break // only the crashing goroutine (the first one printed)
			}
			started = true
			continue
		}
		if !started || strings.HasPrefix(ln, "\t") || ln == "" {
			continue
		}
		if strings.HasPrefix(ln, "runtime.") || strings.HasPrefix(ln, "panic(") || strings.HasPrefix(ln, "sync.") || strings.HasPrefix(ln, "internal/") {
			continue
		}
		if implFrameRe.MatchString(ln) {
			impl = ln
		}
		break
	}
	if impl == "" {
		os.Exit(code) // the harness' own failure
	}
	if len(lines) > 40 {
		lines = lines[:40]
	}
	fn := impl
	if k := strings.Index(fn, "("); k > 0 {
		fn = fn[:k]
	}
	fn = strings.TrimPrefix(fn, "github.com/Jigsaw-Code/outline-ss-server/")
	st := &Stats{Property: prop, Seed: seed, Tier: tier, Distribution: map[string]int{"worker-crashed": 1}, Extra: map[string]interface{}{},
		Rule: "the scenario did not complete: the code under test crashed the process"}
	st.Monitor = append(st.Monitor, MonitorFinding{prop + "/implementation-crash:" + fn,
		"the server code crashed the process while the scenario ran (" + first + ")",
		map[string]interface{}{"property": prop, "seed": seed, "tier": tier, "replay": "harness -prop " + prop + fmt.Sprintf(" -seed %d -tier %s", seed, tier), "trace": lines}})
	b, _ := json.MarshalIndent(st, "", " ")
	os.WriteFile(filepath.Join(out, "stats.json"), b, 0o644)
}

type tailWriter struct {
	buf *bytes.Buffer
	max int
}

// keeps the stderr of the worker from its first panic / fatal error line on, up to max bytes
func (w *tailWriter) Write(p []byte) (int, error) {
	if w.buf.Len() == 0 {
		i := bytes.Index(p, []byte("panic: "))
		if j := bytes.Index(p, []byte("fatal error: ")); j >= 0 && (i < 0 || j < i) {
			i = j
		}
		if i < 0 {
			return len(p), nil
		}
		w.buf.Write(p[i:])
		return len(p), nil
	}
	if w.buf.Len() < w.max {
		w.buf.Write(p)
	}
	return len(p), nil
}
