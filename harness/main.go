// verifharness drives the implementation built from /repo's current tree on
// generated abstract cases and writes, for each property, a Coq file with the
// same inputs plus the observed (canonicalised) outputs, and a stats JSON.
package main

import (
	"encoding/json"
	"flag"
	"fmt"
	"os"
	"path/filepath"
	"sort"
	"strings"
	"sync"
)

type Stats struct {
	Property     string                 `json:"property"`
	Seed         int64                  `json:"seed"`
	Tier         string                 `json:"tier"`
	Cases        int                    `json:"cases"`
	NonTrivial   int                    `json:"distinct_nontrivial"`
	Rule         string                 `json:"rule"`
	Distribution map[string]int         `json:"distribution"`
	Samples      []interface{}          `json:"samples"`
	Monitor      []MonitorFinding       `json:"monitor"`
	CaseFiles    []string               `json:"case_files"`
	CaseIndex    []json.RawMessage      `json:"case_index,omitempty"`
	Extra        map[string]interface{} `json:"extra,omitempty"`
}

// MonitorFinding is a verdict of the independent executable oracle for the
// property itself, evaluated on the implementation's observables.
type MonitorFinding struct {
	Signature string      `json:"signature"`
	What      string      `json:"what"`
	Case      interface{} `json:"case"`
}

type scenario func(ctx *Ctx)

type Ctx struct {
	Seed    int64
	Tier    string
	Out     string
	Rng     *Rng
	Stats   *Stats
	seen    map[string]bool
	ReplayF string
}

func (c *Ctx) Thorough() bool { return c.Tier == "thorough" }

// the recording methods may be called from scenario goroutines running in parallel
var ctxMu sync.Mutex

func (c *Ctx) Count(k string) {
	ctxMu.Lock()
	c.Stats.Distribution[k]++
	ctxMu.Unlock()
}
func (c *Ctx) CountN(k string, n int) {
	ctxMu.Lock()
	c.Stats.Distribution[k] += n
	ctxMu.Unlock()
}

// NonTrivial records one case with a canonical key; distinct keys are counted.
func (c *Ctx) NonTrivial(key string) {
	ctxMu.Lock()
	defer ctxMu.Unlock()
	if !c.seen[key] {
		c.seen[key] = true
		c.Stats.NonTrivial++
	}
}
func (c *Ctx) Sample(s interface{}) {
	ctxMu.Lock()
	defer ctxMu.Unlock()
	if len(c.Stats.Samples) < 3 {
		c.Stats.Samples = append(c.Stats.Samples, s)
	}
}
func (c *Ctx) Monitor(sig, what string, cs interface{}) {
	// shared scenario runners evaluate several properties; a check reports only its own
	if len(sig) > 4 && sig[0] == 'C' && sig[3] == '/' && sig[:3] != c.Stats.Property {
		return
	}
	ctxMu.Lock()
	c.Stats.Monitor = append(c.Stats.Monitor, MonitorFinding{sig, what, cs})
	ctxMu.Unlock()
}

// WriteCases writes one Coq cases file: the prelude, `Definition cases := [...]`
// and the evaluation of `mismatches`.
func (c *Ctx) WriteCases(shard int, corrModule string, caseType string, terms []string) {
	name := fmt.Sprintf("cases_%d.v", shard)
	var b strings.Builder
	fmt.Fprintf(&b, "From OSS Require Import theories.Base %s.\nFrom Coq Require Import String.\nOpen Scope N_scope.\n", corrModule)
	fmt.Fprintf(&b, "Definition cases : list %s := [\n", caseType)
	b.WriteString(strings.Join(terms, ";\n"))
	b.WriteString("\n].\n")
	b.WriteString("Definition M := Eval vm_compute in mismatches cases.\nPrint M.\n")
	if err := os.WriteFile(filepath.Join(c.Out, name), []byte(b.String()), 0o644); err != nil {
		panic(err)
	}
	c.Stats.CaseFiles = append(c.Stats.CaseFiles, name)
}

var scenarios = map[string]scenario{}

func main() {
	prop := flag.String("prop", "", "property id")
	seed := flag.Int64("seed", 1, "seed")
	tier := flag.String("tier", "quick", "quick|thorough")
	out := flag.String("out", "", "output dir")
	replay := flag.String("replay", "", "replay file")
	child := flag.String("child", "", "internal: child scenario")
	flag.Parse()
	if *child != "" {
		runChild(*child, flag.Args())
		return
	}
	sc, ok := scenarios[*prop]
	if !ok {
		var ks []string
		for k := range scenarios {
			ks = append(ks, k)
		}
		sort.Strings(ks)
		fmt.Fprintln(os.Stderr, "unknown property; have", ks)
		os.Exit(2)
	}
	os.MkdirAll(*out, 0o755)
	ctx := &Ctx{Seed: *seed, Tier: *tier, Out: *out, Rng: NewRng(uint64(*seed)), seen: map[string]bool{}, ReplayF: *replay,
		Stats: &Stats{Property: *prop, Seed: *seed, Tier: *tier, Distribution: map[string]int{}, Extra: map[string]interface{}{}}}
	sc(ctx)
	b, _ := json.MarshalIndent(ctx.Stats, "", " ")
	if err := os.WriteFile(filepath.Join(*out, "stats.json"), b, 0o644); err != nil {
		panic(err)
	}
}

var children = map[string]func(args []string){}

func runChild(name string, args []string) {
	f, ok := children[name]
	if !ok {
		fmt.Fprintln(os.Stderr, "unknown child", name)
		os.Exit(2)
	}
	f(args)
}
