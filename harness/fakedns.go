package main

// A minimal in-process DNS server and the process-wide resolver pointing at it, so that
// domain-name targets can resolve to several addresses (public and non-public) or to
// answers that change between two look-ups. Names: see dnsAnswer.

import (
	"context"
	"encoding/binary"
	"net"
	"strings"
	"sync"
)

var fakeDNSOnce sync.Once
var fakeDNSCounts sync.Map // name|qtype -> *int

const dnsSuffix = ".verif.test."

// dnsAnswer: what a name resolves to. nth = how many times this (name, type) was asked before.
func dnsAnswer(name string, qtype uint16, nth int) ([]net.IP, bool) {
	if !strings.HasSuffix(name, dnsSuffix) {
		return nil, false
	}
	base := strings.TrimSuffix(name, dnsSuffix)
	if i := strings.IndexByte(base, '-'); i >= 0 { // "flip-123" -> "flip"
		base = base[:i]
	}
	a, aaaa := qtype == 1, qtype == 28
	switch base {
	case "mixed": // a public IPv4 address and the IPv6 loopback
		if a {
			return []net.IP{net.ParseIP("203.0.113.77")}, true
		}
		if aaaa {
			return []net.IP{net.ParseIP("::1")}, true
		}
	case "two": // a private and a public IPv4 address
		if a {
			return []net.IP{net.ParseIP("10.99.0.1"), net.ParseIP("203.0.113.77")}, true
		}
	case "flip": // public on the first look-up, loopback afterwards (TTL 0 rebinding)
		if a {
			if nth == 0 {
				return []net.IP{net.ParseIP("203.0.113.77")}, true
			}
			return []net.IP{net.ParseIP("127.0.0.1")}, true
		}
	case "pub":
		if a {
			return []net.IP{net.ParseIP("203.0.113.77")}, true
		}
	case "priv":
		if a {
			return []net.IP{net.ParseIP("10.99.0.1")}, true
		}
	default:
		return nil, false
	}
	return nil, true // name exists, no record of this type
}

func ensureFakeDNS() {
	fakeDNSOnce.Do(func() {
		conn, err := net.ListenUDP("udp", &net.UDPAddr{IP: net.ParseIP("127.0.0.1")})
		if err != nil {
			return
		}
		addr := conn.LocalAddr().String()
		net.DefaultResolver = &net.Resolver{
			PreferGo: true,
			Dial: func(ctx context.Context, network, address string) (net.Conn, error) {
				var nd net.Dialer
				return nd.DialContext(ctx, "udp", addr)
			},
		}
		go func() {
			buf := make([]byte, 1500)
			for {
				n, from, err := conn.ReadFromUDP(buf)
				if err != nil {
					return
				}
				q := buf[:n]
				if n < 12 {
					continue
				}
				off := 12
				var labels []string
				for off < n && q[off] != 0 {
					l := int(q[off])
					if off+1+l > n {
						break
					}
					labels = append(labels, string(q[off+1:off+1+l]))
					off += l + 1
				}
				off++
				if off+4 > n {
					continue
				}
				name := strings.ToLower(strings.Join(labels, ".")) + "."
				qtype := binary.BigEndian.Uint16(q[off:])
				question := q[12 : off+4]
				key := name + "|" + string(rune(qtype))
				cnt, _ := fakeDNSCounts.LoadOrStore(key, new(int))
				nth := *(cnt.(*int))
				*(cnt.(*int)) = nth + 1
				ips, exists := dnsAnswer(name, qtype, nth)
				rcode := byte(0)
				if !exists {
					rcode = 3 // NXDOMAIN
				}
				resp := []byte{q[0], q[1], 0x81, 0x80 | rcode, 0, 1}
				resp = binary.BigEndian.AppendUint16(resp, uint16(len(ips)))
				resp = append(resp, 0, 0, 0, 0)
				resp = append(resp, question...)
				for _, ip := range ips {
					rdata := []byte(ip.To16())
					if qtype == 1 {
						rdata = []byte(ip.To4())
					}
					resp = append(resp, 0xC0, 0x0C)
					resp = binary.BigEndian.AppendUint16(resp, qtype)
					resp = append(resp, 0, 1, 0, 0, 0, 0)
					resp = binary.BigEndian.AppendUint16(resp, uint16(len(rdata)))
					resp = append(resp, rdata...)
				}
				conn.WriteToUDP(resp, from)
			}
		}()
	})
}
