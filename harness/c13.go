package main

import (
	"bytes"
	"fmt"
	"net"
	"os"
	"os/exec"
	"regexp"
	"runtime"
	"sort"
	"strings"
	"sync"
	"sync/atomic"
	"time"

	"github.com/Jigsaw-Code/outline-ss-server/service"
)

func init() {
	scenarios["C13"] = c13
	children["c13stress"] = c13child
}

// c13child: G goroutines do iters x (Listen; Close) on a ListenerManager. Exit 0 when all
// return; on no progress for the watchdog period dump all goroutines and exit 3.
func c13child(args []string) {
	mode := args[0] // stream-same, packet-same, stream-distinct, mixed-same
	var G, iters int
	fmt.Sscan(args[1], &G)
	fmt.Sscan(args[2], &iters)
	mgr := service.NewListenerManager()
	base := freeLowPorts(52)
	var progress int64
	var wg sync.WaitGroup
	if mode == "stream-unaccepted" {
		// the last Close of an address while the accept loop holds a connection nobody accepted,
		// then the address again
		G = 0
		wg.Add(1)
		go func() {
			defer wg.Done()
			for i := 0; i < iters; i++ {
				addr := fmt.Sprintf("127.0.0.1:%d", base+1+i%50)
				ln, err := mgr.ListenStream(addr)
				if err != nil {
					atomic.AddInt64(&progress, 1)
					continue
				}
				c, derr := net.DialTimeout("tcp", addr, time.Second)
				time.Sleep(3 * time.Millisecond) // let the accept loop take it
				ln.Close()
				atomic.AddInt64(&progress, 1)
				if derr == nil {
					c.Close()
				}
				if ln2, err := mgr.ListenStream(addr); err == nil {
					ln2.Close()
				}
				atomic.AddInt64(&progress, 1)
			}
		}()
	}
	if mode == "handle-reuse" {
		// calls on a handle after its Close: AcceptStream / ReadFrom fail, a second Close of a stream
		// handle is a no-op, and the manager stays usable on that address
		G = 0
		wg.Add(1)
		go func() {
			defer wg.Done()
			for i := 0; i < iters; i++ {
				addr := fmt.Sprintf("127.0.0.1:%d", base+1+i%50)
				if ln, err := mgr.ListenStream(addr); err == nil {
					var keep service.StreamListener
					if i%3 == 0 { // not the last handle of the address
						keep, _ = mgr.ListenStream(addr)
					}
					ln.Close()
					ln.AcceptStream()
					atomic.AddInt64(&progress, 1)
					ln.Close()
					ln.AcceptStream()
					if keep != nil {
						keep.Close()
					}
				}
				atomic.AddInt64(&progress, 1)
				if pc, err := mgr.ListenPacket(addr); err == nil {
					pc.Close()
					pc.ReadFrom(make([]byte, 16))
				}
				atomic.AddInt64(&progress, 1)
				if ln, err := mgr.ListenStream(addr); err == nil {
					ln.Close()
				}
				atomic.AddInt64(&progress, 1)
			}
		}()
	}
	if mode == "stream-bindfail" || mode == "packet-bindfail" {
		// error paths: a Listen that fails at bind (the address is held by someone else), then
		// the same address again once it is free, and an unrelated address
		G = 0
		wg.Add(1)
		go func() {
			defer wg.Done()
			for i := 0; i < iters; i++ {
				addr := fmt.Sprintf("127.0.0.1:%d", base+1+i%50)
				if mode == "stream-bindfail" {
					own, err := net.Listen("tcp", addr)
					if err != nil {
						continue
					}
					if ln, err := mgr.ListenStream(addr); err == nil {
						ln.Close()
					}
					own.Close()
					atomic.AddInt64(&progress, 1)
					if ln, err := mgr.ListenStream(addr); err == nil {
						ln.Close()
					}
				} else {
					own, err := net.ListenPacket("udp", addr)
					if err != nil {
						continue
					}
					if pc, err := mgr.ListenPacket(addr); err == nil {
						pc.Close()
					}
					own.Close()
					atomic.AddInt64(&progress, 1)
					if pc, err := mgr.ListenPacket(addr); err == nil {
						pc.Close()
					}
				}
				atomic.AddInt64(&progress, 1)
				if ln, err := mgr.ListenStream(fmt.Sprintf("127.0.0.1:%d", base)); err == nil {
					ln.Close()
				}
				atomic.AddInt64(&progress, 1)
			}
		}()
	}
	for g := 0; g < G; g++ {
		wg.Add(1)
		go func(g int) {
			defer wg.Done()
			addr := fmt.Sprintf("127.0.0.1:%d", base)
			if mode == "stream-distinct" {
				addr = fmt.Sprintf("127.0.0.1:%d", base+1+g)
			}
			for i := 0; i < iters; i++ {
				usePacket := mode == "packet-same" || (mode == "mixed-same" && (g+i)%2 == 0)
				if usePacket {
					pc, err := mgr.ListenPacket(addr)
					if err == nil {
						pc.Close()
					}
				} else {
					ln, err := mgr.ListenStream(addr)
					if err == nil {
						ln.Close()
					}
				}
				atomic.AddInt64(&progress, 1)
			}
		}(g)
	}
	done := make(chan struct{})
	go func() { wg.Wait(); close(done) }()
	last := int64(-1)
	for {
		select {
		case <-done:
			fmt.Printf("completed %d\n", atomic.LoadInt64(&progress))
			os.Exit(0)
		case <-time.After(700 * time.Millisecond):
			cur := atomic.LoadInt64(&progress)
			if cur == last {
				buf := make([]byte, 1<<20)
				n := runtime.Stack(buf, true)
				os.Stderr.Write(buf[:n])
				fmt.Printf("stuck at %d\n", cur)
				os.Exit(3)
			}
			last = cur
		}
	}
}

var c13fnRe = regexp.MustCompile(`service\.\(\*?([A-Za-z]+)(?:\[[^\]]*\])?\)\.([A-Za-z]+)`)

// classify the goroutines blocked in a mutex by the repo methods on their stacks
func c13classify(dump string) string {
	set := map[string]bool{}
	for _, g := range strings.Split(dump, "\n\n") {
		if !strings.Contains(g, "sync.(*Mutex).Lock") && !strings.Contains(g, "sync.(*Mutex).lockSlow") {
			continue
		}
		for _, m := range c13fnRe.FindAllStringSubmatch(g, -1) {
			set[m[1]+"."+m[2]] = true
		}
	}
	var ks []string
	for k := range set {
		ks = append(ks, k)
	}
	sort.Strings(ks)
	// canonical class of the known inversion: some Listen* (holds manager.mu, wants the shared
	// listener's mu) against some virtual Close (holds the shared listener's mu, wants manager.mu)
	hasListen, hasClose, other := false, false, false
	for _, k := range ks {
		switch k {
		case "listenerManager.ListenStream", "listenerManager.ListenPacket":
			hasListen = true
		case "virtualStreamListener.Close", "virtualPacketConn.Close":
			hasClose = true
		case "multiStreamListener.Acquire", "multiPacketListener.Acquire":
		default:
			other = true
		}
	}
	if hasListen && hasClose && !other {
		return "listen-vs-last-close"
	}
	return strings.Join(ks, "+")
}

func c13(ctx *Ctx) {
	ctx.Stats.Rule = "dynamic search only (the deciding obligation is the translator-regenerated lock-path check): G goroutines x iters (Listen; Close) on one ListenerManager in a child process with a progress watchdog; a stuck run is classified by the repo methods on the stacks of goroutines blocked in Mutex.Lock; non-trivial = runs with at least 2 goroutines on a shared address"
	managerCrossKind(ctx, "C13")
	exe, _ := os.Executable()
	runs := []struct {
		mode     string
		g, iters int
	}{{"stream-same", 8, 3000}, {"packet-same", 8, 3000}, {"stream-distinct", 8, 300}, {"mixed-same", 8, 2000}, {"stream-bindfail", 1, 200}, {"packet-bindfail", 1, 200}, {"stream-unaccepted", 1, 150}, {"handle-reuse", 1, 200}}
	if ctx.Thorough() {
		for i := 0; i < 6; i++ {
			runs = append(runs, runs[i%8])
		}
	}
	for _, rn := range runs {
		cmd := exec.Command(exe, "-child", "c13stress", rn.mode, fmt.Sprint(rn.g), fmt.Sprint(rn.iters))
		var so, se bytes.Buffer
		cmd.Stdout, cmd.Stderr = &so, &se
		start := time.Now()
		done := make(chan error, 1)
		cmd.Start()
		go func() { done <- cmd.Wait() }()
		var err error
		select {
		case err = <-done:
		case <-time.After(60 * time.Second):
			cmd.Process.Kill()
			err = fmt.Errorf("harness timeout")
		}
		ctx.Stats.Cases++
		ctx.NonTrivial(rn.mode)
		ctx.Count("run:" + rn.mode)
		res := map[string]interface{}{"mode": rn.mode, "goroutines": rn.g, "iters": rn.iters, "wall_ms": time.Since(start).Milliseconds()}
		if ee, ok := err.(*exec.ExitError); ok && ee.ExitCode() == 3 {
			cls := c13classify(se.String())
			res["result"] = "deadlock"
			res["blocked"] = cls
			ctx.Count("deadlock:" + rn.mode)
			ctx.Monitor("C13/deadlock:"+cls, fmt.Sprintf("%s: %d goroutines x (Listen;Close) stopped making progress; goroutines blocked in Mutex.Lock under %s", rn.mode, rn.g, cls),
				map[string]interface{}{"child": "c13stress", "args": []string{rn.mode, fmt.Sprint(rn.g), fmt.Sprint(rn.iters)}, "stdout": so.String(), "blocked": cls})
		} else if err != nil {
			res["result"] = "error: " + err.Error()
			ctx.Monitor("C13/stress-crash:"+rn.mode, "stress child failed: "+err.Error()+" "+tailStr(se.String(), 600), res)
		} else {
			res["result"] = strings.TrimSpace(so.String())
			ctx.Count("completed:" + rn.mode)
		}
		ctx.Sample(res)
	}
}

func tailStr(s string, n int) string {
	if len(s) > n {
		return s[len(s)-n:]
	}
	return s
}
