package main

// C17 end to end: the real service (stream handler + authenticator with a replay history) wired
// to the real Prometheus collectors under a controlled clock. A connection that is refused —
// here a replayed handshake whose prober keeps the connection open — contributes no tunnel time.

import (
	"container/list"
	"context"
	"fmt"
	"io"
	"math"
	"net"
	"time"

	"github.com/Jigsaw-Code/outline-sdk/transport/shadowsocks"
	oprom "github.com/Jigsaw-Code/outline-ss-server/prometheus"
	"github.com/Jigsaw-Code/outline-ss-server/service"
	"github.com/prometheus/client_golang/prometheus"
)

func c17ServiceE2E(ctx *Ctx) {
	clock := time.Unix(1_700_000_000, 0)
	oprom.VerifSetNow(func() time.Time { return clock })
	sm, err := oprom.NewServiceMetrics(nil)
	if err != nil {
		return
	}
	reg := prometheus.NewRegistry()
	reg.MustRegister(sm)
	l := list.New()
	k1, _ := shadowsocks.NewEncryptionKey(cipherNames[0], secretStr(1))
	e1 := service.MakeCipherEntry("key-one", k1, secretStr(1))
	l.PushBack(&e1)
	cl := service.NewCipherList()
	cl.Update(l)
	cache := service.NewReplayCache(10)
	svc, err := service.NewShadowsocksService(service.WithCiphers(cl), service.WithMetrics(sm), service.WithNatTimeout(time.Second), service.WithReplayCache(&cache))
	if err != nil {
		return
	}
	ln, err := net.Listen("tcp", "127.0.0.1:0")
	if err != nil {
		return
	}
	defer ln.Close()
	go func() {
		for {
			c, err := ln.Accept()
			if err != nil {
				return
			}
			go func() { svc.HandleStream(context.Background(), c.(*net.TCPConn)); c.Close() }()
		}
	}()
	// an echo target on the local public-range address when the machine has it (the service applies
	// the default policy); otherwise the first connection ends at once with a refused destination
	echoAddr := []byte{1, 127, 0, 0, 1, 0, 9}
	haveEcho := false
	if ensureLocalAddrs()["203.0.113.77"] {
		if el, err := net.Listen("tcp", "203.0.113.77:0"); err == nil {
			defer el.Close()
			go func() {
				for {
					c, err := el.Accept()
					if err != nil {
						return
					}
					go func() { io.Copy(c, c); c.Close() }()
				}
			}()
			p := el.Addr().(*net.TCPAddr).Port
			echoAddr = []byte{1, 203, 0, 113, 77, byte(p >> 8), byte(p)}
			haveEcho = true
		}
	}
	closed := func() int {
		mfs, _ := reg.Gather()
		n := 0
		for _, mf := range mfs {
			if mf.GetName() == "tcp_connections_closed" {
				for _, m := range mf.GetMetric() {
					n += int(m.GetCounter().GetValue())
				}
			}
		}
		return n
	}
	waitClosed := func(n int) bool {
		for w := 0; w < 600; w++ {
			if closed() >= n {
				return true
			}
			time.Sleep(5 * time.Millisecond)
		}
		return false
	}
	wire := ssStream(k1, genBytes(32, 4242), append(append([]byte{}, echoAddr...), []byte("hello")...))
	// 1: the genuine connection, open for 10 s of the clock (when there is a target to stay connected to)
	c1, err := net.Dial("tcp", ln.Addr().String())
	if err != nil {
		return
	}
	c1.Write(wire)
	want := 0.0
	if haveEcho {
		c1.SetReadDeadline(time.Now().Add(2 * time.Second))
		if _, err := io.ReadFull(c1, make([]byte, 32+2+16)); err == nil { // the server answered: the relay is up
			clock = clock.Add(10 * time.Second)
			want = 10
		}
	}
	c1.Close()
	if !waitClosed(1) {
		return
	}
	// 2: the same bytes again: refused as a replay; the prober keeps the connection open for 30 s
	c2, err := net.Dial("tcp", ln.Addr().String())
	if err != nil {
		return
	}
	c2.Write(wire)
	time.Sleep(100 * time.Millisecond) // the server has looked at it
	clock = clock.Add(30 * time.Second)
	c2.(*net.TCPConn).CloseWrite()
	c2.SetReadDeadline(time.Now().Add(2 * time.Second))
	io.Copy(io.Discard, c2)
	c2.Close()
	if !waitClosed(2) {
		return
	}
	// 3: a genuine handshake followed by an address of an unknown type: the connection IS
	// authenticated; it is drained for as long as its client keeps it open (20 s here), and that is
	// time with a tunnel open
	c3, err := net.Dial("tcp", ln.Addr().String())
	if err != nil {
		return
	}
	c3.Write(ssStream(k1, genBytes(32, 4343), []byte{9, 1, 2, 3, 4, 5, 6}))
	time.Sleep(100 * time.Millisecond) // the server has authenticated it and tried the address
	clock = clock.Add(20 * time.Second)
	want += 20
	c3.(*net.TCPConn).CloseWrite()
	c3.SetReadDeadline(time.Now().Add(2 * time.Second))
	io.Copy(io.Discard, c3)
	c3.Close()
	if !waitClosed(3) {
		return
	}
	clock = clock.Add(5 * time.Second)
	mfs, _ := reg.Gather()
	got, gotLoc := 0.0, 0.0
	status := ""
	for _, mf := range mfs {
		for _, m := range mf.GetMetric() {
			switch mf.GetName() {
			case "tunnel_time_seconds":
				got += m.GetCounter().GetValue()
			case "tunnel_time_seconds_per_location":
				gotLoc += m.GetCounter().GetValue()
			case "tcp_connections_closed":
				for _, lp := range m.GetLabel() {
					if lp.GetName() == "status" && m.GetCounter().GetValue() > 0 {
						status += lp.GetValue() + " "
					}
				}
			}
		}
	}
	ctx.Count("service-e2e:runs")
	ctx.Stats.Extra["service_e2e"] = map[string]interface{}{"echo_target": haveEcho, "expected_s": want, "tunnel_time_s": got, "per_location_s": gotLoc, "close_statuses": status}
	if math.Abs(got-want) > 1e-6 || math.Abs(gotLoc-want) > 1e-6 {
		ctx.Monitor("C17/service-tunnel-time-differs", fmt.Sprintf("a genuine connection, a replayed handshake (refused) held open for 30 s, an authenticated connection with an unreadable address held open for 20 s: tunnel_time_seconds=%.3f, per location %.3f, expected %.0f (statuses seen: %s)", got, gotLoc, want, status), nil)
	}
}
