package main

import (
	"bytes"
	"container/list"
	"fmt"
	"net"
	"net/netip"
	"os"
	"os/exec"
	"path/filepath"
	"regexp"
	"sort"
	"strings"
	"sync"
	"time"

	"github.com/Jigsaw-Code/outline-sdk/transport/shadowsocks"
	oprom "github.com/Jigsaw-Code/outline-ss-server/prometheus"
	"github.com/Jigsaw-Code/outline-ss-server/service"
	"github.com/Jigsaw-Code/outline-ss-server/service/metrics"
	"github.com/prometheus/client_golang/prometheus"
)

func init() {
	scenarios["C19"] = c19
	children["c19race"] = c19child
}

func par(n int, f func(g int)) {
	var wg sync.WaitGroup
	for g := 0; g < n; g++ {
		wg.Add(1)
		go func(g int) { defer wg.Done(); f(g) }(g)
	}
	wg.Wait()
}

// c19child runs one component's concurrent scenario; meant to be run from a -race build.
func c19child(args []string) {
	iters := 300
	if len(args) > 1 {
		fmt.Sscan(args[1], &iters)
	}
	switch args[0] {
	case "replay":
		c := service.NewReplayCache(8)
		par(8, func(g int) {
			for i := 0; i < iters; i++ {
				if g == 0 {
					c.Resize([]int{0, 1, 8, 100}[i%4])
				} else {
					c.Add("k", []byte{byte(i), byte(g), byte(i >> 8)})
				}
			}
		})
	case "cipherlist":
		mk := func(n int) *list.List {
			l := list.New()
			for i := 0; i < n; i++ {
				k, _ := shadowsocks.NewEncryptionKey(shadowsocks.CHACHA20IETFPOLY1305, fmt.Sprintf("secret-%d", i))
				e := service.MakeCipherEntry(fmt.Sprintf("id-%d", i), k, fmt.Sprintf("secret-%d", i))
				l.PushBack(&e)
			}
			return l
		}
		cl := service.NewCipherList()
		cl.Update(mk(6))
		par(8, func(g int) {
			ip := netip.AddrFrom4([4]byte{10, 0, 0, byte(g)})
			for i := 0; i < iters; i++ {
				switch {
				case g == 0 && i%50 == 0:
					cl.Update(mk(1 + (i/50)%9))
				default:
					snap := cl.SnapshotForClientIP(ip)
					if len(snap) > 0 {
						cl.MarkUsedByClientIP(snap[(i+g)%len(snap)], ip)
					}
				}
			}
		})
	case "listeners":
		mgr := service.NewListenerManager()
		addr := fmt.Sprintf("127.0.0.1:%d", freeLowPorts(1))
		var hs []service.StreamListener
		for i := 0; i < 4; i++ {
			h, err := mgr.ListenStream(addr)
			if err != nil {
				fmt.Println("listen error", err)
				os.Exit(4)
			}
			hs = append(hs, h)
		}
		var pcs []net.PacketConn
		for i := 0; i < 3; i++ {
			pc, err := mgr.ListenPacket(addr)
			if err != nil {
				fmt.Println("listenpacket error", err)
				os.Exit(4)
			}
			pcs = append(pcs, pc)
		}
		var wg sync.WaitGroup
		for _, h := range hs {
			wg.Add(1)
			go func(h service.StreamListener) {
				defer wg.Done()
				for {
					c, err := h.AcceptStream()
					if err != nil {
						return
					}
					c.Close()
				}
			}(h)
		}
		for _, pc := range pcs {
			wg.Add(1)
			go func(pc net.PacketConn) {
				defer wg.Done()
				buf := make([]byte, 100)
				for {
					if _, _, err := pc.ReadFrom(buf); err != nil {
						return
					}
				}
			}(pc)
		}
		for i := 0; i < 40; i++ {
			if c, err := net.Dial("tcp", addr); err == nil {
				c.Close()
			}
			if c, err := net.Dial("udp", addr); err == nil {
				c.Write([]byte("x"))
				c.Close()
			}
		}
		// concurrent closes of all handles but never concurrent with a Listen (that is C13's known deadlock)
		par(len(hs), func(g int) { hs[g].Close() })
		par(len(pcs), func(g int) { pcs[g].Close() })
		done := make(chan struct{})
		go func() { wg.Wait(); close(done) }()
		select {
		case <-done:
		case <-time.After(3 * time.Second):
			fmt.Println("accept loops did not stop")
		}
	case "metrics":
		sm, _ := oprom.NewServiceMetrics(nil)
		reg := prometheus.NewRegistry()
		reg.MustRegister(sm)
		par(8, func(g int) {
			for i := 0; i < iters/3; i++ {
				if g <= 1 { // two scrapers: scrapes overlap each other and the closes below
					reg.Gather()
					continue
				}
				// many distinct clients open at any time, so that a scrape has work to do while the
				// last connections of other clients close
				var held []func()
				for k := 0; k < 12; k++ {
					ipk := net.IPv4(198, 51, byte(g), byte(k))
					c2 := sm.AddOpenTCPConnection(&fakeConn{remote: &net.TCPAddr{IP: ipk, Port: 3000 + k}, local: &net.TCPAddr{IP: net.IPv4(127, 0, 0, 1), Port: 9}})
					c2.AddAuthenticated("k2")
					held = append(held, func() { c2.AddClosed("OK", metrics.ProxyMetrics{}, time.Millisecond) })
				}
				for _, cl := range held {
					cl()
				}
				ip := net.IPv4(203, 0, 113, byte(g%3))
				cm := sm.AddOpenTCPConnection(&fakeConn{remote: &net.TCPAddr{IP: ip, Port: 1000 + g}, local: &net.TCPAddr{IP: net.IPv4(127, 0, 0, 1), Port: 9}})
				cm.AddAuthenticated("k")
				um := sm.AddUDPNatEntry(&net.UDPAddr{IP: ip, Port: 2000 + g}, "k")
				um.AddPacketFromClient("OK", 10, 5)
				um.AddPacketFromTarget("OK", 10, 5)
				cm.AddClosed("OK", metrics.ProxyMetrics{ClientProxy: 1}, time.Millisecond)
				um.RemoveNatEntry()
				sm.AddCipherSearch("tcp", true, time.Microsecond)
			}
		})
	default:
		if f, ok := c19extra[args[0]]; ok {
			f(iters)
			return
		}
		fmt.Println("unknown scenario")
		os.Exit(2)
	}
	fmt.Println("done")
}

// further component scenarios registered by other files (tcp handler, udp nat)
var c19extra = map[string]func(iters int){}

var raceFrameRe = regexp.MustCompile(`(?m)^  (github\.com/Jigsaw-Code/outline-ss-server/[^\s(]+)\(`)

func c19classify(report string) string {
	// the first repository frame of each of the two stacks
	parts := regexp.MustCompile(`(?m)^(?:Previous )?(?:[Rr]ead|[Ww]rite) (?:at|of)[^\n]*\n`).Split(report, -1)
	set := map[string]bool{}
	for _, p := range parts[1:] {
		if m := raceFrameRe.FindStringSubmatch(p); m != nil {
			f := m[1]
			f = strings.TrimPrefix(f, "github.com/Jigsaw-Code/outline-ss-server/")
			set[f] = true
		}
	}
	var ks []string
	for k := range set {
		ks = append(ks, k)
	}
	sort.Strings(ks)
	return strings.Join(ks, "|")
}

func c19(ctx *Ctx) {
	ctx.Stats.Rule = "search only (the deciding obligation is the access-site table regenerated with go/types): each shared component's concurrent scenario runs in a child built with the race detector; every race report is classified by the first repository frame of both stacks; non-trivial = scenarios that completed under the detector"
	raceExe := filepath.Join(os.Getenv("VERIF_DIR"), ".cache", "harness_race")
	if _, err := os.Stat(raceExe); err != nil {
		ctx.Stats.Extra["race_binary"] = "missing: " + err.Error()
		ctx.Monitor("C19/harness-error", "race-enabled harness binary missing", nil)
		return
	}
	// "results equal to some sequential order of the same calls": copies of one handshake
	// presented to the replay history at the same instant must have exactly one winner
	replayConcurrentWinners(ctx, "C19/not-linearizable:ReplayCache.Add")
	snapshotsUnderMarks(ctx, "C19/not-linearizable:cipherList.SnapshotForClientIP")
	scs := []string{"replay", "cipherlist", "listeners", "metrics"}
	for k := range c19extra {
		scs = append(scs, k)
	}
	sort.Strings(scs)
	iters := "300"
	if ctx.Thorough() {
		iters = "3000"
	}
	for _, sc := range scs {
		cmd := exec.Command(raceExe, "-child", "c19race", sc, iters)
		cmd.Env = append(os.Environ(), "GORACE=halt_on_error=0 exitcode=66")
		var so, se bytes.Buffer
		cmd.Stdout, cmd.Stderr = &so, &se
		start := time.Now()
		cmd.Start()
		done := make(chan error, 1)
		go func() { done <- cmd.Wait() }()
		var err error
		select {
		case err = <-done:
		case <-time.After(120 * time.Second):
			cmd.Process.Kill()
			err = fmt.Errorf("timeout")
		}
		ctx.Stats.Cases++
		ctx.Count("scenario:" + sc)
		reports := strings.Split(se.String(), "WARNING: DATA RACE")
		res := map[string]interface{}{"scenario": sc, "wall_ms": time.Since(start).Milliseconds(), "race_reports": len(reports) - 1}
		if len(reports) > 1 {
			seen := map[string]bool{}
			for _, rp := range reports[1:] {
				cls := c19classify(rp)
				if seen[cls] {
					continue
				}
				seen[cls] = true
				ctx.Monitor("C19/race:"+cls, fmt.Sprintf("race detector report in scenario %s between %s", sc, cls), map[string]interface{}{"child": "c19race", "args": []string{sc, iters}, "report": tailStr("WARNING: DATA RACE"+rp, 2500)})
			}
			ctx.Count("races:" + sc)
		} else if err != nil && !strings.Contains(so.String(), "done") {
			ctx.Monitor("C19/scenario-failed:"+sc, "scenario did not complete: "+err.Error()+" "+tailStr(se.String(), 500), res)
		} else {
			ctx.NonTrivial(sc)
		}
		ctx.Sample(res)
	}
}
