package main

// C19: race scenarios for the UDP path (NAT map, natconn deadlines, the reply goroutines) and the
// TCP handler, run in the race-enabled child.

import (
	"context"
	"io"
	"net"
	"sync"
	"time"

	"github.com/Jigsaw-Code/outline-sdk/transport"
	"github.com/Jigsaw-Code/outline-sdk/transport/shadowsocks"
	"github.com/Jigsaw-Code/outline-ss-server/service"
)

func init() {
	c19extra["udp"] = c19udp
	c19extra["tcp"] = c19tcp
}

// several clients talk to an echo target through one PacketHandler with a NAT timeout so short
// that associations expire and are re-created while other clients' datagrams and replies flow
func c19udp(iters int) {
	cfg := []cfgKey{{ID: 1, C: 0, S: 1}, {ID: 2, C: 3, S: 2}}
	cl := service.NewCipherList()
	cl.Update(makeList(cfg))
	um := &c18UDPMetrics{}
	ph := service.NewPacketHandler(30*time.Millisecond, cl, um, nil)
	ph.SetTargetIPValidator(func(net.IP) error { return nil })
	srv, _ := net.ListenPacket("udp", "127.0.0.1:0")
	done := make(chan struct{})
	go func() { ph.Handle(srv); close(done) }()
	echo, _ := net.ListenPacket("udp", "127.0.0.1:0")
	ep := echo.LocalAddr().(*net.UDPAddr).Port
	go func() {
		buf := make([]byte, 2048)
		for {
			n, a, err := echo.ReadFrom(buf)
			if err != nil {
				return
			}
			echo.WriteTo(buf[:n], a)
			echo.WriteTo(buf[:n], a) // a second reply: traffic on the association while the client is silent
		}
	}()
	k0, _ := shadowsocks.NewEncryptionKey(cipherNames[0], secretStr(1))
	k1, _ := shadowsocks.NewEncryptionKey(cipherNames[3], secretStr(2))
	var wg sync.WaitGroup
	for g := 0; g < 6; g++ {
		wg.Add(1)
		go func(g int) {
			defer wg.Done()
			c, _ := net.Dial("udp", srv.LocalAddr().String())
			defer c.Close()
			key := k0
			if g%2 == 1 {
				key = k1
			}
			buf := make([]byte, 2048)
			for i := 0; i < iters/4; i++ {
				port := ep
				if i%7 == 3 {
					port = 53 // DNS destination: the other timeout and the fast-close path
				}
				salt := genBytes(key.SaltSize(), uint32(g*100000+i))
				c.Write(sealDgram(key, salt, append([]byte{1, 127, 0, 0, 1, byte(port >> 8), byte(port)}, 'x')))
				c.SetReadDeadline(time.Now().Add(5 * time.Millisecond))
				c.Read(buf)
				if i%5 == g%5 {
					time.Sleep(35 * time.Millisecond) // let this client's association expire
				}
			}
		}(g)
	}
	wg.Wait()
	srv.Close()
	<-done
	echo.Close()
}

// concurrent TCP connections through the real handler: valid relays, probes and replays share the
// cipher list and the replay cache
func c19tcp(iters int) {
	cfg := []cfgKey{{ID: 1, C: 0, S: 1}, {ID: 2, C: 3, S: 2}}
	cl := service.NewCipherList()
	cl.Update(makeList(cfg))
	cache := service.NewReplayCache(5)
	auth := service.NewShadowsocksStreamAuthenticator(cl, &cache, nil, nil)
	sh := service.NewStreamHandler(auth, 200*time.Millisecond)
	sh.SetTargetDialer(&transport.TCPDialer{})
	ln, _ := net.Listen("tcp", "127.0.0.1:0")
	go service.StreamServe(service.WrapStreamAcceptFunc(ln.(*net.TCPListener).AcceptTCP), func(ctx context.Context, c transport.StreamConn) {
		sh.Handle(ctx, c, nil)
	})
	el, _ := net.Listen("tcp", "127.0.0.1:0")
	ep := el.Addr().(*net.TCPAddr).Port
	go func() {
		for {
			c, err := el.Accept()
			if err != nil {
				return
			}
			go func() { io.Copy(c, c); c.Close() }()
		}
	}()
	k0, _ := shadowsocks.NewEncryptionKey(cipherNames[0], secretStr(1))
	var wg sync.WaitGroup
	for g := 0; g < 6; g++ {
		wg.Add(1)
		go func(g int) {
			defer wg.Done()
			for i := 0; i < iters/10; i++ {
				c, err := net.Dial("tcp", ln.Addr().String())
				if err != nil {
					continue
				}
				switch i % 3 {
				case 0:
					salt := genBytes(32, uint32(g*1000+i))
					c.Write(ssStream(k0, salt, append([]byte{1, 127, 0, 0, 1, byte(ep >> 8), byte(ep)}, []byte("hi")...)))
				case 1: // the same salt again from everybody: replays racing each other
					c.Write(ssStream(k0, genBytes(32, 77), append([]byte{1, 127, 0, 0, 1, byte(ep >> 8), byte(ep)}, []byte("hi")...)))
				default:
					c.Write(genBytes(80, uint32(i)))
				}
				c.(*net.TCPConn).CloseWrite()
				c.SetReadDeadline(time.Now().Add(300 * time.Millisecond))
				io.Copy(io.Discard, c)
				c.Close()
			}
		}(g)
	}
	wg.Wait()
	ln.Close()
	el.Close()
	time.Sleep(50 * time.Millisecond)
}
