package main

import (
	"bytes"
	"fmt"
	"net"
	"strings"
	"sync"
)

const udpRule = "case = key list (mixed ciphers, duplicates) + 3..12 datagram operations from 4 client sockets (2 sharing an IP, 3 IPs) to 3 scripted targets (IPv4, IPv6, domain names) through the real PacketHandler on loopback UDP: valid, wrong-key (also on live associations), wrong-cipher, garbage, truncated, bad address type, refused destination (default policy), 0..2 replies per datagram, one idle period longer than the NAT timeout; observed per datagram: forwarded or not, source socket, payload, metric calls with sizes, replies as decrypted by the client; non-trivial = distinct operation sequences with at least one forwarded and one rejected datagram"

func genUDPCase(r *Rng, prop string) udpCaseSpec {
	nkeys := []int{1, 2, 4, 8}[r.Intn(4)]
	cs := udpCaseSpec{Cfg: genCfg(r, nkeys, nkeys+2), Validate: r.Chance(45)}
	if prop == "C05" {
		cs.Validate = true
	}
	avail := ensureLocalAddrs()
	var kinds []int
	for i, k := range targetKinds {
		if i >= 16 {
			continue // malformed forms are chosen explicitly below
		}
		if k.ip == "" || net.ParseIP(k.ip).IsLoopback() || avail[k.ip] {
			kinds = append(kinds, i)
		}
	}
	if prop == "C05" && r.Chance(50) {
		// a flow that opens an association with an allowed target and then keeps probing
		// non-public ones: the same one twice in a row, another one, the first again
		var pub, priv []int
		for _, k := range kinds {
			if targetKinds[k].public {
				pub = append(pub, k)
			} else if targetKinds[k].ip != "" {
				priv = append(priv, k)
			}
		}
		if len(pub) > 0 && len(priv) > 1 {
			pick := cs.Cfg[r.Intn(len(cs.Cfg))]
			client := []int{0, 1, 2, 3, 4, 5, 0, 2, 4}[r.Intn(9)]
			x, y := priv[r.Intn(len(priv))], priv[r.Intn(len(priv))]
			for _, k := range []int{pub[r.Intn(len(pub))], x, x, y, x, pub[r.Intn(len(pub))], y, y} {
				op := udpOp{Kind: "honest", Client: client, C: pick.C, S: pick.S, Seed: uint32(r.U64()), AKind: k,
					PLen: []int{1, 10, 100}[r.Intn(3)], PSeed: int(r.U64() % 1000000)}
				op.Key = fmt.Sprintf("%d/%d", op.C, op.S)
				cs.Ops = append(cs.Ops, op)
			}
			return cs
		}
	}
	nops := r.Range(3, 12)
	expired := false
	for i := 0; i < nops; i++ {
		if !expired && i > 2 && (r.Chance(4) || (prop == "C14" && r.Chance(25))) {
			cs.Ops = append(cs.Ops, udpOp{Kind: "expire"})
			expired = true
			continue
		}
		if i > 1 && r.Chance(14) {
			// a datagram to some client's NAT socket from a sender the client never addressed:
			// it must reach that client (with the sender's address) and nobody else
			prev := cs.Ops[r.Intn(len(cs.Ops))]
			if prev.Kind == "honest" {
				cs.Ops = append(cs.Ops, udpOp{Kind: "stray", Client: prev.Client, C: prev.C, S: prev.S, Key: prev.Key, StrayV6: r.Chance(40),
					PLen: []int{0, 1, 100, 1400}[r.Intn(4)], PSeed: int(r.U64() % 1000000)})
				continue
			}
		}
		pick := cs.Cfg[r.Intn(len(cs.Cfg))]
		akind := kinds[r.Intn(len(kinds))]
		if r.Chance(45) { // mostly reachable-and-allowed targets, so that associations exist
			for _, k := range []int{4, 4, 11, 14, 15, 0} {
				if (cs.Validate && targetKinds[k].public || !cs.Validate) && (net.ParseIP(targetKinds[k].ip).IsLoopback() || avail[targetKinds[k].ip]) {
					akind = k
					break
				}
			}
		}
		client := []int{0, 1, 2, 3, 4, 5, 0, 2, 4}[r.Intn(9)]
		if n := len(cs.Ops); n > 0 && cs.Ops[n-1].Kind == "honest" && r.Chance(35) {
			// same client again, often to the same destination: the second datagram of a flow
			client = cs.Ops[n-1].Client
			if r.Chance(60) {
				akind = cs.Ops[n-1].AKind
			}
			if r.Chance(70) {
				pick.C, pick.S = cs.Ops[n-1].C, cs.Ops[n-1].S
			}
		}
		op := udpOp{Kind: "honest", Client: client, C: pick.C, S: pick.S, Seed: uint32(r.U64()),
			AKind: akind,
			PLen:  []int{0, 1, 10, 100, 1200, 1400}[r.Intn(6)], PSeed: int(r.U64() % 1000000)}
		if r.Chance(4) {
			op.PLen = []int{9000, 30000}[r.Intn(2)]
		}
		nr := []int{0, 1, 1, 2}[r.Intn(4)]
		for j := 0; j < nr; j++ {
			sz := []int{0, 1, 50, 500, 1400}[r.Intn(5)]
			if r.Chance(6) || (op.Client == 4 && r.Chance(30)) { // around the limit of what fits the relay buffer
				sz = []int{65400, 65469, 65470, 65485, 65507}[r.Intn(5)]
			}
			op.Replies = append(op.Replies, [2]int{sz, int(r.U64() % 1000000)})
		}
		switch c := r.Intn(100); {
		case c < 8:
			op.Kind, op.N, op.Replies = "garbage", []int{0, 1, 15, 16, 31, 32, 33, 48, 49, 200}[r.Intn(10)], nil
		case c < 14:
			op.Kind, op.N, op.Replies = "trunc", r.Intn(saltSizes[op.C]+7+10+16), nil
		case c < 22: // a key that is not configured (also: wrong key on a live association)
			op.S = 90 + r.Intn(4)
		case c < 27: // right secret, other cipher
			op.C = (op.C + 1 + r.Intn(3)) % 4
		case c < 32:
			op.AKind, op.Replies = 9, nil
			if prop == "C18" || r.Chance(40) {
				op.AKind = []int{9, 16, 17, 18, 19, 20}[r.Intn(6)]
				if op.AKind == 17 || op.AKind == 18 || op.AKind == 20 {
					op.PLen = 0 // nothing may complete the truncated address
				}
			}
		}
		if op.AKind == 17 || op.AKind == 18 || op.AKind == 20 {
			op.PLen = 0 // a payload would complete the truncated address into some other destination
		}
		if op.Kind == "honest" && !malformedKind(op.AKind) && targetKinds[op.AKind].atyp != 3 && (r.Chance(4) || ((prop == "C14" || prop == "C04") && r.Chance(12))) {
			op.Port0, op.Replies = true, nil // the send itself fails; the association must still be reclaimed
		}
		op.Key = fmt.Sprintf("%d/%d", op.C, op.S)
		cs.Ops = append(cs.Ops, op)
	}
	return cs
}

func cUDP(ctx *Ctx, prop string) {
	n := 90
	if ctx.Thorough() {
		n = 1000
	}
	cUDPInto(ctx, prop, n, 0)
	if prop == "C03" || prop == "C16" {
		udpMultiListener(ctx, prop)
	}
	if prop == "C16" || prop == "C14" {
		udpDNSFastClose(ctx, prop)
	}
}

// cUDPInto runs n UDP cases and writes their Coq case files starting at the given shard number.
func cUDPInto(ctx *Ctx, prop string, n int, shard int) {
	r := ctx.Rng
	if ctx.Stats.Rule == "" {
		ctx.Stats.Rule = udpRule
	}
	type job struct {
		spec   udpCaseSpec
		obs    []udpOpObs
		tports []int
		fatal  string
		shut   int
	}
	jobs := make([]*job, n)
	for i := range jobs {
		jobs[i] = &job{spec: genUDPCase(r, prop)}
	}
	var wg sync.WaitGroup
	sem := make(chan struct{}, 10)
	for _, j := range jobs {
		wg.Add(1)
		sem <- struct{}{}
		go func(j *job) {
			defer wg.Done()
			defer func() { <-sem }()
			j.obs, j.tports, j.fatal, j.shut = runUDPCase(&j.spec)
		}(j)
	}
	wg.Wait()
	var terms []string
	for ji, j := range jobs {
		if j.fatal != "" || len(j.obs) != len(j.spec.Ops) {
			ctx.Monitor(prop+"/udp-handler-failure", "PacketHandler failed: "+j.fatal, j.spec)
			continue
		}
		var ot, bt []string
		fw, rej := 0, 0
		for i := range j.spec.Ops {
			if j.spec.Ops[i].Skipped {
				ctx.Count("op:stray-skipped")
				continue
			}
			ot = append(ot, udpOpTerm(&j.spec.Ops[i], j.tports))
			bt = append(bt, udpObsTerm(&j.obs[i]))
			ctx.Count("op:" + j.spec.Ops[i].Kind)
			if j.obs[i].Forwarded {
				fw++
				ctx.Count("forwarded")
			} else if j.spec.Ops[i].Kind != "expire" {
				rej++
				ctx.Count("not-forwarded")
			}
			if j.obs[i].Report != nil {
				ctx.Count("report:" + j.obs[i].Report.Status)
			}
		}
		udpMonitors(ctx, prop, &j.spec, j.obs, j.shut, j.tports)
		if fw > 0 && rej > 0 {
			ctx.NonTrivial(fmt.Sprintf("%+v", j.spec))
		}
		terms = append(terms, fmt.Sprintf("{| c_cfg := %s; c_validate := %s; c_ops := %s; c_obs := %s |}",
			cfgTerm(j.spec.Cfg), cBool(j.spec.Validate), cListT("uop", ot), cListT("dobs", bt)))
		ctx.Stats.Cases++
		if ji < 2 {
			ctx.Sample(map[string]interface{}{"spec": j.spec, "forwarded": fw, "rejected": rej})
		}
		if len(terms) >= 6 {
			ctx.WriteCases(shard, "Corr.UDP", "case", terms)
			shard++
			terms = nil
		}
	}
	if len(terms) > 0 {
		ctx.WriteCases(shard, "Corr.UDP", "case", terms)
	}
	if prop == "C16" { // the same runs through the real Prometheus collectors
		var cts []string
		for _, j := range jobs {
			if j.spec.coll != "" && j.fatal == "" {
				cts = append(cts, j.spec.coll)
				ctx.CountN("collector:calls", j.spec.collN)
				ctx.Count("collector:cases")
				for _, d := range j.spec.collDiffs {
					ctx.Monitor("C16/gathered-counter-differs:"+strings.SplitN(d, ":", 2)[0], "Prometheus "+d, j.spec)
				}
			}
		}
		writeCollCases(ctx, shard+5000, cts)
	}
}

// udpMonitors: the properties themselves on the implementation's observables.
// senderAddr: the SOCKS form of a local sender address (IPv4 senders in 7 bytes, IPv6 in 19)
func senderAddr(ip string, port int) []byte {
	p := net.ParseIP(ip)
	if v4 := p.To4(); v4 != nil {
		return append(append([]byte{1}, v4...), byte(port>>8), byte(port))
	}
	return append(append([]byte{4}, p.To16()...), byte(port>>8), byte(port))
}

func udpMonitors(ctx *Ctx, prop string, cs *udpCaseSpec, obs []udpOpObs, shutdownRemoved int, tports []int) {
	inCfg := func(c, s int) (bool, string) {
		for _, k := range cs.Cfg {
			if k.C == c && k.S == s {
				return true, idStr(k.ID)
			}
		}
		return false, ""
	}
	type assoc struct {
		port int
		c, s int
	}
	live := map[int]*assoc{} // client -> association
	usedPorts := map[int]int{}
	adds, removes := 0, 0
	var sumClientWire, sumReportedWire int64
	for i := range cs.Ops {
		op, ob := &cs.Ops[i], &obs[i]
		rep := map[string]interface{}{"case": cs, "op": i, "obs": ob}
		if op.Kind == "expire" {
			removes += ob.Removed
			if ob.Removed != len(live) {
				ctx.Monitor("C14/idle-associations-not-removed", fmt.Sprintf("%d associations idle past the timeout, %d removals reported", len(live), ob.Removed), rep)
			}
			live = map[int]*assoc{}
			continue
		}
		removes += ob.Removed
		if ob.SaltReused {
			ctx.Monitor("C03/reply-salt-reused", "two reply datagrams of one case start with the same salt", rep)
		}
		if op.Kind == "stray" {
			if op.Skipped {
				continue
			}
			if ob.Stray > 0 {
				ctx.Monitor("C04/reply-to-wrong-client", "a datagram sent to one client's NAT socket arrived at another client", rep)
			}
			if a := live[op.Client]; a != nil && a.c == op.C && a.s == op.S {
				if len(ob.Replies) != 1 || ob.Replies[0].Status != "OK" || !bytes.Equal(ob.Replies[0].Body, genBytes(op.PLen, uint32(op.PSeed))) {
					ctx.Monitor("C04/datagram-from-other-sender-not-delivered", fmt.Sprintf("a datagram from another sender to the client's NAT socket was not delivered intact (%d reports)", len(ob.Replies)), rep)
				} else if want := senderAddr(targetKinds[op.StrayK].ip, op.sport); !bytes.Equal(ob.Replies[0].From, want) {
					ctx.Monitor("C03/reply-sender-address", fmt.Sprintf("a datagram from %v was relayed with the sender address %v", want, ob.Replies[0].From), rep)
				}
			}
			ctx.Count("op:stray")
			continue
		}
		if ob.Stale > 0 {
			ctx.Monitor("C03/unexpected-datagram-at-target", "a target received a datagram that no client operation accounts for", rep)
		}
		if ob.Stray > 0 {
			ctx.Monitor("C04/reply-to-wrong-client", "a datagram arrived at a client that is not the owner of the association", rep)
		}
		a := live[op.Client]
		okKey, _ := inCfg(op.C, op.S)
		valid := op.Kind == "honest" && !malformedKind(op.AKind)
		var shouldForward bool
		if a != nil {
			shouldForward = valid && a.c == op.C && a.s == op.S
		} else {
			shouldForward = valid && okKey
		}
		if cs.Validate && !targetKinds[op.AKind].public {
			shouldForward = false
		}
		sendFails := shouldForward && op.Port0
		if op.Port0 {
			shouldForward = false
		}
		if ob.Forwarded && !shouldForward {
			sig := "C03/unauthenticated-or-invalid-datagram-forwarded"
			if cs.Validate && valid && !targetKinds[op.AKind].public {
				sig = "C05/datagram-to-non-public-destination:" + targetKinds[op.AKind].name
			}
			ctx.Monitor(sig, fmt.Sprintf("op %d (%s) was forwarded to a target", i, op.Kind), rep)
		}
		if !ob.Forwarded && shouldForward {
			ctx.Monitor("C03/valid-datagram-dropped", fmt.Sprintf("op %d: a datagram valid under the %s key with an allowed destination was not forwarded", i, map[bool]string{true: "association's", false: "configured"}[a != nil]), rep)
		}
		if ob.Forwarded {
			if !bytes.Equal(ob.Payload, genBytes(op.PLen, uint32(op.PSeed))) {
				ctx.Monitor("C03/payload-not-intact", "the target received a payload that differs from what the client sent", rep)
			}
			if a == nil {
				if other, clash := usedPorts[ob.SrcPort]; clash && other != op.Client {
					if _, alive := live[other]; alive {
						ctx.Monitor("C04/shared-source-socket", fmt.Sprintf("clients %d and %d leave from the same source port", other, op.Client), rep)
					}
				}
				live[op.Client] = &assoc{ob.SrcPort, op.C, op.S}
				usedPorts[ob.SrcPort] = op.Client
				if ob.NewKey == nil {
					ctx.Monitor("C16/association-not-reported", "a new association was created without AddUDPNatEntry", rep)
				} else {
					adds++
					if ok, _ := inCfg(op.C, op.S); ok {
						match := false
						for _, k := range cs.Cfg {
							if k.C == op.C && k.S == op.S && idStr(k.ID) == *ob.NewKey {
								match = true
							}
						}
						if !match {
							ctx.Monitor("C16/association-wrong-key", "AddUDPNatEntry names a key other than the one that authenticated", rep)
						}
					}
				}
			} else {
				if a.port == -1 {
					a.port = ob.SrcPort // its first datagram never left: the socket shows now
					usedPorts[ob.SrcPort] = op.Client
				}
				if a.port != ob.SrcPort {
					ctx.Monitor("C04/source-socket-changed", "datagrams of one live association left from different source ports", rep)
				}
				if ob.NewKey != nil {
					ctx.Monitor("C16/association-reported-twice", "AddUDPNatEntry on an existing association", rep)
				}
			}
			for ri, rp := range ob.Replies {
				if ri >= len(op.Replies) {
					ctx.Monitor("C03/unexpected-reply", fmt.Sprintf("%d replies were reported for a datagram whose target sent %d", len(ob.Replies), len(op.Replies)), rep)
					break
				}
				want := genBytes(op.Replies[ri][0], uint32(op.Replies[ri][1]))
				if rp.Status == "OK" && len(rp.Body) < len(want) && bytes.Equal(rp.Body, want[:len(rp.Body)]) {
					ctx.Monitor("C03/reply-truncated", fmt.Sprintf("the client received %d of the %d bytes the target sent, reported OK", len(rp.Body), len(want)), rep)
				} else if rp.Status == "OK" && !bytes.Equal(rp.Body, want) {
					ctx.Monitor("C03/reply-not-intact", "the reply the client decrypted differs from what the target sent", rep)
				}
				wantLen := 7
				if net.ParseIP(targetKinds[op.AKind].ip).To4() == nil {
					wantLen = 19
				}
				if rp.Status != "OK" {
					if rp.CB != 0 {
						ctx.Monitor("C16/client-bytes-on-undelivered-reply", fmt.Sprintf("a reply that was not delivered (%s) is reported with %d bytes sent to the client", rp.Status, rp.CB), rep)
					}
					if len(want) <= 65469-19 { // certainly fits every cipher and address form
						ctx.Monitor("C03/reply-dropped", fmt.Sprintf("a %d-byte reply was dropped with %s", len(want), rp.Status), rep)
						ctx.Monitor("C04/datagram-for-the-association-not-delivered", fmt.Sprintf("a %d-byte datagram that arrived at the association's source address from %s was not delivered to its client (%s)", len(want), targetKinds[op.AKind].name, rp.Status), rep)
					}
					continue
				}
				if len(rp.From) != wantLen {
					ctx.Monitor("C03/reply-sender-address", fmt.Sprintf("reply carries a %d-byte sender address, expected %d", len(rp.From), wantLen), rep)
				} else if want := senderAddr(targetKinds[op.AKind].ip, tports[op.AKind]); !bytes.Equal(rp.From, want) {
					ctx.Monitor("C03/reply-sender-address", fmt.Sprintf("reply carries the sender address %v, the true sender is %v", rp.From, want), rep)
				}
				if rp.TB != int64(len(want)) {
					ctx.Monitor("C16/target-bytes", fmt.Sprintf("AddPacketFromTarget reports %d payload bytes, target sent %d", rp.TB, len(want)), rep)
				}
			}
			if len(ob.Replies) != len(op.Replies) {
				ctx.Monitor("C03/reply-lost", fmt.Sprintf("%d of %d replies were reported", len(ob.Replies), len(op.Replies)), rep)
				ctx.Monitor("C04/datagram-for-the-association-not-delivered", fmt.Sprintf("%d of the %d datagrams the target sent to the association's source address reached the client", len(ob.Replies), len(op.Replies)), rep)
			}
			if ob.Unreported > 0 {
				ctx.Monitor("C16/reply-without-ok-report", "a datagram reached the client without an OK AddPacketFromTarget report", rep)
			}
		} else if ob.NewKey != nil && sendFails {
			// the send failed at the socket: the association exists and must be reclaimed like any other
			live[op.Client] = &assoc{-1, op.C, op.S}
			adds++
			ctx.Count("association-with-failed-first-send")
			if ob.Report == nil || ob.Report.Status != "ERR_WRITE" || ob.Report.B != 0 {
				ctx.Monitor("C16/failed-send-report", fmt.Sprintf("a datagram whose send the kernel refuses must be reported ERR_WRITE with 0 payload bytes, got %+v", ob.Report), rep)
			}
		} else if ob.NewKey != nil {
			ctx.Monitor("C04/association-without-forward", "an association was created by a datagram that was not forwarded", rep)
		}
		onAssoc := a != nil || ob.Forwarded || sendFails
		if onAssoc != (ob.Report != nil) {
			ctx.Monitor("C16/client-report-count", fmt.Sprintf("datagram on an association=%v, AddPacketFromClient called=%v", onAssoc, ob.Report != nil), rep)
		}
		if ob.Report != nil {
			if (ob.Report.Status == "OK") != ob.Forwarded {
				ctx.Monitor("C16/status-vs-outcome", fmt.Sprintf("status %s but forwarded=%v", ob.Report.Status, ob.Forwarded), rep)
			}
			// a datagram refused for its destination: the status names the reason — a destination that
			// is not a global unicast address is invalid, one inside a private range is private
			if cs.Validate && valid && a != nil && a.c == op.C && a.s == op.S && !targetKinds[op.AKind].public && !op.Port0 {
				if ip := net.ParseIP(targetKinds[op.AKind].ip); ip != nil {
					want := "ERR_ADDRESS_PRIVATE"
					if !ip.IsGlobalUnicast() {
						want = "ERR_ADDRESS_INVALID"
					}
					if ob.Report.Status != want {
						ctx.Monitor("C16/status-does-not-name-the-refusal:"+targetKinds[op.AKind].name, fmt.Sprintf("a datagram to %s was refused with %s, the reason is %s", targetKinds[op.AKind].ip, ob.Report.Status, want), rep)
					}
				}
			}
			if !ob.Forwarded && ob.Report.B != 0 {
				ctx.Monitor("C16/payload-bytes-on-dropped-datagram", fmt.Sprintf("datagram was not forwarded (status %s) but %d proxy-to-target bytes are reported", ob.Report.Status, ob.Report.B), rep)
			}
			if ob.Forwarded && ob.Report.B != int64(len(ob.Payload)) {
				ctx.Monitor("C16/payload-bytes", fmt.Sprintf("reported %d payload bytes, target received %d", ob.Report.B, len(ob.Payload)), rep)
			}
			sumReportedWire += ob.Report.A
			sumClientWire += int64(udpWireLen(op))
		}
	}
	if shutdownRemoved != len(live) {
		ctx.Monitor("C14/shutdown-does-not-expire-all", fmt.Sprintf("%d associations alive when the listener was closed, %d removals followed", len(live), shutdownRemoved), cs)
	}
	ctx.CountN("shutdown:associations-expired", shutdownRemoved)
	if sumReportedWire != sumClientWire {
		ctx.Monitor("C16/wire-bytes-sum", fmt.Sprintf("client datagrams on associations: %d bytes on the wire, %d reported", sumClientWire, sumReportedWire), cs)
	}
	if removes > adds {
		ctx.Monitor("C16/more-removes-than-adds", fmt.Sprintf("%d adds, %d removes", adds, removes), cs)
	}
}

func udpWireLen(op *udpOp) int {
	switch op.Kind {
	case "garbage", "trunc":
		return op.N
	}
	return saltSizes[op.C] + len(socksAddrBytes(op.AKind, 1)) + op.PLen + 16
}
