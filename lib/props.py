"""Per-property configuration of ./check (what is trusted / assumed / which Gen facts matter)."""

AEAD = "ideal (symbolic) AEAD: only honest ciphertexts open, under exactly their key/salt/nonce (DESIGN §3)"

PROPS = {
    "C07": {
        "gen_keys": ["MaxCapacity", "replay"],
        "trusted_base": ["Go map of uint32 modelled as duplicate-free list; sync.Mutex makes Add/Resize atomic"],
        "assumptions": ["ReplayCache.Add/Resize bodies are atomic (they run under c.mutex; see C19 for the unguarded capacity read)",
                        "handshake = (key id, salt); the cache sees only pre_hash(id, salt)"],
        "explanation": "theorems over all Add/Resize histories and all interleavings of atomic Adds; correspondence: real ReplayCache on generated histories, output by output",
    },
}
