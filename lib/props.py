"""Per-property configuration of ./check (what is trusted / assumed / which Gen facts matter)."""

AEAD = "ideal (symbolic) AEAD: only honest ciphertexts open, under exactly their key/salt/nonce (DESIGN §3)"

PROPS = {
    "C01": {
        "gen_keys": ["bytesForKeyFinding", "sdk cipher"],
        "trusted_base": [AEAD, "container/list MoveToFront semantics incl. its e.list guard (modelled by generation numbers)",
                         "SDK shadowsocks.Unpack succeeds exactly when the symbolic unpack does (tested by the correspondence through the real authenticator)"],
        "assumptions": ["client salts are ordinary bytes; an honest client sends a complete first chunk (>= 50 bytes) before waiting"],
        "explanation": "soundness, completeness, invalid-input, no-panic and any-interleaving theorems over all key lists, IPs, histories and opening byte strings (ideal AEAD); correspondence: real NewShadowsocksStreamAuthenticator on generated histories, comparing status, attributed ID and list order after every operation",
    },
    "C08": {
        "gen_keys": ["minSaltEntropy", "serverSaltMarkLen", "sdk cipher"],
        "corr_module": "C01",
        "trusted_base": [AEAD, "HMAC-SHA1 mark idealised as an unforgeable token of (secret, prefix); crypto/rand never repeats a prefix"],
        "assumptions": ["pairwise freshness of salts reduces to the RNG not repeating (server_salt_injective); not proved as a probability"],
        "explanation": "round-trip, injectivity, marked-iff-salt>=20 (recomputed from Gen) and reflected-refused-even-with-cache-off theorems; correspondence: real authenticator with real server-issued salts reflected under the same / other keys, truncated or padded; 4 x 200 real response streams checked for distinct, recognised salts",
    },
    "C05": {
        "gen_keys": ["private_net", "RequirePublicIP", "CIDR"],
        "trusted_base": ["Go stdlib net.IP predicates (IsGlobalUnicast etc.), ParseIP, IPNet.Contains are modelled in IPClass.v and validated on every block boundary by the correspondence",
                         "net.Dialer invokes Control with the literal connect address before every connect attempt (stdlib, modelled)"],
        "assumptions": ["default policy = onet.RequirePublicIP as wired in NewPacketHandler / defaultDialer"],
        "explanation": "exact characterisation theorem over all 2^32+2^128 addresses (both directions) against the CIDR list and guard structure regenerated from net/private_net.go; correspondence: real RequirePublicIP/IsPrivateAddress/net.IP predicates on all block boundaries in 4-byte, mapped and native form + random",
    },
    "C19": {
        "gen_keys": ["sites"],
        "corr": False,
        "race_binary": True,
        "trusted_base": ["translator G3 (extractor/sites.go, go/types via golang.org/x/tools/go/packages v0.29.0): field identity, the locks syntactically held at each access (intra-procedural; unexported helpers inherit the intersection of their call sites' locks), classification of read vs write",
                         "the hand-written discipline table (theories/Lockset.v discipline_table) incl. the Confined / WriteOnceBeforeSpawn entries, whose soundness argument (goroutine confinement; publication by goroutine creation) is not part of the LTS theorem",
                         "Go memory model: mutex acquire/release and goroutine creation are synchronisation edges"],
        "assumptions": ["races inside dependencies (SDK, prometheus client, stdlib) are out of scope", "sync.Once, channels and atomic values are synchronisation primitives, not data"],
        "explanation": "generic theorem: lockset discipline (reads under the guard, writes under the exclusive guard, RW mutex) => no reachable state has a race, for any number of threads and schedules; critical sections atomic; instance obligation recomputed over every access site of 25 shared fields; PARTIAL: Confined and WriteOnceBeforeSpawn disciplines are checked syntactically only; race-detector runs of five component scenarios as search",
    },
    "C20": {
        "gen_keys": ["labels", "ipinfo"],
        "trusted_base": ["net.SplitHostPort / net.ParseIP decide the parse class of an address string (stdlib; the harness supplies strings of known class)",
                         "the translator's classification of label-value expressions by syntactic form (extractor/labels.go rules)"],
        "assumptions": ["label values flow only through WithLabelValues / addIfNonZero / CurryWith call sites of prometheus/metrics.go and cmd/outline-ss-server/metrics.go"],
        "explanation": "label table + exhaustiveness + db-consultation theorems over all addresses and database behaviours; label schema closed (computed over Gen.Labels regenerated from source); noninterference theorem for tunnel time under injective location-preserving IP renaming; correspondence: GetIPInfoFromAddr/FromIP with a recording DB, and exposition scan for address material",
    },
    "C13": {
        "gen_keys": ["lockprog"],
        "corr": False,
        "finding_files": [{"file": "Findings/C13.vo", "signature": "C13/lock-order-inversion:shared-listener.mu->listenerManager.mu",
                           "what": "last Close of a handle takes listenerManager.mu while holding the shared listener's mu; ListenStream/ListenPacket take them in the opposite order (model-level deadlock witness coq/Findings/C13.v)"}],
        "trusted_base": ["translator G2 (extractor/lockprog.go): control-flow paths, defer placement, the closure binding table (checked against the assignments in the source) and the list of lock-free callees (theories/LockOrder.v lock_free_callees, compared with the callees the translator sees)",
                         "sync.Mutex semantics: Lock blocks while held, Unlock always enabled"],
        "assumptions": ["goroutines block only on these mutexes while inside the listener-management calls (channel operations inside the critical sections: close(), non-blocking)",
                        "one instance per lock class per path (loops are lock-balanced; the translator checks bodies once)"],
        "explanation": "generic theorems: rank discipline => progress, invariance, every call returns within the program size, for any number of threads and any schedule; instance obligation recomputed over the lock paths regenerated from listeners.go/main.go; PARTIAL on the unchanged tree: one known inversion tolerated by exact edge, refuted in Findings/C13.v; dynamic stress in a child process with goroutine-dump classification as search",
    },
    "C17": {
        "gen_keys": ["\0"],
        "trusted_base": ["prometheus/client_golang CounterVec.Add sums float64 exactly for whole seconds; Go map iteration order is irrelevant (model uses an association list)",
                         "the collectors' mutex makes startConnection/stopConnection/Collect atomic (C19)"],
        "assumptions": ["clock is monotone; every close of a tunnel follows its open (the callers tcpConnMetrics/udpConnMetrics are modelled in TunnelTime.lower)",
                        "time in whole seconds in the correspondence (float sums exact); the theorems are over integer ns"],
        "explanation": "invariant theorem over all start/stop/tick/collect histories: reported + running period = true open time per (ip,key); exactness after every scrape; label-class totals are sums of pair values; correspondence: real prometheus collectors with stubbed clock, gathered counters after every scrape",
    },
    "C07": {
        "gen_keys": ["MaxCapacity", "replay"],
        "trusted_base": ["Go map of uint32 modelled as duplicate-free list; sync.Mutex makes Add/Resize atomic"],
        "assumptions": ["ReplayCache.Add/Resize bodies are atomic (they run under c.mutex; see C19 for the unguarded capacity read)",
                        "handshake = (key id, salt); the cache sees only pre_hash(id, salt)"],
        "explanation": "theorems over all Add/Resize histories and all interleavings of atomic Adds; correspondence: real ReplayCache on generated histories, output by output",
    },
}
