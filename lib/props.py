"""Per-property configuration of ./check (what is trusted / assumed / which Gen facts matter)."""

AEAD = "ideal (symbolic) AEAD: only honest ciphertexts open, under exactly their key/salt/nonce (DESIGN §3)"

PROPS = {
    "C05": {
        "gen_keys": ["private_net", "RequirePublicIP", "CIDR"],
        "trusted_base": ["Go stdlib net.IP predicates (IsGlobalUnicast etc.), ParseIP, IPNet.Contains are modelled in IPClass.v and validated on every block boundary by the correspondence",
                         "net.Dialer invokes Control with the literal connect address before every connect attempt (stdlib, modelled)"],
        "assumptions": ["default policy = onet.RequirePublicIP as wired in NewPacketHandler / defaultDialer"],
        "explanation": "exact characterisation theorem over all 2^32+2^128 addresses (both directions) against the CIDR list and guard structure regenerated from net/private_net.go; correspondence: real RequirePublicIP/IsPrivateAddress/net.IP predicates on all block boundaries in 4-byte, mapped and native form + random",
    },
    "C07": {
        "gen_keys": ["MaxCapacity", "replay"],
        "trusted_base": ["Go map of uint32 modelled as duplicate-free list; sync.Mutex makes Add/Resize atomic"],
        "assumptions": ["ReplayCache.Add/Resize bodies are atomic (they run under c.mutex; see C19 for the unguarded capacity read)",
                        "handshake = (key id, salt); the cache sees only pre_hash(id, salt)"],
        "explanation": "theorems over all Add/Resize histories and all interleavings of atomic Adds; correspondence: real ReplayCache on generated histories, output by output",
    },
}
