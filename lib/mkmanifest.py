#!/usr/bin/env python3
"""Regenerate /verif/MANIFEST.json from lib/props.py (single source of truth)."""
import json, os, sys
sys.path.insert(0, os.path.dirname(os.path.abspath(__file__)))
from props import PROPS
V = os.path.dirname(os.path.dirname(os.path.abspath(__file__)))
ALL = ["C%02d" % i for i in range(1, 21)]
checks = []
for pid in ALL:
    if pid not in PROPS:
        continue
    c = PROPS[pid]
    checks.append({
        "property_id": pid,
        "quick_cmd": "./check %s --tier quick" % pid,
        "thorough_cmd": "./check %s --tier thorough" % pid,
        "evidence_file": "/verif/evidence/%s.json" % pid,
        "replay_cmd_template": "./check %s --replay {path}" % pid,
        "engine": "coq-proof+correspondence",
        "level_claimed": {"category": "proof", "text": c.get("level_text", c.get("explanation", "")), "design_ref": c.get("design_ref", "DESIGN.md §6 " + pid)},
        "level_note": "; ".join(c.get("assumptions", []) + c.get("trusted_base", [])),
        "technique": c.get("technique", "Coq 8.16 theorems over an executable Gallina model + translator (Gen) + differential correspondence against the Go implementation"),
    })
na = [{"property_id": p, "reason": "check not built yet in this session (planned, see DESIGN.md §6)"} for p in ALL if p not in PROPS]
m = {
    "version": 1,
    "setup_cmd": "./setup.sh",
    "hooks": {
        "guard": "verif",
        "enable": "go build -tags verif (harness module /verif/harness with replace => /repo; package-main driver via go test -tags verif)",
        "baseline_off_cmd": "cd /repo && GOFLAGS=-mod=mod GOPROXY=off GOSUMDB=off GOTOOLCHAIN=local go test -json -vet=off -count=1 -timeout 25m ./...",
        "source_commits": json.load(open(os.path.join(V, "lib", "hook_commits.json"))) if os.path.exists(os.path.join(V, "lib", "hook_commits.json")) else [],
        "add_only": True,
    },
    "engines": [{"name": "coq-proof+correspondence", "path": "/verif/check", "serves_properties": [c["property_id"] for c in checks],
                 "kind_free_text": "Coq 8.16.1 development (coq/theories, coq/Properties) re-checked against Gen/*.v regenerated from /repo by /verif/extractor; Go harness runs the implementation, Coq evaluates the model on the same cases (vm_compute)"}],
    "checks": checks,
    "not_applicable": na,
    "notes": "All checks share one Coq build (setup_cmd); each check rebuilds Gen from /repo's working tree, re-makes its theorems, rebuilds the harness against /repo and re-runs the correspondence.",
}
json.dump(m, open(os.path.join(V, "MANIFEST.json"), "w"), indent=1)
print("MANIFEST: %d checks, %d not_applicable" % (len(checks), len(na)))
