#!/bin/sh
# tools/confirm_mutant.sh <name> <outdir-with-patch.diff-and-demo_test.go> <pkgdir-for-demo> <Cxx> [<Cyy>...]
# 1. confirms the sub-agent's claims in a fresh scratch worktree (build, existing tests pass with
#    the change, demo fails with it and passes without it); 2. runs the given checks on /repo with
#    the patch applied (tools/try_mutant.sh); prints a summary; removes the scratch worktree.
set -u
name="$1"; out="$2"; pkg="$3"; shift 3
export GOFLAGS=-mod=mod GOPROXY=off GOSUMDB=off GOTOOLCHAIN=local
wt=/tmp/confirm-$name
git -C /repo worktree remove --force "$wt" >/dev/null 2>&1
git -C /repo worktree add -q --detach "$wt" HEAD || exit 2
cd "$wt"
cp "$out/demo_test.go" "$pkg/zz_demo_test.go"
demo_clean=$(go test -vet=off -count=1 "./$pkg/" 2>&1 | tail -1)
if ! git apply "$out/patch.diff"; then echo "PATCH DOES NOT APPLY to current HEAD"; fi
build=$(go build ./... 2>&1 | tail -2)
demo_mut=$(go test -vet=off -count=1 "./$pkg/" 2>&1 | grep -E "^(--- FAIL|FAIL|ok|panic)" | head -4 | tr '\n' ' ')
rm -f "$pkg/zz_demo_test.go"
suite=$(go test -vet=off -count=1 ./service/... ./net/... ./prometheus/... ./cmd/... ./internal/... 2>&1 | grep -E "^(--- FAIL|FAIL|ok)" | tr '\n' ' ')
cd /verif
git -C /repo worktree remove --force "$wt"
echo "[$name] demo on clean tree : $demo_clean"
echo "[$name] build with patch   : ${build:-ok}"
echo "[$name] demo with patch    : $demo_mut"
echo "[$name] suite with patch   : $suite"
[ -n "${SKIP_TRY:-}" ] || /verif/tools/try_mutant.sh "$out/patch.diff" "$@"
