#!/usr/bin/env python3
"""tools/keep_mutant.py <seeded-id> <outdir> <property> <needs> <caught-by-json> — store a confirmed mutant under /verif/seeded/<id>/"""
import sys, os, shutil, json
sid, out, prop, needs, caught = sys.argv[1:6]
d = os.path.join("/verif/seeded", sid)
os.makedirs(d, exist_ok=True)
for f in ("patch.diff", "demo_test.go", "NOTES.md"):
    if os.path.exists(os.path.join(out, f)):
        shutil.copy(os.path.join(out, f), os.path.join(d, f))
meta = {"id": sid, "breaks_property": prop, "needs_to_manifest": needs,
        "confirmed": "tools/confirm_mutant.sh: builds, existing suite passes with the change, demo fails with it and passes on the clean tree (scratch worktree /tmp/confirm-*, removed afterwards)",
        "checks_run": json.loads(caught),
        "origin": "written by an independent sub-agent given only the property text and a scratch worktree"}
json.dump(meta, open(os.path.join(d, "meta.json"), "w"), indent=1)
print("kept", d)
