#!/bin/sh
# tools/all_mutants.sh [outfile] — regression of the checks against every seeded change:
# each seeded/<id>/patch.diff is applied to /repo, the check of the property it breaks is run,
# /repo is restored. One line per seeded change: CAUGHT(inputs) / CAUGHT(no-failing-input-found) / MISSED.
cd /verif
out=${1:-/verif/.cache/all_mutants.log}
: > "$out"
for d in seeded/*/; do
  id=$(basename "$d")
  [ -f "$d/patch.diff" ] || continue
  prop=$(python3 -c "import json,sys; print(json.load(open('$d/meta.json')).get('breaks_property','?'))" 2>/dev/null)
  if ! git -C /repo apply --check "$PWD/$d/patch.diff" 2>/dev/null; then echo "$id $prop DOES-NOT-APPLY" >> "$out"; continue; fi
  res=$(tools/try_mutant.sh "$PWD/$d/patch.diff" "$prop" 2>&1)
  if echo "$res" | grep -q "VIOLATION" ; then
    if echo "$res" | grep "VIOLATION" | grep -vq "no-failing-input-found"; then echo "$id $prop CAUGHT(inputs)" >> "$out"; else echo "$id $prop CAUGHT(no-failing-input-found)" >> "$out"; fi
  else
    echo "$id $prop MISSED: $(echo "$res" | tail -1)" >> "$out"
  fi
done
echo done >> "$out"
