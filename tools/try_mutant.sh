#!/bin/sh
# tools/try_mutant.sh <patch-file> <Cxx> [<Cyy> ...]
# Applies a patch to /repo, runs the given checks, undoes the patch, and restores the
# evidence files and Gen/ of the unchanged tree (evidence must come from clean runs).
set -u
patch="$1"; shift
cd /verif
if ! git -C /repo diff --quiet; then echo "/repo has local changes; refusing"; exit 2; fi
tmp=$(mktemp -d /tmp/evid.XXXXXX)
cp -r evidence "$tmp/" 2>/dev/null
git -C /repo apply "$patch" || { echo "patch does not apply"; rm -rf "$tmp"; exit 2; }
for p in "$@"; do
  echo "== $p on mutant $(basename $(dirname $patch))/$(basename $patch)"
  ./check "$p" 2>/dev/null | grep -E "VIOLATION|KNOWN-FINDING|ok:|VIOLATED" 
done
git -C /repo checkout -- . 
git -C /repo clean -fdq -- . 2>/dev/null
rm -rf evidence; cp -r "$tmp/evidence" evidence; rm -rf "$tmp"
./.cache/extractor -repo /repo -out coq/Gen >/dev/null 2>&1
