#!/bin/sh
# tools/dbg_udp.sh <Cxx>: show the first op where the UDP model and the observation disagree
cd /verif/coq/run/$1 || exit 1
python3 - "$1" <<'PY'
import json,glob,os,sys
prop=sys.argv[1]
d=json.load(open(sorted(glob.glob('/verif/replays/%s-*.json'%prop),key=os.path.getmtime)[-1]))
ms=[m for m in d['mismatches']]
m=ms[0]; print(m)
src=open(m['file']).read().replace('Definition M := Eval vm_compute in mismatches cases.\nPrint M.','')
src+='''
Definition c := nth %d cases {| c_cfg := []; c_validate := false; c_ops := []; c_obs := [] |}.
Definition pairs := combine (combine (c_ops c) (model_obs c)) (c_obs c).
Eval vm_compute in (c_validate c, firstn 2 (filter (fun x => negb (dobs_eqb (snd (fst x)) (snd x))) pairs)).
''' % m['indices'][0]
open('dbg.v','w').write(src)
PY
coqc -R /verif/coq OSS dbg.v 2>&1 | tr -s ' \n' ' ' | sed 's/|}/|}\n/g' | head -${2:-12}
